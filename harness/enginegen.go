package main

// Scenario generators for the engine family. VERIF_PROP selects the scenario classes; every scenario is a
// (program, op list) pair executed by the real engine (engine.go) and by the extracted model.

import (
	"fmt"
	"math/rand"
	"os"
	"strings"
)

type prog struct {
	items string
	units []string // background units of one instance, launch order
	sched []string // scheduler units (exist once the schedule was started)
	name  string
}

func mkProg(name, items string) prog {
	c := parseCfg(strings.Fields(items))
	p := prog{items: items, name: name}
	p.units = append(p.units, "o")
	for _, s := range c.steps {
		n := s.par
		if n == 0 {
			n = int(c.opt["dpar"])
		}
		if n < 2 {
			p.units = append(p.units, fmt.Sprintf("s%d.1.1", s.status))
		} else {
			for i := 1; i <= n; i++ {
				p.units = append(p.units, fmt.Sprintf("s%d.%d.%d", s.status, i, n))
			}
		}
	}
	seen := map[int]bool{}
	for _, t := range c.tos {
		if !seen[t.status] {
			seen[t.status] = true
			p.units = append(p.units, fmt.Sprintf("i%d", t.status), fmt.Sprintf("p%d", t.status))
		}
	}
	for _, h := range c.hookOr {
		p.units = append(p.units, fmt.Sprintf("h%d", h))
	}
	for _, k := range c.conns {
		n := k.par
		if n == 0 {
			n = int(c.opt["dpar"])
		}
		if n < 2 {
			p.units = append(p.units, fmt.Sprintf("k%d.1.1", k.cid))
		} else {
			for i := 1; i <= n; i++ {
				p.units = append(p.units, fmt.Sprintf("k%d.%d.%d", k.cid, i, n))
			}
		}
	}
	for _, z := range c.scheds {
		p.sched = append(p.sched, fmt.Sprintf("c%d", z.fid))
	}
	p.units = append(p.units, "d")
	if c.opt["retry"] >= 0 {
		p.units = append(p.units, "r")
	}
	return p
}

func (p prog) insts() int { return int(parseCfg(strings.Fields(p.items)).opt["inst"]) }

// one round: every process of every instance is stepped once
func (p prog) round() []string {
	var ops []string
	for i := 1; i <= p.insts(); i++ {
		for _, u := range p.units {
			ops = append(ops, fmt.Sprintf("st:%d/%s", i, u))
		}
	}
	return ops
}

func (p prog) rounds(n int) []string {
	var ops []string
	for i := 0; i < n; i++ {
		ops = append(ops, p.round()...)
	}
	return ops
}

func scenario(p prog, ops []string) string { return "eng " + p.items + " -- " + strings.Join(ops, " ") }

var programs = []prog{
	mkProg("linear", "S:1:R,1,2:2:0:0:0 S:2:R,1,3:3:0:0:0"),
	mkProg("branch", "S:1:B,R,1,2,R,1,3:2,3:0:0:0 S:2:R,1,4:4:0:0:0 S:3:R,1,4:4:0:0:0"),
	mkProg("callback", "S:1:R,1,2:2:0:0:0 C:2:R,1,3:3 S:3:R,1,4:4:0:0:0"),
	mkProg("timeout", "S:1:R,1,2:2:0:0:0 T:2:100:R,1,3:3:0 S:3:R,1,4:4:0:0:0"),
	mkProg("two-timeouts", "S:1:R,1,2:2:0:0:0 T:2:100:R,1,3:3:0 T:2:250:R,1,4:4:0 S:3:R,1,4:4:0:0:0"),
	// a timer function that fails (duration -2: error 15 together with the zero time): the inserter's event is not acknowledged
	mkProg("timer-fails", "S:1:R,1,2:2:0:0:0 T:2:-2:R,1,3:3:0 S:3:R,1,4:4:0:0:0"),
	mkProg("timer-fails-second", "S:1:R,1,2:2:0:0:0 T:2:100:R,1,3:3:0 T:2:-2:R,1,4:4:0 S:3:R,1,4:4:0:0:0"),
	mkProg("hooks", "S:1:R,1,2:2:0:0:0 S:2:R,1,3:3:0:0:0 H:3:0 H:4:0 H:5:1 D:0"),
	mkProg("hooks-cancelled-call", "S:1:R,1,2:2:0:0:0 S:2:R,1,3:3:0:0:0 H:3:1001 H:4:1001 H:5:1002 D:0"),
	mkProg("flaky", "S:1:F,2,11,R,1,2:2:0:0:0 S:2:F,1,12,R,1,3:3:0:0:0 O:bo=0"),
	mkProg("twoinst", "S:1:R,1,2:2:0:0:0 S:2:R,1,3:3:0:0:0 O:inst=2"),
	mkProg("sharded", "S:1:R,1,2:2:2:0:0 S:2:R,1,3:3:0:0:0 H:5:0"),
	mkProg("limit1", "S:1:R,1,2:2:0:0:0 S:2:R,1,3:3:0:0:0 O:lim=1"),
	mkProg("backoff", "S:1:F,1,11,R,1,2:2:0:0:0 S:2:R,1,3:3:0:0:0 O:bo=50"),
	mkProg("backoff-adapter-timeouts", "S:1:R,1,2:2:0:0:0 S:2:R,1,3:3:0:0:0 H:5:0 O:bo=50,dl=1"),
	// an injected Lookup failure of the hook / delete / paused-retry consumers is a transient MISS (ErrRecordNotFound from a
	// replica that does not have the run yet): like any lookup error it must be retried, never acknowledged
	mkProg("hooks-lookup-miss", "S:1:R,1,2:2:0:0:0 S:2:R,1,3:3:0:0:0 H:5:0 D:0 O:nf=1"),
	// a step function whose error wraps context.Canceled (code 99) while the role is held: an ordinary failure, back-off applies
	mkProg("step-error-wraps-cancel", "S:1:F,2,99,R,1,2:2:0:0:0 S:2:R,1,3:3:0:0:0 O:bo=50"),
	// the delete consumer with a custom delete function that fails twice before it succeeds: the request is handled again
	mkProg("delete-fails-twice", "S:1:R,1,2:2:0:0:0 S:2:R,1,3:3:0:0:0 H:5:0 D:4"),
	mkProg("lagged", "S:1:R,1,2:2:0:0:30 S:2:R,1,3:3:0:0:0 H:5:0"),
	mkProg("lagged2", "S:1:R,1,2:2:0:0:30 S:2:R,1,3:3:0:0:40 O:inst=2"),
	// connectors (connector.go): one consumer failing its first invocation per event; two shards + a second connector with three
	mkProg("connector", "S:1:R,1,2:2:0:0:0 S:2:R,1,3:3:0:0:0 K:1:1:0"),
	mkProg("connector-sharded", "S:1:R,1,2:2:0:0:0 K:1:1:2 K:2:0:3"),
}

// connector events for the connectors of a program: IDs chosen so that the hashed event IDs fall into different shards
func connEvents(pr prog, n int) []string {
	var ops []string
	c := parseCfg(strings.Fields(pr.items))
	for _, k := range c.conns {
		for i := 0; i < n; i++ {
			ops = append(ops, fmt.Sprintf("cs:%d:%s:%d", k.cid, hx(fmt.Sprintf("ext-%d-%d", k.cid, i)), 1+i%3))
		}
	}
	return ops
}

var ctlPrograms = []prog{
	mkProg("ctl-linear", "S:1:R,1,2:2:0:0:0 C:2:R,1,3:3 S:3:R,1,4:4:0:0:0 H:3:0 H:4:0 H:5:0 D:1 O:retry=100"),
	mkProg("ctl-hooks-cancelled-call", "S:1:R,1,2:2:0:0:0 C:2:R,1,3:3 S:3:R,1,4:4:0:0:0 H:3:1001 H:4:1002 H:5:1001 D:1 O:retry=100"),
	mkProg("ctl-timeout", "S:1:R,1,2:2:0:0:0 T:2:100:R,1,3:3:0 C:2:R,1,3:3 D:0"),
	mkProg("ctl-two-callbacks", "S:1:R,1,2:2:0:0:0 C:2:B,P,1,X,1:3 C:2:R,1,3:3 S:3:R,1,4:4:0:0:0 H:3:0 H:4:0 D:0"),
	// hooks under a workflow default ParallelCount: steps (and connectors) are sharded by it, HOOK consumers are not — one process
	// per registered hook, which sees every run-state-change event
	mkProg("ctl-hooks-default-count", "S:1:R,1,2:2:0:0:0 C:2:R,1,3:3 S:3:R,1,4:4:0:0:0 H:3:0 H:4:0 H:5:1 D:1 O:retry=100,dpar=2"),
	mkProg("ctl-hooks-default-count-3", "S:1:R,1,2:2:0:0:0 C:2:R,1,3:3 S:3:R,1,4:4:0:0:0 H:3:0 H:4:0 H:5:0 D:1 O:retry=100,dpar=3"),
	mkProg("ctl-hooks-lookup-miss", "S:1:R,1,2:2:0:0:0 C:2:R,1,3:3 S:3:R,1,4:4:0:0:0 H:3:0 H:4:0 H:5:0 D:1 O:retry=100,nf=1"),
	mkProg("ctl-delete-fails-twice", "S:1:R,1,2:2:0:0:0 C:2:R,1,3:3 S:3:R,1,4:4:0:0:0 H:4:0 D:4 O:retry=100"),
	mkProg("ctl-stepctl", "S:1:B,P,1,X,1:2:0:0:0 S:2:R,1,3:3:0:0:0 H:3:0 H:4:0 D:1 O:retry=100,stamp=1"),
	// pause / cancel taken from inside a function through a SEPARATE controller (extctl, harness-only): the engine's own
	// snapshot of the run is not touched, so whatever runs next in the same cycle must re-read the run — two timeout functions
	// on one status, the first of which pauses or cancels
	mkProg("ctl-two-timeouts-ext", "S:1:R,1,2:2:0:0:0 T:2:100:B,P,1,X,1:3:0 T:2:100:R,1,3:3:0 S:3:R,1,4:4:0:0:0 H:3:0 H:4:0 D:0 O:extctl=1"),
	mkProg("ctl-stepctl-ext", "S:1:B,P,1,X,1:2:0:0:0 S:2:R,1,3:3:0:0:0 H:3:0 H:4:0 D:1 O:retry=100,stamp=1,extctl=1"),
}

var pauseProgramsFmt = []string{
	"S:1:E,1,11:2:0:%d:0 S:2:R,1,3:3:0:0:0 H:3:0 O:retry=1000,stamp=1",
	"S:1:B,E,1,11,E,0,12:2:0:0:0 S:2:R,1,3:3:0:0:0 O:dpause=%d,retry=1000,stamp=1",
	"S:1:R,1,2:2:0:0:0 T:2:10:E,1,13:3:%d O:retry=-1",
	"S:1:F,3,11,R,1,2:2:0:%d:0 S:2:R,1,3:3:0:0:0 O:retry=500,stamp=1",
	// a per-step count together with a workflow default (larger and smaller): the step's own count decides
	"S:1:E,1,11:2:0:%d:0 S:2:R,1,3:3:0:0:0 O:dpause=5,retry=1000,stamp=1",
	"S:1:E,1,11:2:0:%d:0 S:2:R,1,3:3:0:0:0 O:dpause=2,retry=1000,stamp=1",
	// two processes failing with the SAME error text on one run: counted per process
	"S:1:F,2,11,R,1,2:2:0:%[1]d:0 S:2:F,2,11,R,1,3:3:0:%[1]d:0 S:3:F,1,11,R,1,4:4:0:%[1]d:0 O:retry=-1",
	// two timeouts on one status, the count configured on the FIRST AddTimeout only (the options belong to the status: a later
	// AddTimeout without options leaves them alone), without and with a workflow default
	"S:1:R,1,2:2:0:0:0 T:2:10:E,1,13:3:%d T:2:100000:R,1,4:4:0 O:retry=-1",
	"S:1:R,1,2:2:0:0:0 T:2:10:E,1,13:3:%d T:2:100000:R,1,4:4:0 O:dpause=4,retry=-1",
	// a failing TIMER function: the inserter's handler fails, counted like any other failure of that process for that run
	"S:1:R,1,2:2:0:0:0 T:2:-2:R,1,3:3:%d O:retry=-1",
	"S:1:R,1,2:2:0:0:0 T:2:-2:R,1,3:3:%d O:dpause=3,retry=1000,stamp=1",
}

var badReturnPrograms = []prog{
	mkProg("undeclared-step", "S:1:R,1,9:2:0:0:0 S:2:R,1,3:3:0:0:0"),
	mkProg("zero-step", "S:1:R,1,0:2:0:0:0 S:2:R,1,3:3:0:0:0"),
	mkProg("minus1-step", "S:1:R,1,-1:2:0:0:0"),
	mkProg("neg-step", "S:1:R,1,-7:2:0:0:0"),
	mkProg("huge-step", "S:1:R,1,123456789:2:0:0:0"),
	mkProg("undeclared-cb", "S:1:R,1,2:2:0:0:0 C:2:R,1,7:3"),
	mkProg("zero-cb", "S:1:R,1,2:2:0:0:0 C:2:R,1,0:3"),
	// two callbacks on one status: the first returns an undeclared destination — Callback returns that error and goes no further
	mkProg("undeclared-first-of-two-cbs", "S:1:R,1,2:2:0:0:0 C:2:R,1,7:3 C:2:R,1,3:3"),
	mkProg("undeclared-first-of-two-cbs-skip", "S:1:R,1,2:2:0:0:0 C:2:R,1,7:3 C:2:R,1,0:3"),
	mkProg("undeclared-timeout", "S:1:R,1,2:2:0:0:0 T:2:10:R,1,8:3:0"),
	mkProg("selfloop", "S:1:R,1,2:2:0:0:0 S:2:B,R,1,2,R,1,3:2,3:0:0:0"),
	mkProg("terminal-return", "S:1:R,1,3:2,3:0:0:0 S:2:R,1,3:3:0:0:0"),
	mkProg("moderr", "S:1:E,1,11:2:0:0:0"),
	mkProg("err-with-status-step", "S:1:F,0,0,G,1,2,11:2:0:0:0 S:2:R,1,3:3:0:0:0"),
	mkProg("err-with-status-cb", "S:1:R,1,2:2:0:0:0 C:2:G,1,3,12:3"),
	mkProg("err-with-status-timeout", "S:1:R,1,2:2:0:0:0 T:2:10:G,1,3,13:3:0"),
	mkProg("err-with-status-timeout-pause", "S:1:R,1,2:2:0:0:0 T:2:10:G,1,3,13:3:2"),
	mkProg("modskip", "S:1:R,1,0:2:0:0:0 C:1:R,1,2:2 S:2:R,0,3:3:0:0:0"),
	mkProg("modpause", "S:1:P,1:2:0:0:0 S:2:R,1,3:3:0:0:0"),
	mkProg("modcancel", "S:1:X,1:2:0:0:0"),
	// two callbacks on one status: the first moves the run on, the second cancels / pauses / fails — each callback acts on the run
	// as it is NOW, so the second one finds it moved on and does nothing
	mkProg("two-cbs-move-then-cancel", "S:1:R,1,2:2:0:0:0 C:2:R,1,3:3 C:2:X,1:3 S:3:R,1,4:4:0:0:0"),
	mkProg("two-cbs-move-then-pause", "S:1:R,1,2:2:0:0:0 C:2:R,1,3:3 C:2:P,1:3 S:3:R,1,4:4:0:0:0"),
	mkProg("two-cbs-complete-then-cancel", "S:1:R,1,2:2:0:0:0 C:2:R,1,3:3 C:2:X,1:3"),
}

var faultableMut = map[string]bool{"ST": true, "SD": true, "DO": true, "AK": true, "TC": true, "TM": true, "TX": true}
var faultable = map[string]bool{"LK": true, "LT": true, "ST": true, "LO": true, "NS": true, "SD": true, "SC": true, "DO": true,
	"RV": true, "AK": true, "NR": true, "TL": true, "TC": true, "TM": true, "TX": true, "AW": true}

// positions of the adapter calls in an observed trace: (op index, kind, occurrence)
type callPos struct {
	op   int
	kind string
	occ  int
}

func callPositions(obs string) []callPos {
	var res []callPos
	op := -1
	occ := map[string]int{}
	for _, t := range strings.Fields(obs) {
		if t[0] == '#' {
			op = atoi(t[1:])
			occ = map[string]int{}
			continue
		}
		k := t[:2]
		if strings.Contains(t, "=blk") || k == "US" || k == "AP" || k == "TW" {
			continue
		}
		if k == "RV" {
			// "RV=..." is a granted Recv
		}
		if faultable[k] {
			res = append(res, callPos{op, k, occ[k]})
			occ[k]++
		}
	}
	return res
}

func withFault(ops []string, i int, f string) []string {
	r := append([]string(nil), ops...)
	r[i] = r[i] + "@" + f
	return r
}

// every single fault placement on the fault-free run of (p, base ops), followed by recovery rounds
func singleFaults(p prog, base []string, recovery []string, emit func(string, bool), sample func() bool) {
	obs := runEngine("eng", strings.Fields(scenario(p, base))[1:])
	for _, cp := range callPositions(obs) {
		fs := []string{"eb", "ll", "cr"}
		if faultableMut[cp.kind] {
			fs = append(fs, "ea")
		}
		if cp.kind == "AW" {
			fs = []string{"eb"}
		}
		if strings.HasPrefix(base[cp.op], "tr:") || strings.HasPrefix(base[cp.op], "cb:") || strings.HasPrefix(base[cp.op], "ct:") || strings.HasPrefix(base[cp.op], "ui:") {
			fs = []string{"eb"}
			if faultableMut[cp.kind] {
				fs = append(fs, "ea")
			}
		}
		for _, f := range fs {
			if sample != nil && !sample() {
				continue
			}
			ops := withFault(base, cp.op, fmt.Sprintf("%s.%d.%s", cp.kind, cp.occ, f))
			ops = append(ops, recovery...)
			emit(scenario(p, ops), true)
		}
	}
}

// single faults only at the call positions accepted by [keep] (operation, call kind)
func singleFaultsAt(p prog, base []string, recovery []string, emit func(string, bool), keep func(op, kind string) bool) {
	obs := runEngine("eng", strings.Fields(scenario(p, base))[1:])
	for _, cp := range callPositions(obs) {
		if !keep(base[cp.op], cp.kind) {
			continue
		}
		fs := []string{"eb", "ll", "cr"}
		if faultableMut[cp.kind] {
			fs = append(fs, "ea")
		}
		for _, f := range fs {
			ops := withFault(base, cp.op, fmt.Sprintf("%s.%d.%s", cp.kind, cp.occ, f))
			ops = append(ops, recovery...)
			emit(scenario(p, ops), true)
		}
	}
}

func randomFaultRun(r *rand.Rand, p prog, base []string, nf int) []string {
	obs := runEngine("eng", strings.Fields(scenario(p, base))[1:])
	pos := callPositions(obs)
	ops := append([]string(nil), base...)
	for i := 0; i < nf && len(pos) > 0; i++ {
		cp := pos[r.Intn(len(pos))]
		fs := []string{"eb", "ll", "cr"}
		if faultableMut[cp.kind] {
			fs = append(fs, "ea")
		}
		if cp.kind == "AW" || !strings.HasPrefix(ops[cp.op], "st:") {
			fs = []string{"eb"}
		}
		ops[cp.op] = ops[cp.op] + "@" + fmt.Sprintf("%s.%d.%s", cp.kind, cp.occ, fs[r.Intn(len(fs))])
	}
	return ops
}

func adv(n int) string { return fmt.Sprintf("adv:%d", n) }

func genEngine(p *params, emit func(string, bool)) {
	prop := os.Getenv("VERIF_PROP")
	r := p.rng
	switch prop {
	case "C03", "C15", "C14":
		genControl(p, prop, emit)
	case "C08":
		genControl(p, prop, emit)
		genStaleReads(p, emit)
		genStaleHandles(p, emit)
	case "C20":
		genSchedule(p, emit)
	case "C04":
		genRedelivery(p, emit)
		genStaleReads(p, emit)
		genLongVersions(p, emit)
	case "C09":
		genTriggers(p, emit)
		genSchedManual(p, emit)
	case "C10":
		genConnectors(p, emit)
		genStepShards(p, emit)
	case "C12":
		genTimeouts(p, emit)
	case "C13":
		genPausing(p, emit)
		genInserterPausing(p, emit)
	case "C02":
		genReturns(p, emit)
		genFaults(p, emit, 0.25)
		genStaleReads(p, emit)
		genStaleLower(p, emit)
		genTimeoutMoveThenStop(p, emit)
	case "C16":
		genReturns(p, emit)
		genFaults(p, emit, 0.25)
		genControl(p, prop, emit)
		genStartingPoints(p, emit)
		genStaleStepReads(p, emit)
		genTryCtl(p, emit)
	case "C05":
		genFaults(p, emit, 1.0)
		genRelayBatches(p, emit)
	case "C01":
		genFaults(p, emit, 1.0)
		// a lagging replica at a step consumer's first lookup: the announcement is retried until the store has caught up, the run
		// is not stranded
		genStaleStepReads(p, emit)
	default: // C06 C07 C11 and the unprojected self-test
		genFaults(p, emit, 1.0)
	}
	_ = r
}

// STEP consumers under shards (count on the step, as workflow default, both): several runs, so that the event IDs fall into
// different shards; the functions skip on their first call (the consumer's idempotency must not be what hides a second handling)
func genStepShards(p *params, emit func(string, bool)) {
	r := p.rng
	progs := []prog{
		mkProg("step-two-shards", "S:1:F,1,11,R,1,2:2:2:0:0 S:2:R,1,3:3:0:0:0"),
		mkProg("step-three-shards", "S:1:R,1,2:2:3:0:0 S:2:B,R,1,0,R,1,3:3:2:0:0"),
		mkProg("step-default-count", "S:1:R,1,2:2:0:0:0 S:2:R,1,3:3:0:0:0 O:dpar=3"),
		mkProg("step-own-and-default", "S:1:R,1,2:2:2:0:0 S:2:R,1,3:3:0:0:0 O:dpar=3"),
	}
	for _, pr := range progs {
		for v := 0; v < p.pick(6, 120); v++ {
			var ops []string
			for k := 1; k <= 5; k++ {
				ops = append(ops, fmt.Sprintf("tr:%d:0:%d", k, 3+k))
				if r.Intn(2) == 0 {
					ops = append(ops, permuteRounds(r, pr, 1)...)
				}
			}
			for k := 0; k < 6; k++ {
				ops = append(ops, permuteRounds(r, pr, 1)...)
			}
			ops = append(ops, pr.rounds(3)...)
			emit(scenario(pr, ops), true)
		}
	}
}

// two timeouts on one status: the first function moves the run to a declared destination, the second cancels / pauses it or fails
// under an error count of 1 — whatever the second does acts on the run as it is NOW (at the new status), so no write takes the run
// back to the status it has left
func genTimeoutMoveThenStop(p *params, emit func(string, bool)) {
	for _, second := range []string{"X,1:3:0", "P,1:3:0", "E,1,14:3:1", "R,1,4:4:0"} {
		pr := mkProg("to-move-then-stop", "S:1:R,1,2:2:0:0:0 T:2:100:R,1,3:3:0 T:2:100:"+second+" S:3:R,0,0:4:0:0:0 O:retry=-1")
		ops := []string{"tr:1:0:4", "tr:2:0:7"}
		ops = append(ops, pr.rounds(4)...)
		ops = append(ops, adv(150))
		ops = append(ops, pr.rounds(4)...)
		emit(scenario(pr, ops), true)
	}
}

// connector consumers under shards, faults, crashes and rewinds: every connector event ends up handled by exactly one shard
func genConnectors(p *params, emit func(string, bool)) {
	r := p.rng
	progs := []prog{
		mkProg("conn-one", "S:1:R,1,2:2:0:0:0 K:1:0:0"),
		mkProg("conn-two-shards", "S:1:R,1,2:2:0:0:0 K:1:1:2"),
		mkProg("conn-three-shards", "S:1:R,1,2:2:0:0:0 K:1:0:3 K:2:2:0"),
		mkProg("conn-default-count", "S:1:R,1,2:2:0:0:0 K:1:1:0 O:dpar=2"),
		mkProg("conn-two-instances", "S:1:R,1,2:2:0:0:0 K:1:1:2 O:inst=2"),
	}
	for _, pr := range progs {
		c := parseCfg(strings.Fields(pr.items))
		for i := 0; i < p.pick(40, 1200); i++ {
			var ops []string
			nev := 0
			for j := 0; j < 6+r.Intn(14); j++ {
				switch r.Intn(6) {
				case 0, 1:
					k := c.conns[r.Intn(len(c.conns))]
					ops = append(ops, fmt.Sprintf("cs:%d:%s:%d", k.cid, hx(randString(r, 1+r.Intn(10))+fmt.Sprint(nev)), 1+r.Intn(3)))
					nev++
				case 2:
					if r.Intn(3) == 0 {
						ops = append(ops, fmt.Sprintf("crash:%d", 1+r.Intn(pr.insts())))
					} else {
						u := pr.units[r.Intn(len(pr.units))]
						if u[0] == 'k' {
							ops = append(ops, fmt.Sprintf("rw:%s:%d", u, r.Intn(4)))
						}
					}
				default:
					ops = append(ops, permuteRounds(r, pr, 1)...)
				}
			}
			ops = randomFaultRun(r, pr, ops, r.Intn(3))
			ops = append(ops, pr.rounds(6)...)
			emit(scenario(pr, ops), true)
		}
	}
}

// fault-free runs, every single fault position (x kind), random multi-fault runs
func genFaults(p *params, emit func(string, bool), frac float64) {
	r := p.rng
	for _, pr := range programs {
		if vp := os.Getenv("VERIF_PROP"); pr.name == "step-error-wraps-cancel" && vp != "C07" && vp != "C11" {
			// a failed Trigger removes a run that, in the failure-free twin, sits ahead in the same consumer and holds the
			// other run back through its own failures and back-offs: the faulty history gets AHEAD of its twin
			continue
		}
		if vp := os.Getenv("VERIF_PROP"); strings.HasPrefix(pr.name, "timer-fails") && vp != "C07" && vp != "C11" {
			// a timer function that never succeeds: the inserter's event is redelivered for ever, and with a second timeout on the
			// status the first one's timer is created again on every redelivery — such a history has no failure-free twin to be a
			// prefix of (C01's final-state clause); the programs are C07's (and C11's: back-off after a user error)
			continue
		}
		if pr.name == "delete-fails-twice" && os.Getenv("VERIF_PROP") != "C07" {
			// its base history issues DeleteData at fixed positions; a fault that delays the runs makes those requests come
			// too early (rejected), so the history is not comparable with its failure-free twin (C01's final-state clause)
			continue
		}
		base := []string{"tr:1:0:4", "tr:2:0:7"}
		switch pr.name {
		case "callback":
			base = append(base, pr.rounds(4)...)
			base = append(base, "cb:1:2", "cb:2:2")
		case "timeout":
			base = append(base, pr.rounds(4)...)
			base = append(base, adv(100))
		case "two-timeouts":
			base = append(base, pr.rounds(4)...)
			base = append(base, adv(100))
			base = append(base, pr.rounds(2)...)
			base = append(base, adv(150))
		case "connector", "connector-sharded":
			base = append(base, connEvents(pr, 3)...)
			base = append(base, pr.rounds(2)...)
			base = append(base, connEvents(pr, 5)[3:]...)
		case "backoff", "step-error-wraps-cancel":
			base = append(base, pr.rounds(3)...)
			base = append(base, adv(50))
			if pr.name == "step-error-wraps-cancel" {
				base = append(base, pr.rounds(2)...)
				base = append(base, adv(50))
			}
		case "delete-fails-twice":
			base = append(base, pr.rounds(4)...)
			base = append(base, "ct:1:3", "ct:2:3")
		case "lagged", "lagged2":
			base = append(base, pr.rounds(3)...)
			base = append(base, adv(10))
			base = append(base, pr.rounds(2)...)
			base = append(base, adv(20))
			base = append(base, pr.rounds(3)...)
			base = append(base, adv(45))
		}
		base = append(base, pr.rounds(8)...)
		rec := append([]string{adv(60)}, pr.rounds(8)...)
		if pr.name == "callback" {
			rec = append(rec, "cb:1:2", "cb:2:2")
			rec = append(rec, pr.rounds(5)...)
		}
		if pr.name == "timeout" {
			rec = append([]string{adv(100)}, rec...)
		}
		emit(scenario(pr, base), false)
		var sample func() bool
		if frac < 1.0 || !p.thorough() {
			f := frac
			if !p.thorough() {
				f = frac * 0.35
			}
			sample = func() bool { return r.Float64() < f }
		}
		singleFaults(pr, base, rec, emit, sample)
		// the lease of a parked process is revoked at every point of the run (lag waits, back-off, blocked receives)
		switch pr.name {
		case "linear", "timeout", "backoff", "lagged", "lagged2", "twoinst":
			for i := 2; i <= len(base); i++ {
				for _, u := range pr.units {
					if u == "o" || (sample != nil && !sample()) {
						continue
					}
					ops := append(append(append([]string{}, base[:i]...), "lose:1/"+u), base[i:]...)
					ops = append(ops, rec...)
					emit(scenario(pr, ops), true)
				}
			}
		}
		for i := 0; i < p.pick(12, 300); i++ {
			ops := randomFaultRun(r, pr, base, 2+r.Intn(4))
			ops = append(ops, rec...)
			ops = append(ops, rec...)
			emit(scenario(pr, ops), true)
		}
	}
}

func permuteRounds(r *rand.Rand, pr prog, n int) []string {
	var ops []string
	for i := 0; i < n; i++ {
		rd := pr.round()
		r.Shuffle(len(rd), func(a, b int) { rd[a], rd[b] = rd[b], rd[a] })
		ops = append(ops, rd...)
	}
	return ops
}

// control operations at every point of a run's progress; op sequences over the API alphabet
func genControl(p *params, prop string, emit func(string, bool)) {
	r := p.rng
	for _, pr := range ctlPrograms {
		base := []string{"tr:1:0:4"}
		base = append(base, pr.rounds(3)...)
		base = append(base, "cb:1:2", adv(100))
		base = append(base, pr.rounds(4)...)
		emit(scenario(pr, base), false)
		// two runs with different objects (odd seed: the object has the optional field; even: not), both finished, both
		// deleted, in either order: each scrub is made from that run's stored object alone
		for _, seeds := range [][2]int{{5, 4}, {4, 5}, {7, 9}} {
			two := []string{fmt.Sprintf("tr:1:0:%d", seeds[0]), fmt.Sprintf("tr:2:0:%d", seeds[1])}
			two = append(two, pr.rounds(3)...)
			two = append(two, "cb:1:2", "cb:2:2", adv(100))
			two = append(two, pr.rounds(4)...)
			two = append(two, "ct:1:2", "ct:2:2") // cancel whatever has not completed (accepted or not)
			two = append(two, pr.rounds(2)...)
			two = append(two, "ct:1:3")
			two = append(two, pr.rounds(3)...)
			two = append(two, "ct:2:3")
			two = append(two, pr.rounds(3)...)
			emit(scenario(pr, two), true)
		}
		// every single fault at every call of the hook, delete and paused-retry consumers on a history that pauses, resumes,
		// completes and deletes: the event of a failed handling is never acknowledged, the hook / scrub happens on redelivery
		{
			h := []string{"tr:1:0:4"}
			h = append(h, pr.rounds(2)...)
			h = append(h, "ct:1:0")
			h = append(h, pr.rounds(2)...)
			h = append(h, "ct:1:1")
			h = append(h, pr.rounds(2)...)
			h = append(h, "cb:1:2", adv(100))
			h = append(h, pr.rounds(3)...)
			h = append(h, "ct:1:3")
			h = append(h, pr.rounds(2)...)
			rec := append([]string{adv(300)}, pr.rounds(4)...)
			singleFaultsAt(pr, h, rec, emit, func(op, kind string) bool {
				if strings.HasPrefix(op, "st:") && strings.HasSuffix(op, "/o") {
					// ... and at every call of the relay that carries the announcements to them: an entry into a hooked state, a
					// deletion request, is not lost on its way either
					return kind == "NS" || kind == "SD" || kind == "SC" || kind == "DO"
				}
				return strings.HasPrefix(op, "st:") && (strings.Contains(op, "/h") || strings.HasSuffix(op, "/d") || strings.HasSuffix(op, "/r")) &&
					(kind == "LK" || kind == "AK" || kind == "ST")
			})
		}
		// a hook that fails, and whose consumer loses its role DURING the error back-off: the process goes back to asking for its
		// role (it does not end), the event is delivered again and the hook is re-invoked until it returns nil
		if prop == "C14" {
			ph := mkProg("ctl-hook-backoff-lose", "S:1:R,1,2:2:0:0:0 C:2:R,1,3:3 S:3:R,1,4:4:0:0:0 H:3:2 H:5:1 D:1 O:retry=-1,bo=50")
			for _, when := range []int{0, 1, 2} {
				h := []string{"tr:1:0:4"}
				h = append(h, ph.rounds(2)...)
				h = append(h, "ct:1:0")
				for k := 0; k < 4; k++ {
					if k == when {
						h = append(h, "lose:1/h3")
					}
					h = append(h, ph.rounds(1)...)
				}
				h = append(h, adv(60))
				h = append(h, ph.rounds(3)...)
				h = append(h, adv(60))
				h = append(h, ph.rounds(3)...)
				h = append(h, "ct:1:1", "cb:1:2")
				h = append(h, ph.rounds(3)...)
				h = append(h, adv(60))
				h = append(h, ph.rounds(4)...)
				emit(scenario(ph, h), true)
			}
		}
		// steps under an error count of 1 whose functions SUCCEED, with every single fault at the calls of the step consumers: a
		// transition that was committed although its Store returned an error is not an error of the step function — nothing may
		// be written on top of it from the record as it was before the step ran (no pause of a run that has moved on / completed)
		if pr.name == "ctl-stepctl" {
			pu := mkProg("ctl-step-count-updater-fault", "S:1:R,1,2:2:0:1:0 S:2:R,1,3:3:0:1:0 H:3:0 H:5:0 D:1 O:retry=-1,stamp=1")
			h := []string{"tr:1:0:4", "tr:2:0:7"}
			h = append(h, pu.rounds(5)...)
			rec := pu.rounds(4)
			singleFaultsAt(pu, h, rec, emit, func(op, kind string) bool {
				return strings.HasPrefix(op, "st:") && (strings.Contains(op, "/s1.") || strings.Contains(op, "/s2.")) && (kind == "ST" || kind == "LK")
			})
		}
		// a step that pauses / cancels its own run under an error count, with every single fault at the controller's write: a
		// write that took effect although its call returned an error leaves the run stopped — the error-count pause that the
		// returned error then triggers must not write over it
		if pr.name == "ctl-stepctl" {
			pc := mkProg("ctl-stepctl-count", "S:1:B,P,1,X,1:2:0:1:0 S:2:R,1,3:3:0:0:0 H:3:0 H:4:0 D:1 O:retry=-1,stamp=1")
			h := []string{"tr:1:0:4", "tr:2:0:7"}
			h = append(h, pc.rounds(4)...)
			rec := pc.rounds(4)
			singleFaultsAt(pc, h, rec, emit, func(op, kind string) bool {
				return strings.HasPrefix(op, "st:") && strings.Contains(op, "/s1.") && (kind == "ST" || kind == "LK")
			})
		}
		// late-joining hook consumers: the hook processes get their roles only after the run has been paused, resumed and
		// completed; they start from the beginning of the stream and catch up on every entry
		{
			noHooks := func(ops []string) []string {
				var r []string
				for _, o := range ops {
					if !strings.Contains(o, "/h") {
						r = append(r, o)
					}
				}
				return r
			}
			l := []string{"tr:1:0:4"}
			l = append(l, noHooks(pr.rounds(2))...)
			l = append(l, "ct:1:0")
			l = append(l, noHooks(pr.rounds(2))...)
			l = append(l, "ct:1:1")
			l = append(l, noHooks(pr.rounds(2))...)
			l = append(l, "cb:1:2", adv(100))
			l = append(l, noHooks(pr.rounds(3))...)
			l = append(l, pr.rounds(5)...)
			emit(scenario(pr, l), true)
		}
		ctls := []string{"ct:1:0", "ct:1:1", "ct:1:2", "ct:1:3", "ui:1:0", "ui:1:1", "ui:1:2", "ui:1:3", "cb:1:2", "tr:1:0:6"}
		// one RunStateController used for two or three consecutive changes (ctr = re-use the controller of the previous ct)
		for pos := 1; pos <= len(base); pos += 2 {
			for _, seq := range [][]string{{"ct:1:0", "ctr:1:1"}, {"ct:1:0", "ctr:1:2"}, {"ct:1:0", "ctr:1:1", "ctr:1:0"}, {"ct:1:2", "ctr:1:3"}, {"ct:1:0", "ctr:1:2", "ctr:1:3"}, {"ct:1:3", "ctr:1:3"}} {
				ops := append(append(append([]string{}, base[:pos]...), seq...), base[pos:]...)
				ops = append(ops, pr.rounds(3)...)
				emit(scenario(pr, ops), true)
			}
		}
		tail := append([]string{adv(100)}, pr.rounds(3)...)
		tail = append(tail, "cb:1:2", "ct:1:1", adv(200))
		tail = append(tail, pr.rounds(3)...)
		tail = append(tail, "ct:1:3")
		tail = append(tail, pr.rounds(3)...)
		step := 1
		if !p.thorough() {
			step = 3
		}
		for pos := 1; pos <= len(base); pos += step {
			for _, c := range ctls {
				ops := append(append(append([]string{}, base[:pos]...), c), base[pos:]...)
				ops = append(ops, tail...)
				emit(scenario(pr, ops), true)
				if p.thorough() || r.Intn(4) == 0 {
					// two control operations
					c2 := ctls[r.Intn(len(ctls))]
					q := pos + r.Intn(len(base)-pos+1)
					ops2 := append(append(append([]string{}, ops[:q+1]...), c2), ops[q+1:]...)
					emit(scenario(pr, ops2), true)
				}
			}
		}
		// exhaustive short sequences over the alphabet, each followed by a round
		alpha := []string{"tr:1:0:4", "cb:1:2", "ct:1:0", "ct:1:1", "ct:1:2", "ct:1:3", adv(150), "ROUND"}
		depth := p.pick(3, 5)
		var rec func(prefix []string, d int)
		rec = func(prefix []string, d int) {
			if d == 0 {
				var ops []string
				for _, a := range prefix {
					if a == "ROUND" {
						ops = append(ops, pr.rounds(2)...)
					} else {
						ops = append(ops, a)
					}
				}
				ops = append(ops, pr.rounds(2)...)
				emit(scenario(pr, ops), true)
				return
			}
			for _, a := range alpha {
				rec(append(append([]string{}, prefix...), a), d-1)
			}
		}
		if pr.name != "ctl-stepctl" || p.thorough() {
			rec([]string{"tr:1:0:4", "ROUND"}, depth)
		}
		// random long histories with faults and crashes in the hook / delete consumers
		for i := 0; i < p.pick(40, 1500); i++ {
			var ops []string
			n := 10 + r.Intn(30)
			for j := 0; j < n; j++ {
				switch r.Intn(10) {
				case 0:
					ops = append(ops, fmt.Sprintf("tr:%d:0:%d", 1+r.Intn(2), r.Intn(9)))
				case 1:
					ops = append(ops, fmt.Sprintf("cb:%d:2", 1+r.Intn(2)))
				case 2, 3:
					ops = append(ops, fmt.Sprintf("ct:%d:%d", 1+r.Intn(3), r.Intn(4)))
				case 4:
					ops = append(ops, adv(50+r.Intn(100)))
				default:
					ops = append(ops, permuteRounds(r, pr, 1)...)
				}
			}
			ops = randomFaultRun(r, pr, ops, r.Intn(4))
			ops = append(ops, adv(300))
			ops = append(ops, pr.rounds(6)...)
			emit(scenario(pr, ops), true)
		}
	}
}

// redelivery: cursor rewinds to every position, duplicated events, for every status consumer
func genRedelivery(p *params, emit func(string, bool)) {
	r := p.rng
	progs := []prog{programs[0], programs[1], programs[3], mkProg("pausing", "S:1:R,1,2:2:0:0:0 S:2:P,0:3:0:0:0 T:2:50:R,1,3:3:0"),
		// the record comes back to a status at a higher version: a polling step (self-loop), a pause and resume
		mkProg("redeliver-selfloop", "S:1:R,1,2:2:0:0:0 S:2:R,1,2:2,3:0:0:0 C:2:R,1,4:4"),
		mkProg("redeliver-pause-resume", "S:1:R,1,2:2:0:0:0 S:2:F,1,12,R,1,3:3:0:1:0 S:3:R,1,4:4:0:0:0 O:retry=-1")}
	for _, pr := range progs {
		base := []string{"tr:1:0:4", "tr:2:0:7"}
		base = append(base, pr.rounds(5)...)
		if pr.name == "redeliver-pause-resume" {
			base = append(base, "ct:1:1", "ct:2:1")
		}
		base = append(base, adv(100))
		base = append(base, pr.rounds(5)...)
		emit(scenario(pr, base), false)
		obs := runEngine("eng", strings.Fields(scenario(pr, base))[1:])
		nlog := strings.Count(obs, " SD:")
		var consumers []string
		for _, u := range pr.units {
			if u[0] == 's' || u[0] == 'i' {
				consumers = append(consumers, u)
			}
		}
		for cut := 3; cut <= len(base); cut += p.pick(4, 1) {
			for _, u := range consumers {
				for pos := 0; pos <= nlog; pos++ {
					if !p.thorough() && r.Intn(3) != 0 {
						continue
					}
					ops := append(append([]string{}, base[:cut]...), fmt.Sprintf("rw:%s:%d", u, pos))
					ops = append(ops, base[cut:]...)
					ops = append(ops, pr.rounds(3)...)
					emit(scenario(pr, ops), true)
				}
			}
			for i := 0; i < nlog; i++ {
				if !p.thorough() && r.Intn(3) != 0 {
					continue
				}
				ops := append(append([]string{}, base[:cut]...), fmt.Sprintf("dup:%d", i))
				for k := 0; k < r.Intn(3); k++ {
					ops = append(ops, fmt.Sprintf("dup:%d", r.Intn(nlog)))
				}
				ops = append(ops, base[cut:]...)
				ops = append(ops, pr.rounds(3)...)
				emit(scenario(pr, ops), true)
			}
		}
	}
}

// versions with more than one digit: a polling step (declared self-loop) writes the run a dozen times; then early announcements
// are replayed (a rewound cursor) against a record at version >= 10, and the announcement of version 10 meets a lookup answered
// with version 9 — the gate compares NUMBERS
func genLongVersions(p *params, emit func(string, bool)) {
	pr := mkProg("long-versions", "S:1:R,1,2:2:0:0:0 S:2:R,1,2:2,3:0:0:0 C:2:R,1,3:3")
	base := []string{"tr:1:0:4"}
	base = append(base, pr.rounds(14)...)
	emit(scenario(pr, base), true)
	obs := runEngine("eng", strings.Fields(scenario(pr, base))[1:])
	nlog := strings.Count(obs, " SD:")
	for pos := 0; pos <= nlog; pos++ {
		ops := append(append([]string{}, base...), fmt.Sprintf("rw:s2.1.1:%d", pos))
		ops = append(ops, pr.rounds(4)...)
		ops = append(ops, "cb:1:2")
		ops = append(ops, pr.rounds(2)...)
		emit(scenario(pr, ops), true)
	}
	for i, o := range base {
		if o != "st:1/s2.1.1" {
			continue
		}
		ops := withFault(base, i, "LK.0.sr")
		ops = append(ops, pr.rounds(3)...)
		emit(scenario(pr, ops), true)
	}
}

// stale reads (a lagging replica answering Lookup with the previous version) at every lookup of every background
// process, on histories with pauses and resumes, followed by recovery rounds
func genStaleReads(p *params, emit func(string, bool)) {
	progs := []prog{
		mkProg("stale-linear", "S:1:R,1,2:2:0:0:0 S:2:R,1,3:3:0:0:0"),
		mkProg("stale-pause", "S:1:R,1,2:2:0:0:0 S:2:F,1,12,R,1,3:3:0:1:0 S:3:R,1,4:4:0:0:0 O:retry=-1"),
		mkProg("stale-steppause", "S:1:R,1,2:2:0:0:0 S:2:F,1,12,R,1,3:3:0:0:0 T:2:50:R,1,3:3:0 O:dpause=1,retry=30,stamp=1"),
		mkProg("stale-hooks", "S:1:R,1,2:2:0:0:0 S:2:R,1,3:3:0:0:0 H:5:0 H:4:0 D:1"),
		// a polling step (declared self-loop) with a callback off the same status
		mkProg("stale-selfloop", "S:1:R,1,2:2:0:0:0 S:2:R,1,2:2,3:0:0:0 C:2:R,1,4:4 S:3:R,1,4:4:0:0:0"),
	}
	for _, pr := range progs {
		base := []string{"tr:1:0:4", "tr:2:0:7"}
		base = append(base, pr.rounds(4)...)
		base = append(base, "ct:1:1", "ct:2:1", "ct:2:2", "ct:2:3", adv(60))
		if pr.name == "stale-selfloop" {
			base = append(base, "cb:1:2")
		}
		base = append(base, pr.rounds(4)...)
		rec := pr.rounds(4)
		emit(scenario(pr, base), false)
		obs := runEngine("eng", strings.Fields(scenario(pr, base))[1:])
		for _, cp := range callPositions(obs) {
			// C04 quantifies over stale reads that are monotone per reader: only the first lookup of an operation is
			// answered by the lagging replica (a later lookup of the same operation is never older than an earlier one)
			if cp.kind != "LK" || cp.occ != 0 || !strings.HasPrefix(base[cp.op], "st:") {
				continue
			}
			ops := withFault(base, cp.op, fmt.Sprintf("LK.%d.sr", cp.occ))
			ops = append(ops, rec...)
			emit(scenario(pr, ops), true)
			// the same stale read twice in a row (the replica still lags when the event is retried)
			for j := cp.op + 1; j < len(ops); j++ {
				if ops[j] == base[cp.op] {
					ops2 := withFault(ops, j, fmt.Sprintf("LK.%d.sr", cp.occ))
					emit(scenario(pr, ops2), true)
					break
				}
			}
		}
	}
}

// C02: a function runs for a run that has meanwhile moved to a LOWER-numbered status (a callback off the same status took it
// there; the step consumer's first lookup was answered by a lagging replica, so the superseded announcement looked current):
// the updater's re-read finds the run elsewhere and drops the function's result, whichever way the status numbers compare
func genStaleLower(p *params, emit func(string, bool)) {
	for _, prs := range []string{
		"S:1:R,1,3:3:0:0:0 S:3:R,1,4:4:0:0:0 C:3:R,1,2:2 S:2:R,1,4:4:0:0:0",
		"S:1:R,1,3:3:0:0:0 S:3:R,1,4:4:0:0:0 C:3:R,1,2:2",
		"S:1:R,1,3:3:0:0:0 S:3:R,1,4:4:0:0:0 C:3:R,1,5:5 S:5:R,1,4:4:0:0:0",
	} {
		pr := mkProg("stale-lower", prs)
		dest := "2"
		if strings.Contains(prs, "C:3:R,1,5") {
			dest = "5" // control: the callback moves the run to a HIGHER-numbered status
		}
		_ = dest
		ops := pr.rounds(1)
		ops = append(ops, "tr:1:0:4", "tr:2:0:7", "st:1/o", "st:1/s1.1.1", "st:1/s1.1.1", "st:1/o", "cb:1:3", "st:1/s3.1.1@LK.0.sr", "st:1/s3.1.1@LK.0.sr")
		ops = append(ops, pr.rounds(4)...)
		emit(scenario(pr, ops), true)
	}
}

// C16: the first lookup of a STEP consumer is answered by a lagging replica (no deletion in these programs: what the delete
// consumer does on a stale row is outside C16's histories): the announcement is newer than what the store returned, so no
// function may run on that older version — it is retried until the store has caught up; versions keep growing by one
func genStaleStepReads(p *params, emit func(string, bool)) {
	linearOnly := os.Getenv("VERIF_PROP") == "C01" // looping programs have no failure-free twin to compare a delayed run with
	progs := []prog{
		mkProg("stale16-linear", "S:1:R,1,2:2:0:0:0 S:2:R,1,3:3:0:0:0 S:3:R,1,4:4:0:0:0"),
		mkProg("stale16-cycle", "S:1:R,1,2:2:0:0:0 S:2:R,1,3:3:0:0:0 S:3:B,R,1,2,R,1,4:2,4:0:0:0"),
		mkProg("stale16-selfloop", "S:1:R,1,2:2:0:0:0 S:2:R,1,2:2,3:0:0:0 C:2:R,1,3:3 S:3:R,1,4:4:0:0:0"),
	}
	for _, pr := range progs {
		if linearOnly && pr.name != "stale16-linear" {
			continue
		}
		base := []string{"tr:1:0:4", "tr:2:0:7"}
		base = append(base, pr.rounds(3)...)
		base = append(base, "ct:1:0", "ct:1:1")
		if pr.name == "stale16-selfloop" {
			base = append(base, "cb:1:2", "cb:2:2")
		}
		base = append(base, pr.rounds(4)...)
		rec := pr.rounds(4)
		obs := runEngine("eng", strings.Fields(scenario(pr, base))[1:])
		for _, cp := range callPositions(obs) {
			if cp.kind != "LK" || cp.occ != 0 || !strings.HasPrefix(base[cp.op], "st:") || !strings.Contains(base[cp.op], "/s") {
				continue
			}
			ops := withFault(base, cp.op, fmt.Sprintf("LK.%d.sr", cp.occ))
			ops = append(ops, rec...)
			emit(scenario(pr, ops), true)
		}
	}
}

// a pause / cancel written through a STALE HANDLE (a controller made from an earlier read of the run: the lookup of the control
// operation is answered by the previous version) while the announcement of the run's latest move is still undelivered: the
// stale write has the version that announcement carries, so only the stopped-run check keeps the step function away
func genStaleHandles(p *params, emit func(string, bool)) {
	pr := mkProg("stale-handle", "S:1:R,1,2:2:0:0:0 S:2:R,1,3:3:0:0:0 S:3:R,1,4:4:0:0:0 O:retry=-1")
	for _, ctl := range []string{"ct:1:0", "ct:1:2", "ui:1:0"} {
		for _, moved := range []int{1, 2} {
			ops := append(pr.rounds(1), "tr:1:0:4", "st:1/o") // every process has its role and receiver before the run starts
			for st := 1; st <= moved; st++ {
				ops = append(ops, fmt.Sprintf("st:1/s%d.1.1", st), "st:1/o")
			}
			ops = append(ops, ctl+"@LK.0.sr")
			ops = append(ops, pr.rounds(4)...)
			emit(scenario(pr, ops), true)
		}
	}
}

func genTriggers(p *params, emit func(string, bool)) {
	r := p.rng
	pr := mkProg("trig", "S:1:R,1,2:2:0:0:0 C:2:R,1,3:3 S:3:R,1,4:4:0:0:0 D:0")
	// all starting statuses
	for _, start := range []int{0, 1, 2, 3, 4, 5, 9, -1} {
		emit(scenario(pr, append([]string{fmt.Sprintf("tr:1:%d:3", start)}, pr.rounds(3)...)), true)
	}
	for i := 0; i < p.pick(300, 5000); i++ {
		var ops []string
		n := 8 + r.Intn(25)
		for j := 0; j < n; j++ {
			switch r.Intn(9) {
			case 0, 1, 2:
				start := 0
				if r.Intn(6) == 0 {
					start = []int{1, 2, 3, 4, 9}[r.Intn(5)]
				}
				ops = append(ops, fmt.Sprintf("tr:%d:%d:%d", 1+r.Intn(3), start, r.Intn(9)))
			case 3:
				ops = append(ops, fmt.Sprintf("cb:%d:2", 1+r.Intn(3)))
			case 4, 5:
				ops = append(ops, fmt.Sprintf("ct:%d:%d", 1+r.Intn(5), r.Intn(4)))
			default:
				ops = append(ops, permuteRounds(r, pr, 1+r.Intn(2))...)
			}
		}
		if r.Intn(3) == 0 {
			ops = randomFaultRun(r, pr, ops, 1+r.Intn(2))
		}
		emit(scenario(pr, ops), true)
	}
}

// several writes between two relay cycles: one batch then holds entries of the same status for different topics (a run written
// at a status and paused / cancelled / resumed there before the relay caught up; completed and asked to be deleted in one batch)
func genRelayBatches(p *params, emit func(string, bool)) {
	r := p.rng
	pr := mkProg("relay-batch", "S:1:R,1,2:2:0:0:0 C:2:R,1,3:3 S:3:R,1,4:4:0:0:0 H:3:0 D:0")
	for _, mid := range []string{"ct:1:0", "ct:1:0 ct:1:1", "ct:1:0 ct:1:2", "ct:1:0 ct:1:1 ct:1:0", "ct:1:0 ct:1:2 ct:1:3"} {
		ops := []string{"tr:1:0:4"}
		ops = append(ops, strings.Fields(mid)...)
		ops = append(ops, pr.rounds(4)...)
		emit(scenario(pr, ops), true)
		ops = []string{"tr:1:0:4", "tr:2:0:7"}
		ops = append(ops, pr.rounds(2)...)
		ops = append(ops, "cb:1:2")
		ops = append(ops, strings.Fields(mid)...)
		ops = append(ops, "cb:2:2", "ct:2:0")
		ops = append(ops, pr.rounds(4)...)
		emit(scenario(pr, ops), true)
	}
	for i := 0; i < p.pick(80, 2000); i++ {
		var ops []string
		n := 6 + r.Intn(16)
		for j := 0; j < n; j++ {
			switch r.Intn(10) {
			case 0, 1:
				ops = append(ops, fmt.Sprintf("tr:%d:0:%d", 1+r.Intn(3), r.Intn(9)))
			case 2:
				ops = append(ops, fmt.Sprintf("cb:%d:2", 1+r.Intn(3)))
			case 3, 4, 5, 6:
				ops = append(ops, fmt.Sprintf("ct:%d:%d", 1+r.Intn(4), r.Intn(4)))
			case 7:
				// everything but the relay takes a turn
				for _, o := range pr.round() {
					if !strings.HasSuffix(o, "/o") {
						ops = append(ops, o)
					}
				}
			default:
				ops = append(ops, permuteRounds(r, pr, 1)...)
			}
		}
		ops = append(ops, pr.rounds(3)...)
		emit(scenario(pr, ops), true)
	}
}

// runs created at a starting status other than the default one, paused / cancelled / resumed before their first step: the first
// write of a run (and the controller writes that copy its metadata) must describe the status the run was created at
func genStartingPoints(p *params, emit func(string, bool)) {
	r := p.rng
	pr := mkProg("startpt", "S:1:R,1,2:2:0:0:0 C:2:R,1,3:3 S:3:R,1,4:4:0:0:0 D:0")
	for _, start := range []int{0, 1, 2, 3, 4} {
		emit(scenario(pr, append([]string{fmt.Sprintf("tr:1:%d:3", start)}, pr.rounds(3)...)), true)
		for _, act := range []int{0, 2} {
			ops := []string{fmt.Sprintf("tr:1:%d:5", start), fmt.Sprintf("ct:1:%d", act)}
			ops = append(ops, pr.rounds(1)...)
			ops = append(ops, "ct:1:1", "cb:1:2")
			ops = append(ops, pr.rounds(3)...)
			emit(scenario(pr, ops), true)
		}
	}
	for i := 0; i < p.pick(60, 1500); i++ {
		var ops []string
		n := 6 + r.Intn(14)
		for j := 0; j < n; j++ {
			switch r.Intn(8) {
			case 0, 1, 2:
				ops = append(ops, fmt.Sprintf("tr:%d:%d:%d", 1+r.Intn(3), []int{0, 1, 2, 3, 4}[r.Intn(5)], r.Intn(9)))
			case 3:
				ops = append(ops, fmt.Sprintf("cb:%d:2", 1+r.Intn(3)))
			case 4, 5:
				ops = append(ops, fmt.Sprintf("ct:%d:%d", 1+r.Intn(4), r.Intn(4)))
			default:
				ops = append(ops, permuteRounds(r, pr, 1+r.Intn(2))...)
			}
		}
		emit(scenario(pr, ops), true)
	}
}

func genTimeouts(p *params, emit func(string, bool)) {
	r := p.rng
	progs := []prog{
		mkProg("to1", "S:1:R,1,2:2:0:0:0 T:2:100:R,1,3:3:0 S:3:R,1,4:4:0:0:0"),
		mkProg("to-zero", "S:1:R,1,2:2:0:0:0 T:2:-1:R,1,3:3:0"),
		mkProg("to-zero-located", "S:1:R,1,2:2:0:0:0 T:2:-3:R,1,3:3:0 T:2:100:R,1,4:4:0"),
		mkProg("to-fail", "S:1:R,1,2:2:0:0:0 T:2:100:F,2,13,R,1,3:3:0"),
		mkProg("to-skip", "S:1:R,1,2:2:0:0:0 T:2:100:R,1,0:3:0 C:2:R,1,3:3"),
		mkProg("to-cb", "S:1:R,1,2:2:0:0:0 T:2:100:R,1,3:3:0 C:2:R,1,4:4"),
		mkProg("to-two", "S:1:R,1,2:2:0:0:0 T:2:100:B,X,1,R,1,3:3,4:0 T:2:100:R,1,4:3,4:0"),
		mkProg("to-two-pause", "S:1:R,1,2:2:0:0:0 T:2:100:B,P,1,E,1,14:3:1 T:2:120:R,1,3:3:0"),
	}
	for _, pr := range progs {
		for _, d := range []int{0, 99, 100, 101, 250} {
			for _, mid := range []string{"", "ct:1:0", "ct:1:2", "cb:1:2", "ct:1:0 ct:1:1", "ct:1:0 ct:1:2 tr:1:0:8", "ct:1:2 tr:1:0:8"} {
				ops := []string{"tr:1:0:4"}
				ops = append(ops, pr.rounds(4)...)
				if mid != "" {
					ops = append(ops, strings.Fields(mid)...)
					ops = append(ops, pr.rounds(3)...)
				}
				ops = append(ops, adv(d))
				ops = append(ops, pr.rounds(3)...)
				ops = append(ops, adv(300))
				ops = append(ops, pr.rounds(3)...)
				emit(scenario(pr, ops), true)
			}
		}
		// a second run of the same foreign ID reaches the timeout status while the first run's timer is still stored:
		// only the first timer is due when the poller runs
		for _, end := range []string{"ct:1:2", "ct:1:0", ""} {
			for _, d2 := range []int{60, 40, 200} {
				ops := []string{"tr:1:0:4"}
				ops = append(ops, pr.rounds(4)...)
				ops = append(ops, adv(50))
				if end != "" {
					ops = append(ops, end)
				}
				ops = append(ops, "tr:1:0:8", "tr:2:0:5")
				ops = append(ops, pr.rounds(4)...)
				ops = append(ops, adv(d2))
				ops = append(ops, pr.rounds(3)...)
				ops = append(ops, adv(100))
				ops = append(ops, pr.rounds(3)...)
				emit(scenario(pr, ops), true)
			}
		}
		base := []string{"tr:1:0:4"}
		base = append(base, pr.rounds(4)...)
		base = append(base, adv(100))
		base = append(base, pr.rounds(4)...)
		rec := append([]string{adv(200)}, pr.rounds(5)...)
		var sample func() bool
		if !p.thorough() {
			sample = func() bool { return r.Intn(3) == 0 }
		}
		singleFaults(pr, base, rec, emit, sample)
		for i := 0; i < p.pick(30, 1000); i++ {
			var ops []string
			for j := 0; j < 6+r.Intn(20); j++ {
				switch r.Intn(8) {
				case 0:
					ops = append(ops, fmt.Sprintf("tr:%d:0:%d", 1+r.Intn(2), r.Intn(9)))
				case 1:
					ops = append(ops, fmt.Sprintf("ct:%d:%d", 1+r.Intn(3), r.Intn(3)))
				case 2:
					ops = append(ops, adv([]int{1, 50, 99, 100, 101}[r.Intn(5)]))
				case 3:
					ops = append(ops, fmt.Sprintf("cb:%d:2", 1+r.Intn(2)))
				default:
					ops = append(ops, permuteRounds(r, pr, 1)...)
				}
			}
			ops = randomFaultRun(r, pr, ops, r.Intn(3))
			ops = append(ops, rec...)
			emit(scenario(pr, ops), true)
		}
	}
}

// "the count starts afresh after the pause", deterministically (no random control operation has to fall into place): one run
// fails until it is paused at its n-th failure, is resumed through the API, and fails again — it must again take n failures,
// on the step path and on the timeout path alike (after the resume the timeout path has two due timers: the one that was never
// completed and the one the inserter creates for the re-announced arrival)
func genPauseResumePause(p *params, emit func(string, bool)) {
	for n := 2; n <= 4; n++ {
		for _, f := range []string{
			"S:1:E,1,11:2:0:%d:0 S:2:R,1,3:3:0:0:0 O:retry=-1",
			"S:1:R,1,2:2:0:0:0 T:2:10:E,1,13:3:%d O:retry=-1",
			"S:1:R,1,2:2:0:0:0 T:2:10:E,1,13:3:0 O:dpause=%d,retry=-1",
			"S:1:R,1,2:2:0:0:0 T:2:-2:R,1,3:3:%d O:retry=-1",
		} {
			pr := mkProg("pause-resume-pause", fmt.Sprintf(f, n))
			ops := []string{"tr:1:0:4", "tr:2:0:7"}
			ops = append(ops, pr.rounds(3)...)
			ops = append(ops, adv(10))
			ops = append(ops, pr.rounds(2*n+3)...)
			for rep := 0; rep < 2; rep++ {
				ops = append(ops, "ct:1:1", "ct:2:1")
				ops = append(ops, pr.rounds(2)...)
				ops = append(ops, adv(10))
				ops = append(ops, pr.rounds(2*n+3)...)
			}
			emit(scenario(pr, ops), true)
		}
	}
}

// OUTSIDE the model's script language (kind engx: no model run; the extracted token clauses tok_ok are evaluated on the
// implementation's Store and invocation tokens): a function that calls r.Cancel / r.Pause, has the call fail BEFORE taking effect (a
// Store fault at that call) and, swallowing the error, returns a declared next status. The write that follows is an ordinary
// status write of the run that was handed to the function: one version on, no reason of a pause that never happened
func genTryCtl(p *params, emit func(string, bool)) {
	for _, c := range []int{0, 1} {
		for _, items := range []string{
			"S:1:Y,%d,2:2:0:0:0 S:2:R,1,3:3:0:0:0",
			"S:1:R,1,2:2:0:0:0 C:2:Y,%d,3:3 S:3:R,1,4:4:0:0:0",
			"S:1:R,1,2:2:0:0:0 T:2:10:Y,%d,3:3:0 S:3:R,1,4:4:0:0:0",
		} {
			pr := mkProg("try-ctl", fmt.Sprintf(items, c))
			for _, fault := range []string{"", "@ST.0.eb"} {
				ops := []string{"tr:1:0:4", "tr:2:0:7"}
				for _, o := range pr.rounds(3) {
					if strings.Contains(o, "/s1.") || strings.Contains(o, "/p2") {
						o += fault
					}
					ops = append(ops, o)
				}
				ops = append(ops, "cb:1:2"+fault, adv(10))
				for _, o := range pr.rounds(2) {
					if strings.Contains(o, "/p2") {
						o += fault
					}
					ops = append(ops, o)
				}
				ops = append(ops, "ct:1:1", "ct:2:1")
				ops = append(ops, pr.rounds(4)...)
				emit("engx"+strings.TrimPrefix(scenario(pr, ops), "eng"), true)
			}
		}
	}
}

func genPausing(p *params, emit func(string, bool)) {
	r := p.rng
	genPauseResumePause(p, emit)
	for n := 0; n <= 6; n++ {
		for _, f := range pauseProgramsFmt {
			pr := mkProg("pause", fmt.Sprintf(f, n))
			for variant := 0; variant < p.pick(3, 12); variant++ {
				ops := []string{"tr:1:0:4", "tr:2:0:7", "tr:3:0:6"}
				ops = append(ops, pr.rounds(3)...)
				ops = append(ops, adv(10))
				for k := 0; k < 10; k++ {
					ops = append(ops, permuteRounds(r, pr, 1)...)
					if r.Intn(5) == 0 {
						ops = append(ops, fmt.Sprintf("ct:%d:%d", 1+r.Intn(3), r.Intn(3)))
					}
					if r.Intn(7) == 0 {
						ops = append(ops, "crash:1")
					}
				}
				for _, d := range []int{499, 1, 499, 1, 1, 1000} {
					ops = append(ops, adv(d))
					ops = append(ops, pr.rounds(2)...)
				}
				// later runs of the same foreign IDs (possible once the earlier ones completed): their failures are
				// counted per run, not per foreign ID
				ops = append(ops, "tr:1:0:4", "tr:2:0:7", "tr:3:0:6")
				for k := 0; k < 6; k++ {
					ops = append(ops, permuteRounds(r, pr, 1)...)
				}
				ops = append(ops, adv(2000))
				ops = append(ops, pr.rounds(3)...)
				emit(scenario(pr, ops), n >= 2)
			}
		}
	}
}

// the timeout INSERTER's error count: its TimeoutStore.Create fails k times in a row for one run (a fault before the effect at the
// inserter's Create), under a per-timeout count n, a workflow default m, both, or neither — the timeout's own count decides, the
// default only where none is set, and the run is paused by exactly that failure
func genInserterPausing(p *params, emit func(string, bool)) {
	for _, cfg := range [][2]int{{0, 0}, {3, 0}, {0, 2}, {4, 2}, {2, 5}, {1, 3}} {
		pr := mkProg("ins-pause", fmt.Sprintf("S:1:R,1,2:2:0:0:0 T:2:1000:R,1,3:3:%d O:dpause=%d,retry=-1", cfg[0], cfg[1]))
		for _, fails := range []int{1, 2, 3, 5, 6} {
			ops := []string{"tr:1:0:4", "tr:2:0:7"}
			ops = append(ops, "st:1/o", "st:1/s1.1.1", "st:1/s1.1.1", "st:1/o")
			// (a step of a process runs up to its next blocking call: the fault is put on every step of the span; a step that
			// does not reach Create leaves it unused)
			ops = append(ops, "st:1/i2")
			for k := 0; k < 3*fails; k++ {
				ops = append(ops, "st:1/i2@TC.0.eb", adv(1))
			}
			ops = append(ops, pr.rounds(3)...)
			ops = append(ops, "ct:1:1")
			ops = append(ops, pr.rounds(3)...)
			emit(scenario(pr, ops), fails >= 2)
		}
	}
}

// every return value class on step, callback and timeout paths; object hand-over
func genReturns(p *params, emit func(string, bool)) {
	for _, pr := range badReturnPrograms {
		ops := []string{"tr:1:0:4", "tr:2:0:7"}
		ops = append(ops, pr.rounds(4)...)
		ops = append(ops, "cb:1:2", "cb:1:1", adv(20))
		ops = append(ops, pr.rounds(4)...)
		ops = append(ops, "ct:1:1")
		ops = append(ops, pr.rounds(3)...)
		emit(scenario(pr, ops), true)
	}
}

// schedules: cron specifications x clock advance sequences x filter answers x completions x lease losses
// a run of the scheduled foreign ID triggered BY HAND while the scheduler waits for its next tick and still unfinished when
// the tick comes: the scheduled trigger is refused, whatever the scheduler saw before it waited (C09 through Schedule)
func genSchedManualOne(specID int, period int64, emit func(string, bool)) {
	sec := int64(1000000000)
	pr := mkProg("sched", fmt.Sprintf("S:1:R,1,2:2:0:0:0 Z:5:%d:9:0 Z:6:%d:3:0", specID, specID))
	round := func() []string { return append(pr.round(), "st:1/c5", "st:1/c6") }
	rounds := func(n int) []string {
		var o []string
		for i := 0; i < n; i++ {
			o = append(o, round()...)
		}
		return o
	}
	ops := []string{"sched:1:5", "sched:1:6"}
	ops = append(ops, rounds(2)...)
	ops = append(ops, fmt.Sprintf("adv:%d", period*sec))
	ops = append(ops, rounds(3)...)
	ops = append(ops, "tr:5:0:3")
	ops = append(ops, fmt.Sprintf("adv:%d", period*sec))
	ops = append(ops, "st:1/c5", "st:1/c6", "st:1/c5", "st:1/c6")
	ops = append(ops, rounds(3)...)
	emit(scenario(pr, ops), true)
}

func genSchedManual(p *params, emit func(string, bool)) {
	for _, sp := range [][2]int64{{1, 60}, {2, 900}, {3, 3600}} {
		genSchedManualOne(int(sp[0]), sp[1], emit)
	}
}

func genSchedule(p *params, emit func(string, bool)) {
	r := p.rng
	sec := int64(1000000000)
	type spec struct {
		id     int
		period int64
	}
	specs := []spec{{1, 60}, {2, 900}, {5, 1800}, {3, 3600}, {4, 86400}, {6, 604800}}
	for _, sp := range specs {
		for _, filt := range []int{0, 2} {
			pr := mkProg("sched", fmt.Sprintf("S:1:R,1,2:2:0:0:0 Z:5:%d:9:%d Z:6:%d:3:0", sp.id, filt, sp.id))
			round := func() []string { return append(pr.round(), "st:1/c5", "st:1/c6") }
			rounds := func(n int) []string {
				var o []string
				for i := 0; i < n; i++ {
					o = append(o, round()...)
				}
				return o
			}
			steps := []int64{1, sp.period - 1, sp.period, 3 * sp.period, 20}
			if sp.period > 86400 {
				// a sparse schedule: the clock also passes through the inside of the gap, a day (and a bit) at a time
				steps = append(steps, 86400, 90000)
			}
			// all advance sequences up to a depth
			depth := p.pick(3, 5)
			var rec func(prefix []int64, d int)
			rec = func(prefix []int64, d int) {
				if d == 0 {
					ops := []string{"sched:1:5", "sched:1:6"}
					ops = append(ops, rounds(2)...)
					for _, a := range prefix {
						ops = append(ops, fmt.Sprintf("adv:%d", a*sec))
						ops = append(ops, rounds(2)...)
					}
					emit(scenario(pr, ops), true)
					return
				}
				for _, a := range steps {
					rec(append(append([]int64{}, prefix...), a), d-1)
				}
			}
			if sp.id == 1 || sp.id == 3 || sp.id == 6 || p.thorough() {
				rec(nil, depth)
			}
			if filt == 0 {
				genSchedManualOne(sp.id, sp.period, emit)
			}
			// a run that stays unfinished (paused) across ticks, then is cancelled; lease losses; crashes; an older run
			for i := 0; i < p.pick(25, 400); i++ {
				ops := []string{}
				if r.Intn(3) == 0 {
					// an earlier run of the foreign ID, created (and finished) before the schedule starts
					ops = append(ops, "tr:5:0:1")
					ops = append(ops, pr.rounds(4)...)
					ops = append(ops, fmt.Sprintf("adv:%d", steps[r.Intn(len(steps))]*sec))
				}
				ops = append(ops, "sched:1:5", "sched:1:6")
				for j := 0; j < 6+r.Intn(10); j++ {
					switch r.Intn(9) {
					case 0, 1, 2:
						ops = append(ops, fmt.Sprintf("adv:%d", steps[r.Intn(len(steps))]*sec))
					case 3:
						ops = append(ops, fmt.Sprintf("ct:%d:%d", 1+r.Intn(3), r.Intn(3)))
					case 4:
						ops = append(ops, fmt.Sprintf("lose:1/c%d", 5+r.Intn(2)))
					case 5:
						if r.Intn(3) == 0 {
							ops = append(ops, "crash:1", "sched:1:5", "sched:1:6")
						}
					default:
						ops = append(ops, round()...)
					}
				}
				ops = append(ops, rounds(2)...)
				if r.Intn(3) == 0 {
					// adapter faults; a crash fault restarts the instance without its schedules (Schedule is an API call
					// of the application), so crashes are the explicit crash + sched operations above
					ops = randomFaultRun(r, pr, ops, 1+r.Intn(2))
					for k := range ops {
						ops[k] = strings.ReplaceAll(ops[k], ".cr", ".ll")
					}
				}
				emit(scenario(pr, ops), true)
			}
		}
	}
	// role losses while the scheduler waits for its tick, on a record store that ignores context cancellation (like the
	// bundled memrecordstore): an interrupted wait must not look like a tick. Only the parked schedulers lose their role
	// here and there are no adapter faults, so the repaired engine makes no store call after a lost role.
	for _, sp := range specs[:3] {
		pr := mkProg("sched-blind", fmt.Sprintf("S:1:R,1,2:2:0:0:0 Z:5:%d:9:0 Z:6:%d:3:0 O:blind=1", sp.id, sp.id))
		round := func() []string { return append(pr.round(), "st:1/c5", "st:1/c6") }
		for i := 0; i < p.pick(12, 150); i++ {
			ops := []string{"sched:1:5", "sched:1:6"}
			ops = append(ops, round()...)
			for j := 0; j < 4+r.Intn(6); j++ {
				switch r.Intn(5) {
				case 0:
					ops = append(ops, fmt.Sprintf("adv:%d", []int64{1, sp.period - 1, sp.period, 20}[r.Intn(4)]*sec))
				case 1, 2:
					ops = append(ops, fmt.Sprintf("lose:1/c%d", 5+r.Intn(2)))
					ops = append(ops, round()...)
				default:
					ops = append(ops, round()...)
				}
			}
			ops = append(ops, round()...)
			ops = append(ops, round()...)
			emit(scenario(pr, ops), true)
		}
	}
	// "ends when the workflow stops": the scheduler fails (its Latest lookup, or the Store of its trigger), waits out the error
	// back-off, and loses its role / its instance crashes DURING that back-off: the wait ends at once and the process goes back
	// to asking for its role — it neither sleeps the back-off out nor goes on with the iteration
	{
		prb := mkProg("sched-backoff", "S:1:R,1,2:2:0:0:0 Z:5:1:9:0 Z:6:1:3:0 O:bo=5000000000")
		round := func() []string { return append(prb.round(), "st:1/c5", "st:1/c6") }
		for _, fault := range []string{"st:1/c5@LT.0.eb", "st:1/c5@LT.0.ea"} {
			for _, cut := range []string{"lose:1/c5", "crash:1 sched:1:5 sched:1:6"} {
				for _, d := range []int64{0, 1, 4, 5, 60} {
					ops := []string{"sched:1:5", "sched:1:6", fault, "st:1/c6", fmt.Sprintf("adv:%d", d*sec)}
					ops = append(ops, strings.Fields(cut)...)
					ops = append(ops, round()...)
					ops = append(ops, fmt.Sprintf("adv:%d", 60*sec))
					ops = append(ops, round()...)
					ops = append(ops, round()...)
					emit(scenario(prb, ops), true)
				}
			}
		}
	}
	// an invalid cron specification is rejected at once and starts nothing
	pr := mkProg("schedbad", "S:1:R,1,2:2:0:0:0 Z:5:1:9:0")
	emit(scenario(pr, append([]string{"schedbad:1:5"}, pr.rounds(2)...)), true)
}
