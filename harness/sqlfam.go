package main

// SQL families: adapters/sqlstore and adapters/sqltimeout running on sqlmini.
//   sq  <ms operations>, plus  SF.<k>.<fields of S>  = Store with the k-th statement of its transaction failing
//       (0 begin, 1 select by run ID, 2 insert/update, 3 outbox insert, 4 commit)
//   sqt <mto operations without l>
// The last observation token reports the statement log: every Store ran begin / select / insert|update / outbox insert /
// commit in ONE transaction on the writer connection, and every statement bound as many arguments as it has placeholders.

import (
	"fmt"
	"math/rand"
	"strings"

	"github.com/luno/workflow/adapters/sqlstore"
	"github.com/luno/workflow/adapters/sqltimeout"
)

func checkStoreLog(log []sqlLogEntry) string {
	// split into transactions
	i := 0
	for i < len(log) {
		l := log[i]
		if l.shape != "begin" {
			if l.inTx {
				return "statement inside a transaction without begin"
			}
			i++
			continue
		}
		if l.conn != "writer" {
			return "Store began its transaction on the " + l.conn + " connection"
		}
		if !l.ok {
			i++
			continue
		}
		tx := l.txID
		var shapes []string
		j := i + 1
		for j < len(log) && log[j].inTx && log[j].txID == tx {
			if log[j].conn != "writer" {
				return "statement of the Store transaction ran on the " + log[j].conn + " connection"
			}
			s := log[j].shape
			switch {
			case strings.HasPrefix(s, "select"):
				s = "select"
			case strings.HasPrefix(s, "insert into workflow_records"):
				s = "write"
			case strings.HasPrefix(s, "update workflow_records"):
				s = "write"
			case strings.HasPrefix(s, "insert into workflow_outbox"):
				s = "outbox"
			}
			if !log[j].ok {
				s += "!"
			}
			shapes = append(shapes, s)
			j++
		}
		got := strings.Join(shapes, ",")
		okSeq := got == "select,write,outbox,commit"
		failed := strings.Contains(got, "!")
		// a failed statement ends the transaction by rollback; a failed commit is itself the end (nothing was applied)
		// "select,write,rollback" without a failed statement: the outbox entry could not be encoded (event-encoding step)
		if !okSeq && got != "select,write,rollback" && !(failed && (strings.HasSuffix(got, "rollback") || strings.HasSuffix(got, "commit!"))) {
			return "Store transaction ran [" + got + "]"
		}
		// between begin and the end of the transaction no statement of Store may run outside it
		for k := i + 1; k < j; k++ {
			if !log[k].inTx {
				return "statement outside the transaction while Store was running"
			}
		}
		i = j
	}
	return "ok"
}

// checkTimeoutLog: every operation of adapters/sqltimeout is exactly ONE statement, of the shape the model gives it
// (coq/model/SqlTimeout.v), writes on the writer connection and reads on the reader, outside any transaction.
func checkTimeoutLog(ops []string, log []sqlLogEntry) string {
	if len(log) != len(ops) {
		return fmt.Sprintf("%d operations issued %d statements", len(ops), len(log))
	}
	for i, op := range ops {
		l := log[i]
		sh := strings.ToLower(l.shape)
		var want, conn string
		switch op[0] {
		case 'c':
			want, conn = "insert into workflow_timeouts set workflow_name=?, foreign_id=?, run_id=?, status=?, completed=?, expire_at=?, created_at=now()", "writer"
		case 'm':
			want, conn = "update workflow_timeouts set completed=true where id=?", "writer"
		case 'x':
			want, conn = "delete from workflow_timeouts where id=?", "writer"
		case 'v':
			want, conn = "where workflow_name=? and status=? and expire_at<? and completed=false", "reader"
		case 'l':
			want, conn = "where workflow_name=? and completed=false", "reader"
		}
		ok := sh == want
		if op[0] == 'v' || op[0] == 'l' {
			ok = strings.HasPrefix(sh, "select") && strings.Contains(sh, " from workflow_timeouts ") && strings.HasSuffix(sh, want)
		}
		if !ok {
			return fmt.Sprintf("operation %s issued the statement [%s]", op, l.shape)
		}
		if l.conn != conn {
			return fmt.Sprintf("operation %s ran on the %s connection", op, l.conn)
		}
		if l.inTx {
			return "operation " + op + " ran inside a transaction"
		}
	}
	return "ok"
}

func runSQLStore(kind string, ops []string) string {
	e := newSQLEngine()
	store := sqlstore.New(openSQL(e, "writer"), openSQL(e, "reader"), "workflow_records", "workflow_outbox")
	defer releaseStoreOids(store)
	var out []string
	for _, op := range ops {
		if strings.HasPrefix(op, "SF.") {
			f := strings.SplitN(op, ".", 3)
			e.beginOp(atoi(f[1]))
			r := recordStoreOpsCreated(store, []string{"S." + f[2]}, false)
			e.beginOp(-1)
			out = append(out, r)
			continue
		}
		if strings.HasPrefix(op, "RF.") {
			// a READ whose query is accepted but whose result set fails at the first row (the connection is lost while the rows are
			// streamed): the store must answer with an error — not with "not found", not with an empty list
			e.beginOp(-1)
			e.mu.Lock()
			e.rowsBad = true
			e.mu.Unlock()
			r := recordStoreOpsCreated(store, []string{strings.TrimPrefix(op, "RF.")}, false)
			e.mu.Lock()
			e.rowsBad = false
			e.mu.Unlock()
			if i := strings.IndexByte(r, ':'); i >= 0 && r != "err" {
				r = r[:i] // an answer where an error was due: keep its kind only (rec / ob / list)
			}
			out = append(out, r)
			continue
		}
		e.beginOp(-1)
		e.lastList = ""
		r := recordStoreOpsCreated(store, []string{op}, false)
		if strings.HasPrefix(op, "Q.") {
			// the statement List built for this call, next to its answer
			r += "|" + e.lastList
		}
		out = append(out, r)
	}
	res := checkStoreLog(e.log)
	if e.problem != "" {
		res = e.problem
	}
	return strings.Join(out, " ") + " log:" + strings.ReplaceAll(res, " ", "_")
}

func runSQLTimeout(kind string, ops []string) string {
	e := newSQLEngine()
	ts := sqltimeout.New(openSQL(e, "writer"), openSQL(e, "reader"), "workflow_timeouts")
	r := timeoutStoreOps(ts, ts.List, ops)
	res := checkTimeoutLog(ops, e.log)
	if e.problem != "" {
		res = e.problem
	}
	return r + " log:" + strings.ReplaceAll(res, " ", "_")
}

func genSQLStore(p *params, emit func(string, bool)) {
	r := p.rng
	// a failure at every statement of Store, for a new and for an existing run, then the committed state is read back
	for k := 0; k <= 4; k++ {
		emit(fmt.Sprintf("sq SF.%d.1.1.1.2.1.4.10.1.0 L.1.0 T.1.1.0 O.1.10 Q.1.0.0.0.-.-.-", k), true)
		emit(fmt.Sprintf("sq S.1.1.1.2.1.4.10.1.0 SF.%d.1.1.1.5.2.6.10.2.0 L.1.0 T.1.1.0 O.1.10 Q.1.0.0.0.-.-.- S.1.1.1.5.2.6.10.2.0 L.1.0 O.1.10", k), true)
	}
	emit("sq SB.1.1.1.2.1.4.10.1.0 L.1.0 T.1.1.0 O.1.10 Q.1.0.0.0.-.-.-", true)
	emit("sq S.1.1.1.2.1.4.10.1.0 RF.L.1.0 RF.T.1.1.0 RF.O.1.10 RF.Q.1.0.0.0.-.-.- L.1.0 T.1.1.0", true)
	emit("sq S.1.1.1.2.1.4.10.1.0 SB.1.1.1.5.2.6.10.2.0 L.1.0 T.1.1.0 O.1.10 Q.1.0.0.0.-.-.-", true)
	for i := 0; i < p.pick(400, 6000); i++ {
		ops := genStoreOps(r, 5+r.Intn(40), false)
		for j := range ops {
			if strings.HasPrefix(ops[j], "S.") && r.Intn(6) == 0 {
				ops[j] = fmt.Sprintf("SF.%d.%s", r.Intn(5), strings.TrimPrefix(ops[j], "S."))
			}
		}
		for j := 0; j < 5; j++ {
			ops = append(ops, genListOp(r))
		}
		// reads whose result set breaks while it is streamed
		for j := range ops {
			if c := ops[j][0]; (c == 'L' || c == 'T' || c == 'O' || c == 'Q') && ops[j][1] == '.' && r.Intn(8) == 0 {
				ops[j] = "RF." + ops[j]
			}
		}
		emit("sq "+strings.Join(ops, " "), true)
	}
}

func genSQLTimeout(p *params, emit func(string, bool)) {
	r := p.rng
	emit("sqt c.1.1.1.1.50 c.1.1.2.1.50 x.999 v.1.1.100 m.1 v.1.1.100 x.2 v.1.1.100", true)
	for i := 0; i < p.pick(300, 5000); i++ {
		var ops []string
		for _, o := range genTimeoutOps(r, 5+r.Intn(35)) {
			if strings.HasPrefix(o, "l.") {
				continue
			}
			// the SQL store lists a timer whose expiry equals the instant as not yet due, the in-memory store as due; the
			// property accepts either answer at the exact instant, so the instants of this family avoid equality
			if strings.HasPrefix(o, "v.") {
				f := strings.Split(o, ".")
				switch f[3] {
				case "0":
					f[3] = "1"
				case "50":
					f[3] = "52"
				case "100":
					f[3] = "103"
				}
				o = strings.Join(f, ".")
			}
			ops = append(ops, o)
		}
		emit("sqt "+strings.Join(ops, " "), true)
	}
}

func init() {
	families["sqlstore"] = &family{gen: genSQLStore, run: runSQLStore,
		rule: "sq: operation sequences on adapters/sqlstore over sqlmini vs the reference store; a failure at each of the 5 statements of Store for new and existing runs; random sequences with failing Stores and a List grid; statement log checked"}
	families["sqltimeout"] = &family{gen: genSQLTimeout, run: runSQLTimeout,
		rule: "sqt: operation sequences (incl. unknown IDs) on adapters/sqltimeout over sqlmini vs the reference timer list"}
	_ = rand.Int
}
