package main

// connrt: connector.go connectorEventToEvent / streamerEventToConnectorEvent (through the verif export): a connector
// event wrapped into the generic event and unwrapped again reaches the connector function intact; the generic event's
// ID is int64(fnv64(ID)).  case: crt <id> <fid> <type> <created ns> <zone offset s> <n> <k1> <v1> ...  (strings hex-encoded)

import (
	"fmt"
	"sort"
	"strings"
	"time"

	"github.com/luno/workflow"
)

func init() {
	families["connrt"] = &family{gen: genConnRT, run: runConnRT,
		rule: "connector event round trip: random valid-UTF-8 IDs / foreign IDs / types / header maps (empty, nil, unicode, JSON escapes, control characters), timestamps with nanoseconds in several zones; non-trivial = a string with a character JSON must escape or a non-UTC zone"}
}

var crtAlphabets = []string{
	"abcXYZ019-_ ",
	"\"\\/\b\f\n\r\t<>&'",
	"äöüßéèñçøåλπΩжд中文日本語한국어🙂🚀",
	"\u0000\u0001\u001f\u007f  ",
}

func crtString(p *params, max int) string {
	n := p.rng.Intn(max + 1)
	var b strings.Builder
	al := []rune(crtAlphabets[p.rng.Intn(len(crtAlphabets))])
	if p.rng.Intn(3) == 0 {
		al = []rune(strings.Join(crtAlphabets, ""))
	}
	for i := 0; i < n; i++ {
		b.WriteRune(al[p.rng.Intn(len(al))])
	}
	return b.String()
}

func genConnRT(p *params, emit func(string, bool)) {
	zones := []int{0, 3600, -18000, 19800, 45900, -43200}
	n := p.pick(500, 20000)
	for i := 0; i < n; i++ {
		id, fid, typ := crtString(p, 12), crtString(p, 10), crtString(p, 6)
		created := int64(p.rng.Int63n(4e18)) - 1e18 // 1938 .. 2096
		if p.rng.Intn(10) == 0 {
			created = (created / 1e9) * 1e9
		}
		zone := zones[p.rng.Intn(len(zones))]
		nh := p.rng.Intn(4)
		if p.rng.Intn(5) == 0 {
			nh = -1 // nil map
		}
		hs := map[string]string{}
		for len(hs) < nh {
			hs[crtString(p, 6)+fmt.Sprint(len(hs))] = crtString(p, 8)
		}
		var keys []string
		for k := range hs {
			keys = append(keys, k)
		}
		sort.Strings(keys)
		parts := []string{"crt", hx(id), hx(fid), hx(typ), fmt.Sprint(created), fmt.Sprint(zone), fmt.Sprint(nh)}
		for _, k := range keys {
			parts = append(parts, hx(k), hx(hs[k]))
		}
		nt := zone != 0 || strings.ContainsAny(id+fid+typ, "\"\\\n\u0000<>& ")
		emit(strings.Join(parts, " "), nt)
	}
	// several events through ONE hasher, as one connector consumer process converts them: each event's ID depends on
	// its own ID only
	for i := 0; i < p.pick(200, 5000); i++ {
		k := 2 + p.rng.Intn(4)
		parts := []string{"crts"}
		for j := 0; j < k; j++ {
			parts = append(parts, hx(crtString(p, 10)))
		}
		emit(strings.Join(parts, " "), true)
	}
}

func runConnRTs(kind string, a []string) string {
	var es []*workflow.ConnectorEvent
	for _, x := range a {
		es = append(es, &workflow.ConnectorEvent{ID: unhx(x)})
	}
	evs, err := workflow.VerifConnectorEventsToEvents(es)
	if err != nil {
		return "error " + hx(err.Error())
	}
	var out []string
	for _, e := range evs {
		out = append(out, fmt.Sprint(e.ID))
	}
	return strings.Join(out, " ")
}

func runConnRT(kind string, a []string) string {
	if kind == "crts" {
		return runConnRTs(kind, a)
	}
	created, zone, nh := atoi64(a[3]), atoi(a[4]), atoi(a[5])
	var hs map[string]string
	if nh >= 0 {
		hs = map[string]string{}
		for i := 0; i < nh; i++ {
			hs[unhx(a[6+2*i])] = unhx(a[7+2*i])
		}
	}
	ce := &workflow.ConnectorEvent{ID: unhx(a[0]), ForeignID: unhx(a[1]), Type: unhx(a[2]), Headers: hs,
		CreatedAt: time.Unix(0, created).In(time.FixedZone("z", zone))}
	e, err := workflow.VerifConnectorEventToEvent(ce)
	if err != nil {
		return "wrap-error " + hx(err.Error())
	}
	ce2, err := workflow.VerifStreamerEventToConnectorEvent(e)
	if err != nil {
		return fmt.Sprintf("%d %s %d unwrap-error %s", e.ID, hx(e.ForeignID), e.CreatedAt.UnixNano(), hx(err.Error()))
	}
	var keys []string
	for k := range ce2.Headers {
		keys = append(keys, k)
	}
	sort.Strings(keys)
	var hp []string
	for _, k := range keys {
		hp = append(hp, hx(k)+"="+hx(ce2.Headers[k]))
	}
	return fmt.Sprintf("%d %s %d id=%s fid=%s type=%s at=%d h=%s", e.ID, hx(e.ForeignID), e.CreatedAt.UnixNano(),
		hx(ce2.ID), hx(ce2.ForeignID), hx(ce2.Type), ce2.CreatedAt.UnixNano(), strings.Join(hp, ","))
}
