module verifharness

go 1.23.4

toolchain go1.23.5

require (
	github.com/luno/workflow v0.3.0
	github.com/luno/workflow/adapters/sqlstore v0.0.0
	github.com/luno/workflow/adapters/sqltimeout v0.0.0
	github.com/luno/workflow/adapters/webui v0.0.0
	k8s.io/utils v0.0.0-20240921022957-49e7df575cb6
)

require (
	github.com/beorn7/perks v1.0.1 // indirect
	github.com/cespare/xxhash/v2 v2.3.0 // indirect
	github.com/davecgh/go-spew v1.1.1 // indirect
	github.com/fatih/color v1.18.0 // indirect
	github.com/go-stack/stack v1.8.1 // indirect
	github.com/google/uuid v1.6.0 // indirect
	github.com/luno/jettison v0.0.0-20250307143025-a20772f9e9d9 // indirect
	github.com/mattn/go-colorable v0.1.13 // indirect
	github.com/mattn/go-isatty v0.0.20 // indirect
	github.com/munnerz/goautoneg v0.0.0-20191010083416-a7dc8b61c822 // indirect
	github.com/pmezard/go-difflib v1.0.0 // indirect
	github.com/prometheus/client_golang v1.20.4 // indirect
	github.com/prometheus/client_model v0.6.1 // indirect
	github.com/prometheus/common v0.55.0 // indirect
	github.com/prometheus/procfs v0.15.1 // indirect
	github.com/robfig/cron/v3 v3.0.1 // indirect
	github.com/stretchr/testify v1.10.0 // indirect
	golang.org/x/sys v0.31.0 // indirect
	golang.org/x/xerrors v0.0.0-20240903120638-7835f813f4da // indirect
	google.golang.org/protobuf v1.36.6 // indirect
	gopkg.in/yaml.v3 v3.0.1 // indirect
)

replace github.com/luno/workflow => /repo

replace github.com/luno/workflow/adapters/sqlstore => /repo/adapters/sqlstore

replace github.com/luno/workflow/adapters/sqltimeout => /repo/adapters/sqltimeout

replace github.com/luno/workflow/adapters/webui => /repo/adapters/webui
