package main

// memroles family: adapters/memrolescheduler under randomised concurrent acquire / cancel schedules.
//   mro a.<id>.<role>  c.<id>  ...        a = start Await(role) in its own goroutine, c = cancel that call's context
// Observation: "<max number of simultaneous live holders of one role> <number of Awaits that returned a lease>"
// after every context has finally been cancelled. The order in which waiters win is not determined; the model is an
// acceptor: at most one live holder per role at any time, and every Await eventually returns once holders cancel.

import (
	"context"
	"fmt"
	"strings"
	"sync"
	"sync/atomic"
	"time"

	"github.com/luno/workflow/adapters/memrolescheduler"
)

func runMemRoles(kind string, ops []string) string {
	rs := memrolescheduler.New()
	var mu sync.Mutex
	active := map[string]int{}
	maxOverlap := 0
	var acquired int64
	type call struct {
		role   string
		cancel context.CancelFunc // the caller's context
		lease  context.CancelFunc // the lease's cancel, once acquired
		held     bool
		released bool
		done     chan struct{}
	}
	calls := map[string]*call{}
	// release runs entirely under mu, so that a concurrent acquisition either sees the call as released or has been
	// counted (and is un-counted here) before the role can pass on
	release := func(c *call) {
		mu.Lock()
		defer mu.Unlock()
		if c.held {
			c.held = false
			active[c.role]--
		}
		c.released = true
		if c.lease != nil {
			c.lease()
		}
		c.cancel()
	}
	for _, op := range ops {
		f := strings.Split(op, ".")
		switch f[0] {
		case "a":
			ctx, cancel := context.WithCancel(context.Background())
			c := &call{role: "role" + f[2], cancel: cancel, done: make(chan struct{})}
			calls[f[1]] = c
			go func() {
				defer close(c.done)
				lctx, lcancel, err := rs.Await(ctx, c.role)
				if err != nil {
					return
				}
				mu.Lock()
				c.lease = lcancel
				if c.released {
					lcancel()
				} else if lctx.Err() == nil {
					c.held = true
					active[c.role]++
					if active[c.role] > maxOverlap {
						maxOverlap = active[c.role]
					}
				}
				mu.Unlock()
				atomic.AddInt64(&acquired, 1)
			}()
			time.Sleep(150 * time.Microsecond)
		case "c":
			if c := calls[f[1]]; c != nil {
				release(c)
				time.Sleep(150 * time.Microsecond)
			}
		}
	}
	// finally every caller gives up / releases, in turn, until all Awaits have returned
	deadline := time.Now().Add(3 * time.Second)
	for time.Now().Before(deadline) {
		pending := 0
		for _, c := range calls {
			select {
			case <-c.done:
				release(c)
			default:
				pending++
				release(c)
			}
		}
		if pending == 0 {
			break
		}
		for _, c := range calls {
			c.cancel()
		}
		time.Sleep(300 * time.Microsecond)
	}
	returned := 0
	for _, c := range calls {
		select {
		case <-c.done:
			returned++
		default:
		}
	}
	mu.Lock()
	defer mu.Unlock()
	return fmt.Sprintf("%d %d", maxOverlap, returned)
}

func genMemRoles(p *params, emit func(string, bool)) {
	r := p.rng
	for i := 0; i < p.pick(200, 2000); i++ {
		var ops []string
		n := 0
		for j := 0; j < 4+r.Intn(16); j++ {
			if n == 0 || r.Intn(3) != 0 {
				n++
				ops = append(ops, fmt.Sprintf("a.%d.%d", n, 1+r.Intn(2)))
			} else {
				ops = append(ops, fmt.Sprintf("c.%d", 1+r.Intn(n)))
			}
		}
		emit("mro "+strings.Join(ops, " "), true)
	}
}

func init() {
	families["memroles"] = &family{gen: genMemRoles, run: runMemRoles, workers: 4,
		rule: "mro: random acquire/cancel schedules (4..20 operations, 2 roles) on adapters/memrolescheduler with overlap counters; acceptor: at most one live holder per role, every Await returns once holders cancel"}
}
