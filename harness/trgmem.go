package main

// trgmem: Workflow.Trigger on the REAL in-memory record store (no background process runs: the role scheduler never grants a
// role), interleaved with writes to earlier runs. Trigger must refuse while the most recently CREATED run of the foreign ID is
// unfinished, whatever was written to older runs since (C09 composed with C17's Latest).
//   case: trgmem t.<fid> | w.<k>.<run state>   (k = k-th run created in this case, 1-based)
//   observation per op: t -> ok | inprog | err ; w -> ok | nf

import (
	"context"
	"errors"
	"fmt"
	"io"
	"strings"

	"github.com/luno/workflow"
	"github.com/luno/workflow/adapters/memrecordstore"
	"github.com/luno/workflow/adapters/memstreamer"
)

type neverRoles struct{}

func (neverRoles) Await(ctx context.Context, role string) (context.Context, context.CancelFunc, error) {
	<-ctx.Done()
	return nil, nil, ctx.Err()
}

func runTrgMem(kind string, ops []string) string {
	ctx, cancel := context.WithCancel(context.Background())
	store := memrecordstore.New()
	b := workflow.NewBuilder[Obj, st]("wf")
	b.AddCallback(st(1), func(ctx context.Context, r *workflow.Run[Obj, st], rd io.Reader) (st, error) { return st(2), nil }, st(2))
	w := b.Build(memstreamer.New(), store, neverRoles{}, workflow.WithLogger(nullLogger{}))
	w.Run(ctx)
	defer func() { cancel(); w.Stop() }()
	var created []string
	var out []string
	for _, op := range ops {
		f := strings.Split(op, ".")
		switch f[0] {
		case "t":
			id, err := w.Trigger(ctx, "f"+f[1])
			switch {
			case err == nil:
				created = append(created, id)
				out = append(out, "ok")
			case errors.Is(err, workflow.ErrWorkflowInProgress):
				out = append(out, "inprog")
			default:
				out = append(out, "err")
			}
		case "w":
			k := atoi(f[1])
			if k < 1 || k > len(created) {
				out = append(out, "nf")
				continue
			}
			rec, err := store.Lookup(ctx, created[k-1])
			must(err)
			rec.RunState = workflow.RunState(atoi(f[2]))
			rec.Meta.Version++
			must(store.Store(ctx, rec))
			out = append(out, "ok")
		default:
			panic("trgmem op " + op)
		}
	}
	return strings.Join(out, " ")
}

func genTrgMem(p *params, emit func(string, bool)) {
	r := p.rng
	// the composition that matters: run 1 finished, run 2 unfinished, run 1 written again (deletion), Trigger
	emit("trgmem t.1 w.1.5 t.1 w.1.7 w.1.6 t.1", true)
	emit("trgmem t.1 w.1.4 t.1 w.2.2 w.1.7 t.1 w.2.5 t.1", true)
	for i := 0; i < p.pick(300, 6000); i++ {
		var ops []string
		nt := 0
		n := 3 + r.Intn(12)
		for j := 0; j < n; j++ {
			if nt == 0 || r.Intn(2) == 0 {
				ops = append(ops, fmt.Sprintf("t.%d", 1+r.Intn(2)))
				nt++ // upper bound on the runs created
			} else {
				ops = append(ops, fmt.Sprintf("w.%d.%d", 1+r.Intn(nt), 1+r.Intn(7)))
			}
		}
		emit("trgmem "+strings.Join(ops, " "), true)
	}
}

func init() {
	families["trgmem"] = &family{gen: genTrgMem, run: runTrgMem,
		rule: "trgmem: Workflow.Trigger on the real memrecordstore (no background process), 2 foreign IDs, interleaved with run-state writes to any earlier run (all 7 states): refused exactly while the most recently created run of the foreign ID is unfinished"}
}
