package main

// trgmem: Workflow.Trigger on the REAL in-memory record store (no background process runs: the role scheduler never grants a
// role), interleaved with writes to earlier runs. Trigger must refuse while the most recently CREATED run of the foreign ID is
// unfinished, whatever was written to older runs since (C09 composed with C17's Latest).
//   case: trgmem t.<fid> | w.<k>.<run state>   (k = k-th run created in this case, 1-based)
//   observation per op: t -> ok | inprog | err ; w -> ok | nf

import (
	"context"
	"errors"
	"fmt"
	"io"
	"strings"

	"github.com/luno/workflow"
	"github.com/luno/workflow/adapters/memrecordstore"
	"github.com/luno/workflow/adapters/memstreamer"
)

type neverRoles struct{}

func (neverRoles) Await(ctx context.Context, role string) (context.Context, context.CancelFunc, error) {
	<-ctx.Done()
	return nil, nil, ctx.Err()
}

func runTrgMem(kind string, ops []string) string {
	ctx, cancel := context.WithCancel(context.Background())
	store := memrecordstore.New()
	b := workflow.NewBuilder[Obj, st]("wf")
	b.AddCallback(st(1), func(ctx context.Context, r *workflow.Run[Obj, st], rd io.Reader) (st, error) { return st(2), nil }, st(2))
	w := b.Build(memstreamer.New(), store, neverRoles{}, workflow.WithLogger(nullLogger{}))
	w.Run(ctx)
	// a second workflow of another name on the SAME record store (op u.<fid>): its runs of a foreign ID must not hide, nor be
	// hidden by, the first workflow's runs of that foreign ID
	b2 := workflow.NewBuilder[Obj, st]("wf2")
	b2.AddCallback(st(1), func(ctx context.Context, r *workflow.Run[Obj, st], rd io.Reader) (st, error) { return st(2), nil }, st(2))
	w2 := b2.Build(memstreamer.New(), store, neverRoles{}, workflow.WithLogger(nullLogger{}))
	w2.Run(ctx)
	defer func() { cancel(); w.Stop(); w2.Stop() }()
	// a third workflow on the same store that is never Run (op n.<fid>): Trigger must fail at once and write nothing
	b3 := workflow.NewBuilder[Obj, st]("wf3")
	b3.AddCallback(st(1), func(ctx context.Context, r *workflow.Run[Obj, st], rd io.Reader) (st, error) { return st(2), nil }, st(2))
	w3 := b3.Build(memstreamer.New(), store, neverRoles{}, workflow.WithLogger(nullLogger{}))
	var created []string
	var out []string
	for _, op := range ops {
		f := strings.Split(op, ".")
		switch f[0] {
		case "t", "u":
			var id string
			var err error
			if f[0] == "t" {
				id, err = w.Trigger(ctx, "f"+f[1])
			} else {
				id, err = w2.Trigger(ctx, "f"+f[1])
			}
			switch {
			case err == nil:
				created = append(created, id)
				out = append(out, "ok")
			case errors.Is(err, workflow.ErrWorkflowInProgress):
				out = append(out, "inprog")
			default:
				out = append(out, "err")
			}
		case "b":
			// a foreign ID that is not valid UTF-8: the outbox entry cannot be encoded, so the Store — and with it Trigger — must
			// fail as a whole: an error, and no run left behind to block the next Trigger of that foreign ID
			fid := string([]byte{0xff, 0xfe, byte(atoi(f[1]))})
			_, err := w.Trigger(ctx, fid)
			res := "ok"
			if err != nil {
				res = "err"
			}
			if _, lerr := store.Latest(ctx, "wf", fid); errors.Is(lerr, workflow.ErrRecordNotFound) {
				res += ":none"
			} else {
				res += ":wrote"
			}
			out = append(out, res)
		case "n":
			_, err := w3.Trigger(ctx, "f"+f[1])
			res := "ok"
			if err != nil {
				res = "err"
			}
			if _, lerr := store.Latest(ctx, "wf3", "f"+f[1]); errors.Is(lerr, workflow.ErrRecordNotFound) {
				res += ":none"
			} else {
				res += ":wrote"
			}
			out = append(out, res)
		case "w":
			k := atoi(f[1])
			if k < 1 || k > len(created) {
				out = append(out, "nf")
				continue
			}
			rec, err := store.Lookup(ctx, created[k-1])
			must(err)
			rec.RunState = workflow.RunState(atoi(f[2]))
			rec.Meta.Version++
			must(store.Store(ctx, rec))
			out = append(out, "ok")
		default:
			panic("trgmem op " + op)
		}
	}
	return strings.Join(out, " ")
}

func genTrgMem(p *params, emit func(string, bool)) {
	r := p.rng
	// the composition that matters: run 1 finished, run 2 unfinished, run 1 written again (deletion), Trigger
	emit("trgmem t.1 w.1.5 t.1 w.1.7 w.1.6 t.1", true)
	emit("trgmem t.1 w.1.4 t.1 w.2.2 w.1.7 t.1 w.2.5 t.1", true)
	// two workflows on one store, one foreign ID: each has its own latest run
	emit("trgmem t.1 u.1 t.1 u.1 w.1.5 u.1 t.1 w.2.4 u.1 t.1", true)
	// Trigger on a workflow that is not running: an error, nothing written
	emit("trgmem n.1 t.1 n.1 n.2 w.1.5 n.1", true)
	// a Trigger whose announcement cannot be encoded: an error, nothing written, twice in a row the same answer
	emit("trgmem b.1 b.1 t.1 b.2 w.1.5 b.1", true)
	for i := 0; i < p.pick(300, 6000); i++ {
		var ops []string
		nt := 0
		n := 3 + r.Intn(12)
		for j := 0; j < n; j++ {
			if nt == 0 || r.Intn(2) == 0 {
				if i%3 == 2 && r.Intn(2) == 0 {
					ops = append(ops, fmt.Sprintf("u.%d", 1+r.Intn(2)))
				} else {
					ops = append(ops, fmt.Sprintf("t.%d", 1+r.Intn(2)))
				}
				nt++ // upper bound on the runs created
			} else {
				ops = append(ops, fmt.Sprintf("w.%d.%d", 1+r.Intn(nt), 1+r.Intn(7)))
			}
		}
		emit("trgmem "+strings.Join(ops, " "), true)
	}
}

func init() {
	families["trgmem"] = &family{gen: genTrgMem, run: runTrgMem,
		rule: "trgmem: Workflow.Trigger on the real memrecordstore (no background process), 2 foreign IDs, in a third of the cases two workflows of different names sharing the store, interleaved with run-state writes to any earlier run (all 7 states): refused exactly while the most recently created run of the foreign ID is unfinished"}
}
