package main

// launch family: which background processes Run starts for a configuration, and under which role names.
//   launch <name-hex> <dpar> <steps st:par,..|-> <timeout statuses|-> <tstore 0|1> <connectors name:par,..|-> <hooks 3,4,5|-> <retry 0|1>
// observation: the roles requested from the role scheduler (sorted, hex), the number of registered process states, and
// whether a second build of the same workflow whose statuses have different display strings requests the same roles.

import (
	"context"
	"fmt"
	"io"
	"sort"
	"strings"
	"sync"
	"time"

	"github.com/luno/workflow"
	"github.com/luno/workflow/adapters/memrecordstore"
	"github.com/luno/workflow/adapters/memstreamer"
	"github.com/luno/workflow/adapters/memtimeoutstore"
)

type st2 int

func (s st2) String() string { return fmt.Sprintf("Completely Different %d Label", int(s)) }

type recRoles struct {
	mu    sync.Mutex
	roles []string
}

func (r *recRoles) Await(ctx context.Context, role string) (context.Context, context.CancelFunc, error) {
	r.mu.Lock()
	r.roles = append(r.roles, role)
	r.mu.Unlock()
	<-ctx.Done()
	return ctx, func() {}, ctx.Err()
}

func (r *recRoles) count() int {
	r.mu.Lock()
	defer r.mu.Unlock()
	return len(r.roles)
}

type nullConn struct{}

func (nullConn) Make(ctx context.Context, name string) (workflow.ConnectorConsumer, error) {
	<-ctx.Done()
	return nil, ctx.Err()
}

func launchOnce[S workflow.StatusType](a []string) ([]string, int) {
	name := unhx(a[0])
	dpar := atoi(a[1])
	b := workflow.NewBuilder[Obj, S](name)
	maxStatus := 0
	type sp struct{ s, par int }
	var steps []sp
	if a[2] != "-" {
		for _, x := range strings.Split(a[2], ",") {
			f := strings.Split(x, ":")
			steps = append(steps, sp{atoi(f[0]), atoi(f[1])})
			if atoi(f[0]) > maxStatus {
				maxStatus = atoi(f[0])
			}
		}
	}
	end := S(maxStatus + 100)
	for _, s := range steps {
		u := b.AddStep(S(s.s), func(ctx context.Context, r *workflow.Run[Obj, S]) (S, error) { return end, nil }, end)
		if s.par != 0 {
			u.WithOptions(workflow.ParallelCount(s.par))
		}
	}
	if a[3] != "-" {
		for _, x := range strings.Split(a[3], ",") {
			b.AddTimeout(S(atoi(x)), func(ctx context.Context, r *workflow.Run[Obj, S], now time.Time) (time.Time, error) { return time.Time{}, nil },
				func(ctx context.Context, r *workflow.Run[Obj, S], now time.Time) (S, error) { return end, nil }, end)
		}
	}
	if len(steps) == 0 && a[3] == "-" {
		b.AddCallback(S(1), func(ctx context.Context, r *workflow.Run[Obj, S], rd io.Reader) (S, error) { return end, nil }, end)
	}
	if a[5] != "-" {
		for _, x := range strings.Split(a[5], ",") {
			f := strings.Split(x, ":")
			var opts []workflow.Option
			if atoi(f[1]) != 0 {
				opts = append(opts, workflow.ParallelCount(atoi(f[1])))
			}
			b.AddConnector(f[0], nullConn{}, func(ctx context.Context, api workflow.API[Obj, S], e *workflow.ConnectorEvent) error { return nil }).WithOptions(opts...)
		}
	}
	if a[6] != "-" {
		for _, x := range strings.Split(a[6], ",") {
			h := func(ctx context.Context, r *workflow.TypedRecord[Obj, S]) error { return nil }
			switch x {
			case "3":
				b.OnPause(h)
			case "4":
				b.OnCancel(h)
			case "5":
				b.OnComplete(h)
			}
		}
	}
	rr := &recRoles{}
	opts := []workflow.BuildOption{workflow.WithLogger(nullLogger{}), workflow.WithDefaultOptions(workflow.ParallelCount(dpar))}
	if a[4] == "1" {
		opts = append(opts, workflow.WithTimeoutStore(memtimeoutstore.New()))
	}
	if a[7] == "0" {
		opts = append(opts, workflow.DisablePauseRetry())
	}
	w := b.Build(memstreamer.New(), memrecordstore.New(), rr, opts...)
	ctx, cancel := context.WithCancel(context.Background())
	w.Run(ctx)
	w.Run(ctx) // idempotent
	n := len(w.States())
	deadline := time.Now().Add(2 * time.Second)
	for rr.count() < n && time.Now().Before(deadline) {
		time.Sleep(200 * time.Microsecond)
	}
	time.Sleep(2 * time.Millisecond) // a process launched twice would ask once more
	cancel()
	w.Stop()
	roles := append([]string(nil), rr.roles...)
	sort.Strings(roles)
	return roles, n
}

func runLaunch(kind string, a []string) string {
	r1, n1 := launchOnce[st](a)
	r2, n2 := launchOnce[st2](a)
	var hs []string
	for _, r := range r1 {
		hs = append(hs, hx(r))
	}
	same := strings.Join(r1, "|") == strings.Join(r2, "|") && n1 == n2
	return fmt.Sprintf("%d %s %s", n1, b2s(same), strings.Join(hs, " "))
}

func genLaunch(p *params, emit func(string, bool)) {
	r := p.rng
	one := func(name string, dpar int, steps, tos string, ts int, conns, hooks string, retry int) {
		emit(fmt.Sprintf("launch %s %d %s %s %d %s %s %d", hx(name), dpar, steps, tos, ts, conns, hooks, retry), dpar >= 2 || conns != "-")
	}
	// the witness of F8: a default parallel count >= 2 with a connector that sets none
	one("wf", 3, "1:0", "-", 0, "c1:0", "-", 1)
	pars := []int{0, 1, 2, 3, 8}
	for _, dpar := range pars {
		for _, sp := range pars {
			for _, cp := range pars {
				for _, feat := range []int{0, 1, 2, 3} {
					tos, ts, hooks, retry := "-", 0, "-", 1
					if feat&1 == 1 {
						tos, ts, hooks = "2,5", 1, "3,5"
					}
					if feat&2 == 2 {
						retry = 0
						if tos != "-" {
							ts = 0 // timeouts configured without a timeout store are not allowed by Build; drop them
							tos = "-"
						}
						hooks = "4"
					}
					one("wf", dpar, fmt.Sprintf("1:%d,3:0", sp), tos, ts, fmt.Sprintf("c1:%d,c2:0", cp), hooks, retry)
				}
			}
		}
	}
	for i := 0; i < p.pick(150, 3000); i++ {
		var steps, conns []string
		for s := 1; s <= 1+r.Intn(3); s++ {
			steps = append(steps, fmt.Sprintf("%d:%d", s*2-1, []int{0, 0, 1, 2, 3, 5, 8}[r.Intn(7)]))
		}
		for c := 0; c < r.Intn(3); c++ {
			conns = append(conns, fmt.Sprintf("Conn_%c:%d", 'A'+c, []int{0, 0, 1, 2, 4, 8}[r.Intn(6)]))
		}
		tos, ts := "-", 0
		if r.Intn(2) == 0 {
			tos, ts = []string{"2", "2,4", "1"}[r.Intn(3)], 1
		}
		cs := "-"
		if len(conns) > 0 {
			cs = strings.Join(conns, ",")
		}
		one([]string{"wf", "My Flow", "x-y"}[r.Intn(3)], []int{0, 1, 2, 3, 4, 8}[r.Intn(6)], strings.Join(steps, ","), tos, ts, cs,
			[]string{"-", "3", "4,5", "3,4,5"}[r.Intn(4)], r.Intn(2))
	}
}

func init() {
	families["launch"] = &family{gen: genLaunch, run: runLaunch, workers: 8,
		rule: "launch: roles requested by Run for a configuration (default / per-step / per-connector parallel counts 0,1,2,3,8 x features; random configurations) vs the launch model; non-trivial = default count >= 2 or a connector present"}
}

// schedrej <running 0|1> <spec hex>: Schedule on a workflow that is not running, or with an invalid cron specification,
// must return an error at once and start nothing. Observation: "<rejected 0|1> <roles requested by a scheduler>".
func runSchedRej(kind string, a []string) string {
	b := workflow.NewBuilder[Obj, st]("wf")
	b.AddStep(st(1), func(ctx context.Context, r *workflow.Run[Obj, st]) (st, error) { return 0, nil }, st(2))
	rr := &recRoles{}
	w := b.Build(memstreamer.New(), memrecordstore.New(), rr, workflow.WithLogger(nullLogger{}))
	ctx, cancel := context.WithCancel(context.Background())
	defer cancel()
	if a[0] == "1" {
		w.Run(ctx)
		defer w.Stop()
		defer cancel()
	}
	ret := make(chan error, 1)
	go func() { ret <- w.Schedule("f1", unhx(a[1])) }()
	rejected := 0
	select {
	case err := <-ret:
		if err != nil {
			rejected = 1
		}
	case <-time.After(150 * time.Millisecond):
	}
	time.Sleep(5 * time.Millisecond)
	n := 0
	rr.mu.Lock()
	for _, r := range rr.roles {
		if strings.Contains(r, "scheduler") {
			n++
		}
	}
	rr.mu.Unlock()
	return fmt.Sprintf("%d %d", rejected, n)
}

func init() {
	families["schedrej"] = &family{run: runSchedRej, workers: 4,
		gen: func(p *params, emit func(string, bool)) {
			for _, running := range []string{"0", "1"} {
				for _, spec := range []string{"* * * * *", "@hourly", "not a spec", "* * * *", "61 * * * *", ""} {
					emit(fmt.Sprintf("schedrej %s %s", running, hx(spec)), true)
				}
			}
		},
		rule: "schedrej: Schedule on a workflow that is not running / with an invalid cron specification returns an error immediately and starts no process (2 x 6 cases, exhaustive over the grid)"}
}
