package main

// Adapter families: operation sequences against the bundled in-memory adapters (memrecordstore, memstreamer and its
// connector, memtimeoutstore). The observation of every operation is compared with the reference models of
// coq/model/Stores.v, Streams.v, Timeouts.v (the contracts of store.go / eventstreamer.go / timeout.go).
//
//	ms  S.wf.fid.run.state.status.seed.created.ver.mut  L.run.mut  T.wf.fid.mut  O.wf.limit  D.oid  Q.wf.off.lim.desc.fids.statuses.states
//	mst s.topic.payload  n.h.topic.name.latest  r.h  a.h          mco <k preloaded events> then n.h.0.name.0 r.h a.h
//	mto c.wf.fid.run.status.expire  m.id  x.id  v.wf.status.now  l.wf

import (
	"context"
	"encoding/json"
	"fmt"
	"math/rand"
	"strings"
	"sync"
	"time"

	"github.com/luno/workflow"
	"github.com/luno/workflow/adapters/memrecordstore"
	"github.com/luno/workflow/adapters/memstreamer"
	"github.com/luno/workflow/adapters/memtimeoutstore"
)

func wfName(n int) string {
	if n == 0 {
		return ""
	}
	return fmt.Sprintf("wf%d", n)
}
func unName(prefix, s string) int {
	if s == "" {
		return 0
	}
	return atoi(strings.TrimPrefix(s, prefix))
}

func storeRecTok(r *workflow.Record) string { return storeRecTokC(r, true) }

// withCreated=false: the store stamps CreatedAt itself (SQL: created_at=now()), so it is not compared
func storeRecTokC(r *workflow.Record, withCreated bool) string {
	var o Obj
	seed := -999
	if err := json.Unmarshal(r.Object, &o); err == nil {
		seed = o.Seed
	}
	created := int64(0)
	if withCreated {
		created = int64(r.CreatedAt.Sub(simBase))
	}
	return fmt.Sprintf("%d.%d.%d.%d.%d.%d.%d.%d", unName("wf", r.WorkflowName), unName("f", r.ForeignID), unName("r", r.RunID),
		int(r.RunState), r.Status, seed, created, r.Meta.Version)
}

func splitVals(s string) []string {
	if s == "-" {
		return nil
	}
	return strings.Split(s, ",")
}

// recordStoreOps drives any workflow.RecordStore with the "ms" operation language.
func releaseStoreOids(store workflow.RecordStore) {
	storeOidsMu.Lock()
	delete(storeOids, store)
	storeOidsMu.Unlock()
}

func recordStoreOps(store workflow.RecordStore, ops []string) string {
	defer releaseStoreOids(store)
	return recordStoreOpsCreated(store, ops, true)
}

// outbox entry numbering must survive across calls for one store
var storeOids = map[workflow.RecordStore]*oidState{}
var storeOidsMu sync.Mutex

type oidState struct {
	oids map[string]int
	next int
	wfs  map[string]bool
}

func recordStoreOpsCreated(store workflow.RecordStore, ops []string, withCreated bool) string {
	ctx := context.Background()
	// the numbering state lives as long as the caller uses the store; callers that issue their operations one call at a
	// time (the SQL family) release it with releaseStoreOids when the case is over. (An earlier version purged the whole
	// table when it grew: with several workers that dropped the state of stores still in use — entry numbers turned 0.)
	storeOidsMu.Lock()
	stt := storeOids[store]
	if stt == nil {
		stt = &oidState{oids: map[string]int{}, next: 1, wfs: map[string]bool{}}
		storeOids[store] = stt
	}
	storeOidsMu.Unlock()
	storeRecTok := func(r *workflow.Record) string { return storeRecTokC(r, withCreated) }
	var out []string
	oids := stt.oids
	wfs := stt.wfs
	for _, op := range ops {
		f := strings.Split(op, ".")
		switch f[0] {
		case "S", "SB":
			obj, _ := json.Marshal(newObj(atoi(f[6])))
			fid := "f" + f[2]
			if f[0] == "SB" {
				// a foreign ID that is not valid UTF-8: the outbox entry cannot be encoded (protobuf string field), so Store
				// must fail as a whole — no record, no entry
				fid += "\xff\xfe"
			}
			r := &workflow.Record{WorkflowName: wfName(atoi(f[1])), ForeignID: fid, RunID: "r" + f[3], RunState: workflow.RunState(atoi(f[4])),
				Status: atoi(f[5]), Object: obj, CreatedAt: simBase.Add(time.Duration(atoi64(f[7]))), UpdatedAt: simBase.Add(time.Duration(atoi64(f[7]))),
				Meta: workflow.Meta{Version: uint(atoi(f[8]))}}
			wfs[r.WorkflowName] = true
			err := store.Store(ctx, r)
			if err != nil {
				out = append(out, "err")
			} else {
				out = append(out, "ok")
			}
			// number the new outbox entry (entries are numbered in the order of the Store calls)
			for w := range wfs {
				evs, _ := store.ListOutboxEvents(ctx, w, 1<<30)
				for _, e := range evs {
					if _, ok := oids[e.ID]; !ok {
						oids[e.ID] = stt.next
						stt.next++
					}
				}
			}
			switch f[9] {
			case "1": // the caller keeps using its record
				r.Status = 77
				r.RunState = workflow.RunStateCancelled
				r.Meta.Version = 99
			case "2": // the caller re-uses the object buffer
				for i := range r.Object {
					if r.Object[i] >= '0' && r.Object[i] <= '8' {
						r.Object[i] = '9'
					}
				}
			}
		case "L", "T":
			var r *workflow.Record
			var err error
			mut := ""
			if f[0] == "L" {
				r, err = store.Lookup(ctx, "r"+f[1])
				mut = f[2]
			} else {
				r, err = store.Latest(ctx, wfName(atoi(f[1])), "f"+f[2])
				mut = f[3]
			}
			if err != nil {
				if err == workflow.ErrRecordNotFound || strings.Contains(err.Error(), "not found") {
					out = append(out, "nf")
				} else {
					out = append(out, "err")
				}
				continue
			}
			out = append(out, "rec:"+storeRecTok(r))
			if mut == "1" {
				r.Status = 55
				r.Meta.Version = 98
				for i := range r.Object {
					if r.Object[i] >= '0' && r.Object[i] <= '8' {
						r.Object[i] = '9'
					}
				}
			}
		case "O":
			evs, err := store.ListOutboxEvents(ctx, wfName(atoi(f[1])), atoi64(f[2]))
			if err != nil {
				out = append(out, "err")
				continue
			}
			var ts []string
			for _, e := range evs {
				run, typ, h, derr := workflow.VerifDecodeOutboxData(e.Data)
				if derr != nil {
					ts = append(ts, "undecodable")
					continue
				}
				ts = append(ts, fmt.Sprintf("%d/%d/%s/%d/%d/%d/%s/%s", oids[e.ID], unName("wf", e.WorkflowName), topicTokN(h["topic"], h["workflow_name"]),
					unName("r", run), unName("f", h["foreign_id"]), typ, h["run_state"], h["record_version"]))
			}
			out = append(out, "ob:"+strings.Join(ts, ","))
		case "D":
			id := "no-such-entry"
			for k, v := range oids {
				if v == atoi(f[1]) {
					id = k
				}
			}
			if err := store.DeleteOutboxEvent(ctx, id); err != nil {
				out = append(out, "err")
			} else {
				out = append(out, "ok")
			}
		case "Q":
			order := workflow.OrderTypeAscending
			if f[4] == "1" {
				order = workflow.OrderTypeDescending
			}
			var fs []workflow.RecordFilter
			if v := splitVals(f[5]); v != nil {
				var ids []string
				for _, x := range v {
					ids = append(ids, "f"+x)
				}
				fs = append(fs, workflow.FilterByForeignID(ids...))
			}
			if v := splitVals(f[6]); v != nil {
				var xs []int
				for _, x := range v {
					xs = append(xs, atoi(x))
				}
				fs = append(fs, workflow.FilterByStatus(xs...))
			}
			if v := splitVals(f[7]); v != nil {
				var xs []workflow.RunState
				for _, x := range v {
					xs = append(xs, workflow.RunState(atoi(x)))
				}
				fs = append(fs, workflow.FilterByRunState(xs...))
			}
			rs, err := store.List(ctx, wfName(atoi(f[1])), atoi64(f[2]), atoi(f[3]), order, fs...)
			if err != nil {
				out = append(out, "err")
				continue
			}
			var ts []string
			for i := range rs {
				ts = append(ts, storeRecTok(&rs[i]))
			}
			out = append(out, "ls:"+strings.Join(ts, ","))
		default:
			panic("bad ms op " + op)
		}
	}
	return strings.Join(out, " ")
}

// topic token relative to the workflow name in the header
func topicTokN(topic, wf string) string {
	switch {
	case topic == wf+"-delete":
		return "d"
	case topic == wf+"-run-state-change":
		return "r"
	case strings.HasPrefix(topic, wf+"-"):
		return "s" + strings.TrimPrefix(topic, wf+"-")
	}
	return "?" + topic
}

func runMemStore(kind string, ops []string) string {
	return recordStoreOps(memrecordstore.New(memrecordstore.WithClock(simClock{&sim{}})), ops)
}

// ---------------------------------------------------------------- generators for the record-store language
func genStoreOps(r *rand.Rand, n int, mutate bool) []string {
	var ops []string
	runOwner := map[int][2]int{}
	nrun := 0
	for i := 0; i < n; i++ {
		switch k := r.Intn(12); {
		case k < 4:
			var run int
			if nrun == 0 || r.Intn(3) == 0 {
				nrun++
				run = nrun
				runOwner[run] = [2]int{1 + r.Intn(2), fidPool[r.Intn(len(fidPool))]}
			} else {
				run = 1 + r.Intn(nrun)
			}
			o := runOwner[run]
			mut := 0
			if mutate && r.Intn(3) == 0 {
				mut = 1 + r.Intn(2)
			}
			kind := "S"
			if r.Intn(10) == 0 {
				kind = "SB" // Store whose outbox entry cannot be encoded: fails, nothing stored
				mut = 0
			}
			ops = append(ops, fmt.Sprintf("%s.%d.%d.%d.%d.%d.%d.%d.%d.%d", kind, o[0], o[1], run, 1+r.Intn(7), statusPool[r.Intn(len(statusPool))], r.Intn(9), run*10, 1+r.Intn(5), mut))
		case k < 6:
			m := 0
			if mutate && r.Intn(2) == 0 {
				m = 1
			}
			ops = append(ops, fmt.Sprintf("L.%d.%d", 1+r.Intn(nrun+1), m))
		case k < 8:
			m := 0
			if mutate && r.Intn(2) == 0 {
				m = 1
			}
			ops = append(ops, fmt.Sprintf("T.%d.%d.%d", 1+r.Intn(2), fidPool[r.Intn(len(fidPool))], m))
		case k < 9:
			ops = append(ops, fmt.Sprintf("O.%d.%d", 1+r.Intn(2), []int{1, 2, 3, 1000}[r.Intn(4)]))
		case k < 10:
			ops = append(ops, fmt.Sprintf("D.%d", 1+r.Intn(i+2)))
		default:
			ops = append(ops, genListOp(r))
		}
	}
	return ops
}

// value pools: identifiers and statuses whose decimal forms are suffixes / prefixes of one another (2, 12, 22, 32; 1, 11, 21),
// so that a filter compared by anything but whole values shows
var fidPool = []int{1, 2, 11, 21, 12}
var statusPool = []int{1, 2, 3, 12, 13, 22, 32}
var statePool = []int{1, 2, 3, 4, 5, 6, 7}

func genVals(r *rand.Rand, pool []int) string {
	switch r.Intn(4) {
	case 0, 1:
		return "-"
	case 2:
		return itoa(pool[r.Intn(len(pool))])
	}
	n := 2 + r.Intn(2)
	var v []string
	for i := 0; i < n; i++ {
		v = append(v, itoa(pool[r.Intn(len(pool))]))
	}
	return strings.Join(v, ",")
}

func genListOp(r *rand.Rand) string {
	return fmt.Sprintf("Q.%d.%d.%d.%d.%s.%s.%s", r.Intn(3), r.Intn(6), []int{0, 1, 2, 3, 5, 30}[r.Intn(6)], r.Intn(2), genVals(r, fidPool), genVals(r, statusPool), genVals(r, statePool))
}

func genMemStore(p *params, emit func(string, bool)) {
	r := p.rng
	// the witnesses of the repaired defects (kept first): Latest after an update of an older run (F3), caller mutation
	// after Store (F4) and of a returned object (F15), descending pages (F5)
	emit("ms S.1.1.1.5.3.1.10.4.0 S.1.1.2.2.1.2.20.1.0 S.1.1.1.7.3.1.10.5.0 T.1.1.0", true)
	emit("ms S.1.1.1.2.1.4.10.1.1 L.1.0 T.1.1.0 Q.1.0.0.0.-.-.-", true)
	emit("ms S.1.1.1.2.1.4.10.1.2 L.1.0", true)
	// a Store that cannot build its outbox entry stores nothing: new run, and update of an existing run
	emit("ms SB.1.1.1.2.1.4.10.1.0 L.1.0 T.1.1.0 O.1.10 Q.1.0.0.0.-.-.-", true)
	emit("ms S.1.1.1.2.1.4.10.1.0 SB.1.1.1.5.2.6.10.2.0 L.1.0 T.1.1.0 O.1.10 Q.1.0.0.0.-.-.-", true)
	emit("ms S.1.1.1.2.1.4.10.1.0 L.1.1 L.1.0 T.1.1.1 T.1.1.0", true)
	emit("ms S.1.1.1.2.1.1.10.1.0 S.1.1.2.2.1.2.20.1.0 S.1.1.3.2.1.3.30.1.0 S.1.1.4.2.1.4.40.1.0 S.1.1.5.2.1.5.50.1.0 Q.1.0.2.1.-.-.- Q.1.2.2.1.-.-.- Q.1.4.2.1.-.-.- Q.1.0.2.0.-.-.- Q.1.2.2.0.-.-.-", true)
	// exhaustive short sequences over a small alphabet
	alpha := []string{"S.1.1.1.2.1.1.10.1.0", "S.1.1.2.2.2.2.20.1.0", "S.1.1.1.5.2.1.10.2.0", "S.2.1.3.2.1.3.30.1.0", "L.1.0", "L.2.0", "T.1.1.0", "T.2.1.0",
		"O.1.1", "O.1.1000", "D.1", "D.2", "Q.1.0.1.1.-.-.-", "Q.0.1.2.0.-.-.-", "Q.1.0.0.1.1.-.2,5"}
	depth := p.pick(3, 4)
	var rec func(prefix []string, d int)
	rec = func(prefix []string, d int) {
		if d == 0 {
			emit("ms "+strings.Join(prefix, " "), true)
			return
		}
		for _, a := range alpha {
			rec(append(append([]string{}, prefix...), a), d-1)
		}
	}
	rec(nil, depth)
	for i := 0; i < p.pick(600, 20000); i++ {
		ops := genStoreOps(r, 5+r.Intn(55), true)
		// a List grid on the reached state
		for j := 0; j < 6; j++ {
			ops = append(ops, genListOp(r))
		}
		emit("ms "+strings.Join(ops, " "), true)
	}
}

// ---------------------------------------------------------------- memstreamer
func runMemStream(kind string, ops []string) string {
	ctx := context.Background()
	var out []string
	type rh struct {
		r   workflow.EventReceiver
		ack workflow.Ack
	}
	hs := map[string]*rh{}
	var recvFn func(h string) string
	var st *memstreamer.StreamConstructor
	type ch struct {
		c   workflow.ConnectorConsumer
		ack workflow.Ack
	}
	chs := map[string]*ch{}
	var conn workflow.ConnectorConstructor
	if kind == "mco" {
		k := atoi(ops[0])
		ops = ops[1:]
		var evs []workflow.ConnectorEvent
		for i := 0; i < k; i++ {
			evs = append(evs, workflow.ConnectorEvent{ID: itoa(100 + i), ForeignID: itoa(100 + i), Type: "t"})
		}
		conn = memstreamer.NewConnector(evs)
	} else {
		st = memstreamer.New()
	}
	tryRecv := func(f func(ctx context.Context) (string, workflow.Ack, error)) (string, workflow.Ack) {
		for _, d := range []time.Duration{15 * time.Millisecond, 120 * time.Millisecond} {
			c, cancel := context.WithTimeout(ctx, d)
			tok, ack, err := f(c)
			cancel()
			if err == nil {
				return tok, ack
			}
			if c.Err() == nil {
				return "err", nil
			}
		}
		return "blk", nil
	}
	_ = recvFn
	for _, op := range ops {
		f := strings.Split(op, ".")
		switch f[0] {
		case "s":
			sd, err := st.NewSender(ctx, "t"+f[1])
			must(err)
			must(sd.Send(ctx, f[2], 0, map[workflow.Header]string{workflow.HeaderTopic: "t" + f[1]}))
			must(sd.Close())
			out = append(out, "ok")
		case "n":
			if kind == "mco" {
				c, err := conn.Make(ctx, "n"+f[3])
				must(err)
				chs[f[1]] = &ch{c: c}
				out = append(out, "ok")
				continue
			}
			var opts []workflow.ReceiverOption
			if f[4] == "1" {
				opts = append(opts, workflow.StreamFromLatest())
			}
			// optional 6th field (ignored by the model): the receiver is also given a poll frequency, before (1) or after (2)
			// the other option — options are independent of one another and of their order
			if len(f) > 5 && f[5] == "1" {
				opts = append([]workflow.ReceiverOption{workflow.WithReceiverPollFrequency(time.Millisecond)}, opts...)
			} else if len(f) > 5 && f[5] == "2" {
				opts = append(opts, workflow.WithReceiverPollFrequency(time.Millisecond))
			}
			r, err := st.NewReceiver(ctx, "t"+f[2], "n"+f[3], opts...)
			must(err)
			hs[f[1]] = &rh{r: r}
			out = append(out, "ok")
		case "r":
			if kind == "mco" {
				h := chs[f[1]]
				if h == nil {
					out = append(out, "noh")
					continue
				}
				tok, ack := tryRecv(func(c context.Context) (string, workflow.Ack, error) {
					e, a, err := h.c.Recv(c)
					if err != nil {
						return "", nil, err
					}
					return fmt.Sprintf("ev:%d.0.%s", atoi(e.ID)-99, e.ID), a, nil
				})
				if ack != nil {
					h.ack = ack
				}
				out = append(out, tok)
				continue
			}
			h := hs[f[1]]
			if h == nil {
				out = append(out, "noh")
				continue
			}
			tok, ack := tryRecv(func(c context.Context) (string, workflow.Ack, error) {
				e, a, err := h.r.Recv(c)
				if err != nil {
					return "", nil, err
				}
				return fmt.Sprintf("ev:%d.%s.%s", e.ID, strings.TrimPrefix(e.Headers[workflow.HeaderTopic], "t"), e.ForeignID), a, nil
			})
			if ack != nil {
				h.ack = ack
			}
			out = append(out, tok)
		case "a":
			var ack workflow.Ack
			if kind == "mco" {
				if h := chs[f[1]]; h != nil {
					ack = h.ack
				}
			} else if h := hs[f[1]]; h != nil {
				ack = h.ack
			}
			if ack == nil {
				out = append(out, "noh")
				continue
			}
			must(ack())
			out = append(out, "ok")
		default:
			panic("bad mst op " + op)
		}
	}
	return strings.Join(out, " ")
}

func genMemStream(p *params, emit func(string, bool)) {
	r := p.rng
	// witness of F11: StreamFromLatest on an empty stream must deliver what is sent afterwards
	emit("mst n.1.1.1.1 s.1.7 s.1.8 r.1 a.1 r.1", true)
	emit("mst s.1.5 n.1.1.1.1 r.1 s.1.7 r.1 a.1 n.2.1.1.1 r.2", true)
	// late and repeated acknowledgements: an Ack commits the position after ITS event, whatever was committed meanwhile
	emit("mst s.1.1 s.1.2 s.1.3 n.1.1.1.0 r.1 n.2.1.1.0 r.2 a.2 a.1 r.2 a.2 r.2", true)
	emit("mst s.1.1 s.1.2 s.1.3 n.1.1.1.0 r.1 a.1 a.1 r.1 a.1 r.1", true)
	emit("mco 3 n.1.0.1.0 r.1 n.2.0.1.0 r.2 a.2 a.1 r.2 a.2 r.2", true)
	emit("mco 3 n.1.0.1.0 r.1 a.1 a.1 r.1 a.1 r.1", true)
	// reading is not storing (single topic): a receiver WITHOUT the option reads under a name — an event it never acknowledges,
	// or an empty stream —, then a receiver of the same name WITH StreamFromLatest is made: the name still has no stored position
	emit("mst s.1.1 s.1.2 n.1.1.1.0 r.1 n.2.1.1.1 s.1.3 r.2 a.2 r.2", true)
	emit("mst n.1.1.1.0 r.1 s.1.1 n.2.1.1.1 s.1.2 r.2 a.2 r.2", true)
	emit("mst s.1.1 n.1.1.1.0 r.1 r.1 n.2.1.1.1 s.1.3 r.2 n.3.1.1.0 r.3", true)
	// single-topic sequences with the option chosen freely per receiver (C19_refines_single_topic)
	for i := 0; i < p.pick(150, 4000); i++ {
		var ops []string
		nh := 0
		for j := 0; j < 4+r.Intn(20); j++ {
			switch k := r.Intn(10); {
			case k < 3:
				ops = append(ops, fmt.Sprintf("s.1.%d", r.Intn(90)))
			case k < 5:
				nh++
				ops = append(ops, fmt.Sprintf("n.%d.1.%d.%d.%d", nh, 1+r.Intn(2), r.Intn(2), r.Intn(3)))
			case k < 8:
				ops = append(ops, fmt.Sprintf("r.%d", 1+r.Intn(nh+1)))
			default:
				ops = append(ops, fmt.Sprintf("a.%d", 1+r.Intn(nh+1)))
			}
		}
		emit("mst "+strings.Join(ops, " "), true)
	}
	for i := 0; i < p.pick(150, 3000); i++ {
		ops := []string{}
		for j := 0; j < 3+r.Intn(4); j++ {
			ops = append(ops, fmt.Sprintf("s.1.%d", j+1))
		}
		ops = append(ops, "n.1.1.1.0", "n.2.1.1.0")
		for j := 0; j < 6+r.Intn(8); j++ {
			ops = append(ops, []string{"r.1", "r.2", "a.1", "a.2"}[r.Intn(4)])
		}
		emit("mst "+strings.Join(ops, " "), true)
		cops := []string{itoa(3 + r.Intn(4)), "n.1.0.1.0", "n.2.0.1.0"}
		for j := 0; j < 6+r.Intn(8); j++ {
			cops = append(cops, []string{"r.1", "r.2", "a.1", "a.2"}[r.Intn(4)])
		}
		emit("mco "+strings.Join(cops, " "), true)
	}
	alpha := []string{"s.1.7", "s.2.8", "n.1.1.1.0", "n.2.1.1.0", "n.3.2.2.1.2", "r.1", "r.2", "r.3", "a.1", "a.2", "a.3"}
	depth := p.pick(4, 5)
	var rec func(prefix []string, d int)
	rec = func(prefix []string, d int) {
		if d == 0 {
			emit("mst "+strings.Join(prefix, " "), true)
			return
		}
		for _, a := range alpha {
			rec(append(append([]string{}, prefix...), a), d-1)
		}
	}
	// exhaustive sequences, from an empty and from a pre-filled log; blocked receives cost real time, so the
	// exhaustive part is sampled in the quick tier
	var all []string
	emitAll := func(s string, b bool) { all = append(all, s) }
	_ = emitAll
	rec(nil, depth)
	for i := 0; i < p.pick(500, 20000); i++ {
		var ops []string
		nameTopic := map[int]int{}
		nameLatest := map[int]int{}
		if r.Intn(2) == 0 {
			for j := 0; j < 1+r.Intn(4); j++ {
				ops = append(ops, fmt.Sprintf("s.%d.%d", 1+r.Intn(2), r.Intn(90)))
			}
		}
		nh := 0
		for j := 0; j < 5+r.Intn(45); j++ {
			switch k := r.Intn(10); {
			case k < 3:
				ops = append(ops, fmt.Sprintf("s.%d.%d", 1+r.Intn(2), r.Intn(90)))
			case k < 5:
				name := 1 + r.Intn(3)
				if _, ok := nameTopic[name]; !ok {
					nameTopic[name] = 1 + r.Intn(2)
					nameLatest[name] = r.Intn(2)
				}
				nh++
				ops = append(ops, fmt.Sprintf("n.%d.%d.%d.%d.%d", nh, nameTopic[name], name, nameLatest[name], r.Intn(3)))
			case k < 8:
				ops = append(ops, fmt.Sprintf("r.%d", 1+r.Intn(nh+1)))
			default:
				ops = append(ops, fmt.Sprintf("a.%d", 1+r.Intn(nh+1)))
			}
		}
		emit("mst "+strings.Join(ops, " "), true)
	}
	for i := 0; i < p.pick(40, 1000); i++ {
		ops := []string{itoa(r.Intn(5))}
		nh := 0
		for j := 0; j < 3+r.Intn(12); j++ {
			switch k := r.Intn(6); {
			case k < 2:
				nh++
				ops = append(ops, fmt.Sprintf("n.%d.0.%d.0", nh, 1+r.Intn(2)))
			case k < 4:
				ops = append(ops, fmt.Sprintf("r.%d", 1+r.Intn(nh+1)))
			default:
				ops = append(ops, fmt.Sprintf("a.%d", 1+r.Intn(nh+1)))
			}
		}
		emit("mco "+strings.Join(ops, " "), true)
	}
}

// ---------------------------------------------------------------- timeout stores
func timeoutStoreOps(ts workflow.TimeoutStore, lister func(ctx context.Context, wf string) ([]workflow.TimeoutRecord, error), ops []string) string {
	ctx := context.Background()
	var out []string
	tl := func(l []workflow.TimeoutRecord) string {
		var s []string
		for _, t := range l {
			s = append(s, fmt.Sprintf("%d/%d/%d/%d/%d/%s/%d", t.ID, unName("wf", t.WorkflowName), unName("f", t.ForeignID), unName("r", t.RunID), t.Status, b2s(t.Completed), int64(t.ExpireAt.Sub(simBase))))
		}
		return "tl:" + strings.Join(s, ",")
	}
	res := func(err error) {
		if err != nil {
			out = append(out, "err")
		} else {
			out = append(out, "ok")
		}
	}
	for _, op := range ops {
		f := strings.Split(op, ".")
		switch f[0] {
		case "c":
			res(ts.Create(ctx, wfName(atoi(f[1])), "f"+f[2], "r"+f[3], atoi(f[4]), simBase.Add(time.Duration(atoi64(f[5])))))
		case "m":
			res(ts.Complete(ctx, atoi64(f[1])))
		case "x":
			res(ts.Cancel(ctx, atoi64(f[1])))
		case "v":
			l, err := ts.ListValid(ctx, wfName(atoi(f[1])), atoi(f[2]), simBase.Add(time.Duration(atoi64(f[3]))))
			if err != nil {
				out = append(out, "err")
			} else {
				out = append(out, tl(l))
			}
		case "l":
			l, err := lister(ctx, wfName(atoi(f[1])))
			if err != nil {
				out = append(out, "err")
			} else {
				out = append(out, tl(l))
			}
		default:
			panic("bad mto op " + op)
		}
	}
	return strings.Join(out, " ")
}

func runMemTimeout(kind string, ops []string) string {
	s := memtimeoutstore.New(memtimeoutstore.WithClock(simClock{&sim{}}))
	return timeoutStoreOps(s, s.List, ops)
}

func genTimeoutOps(r *rand.Rand, n int) []string {
	var ops []string
	created := 0
	for j := 0; j < n; j++ {
		switch k := r.Intn(10); {
		case k < 4:
			created++
			ops = append(ops, fmt.Sprintf("c.%d.%d.%d.%d.%d", 1+r.Intn(2), 1+r.Intn(2), 1+r.Intn(3), 1+r.Intn(2), []int{0, 50, 100, 150}[r.Intn(4)]))
		case k < 5:
			ops = append(ops, fmt.Sprintf("m.%d", 1+r.Intn(created+2)))
		case k < 6:
			ops = append(ops, fmt.Sprintf("x.%d", 1+r.Intn(created+2)))
		case k < 9:
			ops = append(ops, fmt.Sprintf("v.%d.%d.%d", 1+r.Intn(2), 1+r.Intn(2), []int{-1, 0, 49, 50, 51, 100, 200}[r.Intn(7)]))
		default:
			ops = append(ops, fmt.Sprintf("l.%d", 1+r.Intn(2)))
		}
	}
	return ops
}

func genMemTimeout(p *params, emit func(string, bool)) {
	r := p.rng
	// witnesses of F12: cancelling an unknown ID must not touch another timer / must not panic on an empty store
	emit("mto c.1.1.1.1.50 c.1.1.2.1.50 x.999 v.1.1.100 l.1", true)
	emit("mto x.5 l.1", true)
	alpha := []string{"c.1.1.1.1.50", "c.1.2.2.2.100", "c.2.1.3.1.50", "m.1", "m.2", "m.9", "x.1", "x.2", "x.9", "v.1.1.50", "v.1.1.49", "v.1.2.200", "v.2.1.60", "l.1"}
	depth := p.pick(4, 5)
	var rec func(prefix []string, d int)
	rec = func(prefix []string, d int) {
		if d == 0 {
			emit("mto "+strings.Join(prefix, " "), true)
			return
		}
		for _, a := range alpha {
			rec(append(append([]string{}, prefix...), a), d-1)
		}
	}
	rec(nil, depth)
	for i := 0; i < p.pick(500, 20000); i++ {
		emit("mto "+strings.Join(genTimeoutOps(r, 5+r.Intn(35)), " "), true)
	}
}

func init() {
	families["memstore"] = &family{gen: genMemStore, run: runMemStore,
		rule: "ms: operation sequences on adapters/memrecordstore vs the reference store; exhaustive short sequences over a 15-op alphabet + random sequences with caller mutations and a List grid; every case non-trivial"}
	families["memstream"] = &family{gen: genMemStream, run: func(k string, a []string) string { return runMemStream(k, a) },
		rule: "mst/mco: operation sequences on adapters/memstreamer (and its connector) vs the reference stream; exhaustive short sequences over an 11-op alphabet + random; every case non-trivial"}
	families["memtimeout"] = &family{gen: genMemTimeout, run: runMemTimeout,
		rule: "mto: operation sequences (incl. unknown IDs) on adapters/memtimeoutstore vs the reference timer list; exhaustive short sequences over a 14-op alphabet + random"}
}
