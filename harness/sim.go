package main

// Deterministic simulation of the adapters (record store with outbox, event streamer, timeout store, role scheduler,
// clock). Every adapter call of a background process parks on a gate until the driver grants it, so exactly one
// goroutine of the engine runs at a time; the driver chooses the schedule and the fault of every call.
// The semantics implemented here are those of coq/model/EngineBase.v (RefStore / RefStream / RefTimeout).

import (
	"sort"
	"math/big"
	"sync/atomic"
	"context"
	"encoding/json"
	"errors"
	"fmt"
	"regexp"
	"strconv"
	"strings"
	"sync"
	"time"

	"github.com/luno/workflow"
	"k8s.io/utils/clock"
)

var simBase = time.Unix(1_700_000_000, 0).UTC()

var errInjectedPlain = errors.New("injected fault")

// an adapter with its own per-call timeout reports failures that wrap context.DeadlineExceeded (option dl=1)
var errInjectedDeadline = fmt.Errorf("adapter call timed out: %w", context.DeadlineExceeded)

const (
	dOk = iota
	dErrAfter
	dErr
	dCancel
	dStale
)

func dispRes(d int) string { return []string{"ok", "erra", "err", "can", "ok"}[d] }

type fault struct {
	kind string
	occ  int
	f    string // eb ea ll cr
}

type proc struct {
	inst   int
	unit   string
	role   string
	lease  *lease
	parked *request
	gone   bool
	recv   *simReceiver // the receiver this process opened last (its name and topic are what the code chose, not what the role says)
}

type lease struct {
	p      *proc
	cancel context.CancelFunc
	live   bool
}

type request struct {
	p        *proc
	kind     string
	deadline int64
	resume   chan int // disposition
}

type outEntry struct {
	seq  int
	id   string
	wf   string
	data []byte
}

type simRec struct {
	rec workflow.Record
}

type sim struct {
	// durable state
	recs    []*workflow.Record // creation order
	hist    map[string][]*workflow.Record // every committed version per run (for stale reads)
	runNum  map[string]int
	nextRun int
	outbox  []outEntry
	nextOid int
	log     []*workflow.Event
	cursors map[string]int
	timers  []workflow.TimeoutRecord
	nextTid int64
	now     int64
	blind bool // the record store ignores context cancellation (option blind=1)
	deadlineErrs bool // injected errors wrap context.DeadlineExceeded (option dl=1)
	missErrs     bool // an injected Lookup failure of a hook / delete / paused-retry consumer is ErrRecordNotFound (option nf=1)
	openReceivers, openSenders atomic.Int64 // opened and not yet closed (C11: all closed once Stop has returned)
	stamp   bool
	// scheduling
	roles    map[string]*proc
	procs    map[string]*proc // key inst/role
	reqCh    chan *request
	cur      *proc
	plan     []fault
	counts   map[string]int
	trace    []string
	apiLease bool
	dead     *deadSet // instances that crashed / were shut down (read by process goroutines, written by the driver)
	instCtx  map[int]context.Context
	attempts map[string]int
	mu       sync.Mutex
	// the record last looked up (for the custom delete wrapper, which only sees the unmarshalled object)
	curDeleteRec *workflow.Record
}

func newSim() *sim {
	return &sim{hist: map[string][]*workflow.Record{}, runNum: map[string]int{}, nextRun: 1, nextOid: 1, cursors: map[string]int{}, nextTid: 1,
		roles: map[string]*proc{}, procs: map[string]*proc{}, reqCh: make(chan *request, 1024), counts: map[string]int{},
		dead: &deadSet{m: map[int]bool{}}, instCtx: map[int]context.Context{}, attempts: map[string]int{}}
}

type instKey struct{}
type leaseKey struct{}

func noCtx(kind string) bool { return kind == "AK" || kind == "CL" || kind == "SC" || kind == "TW" || kind == "AW" }

// decide computes the disposition of a call exactly like EngineBase.dispatch.
func (s *sim) decide(p *proc, kind string) int {
	occ := s.counts[kind]
	s.counts[kind] = occ + 1
	if p != nil && s.dead.get(p.inst) {
		return dCancel
	}
	if p != nil && !noCtx(kind) && (p.lease == nil || !p.lease.live) {
		// a record store that does not look at the context (like memrecordstore) still answers once the role is gone;
		// only used by scenarios in which the repaired engine makes no store call after a lost role (option blind=1)
		if !(s.blind && (kind == "LK" || kind == "LT" || kind == "ST")) {
			return dCancel
		}
	}
	for _, f := range s.plan {
		if f.kind == kind && f.occ == occ {
			switch f.f {
			case "eb":
				return dErr
			case "ea":
				return dErrAfter
			case "ll":
				if p != nil && p.lease != nil {
					s.loseLease(p.lease)
				}
				return dCancel
			case "cr":
				if p != nil {
					s.killInst(p.inst)
				}
				return dCancel
			case "sr":
				if kind == "LK" {
					return dStale
				}
				return dOk
			}
		}
	}
	return dOk
}

// procList is a snapshot of the process table (processes register themselves from their own goroutines in Await)
func (s *sim) procList() []*proc {
	s.mu.Lock()
	defer s.mu.Unlock()
	l := make([]*proc, 0, len(s.procs))
	for _, p := range s.procs {
		l = append(l, p)
	}
	sort.Slice(l, func(i, j int) bool { return l[i].inst < l[j].inst || (l[i].inst == l[j].inst && l[i].role < l[j].role) })
	return l
}

func (s *sim) loseLease(l *lease) {
	if l.live {
		l.live = false
		l.cancel()
		if s.roles[l.p.role] == l.p {
			delete(s.roles, l.p.role)
		}
	}
}

func (s *sim) killInst(inst int) {
	s.dead.set(inst)
	for _, p := range s.procList() {
		if p.inst == inst && p.lease != nil {
			s.loseLease(p.lease)
		}
	}
}

// enter is called by adapter code at the start of every call. Background processes park until granted.
func (s *sim) enter(p *proc, kind string, deadline int64) int {
	if p == nil {
		if s.cur != nil {
			// an adapter call made while a background process is being stepped, but not under the context its role
			// scheduler handed out (API operations are only issued between process steps)
			s.trace = append(s.trace, "API=-2")
		}
		return s.decide(nil, kind)
	}
	if s.dead.get(p.inst) || p.gone {
		return dCancel
	}
	req := &request{p: p, kind: kind, deadline: deadline, resume: make(chan int, 1)}
	s.reqCh <- req
	return <-req.resume
}

func (s *sim) emit(p *proc, tok string) {
	if p != nil && (s.dead.get(p.inst) || p.gone) {
		return
	}
	s.trace = append(s.trace, tok)
}

func procOf(ctx context.Context) *proc {
	if l, ok := ctx.Value(leaseKey{}).(*lease); ok {
		return l.p
	}
	return nil
}

// injErr is the error an injected fault makes an adapter return: a plain error, or (option dl=1) one that wraps
// context.DeadlineExceeded, as an adapter with its own per-call timeout would
func (s *sim) injErr() error {
	if s.deadlineErrs {
		return errInjectedDeadline
	}
	return errInjectedPlain
}

func (s *sim) dispErr(d int) error {
	switch d {
	case dOk, dStale:
		return nil
	case dCancel:
		return context.Canceled
	default:
		return s.injErr()
	}
}

// ------------------------------------------------------------------ tokens
func (s *sim) runN(id string) int {
	if id == "" {
		return 0
	}
	n, ok := s.runNum[id]
	if !ok && strings.HasPrefix(id, "unknown-run-") {
		// a scenario addressed a run number that does not exist (yet): no number is allocated for it
		return atoi(strings.TrimPrefix(id, "unknown-run-"))
	}
	if !ok {
		n = s.nextRun
		s.nextRun++
		s.runNum[id] = n
	}
	return n
}

func fidN(f string) int {
	n, _ := strconv.Atoi(strings.TrimPrefix(f, "f"))
	return n
}

func (s *sim) ns(t time.Time) int64 {
	if t.IsZero() {
		return -1
	}
	return int64(t.Sub(simBase))
}

var digitsRe = regexp.MustCompile(`-?\d+`)

func objTok(b []byte) string {
	var o Obj
	if err := json.Unmarshal(b, &o); err != nil {
		return "D"
	}
	var ts []string
	for _, t := range o.Trail {
		ts = append(ts, itoa(t))
	}
	if objForeign(&o) {
		// marker the model never produces: the object holds a field of some other run's object
		ts = append(ts, "-777")
	}
	return fmt.Sprintf("s%dt%s", o.Seed, strings.Join(ts, "_"))
}

func (s *sim) recTok(r *workflow.Record) string {
	if r == nil {
		return "-"
	}
	desc := digitsRe.FindString(r.Meta.StatusDescription)
	if desc == "" {
		desc = "?"
	}
	return fmt.Sprintf("%d.%d.%d.%d.%s.%d.%d.%s.%d", s.runN(r.RunID), int(r.RunState), r.Status, r.Meta.Version, objTok(r.Object),
		s.ns(r.CreatedAt), s.ns(r.UpdatedAt), desc, fidN(r.ForeignID))
}

func topicTok(t string) string {
	switch {
	case t == "wf-delete":
		return "d"
	case t == "wf-run-state-change":
		return "r"
	case strings.HasPrefix(t, "wf-"):
		return "s" + strings.TrimPrefix(t, "wf-")
	case strings.HasPrefix(t, "conn-"):
		return "k" + strings.TrimPrefix(t, "conn-")
	}
	return "?" + t
}

func (s *sim) hdrTok(run string, typ int, h map[workflow.Header]string) string {
	return fmt.Sprintf("%s.%d.%d.%d.%s.%s", topicTok(h[workflow.HeaderTopic]), s.runN(run), fidN(h[workflow.HeaderForeignID]), typ,
		h[workflow.HeaderRunState], h[workflow.HeaderRecordVersion])
}

func (s *sim) eventTok(e *workflow.Event) string {
	return fmt.Sprintf("%d.%s.%d", e.ID, s.hdrTok(e.ForeignID, e.Type, e.Headers), s.ns(e.CreatedAt))
}

// ------------------------------------------------------------------ record store
type simStore struct{ s *sim }

func cloneRec(r *workflow.Record) *workflow.Record {
	c := *r
	c.Object = append([]byte(nil), r.Object...)
	return &c
}

func (s *sim) find(runID string) *workflow.Record {
	for _, r := range s.recs {
		if r.RunID == runID {
			return r
		}
	}
	return nil
}

func (st simStore) Store(ctx context.Context, r *workflow.Record) error {
	s := st.s
	p := procOf(ctx)
	d := s.enter(p, "ST", 0)
	rr := cloneRec(r)
	if s.stamp {
		rr.UpdatedAt = simBase.Add(time.Duration(s.now))
	}
	s.emit(p, fmt.Sprintf("ST:%s/%s=%s", s.recTok(s.find(r.RunID)), s.recTok(rr), dispRes(d)))
	if d == dOk || d == dErrAfter || d == dStale {
		ed, err := workflow.MakeOutboxEventData(*rr)
		if err != nil {
			panic(err)
		}
		if old := s.find(rr.RunID); old != nil {
			*old = *rr
		} else {
			s.recs = append(s.recs, rr)
		}
		s.hist[rr.RunID] = append(s.hist[rr.RunID], cloneRec(rr))
		s.outbox = append(s.outbox, outEntry{seq: s.nextOid, id: ed.ID, wf: ed.WorkflowName, data: ed.Data})
		s.nextOid++
	}
	return st.s.dispErr(d)
}

func (st simStore) lookupTok(kind string, key int, d int, r *workflow.Record) string {
	res := dispRes(d)
	if d == dErrAfter {
		res = "err"
	}
	if d == dOk && r == nil {
		res = "nf"
	}
	if d != dOk {
		r = nil
	}
	return fmt.Sprintf("%s:%d=%s:%s", kind, key, res, st.s.recTok(r))
}

func (st simStore) Lookup(ctx context.Context, runID string) (*workflow.Record, error) {
	s := st.s
	p := procOf(ctx)
	d := s.enter(p, "LK", 0)
	r := s.find(runID)
	if d == dStale {
		// a lagging replica: the previous committed version of the run, when there is one
		if h := s.hist[runID]; len(h) >= 2 {
			r = h[len(h)-2]
		}
		d = dOk
	}
	s.emit(p, st.lookupTok("LK", s.runN(runID), d, r))
	if d != dOk {
		if s.missErrs && (d == dErr || d == dErrAfter) && p != nil && len(p.unit) > 0 && (p.unit[0] == 'h' || p.unit[0] == 'd' || p.unit[0] == 'r') {
			// a transient miss (a replica that does not have the run yet) as the failure of this lookup. Only for the
			// consumers whose handler treats a missing record like any other lookup error (hook, delete, paused-retry):
			// the modelled behaviour is the same error exit
			return nil, fmt.Errorf("injected miss: %w", workflow.ErrRecordNotFound)
		}
		return nil, st.s.dispErr(d)
	}
	if r == nil {
		return nil, workflow.ErrRecordNotFound
	}
	return cloneRec(r), nil
}

func (st simStore) Latest(ctx context.Context, wf, fid string) (*workflow.Record, error) {
	s := st.s
	p := procOf(ctx)
	d := s.enter(p, "LT", 0)
	var r *workflow.Record
	for _, x := range s.recs {
		if x.WorkflowName == wf && x.ForeignID == fid {
			r = x
		}
	}
	s.emit(p, st.lookupTok("LT", fidN(fid), d, r))
	if d != dOk {
		return nil, st.s.dispErr(d)
	}
	if r == nil {
		return nil, workflow.ErrRecordNotFound
	}
	return cloneRec(r), nil
}

func (st simStore) List(ctx context.Context, wf string, offset int64, limit int, order workflow.OrderType, fs ...workflow.RecordFilter) ([]workflow.Record, error) {
	var res []workflow.Record
	for _, r := range st.s.recs {
		res = append(res, *cloneRec(r))
	}
	return res, nil
}

func (st simStore) ListOutboxEvents(ctx context.Context, wf string, limit int64) ([]workflow.OutboxEvent, error) {
	s := st.s
	p := procOf(ctx)
	d := s.enter(p, "LO", 0)
	var res []workflow.OutboxEvent
	var ids []string
	for _, o := range s.outbox {
		if int64(len(res)) >= limit {
			break
		}
		if o.wf != wf {
			continue
		}
		res = append(res, workflow.OutboxEvent{ID: o.id, WorkflowName: o.wf, Data: o.data, CreatedAt: simBase.Add(time.Duration(s.now))})
		ids = append(ids, itoa(o.seq))
	}
	if d != dOk {
		ids = nil
	}
	r := dispRes(d)
	if d == dErrAfter {
		r = "err"
	}
	s.emit(p, fmt.Sprintf("LO:%d=%s:%s", limit, r, strings.Join(ids, ",")))
	if d != dOk {
		return nil, st.s.dispErr(d)
	}
	return res, nil
}

func (st simStore) DeleteOutboxEvent(ctx context.Context, id string) error {
	s := st.s
	p := procOf(ctx)
	d := s.enter(p, "DO", 0)
	seq := 0
	for _, o := range s.outbox {
		if o.id == id {
			seq = o.seq
		}
	}
	s.emit(p, fmt.Sprintf("DO:%d=%s", seq, dispRes(d)))
	if d == dOk || d == dErrAfter || d == dStale {
		var keep []outEntry
		for _, o := range s.outbox {
			if o.id != id {
				keep = append(keep, o)
			}
		}
		s.outbox = keep
	}
	return st.s.dispErr(d)
}

// ------------------------------------------------------------------ streamer
type simStreamer struct{ s *sim }

type simSender struct {
	s     *sim
	p     *proc
	topic string
}

func (st simStreamer) NewSender(ctx context.Context, topic string) (workflow.EventSender, error) {
	s := st.s
	p := procOf(ctx)
	d := s.enter(p, "NS", 0)
	s.emit(p, fmt.Sprintf("NS:=%s:", dispRes(d)))
	if d != dOk {
		return nil, st.s.dispErr(d)
	}
	s.openSenders.Add(1)
	return &simSender{s: s, p: p, topic: topic}, nil
}

func (sd *simSender) Send(ctx context.Context, foreignID string, statusType int, headers map[workflow.Header]string) error {
	s := sd.s
	p := procOf(ctx)
	d := s.enter(p, "SD", 0)
	// like the bundled memstreamer, the log keeps the headers map it was handed (no copy): a relay that re-uses one map for
	// several entries corrupts what it published earlier
	h := headers
	if h[workflow.HeaderTopic] != sd.topic {
		h = map[workflow.Header]string{}
		for k, v := range headers {
			h[k] = v
		}
		h[workflow.HeaderTopic] = sd.topic // the sender's topic is authoritative (kafka-like streamers route by it)
	}
	// the token says what is published WHERE: under the topic of the sender the event was handed to
	s.emit(p, fmt.Sprintf("SD:%s=%s", s.hdrTok(foreignID, statusType, h), dispRes(d)))
	if d == dOk || d == dErrAfter || d == dStale {
		s.log = append(s.log, &workflow.Event{ID: int64(len(s.log)) + 1, ForeignID: foreignID, Type: statusType, Headers: h, CreatedAt: simBase.Add(time.Duration(s.now))})
	}
	return sd.s.dispErr(d)
}

func (sd *simSender) Close() error {
	s := sd.s
	s.openSenders.Add(-1)
	d := s.enter(sd.p, "SC", 0)
	s.emit(sd.p, fmt.Sprintf("SC:=%s:", dispRes(d)))
	return sd.s.dispErr(d)
}

type simReceiver struct {
	s     *sim
	p     *proc
	topic string
	name  string
}

func (st simStreamer) NewReceiver(ctx context.Context, topic string, name string, opts ...workflow.ReceiverOption) (workflow.EventReceiver, error) {
	s := st.s
	p := procOf(ctx)
	d := s.enter(p, "NR", 0)
	s.emit(p, fmt.Sprintf("NR:=%s:", dispRes(d)))
	if d != dOk {
		return nil, st.s.dispErr(d)
	}
	// receiver options as the reference stream reads them: StreamFromLatest places a receiver name that has no stored position
	// after everything sent so far (the engine's own consumers never ask for it; Await does, on the in-memory adapters)
	var ro workflow.ReceiverOptions
	for _, o := range opts {
		o(&ro)
	}
	if _, has := s.cursors[name]; ro.StreamFromLatest && !has {
		s.cursors[name] = len(s.log)
	}
	s.openReceivers.Add(1)
	rc := &simReceiver{s: s, p: p, topic: topic, name: name}
	if p != nil {
		p.recv = rc
	}
	return rc, nil
}

func (s *sim) nextEvent(topic, name string) (int, *workflow.Event) {
	for i := s.cursors[name]; i < len(s.log); i++ {
		if s.log[i].Headers[workflow.HeaderTopic] == topic {
			return i, s.log[i]
		}
	}
	return -1, nil
}

func (r *simReceiver) Recv(ctx context.Context) (*workflow.Event, workflow.Ack, error) {
	s := r.s
	p := r.p
	d := s.enter(p, "RV", 0)
	if d != dOk {
		s.emit(p, fmt.Sprintf("RV:=%s:", dispRes(d)))
		if d == dErrAfter {
			return nil, nil, r.s.injErr()
		}
		return nil, nil, r.s.dispErr(d)
	}
	idx, e := s.nextEvent(r.topic, r.name)
	if e == nil {
		if p == nil {
			// a receive made outside any role context (the call carried no lease: API=-2 was recorded by enter) and nothing to
			// deliver: a real streamer would block on the caller's context; here the call fails so that the process goes on to
			// its next adapter call and the simulation keeps control
			return nil, nil, errors.New("sim: receive outside a role context")
		}
		panic("Recv granted without an available event")
	}
	s.emit(p, "RV="+s.eventTok(e))
	ev := *e
	ev.Headers = map[workflow.Header]string{}
	for k, v := range e.Headers {
		ev.Headers[k] = v
	}
	ack := func() error {
		d := s.enter(p, "AK", 0)
		s.emit(p, fmt.Sprintf("AK:%d=%s", e.ID, dispRes(d)))
		if d == dOk || d == dErrAfter || d == dStale {
			s.cursors[r.name] = idx + 1
		}
		return r.s.dispErr(d)
	}
	return &ev, ack, nil
}

func (r *simReceiver) Close() error {
	r.s.openReceivers.Add(-1)
	d := r.s.enter(r.p, "CL", 0)
	r.s.emit(r.p, fmt.Sprintf("CL:=%s:", dispRes(d)))
	return r.s.dispErr(d)
}

// ------------------------------------------------------------------ timeout store
type simTimeouts struct{ s *sim }

func (t simTimeouts) Create(ctx context.Context, wf, fid, runID string, status int, expireAt time.Time) error {
	s := t.s
	p := procOf(ctx)
	d := s.enter(p, "TC", 0)
	s.emit(p, fmt.Sprintf("TC:%d.%d.%d=%s", s.runN(runID), status, s.ns(expireAt), dispRes(d)))
	if d == dOk || d == dErrAfter || d == dStale {
		s.timers = append(s.timers, workflow.TimeoutRecord{ID: s.nextTid, WorkflowName: wf, ForeignID: fid, RunID: runID, Status: status, ExpireAt: expireAt, CreatedAt: simBase.Add(time.Duration(s.now))})
		s.nextTid++
	}
	return t.s.dispErr(d)
}

func (t simTimeouts) Complete(ctx context.Context, id int64) error {
	s := t.s
	p := procOf(ctx)
	d := s.enter(p, "TM", 0)
	s.emit(p, fmt.Sprintf("TM:%d=%s", id, dispRes(d)))
	if d == dOk || d == dErrAfter || d == dStale {
		for i := range s.timers {
			if s.timers[i].ID == id {
				s.timers[i].Completed = true
			}
		}
	}
	return t.s.dispErr(d)
}

func (t simTimeouts) Cancel(ctx context.Context, id int64) error {
	s := t.s
	p := procOf(ctx)
	d := s.enter(p, "TX", 0)
	s.emit(p, fmt.Sprintf("TX:%d=%s", id, dispRes(d)))
	if d == dOk || d == dErrAfter || d == dStale {
		var keep []workflow.TimeoutRecord
		for _, x := range s.timers {
			if x.ID != id {
				keep = append(keep, x)
			}
		}
		s.timers = keep
	}
	return t.s.dispErr(d)
}

func (t simTimeouts) List(ctx context.Context, wf string) ([]workflow.TimeoutRecord, error) {
	return append([]workflow.TimeoutRecord(nil), t.s.timers...), nil
}

func (t simTimeouts) ListValid(ctx context.Context, wf string, status int, now time.Time) ([]workflow.TimeoutRecord, error) {
	s := t.s
	p := procOf(ctx)
	// The caller read the clock immediately before this call; the gate below may hold the call across clock advances
	// of the scenario. The reading is therefore re-based to the moment the call is granted, keeping whatever offset
	// the caller applied to the clock (zero for the code as written), so that a caller passing a wrong instant is
	// still observed.
	offset := now.Sub(simBase.Add(time.Duration(s.now)))
	d := s.enter(p, "TL", 0)
	now = simBase.Add(time.Duration(s.now)).Add(offset)
	var res []workflow.TimeoutRecord
	var ids []string
	for _, x := range s.timers {
		if x.WorkflowName == wf && x.Status == status && !x.Completed && !x.ExpireAt.After(now) {
			res = append(res, x)
			ids = append(ids, i64(x.ID))
		}
	}
	r := dispRes(d)
	if d == dErrAfter {
		r = "err"
	}
	if d != dOk {
		ids = nil
	}
	s.emit(p, fmt.Sprintf("TL:%d,%d=%s:%s", status, s.ns(now), r, strings.Join(ids, ",")))
	if d != dOk {
		return nil, t.s.dispErr(d)
	}
	return res, nil
}

// ------------------------------------------------------------------ role scheduler
type simRoles struct{ s *sim }

func (rs simRoles) Await(ctx context.Context, role string) (context.Context, context.CancelFunc, error) {
	s := rs.s
	inst, _ := ctx.Value(instKey{}).(int)
	key := fmt.Sprintf("%d/%s", inst, role)
	s.mu.Lock()
	p := s.procs[key]
	if p == nil {
		p = &proc{inst: inst, role: role, unit: parseRole(role)}
		s.procs[key] = p
	}
	s.mu.Unlock()
	if ctx.Err() != nil {
		return ctx, func() {}, ctx.Err()
	}
	d := s.enter(p, "AW", 0)
	if s.dead.get(inst) || p.gone || ctx.Err() != nil {
		return ctx, func() {}, context.Canceled
	}
	s.emit(p, fmt.Sprintf("AW:=%s:", dispRes(d)))
	if d != dOk {
		return ctx, func() {}, rs.s.injErr()
	}
	lctx, cancel := context.WithCancel(ctx)
	l := &lease{p: p, cancel: cancel, live: true}
	p.lease = l
	s.roles[role] = p
	return context.WithValue(lctx, leaseKey{}, l), func() { s.loseLease(l) }, nil
}

var (
	reStep = regexp.MustCompile(`^wf-(-?\d+)-consumer-(\d+)-of-(\d+)$`)
	rePoll = regexp.MustCompile(`^wf-(-?\d+)-timeout-consumer$`)
	reIns  = regexp.MustCompile(`^wf-(-?\d+)-timeout-auto-inserter-consumer$`)
	reSched = regexp.MustCompile(`^wf-f(\d+)-scheduler-`)
	reConn = regexp.MustCompile(`^conn(\d+)-connector-to-wf-consumer-(\d+)-of-(\d+)$`)
	reHook = regexp.MustCompile(`^wf-(paused|cancelled|completed)-run-state-change-hook-consumer$`)
)

func parseRole(role string) string {
	switch {
	case role == "wf-outbox-consumer":
		return "o"
	case role == "wf-delete-consumer":
		return "d"
	case role == "wf-paused-records-retry-consumer":
		return "r"
	}
	if m := reStep.FindStringSubmatch(role); m != nil {
		return fmt.Sprintf("s%s.%s.%s", m[1], m[2], m[3])
	}
	if m := rePoll.FindStringSubmatch(role); m != nil {
		return "p" + m[1]
	}
	if m := reConn.FindStringSubmatch(role); m != nil {
		return fmt.Sprintf("k%s.%s.%s", m[1], m[2], m[3])
	}
	if m := reIns.FindStringSubmatch(role); m != nil {
		return "i" + m[1]
	}
	if m := reSched.FindStringSubmatch(role); m != nil {
		return "c" + m[1]
	}
	if m := reHook.FindStringSubmatch(role); m != nil {
		return map[string]string{"paused": "h3", "cancelled": "h4", "completed": "h5"}[m[1]]
	}
	return "?" + role
}

// ------------------------------------------------------------------ clock
type simClock struct{ s *sim }

var _ clock.Clock = simClock{}

func (c simClock) Now() time.Time                  { return simBase.Add(time.Duration(c.s.now)) }
func (c simClock) Since(t time.Time) time.Duration { return c.Now().Sub(t) }
func (c simClock) Sleep(d time.Duration)           { <-c.NewTimer(d).C() }
func (c simClock) After(d time.Duration) <-chan time.Time {
	return c.NewTimer(d).C()
}
func (c simClock) Tick(d time.Duration) <-chan time.Time { panic("Tick not supported") }

type simTimer struct{ ch chan time.Time }

func (t *simTimer) C() <-chan time.Time        { return t.ch }
func (t *simTimer) Stop() bool                 { return true }
func (t *simTimer) Reset(d time.Duration) bool { return true }

func (c simClock) NewTimer(d time.Duration) clock.Timer {
	s := c.s
	p := s.cur
	deadline := s.now + int64(d)
	t := &simTimer{ch: make(chan time.Time, 1)}
	if p == nil {
		t.ch <- c.Now()
		return t
	}
	disp := s.enter(p, "TW", deadline)
	s.emit(p, fmt.Sprintf("TW:%d=%s:", deadline, dispRes(disp)))
	if disp == dOk {
		t.ch <- c.Now()
	}
	return t
}

// ------------------------------------------------------------------ connector source (connector.go ConnectorConstructor)
// The events of connector cid live in the simulation log under the pseudo-topic "conn-<cid>" (as in the Coq model); a consumer
// reads them from the committed position of its name, exactly like a stream receiver.
type simConnector struct {
	s   *sim
	cid int
}

type simConnConsumer struct {
	s     *sim
	p     *proc
	topic string
	name  string
}

func (c simConnector) Make(ctx context.Context, consumerName string) (workflow.ConnectorConsumer, error) {
	s := c.s
	p := procOf(ctx)
	d := s.enter(p, "NR", 0)
	s.emit(p, fmt.Sprintf("NR:=%s:", dispRes(d)))
	if d != dOk {
		return nil, c.s.dispErr(d)
	}
	s.openReceivers.Add(1)
	if p != nil {
		// what the process really reads (as for stream receivers): a consumer made under another name than its role then shows up
		// as different behaviour — shards sharing one position lose each other's events — not as a simulation that cannot go on
		p.recv = &simReceiver{s: s, p: p, topic: fmt.Sprintf("conn-%d", c.cid), name: consumerName}
	}
	return &simConnConsumer{s: s, p: p, topic: fmt.Sprintf("conn-%d", c.cid), name: consumerName}, nil
}

func (r *simConnConsumer) Recv(ctx context.Context) (*workflow.ConnectorEvent, workflow.Ack, error) {
	s := r.s
	p := r.p
	d := s.enter(p, "RV", 0)
	if d != dOk {
		s.emit(p, fmt.Sprintf("RV:=%s:", dispRes(d)))
		if d == dErrAfter {
			return nil, nil, r.s.injErr()
		}
		return nil, nil, r.s.dispErr(d)
	}
	idx, e := s.nextEvent(r.topic, r.name)
	if e == nil {
		panic("connector Recv granted without an available event")
	}
	s.emit(p, "RV="+s.eventTok(e))
	ce := &workflow.ConnectorEvent{ID: e.Headers["cev_id"], ForeignID: e.Headers[workflow.HeaderForeignID], CreatedAt: e.CreatedAt}
	ack := func() error {
		d := s.enter(p, "AK", 0)
		s.emit(p, fmt.Sprintf("AK:%d=%s", e.ID, dispRes(d)))
		if d == dOk || d == dErrAfter || d == dStale {
			s.cursors[r.name] = idx + 1
		}
		return r.s.dispErr(d)
	}
	return ce, ack, nil
}

func (r *simConnConsumer) Close() error {
	r.s.openReceivers.Add(-1)
	d := r.s.enter(r.p, "CL", 0)
	r.s.emit(r.p, fmt.Sprintf("CL:=%s:", dispRes(d)))
	return r.s.dispErr(d)
}

// connView prints the record by which the model's token names a connector event (Engine.v conn_view)
func connView(s *sim, ce *workflow.ConnectorEvent) string {
	ge, err := workflow.VerifConnectorEventToEvent(&workflow.ConnectorEvent{ID: ce.ID})
	must(err)
	abs := new(big.Int).Abs(big.NewInt(ge.ID))
	return fmt.Sprintf("%s.0.%d.0.D.%d.%d.?.%d", abs.String(), ge.ID, s.ns(ce.CreatedAt), s.ns(ce.CreatedAt), fidN(ce.ForeignID))
}

// deadSet: the crash flags. Process goroutines read them at every adapter call; the driver sets and clears them. A process
// that is still unwinding when its instance is restarted (or, with a defective Stop, after Stop returned) must not race
// with the driver on a plain map.
type deadSet struct {
	mu sync.RWMutex
	m  map[int]bool
}

func (d *deadSet) get(i int) bool { d.mu.RLock(); defer d.mu.RUnlock(); return d.m[i] }
func (d *deadSet) set(i int)      { d.mu.Lock(); d.m[i] = true; d.mu.Unlock() }
func (d *deadSet) del(i int)      { d.mu.Lock(); delete(d.m, i); d.mu.Unlock() }
