package main

import (
	"fmt"
	"math"
	"strings"

	"github.com/luno/workflow"
)

func init() {
	families["shard"] = &family{gen: genShard, run: runShard,
		rule: "shardset total id: which of the shards 1..total handle event id; ids = window [-40,40], int64 edges, random int64, fnv64-hashed random connector IDs; non-trivial = total >= 2 and id < 0"}
}

func genShard(p *params, emit func(string, bool)) {
	var ids []int64
	for i := int64(-40); i <= 40; i++ {
		ids = append(ids, i)
	}
	ids = append(ids, math.MinInt64, math.MinInt64+1, math.MinInt64+7, math.MaxInt64, math.MaxInt64-1, math.MaxInt64-7,
		math.MinInt32, math.MaxInt32, -1<<40, 1<<40)
	nr := p.pick(300, 20000)
	for i := 0; i < nr; i++ {
		ids = append(ids, int64(p.rng.Uint64()))
	}
	for i := 0; i < nr; i++ {
		ce := &workflow.ConnectorEvent{ID: randString(p.rng, 1+p.rng.Intn(12))}
		e, err := workflow.VerifConnectorEventToEvent(ce)
		must(err)
		ids = append(ids, e.ID)
	}
	for total := -1; total <= p.pick(8, 16); total++ {
		for _, id := range ids {
			emit(fmt.Sprintf("shardset %d %d", total, id), total >= 2 && id < 0)
		}
	}
}

// observation: the shards s in 1..max(total,1) whose filter does NOT skip the event
func runShard(kind string, a []string) string {
	total, id := atoi(a[0]), atoi64(a[1])
	var hs []string
	n := total
	if n < 1 {
		n = 1
	}
	for s := 1; s <= n; s++ {
		if !workflow.VerifShardFilter(s, total)(&workflow.Event{ID: id}) {
			hs = append(hs, itoa(s))
		}
	}
	return strings.Join(hs, " ")
}

func randString(r interface{ Intn(int) int }, n int) string {
	const alpha = "abcdefghijklmnopqrstuvwxyzABCDEFGHIJKLMNOPQRSTUVWXYZ0123456789-_ "
	b := make([]byte, n)
	for i := range b {
		b[i] = alpha[r.Intn(len(alpha))]
	}
	return string(b)
}
