package main

// Pure / table-like families: run-state controller (direct, via web UI), routing, topics, graph builder,
// error counter.

import (
	"bytes"
	"context"
	"encoding/hex"
	"fmt"
	"net/http"
	"net/http/httptest"
	"sort"
	"strings"

	"github.com/luno/workflow"
	"github.com/luno/workflow/adapters/webui"
)

func hx(s string) string { return "x" + hex.EncodeToString([]byte(s)) }
func unhx(s string) string {
	b, err := hex.DecodeString(strings.TrimPrefix(s, "x"))
	must(err)
	return string(b)
}

// st is the status type used by all harness workflows.
type st int

func (s st) String() string { return statusName(int(s)) }

var displayVariant = 0 // changes the display strings only (C10: roles must not depend on them)

func statusName(s int) string {
	if displayVariant == 0 {
		return fmt.Sprintf("Status %d", s)
	}
	return fmt.Sprintf("Other Name For %d", s)
}

// ---------------------------------------------------------------- run state
type fakeStore struct {
	rec    *workflow.Record
	stored []workflow.Record
}

func (f *fakeStore) Store(ctx context.Context, r *workflow.Record) error {
	f.stored = append(f.stored, *r)
	return nil
}
func (f *fakeStore) Lookup(ctx context.Context, runID string) (*workflow.Record, error) {
	c := *f.rec
	return &c, nil
}
func (f *fakeStore) Latest(ctx context.Context, w, fid string) (*workflow.Record, error) {
	c := *f.rec
	return &c, nil
}
func (f *fakeStore) List(ctx context.Context, w string, o int64, l int, ord workflow.OrderType, fs ...workflow.RecordFilter) ([]workflow.Record, error) {
	return nil, nil
}
func (f *fakeStore) ListOutboxEvents(ctx context.Context, w string, l int64) ([]workflow.OutboxEvent, error) {
	return nil, nil
}
func (f *fakeStore) DeleteOutboxEvent(ctx context.Context, id string) error { return nil }

func init() {
	families["runstate"] = &family{gen: genRunState, run: runRunState,
		rule: "rstable from to (codes -2..10 squared, exhaustive); ctl/webui state op (codes -2..10 x 4 ops, exhaustive); non-trivial = every case with a valid (1..7) source state"}
}

func genRunState(p *params, emit func(string, bool)) {
	for a := -2; a <= 10; a++ {
		for b := -2; b <= 10; b++ {
			emit(fmt.Sprintf("rstable %d %d", a, b), a >= 1 && a <= 7)
		}
		for op := 0; op < 4; op++ {
			emit(fmt.Sprintf("ctl %d %d", a, op), a >= 1 && a <= 7)
			emit(fmt.Sprintf("webui %d %d", a, op), a >= 1 && a <= 7)
		}
	}
}

func ctlObs(err error, fs *fakeStore) string {
	if len(fs.stored) == 0 {
		return fmt.Sprintf("%s 0", b2s(err == nil))
	}
	r := fs.stored[len(fs.stored)-1]
	return fmt.Sprintf("%s %d %d %d %d", b2s(err == nil), len(fs.stored), int(r.RunState), r.Meta.Version, r.Status)
}

func runRunState(kind string, a []string) string {
	switch kind {
	case "rstable":
		return b2s(workflow.VerifRunStateTransitionAllowed(workflow.RunState(atoi(a[0])), workflow.RunState(atoi(a[1]))))
	case "ctl":
		fs := &fakeStore{}
		rec := &workflow.Record{WorkflowName: "wf", ForeignID: "f", RunID: "r", RunState: workflow.RunState(atoi(a[0])), Status: 3, Meta: workflow.Meta{Version: 5}}
		c := workflow.NewRunStateController(fs.Store, rec)
		var err error
		switch atoi(a[1]) {
		case 0:
			err = c.Pause(context.Background(), "why")
		case 1:
			err = c.Resume(context.Background())
		case 2:
			err = c.Cancel(context.Background(), "why")
		case 3:
			err = c.DeleteData(context.Background(), "why")
		}
		return ctlObs(err, fs)
	case "webui":
		fs := &fakeStore{rec: &workflow.Record{WorkflowName: "wf", ForeignID: "f", RunID: "r", RunState: workflow.RunState(atoi(a[0])), Status: 3, Meta: workflow.Meta{Version: 5}}}
		h := webui.UpdateHandlerFunc(fs)
		action := []string{"pause", "resume", "cancel", "delete"}[atoi(a[1])]
		req := httptest.NewRequest(http.MethodPost, "/update", bytes.NewReader([]byte(fmt.Sprintf(`{"run_id":"r","action":"%s"}`, action))))
		rw := httptest.NewRecorder()
		h(rw, req)
		var err error
		if rw.Code < 200 || rw.Code > 299 {
			err = fmt.Errorf("http %d", rw.Code)
		}
		return ctlObs(err, fs)
	}
	panic("kind")
}

// ---------------------------------------------------------------- routing
var wfNames = []string{"wf", "my flow", "a-b", "  two  spaces ", "ünï cödé", "delete", "x-run-state-change", "7"}

func init() {
	families["route"] = &family{gen: genRoute, run: runRoute,
		rule: "route state status version name: decoded outbox entry of MakeOutboxEventData for run-state codes -2..10 x statuses (negative, zero, int32 edges, 2^62) x versions x 8 workflow names (exhaustive grid); topics name s1 s2: Topic/DeleteTopic/RunStateChangeTopic coincidences; non-trivial = run-state code routed away from the status topic (3..7) or status outside int32"}
}

var routeStatuses = []int64{-2147483649, -2147483648, -1, 0, 1, 7, 2147483647, 2147483648, 1 << 62}

func genRoute(p *params, emit func(string, bool)) {
	for stt := -2; stt <= 10; stt++ {
		for _, s := range routeStatuses {
			for _, v := range []int64{0, 1, 2, 1 << 31, 1 << 40} {
				for ni := range wfNames {
					emit(fmt.Sprintf("route %d %d %d %s", stt, s, v, hx(wfNames[ni])), (stt >= 3 && stt <= 7) || s > 2147483647 || s < -2147483648)
				}
			}
		}
	}
	sts := append([]int64{}, routeStatuses...)
	for i := 0; i < p.pick(20, 300); i++ {
		sts = append(sts, p.rng.Int63n(1<<40)-(1<<39))
	}
	for ni := range wfNames {
		for _, s1 := range sts {
			for _, s2 := range sts {
				emit(fmt.Sprintf("topics %s %d %d", hx(wfNames[ni]), s1, s2), s1 != s2)
			}
		}
	}
}

func runRoute(kind string, a []string) string {
	switch kind {
	case "route":
		rec := workflow.Record{WorkflowName: unhx(a[3]), ForeignID: "fid 1", RunID: "run-1", RunState: workflow.RunState(atoi(a[0])),
			Status: int(atoi64(a[1])), Meta: workflow.Meta{Version: uint(atoi64(a[2]))}}
		d, err := workflow.MakeOutboxEventData(rec)
		if err != nil {
			return "ERR"
		}
		runID, typ, hdr, err := workflow.VerifDecodeOutboxData(d.Data)
		if err != nil {
			return "DECODE-ERR"
		}
		var keys []string
		for k := range hdr {
			keys = append(keys, k)
		}
		sort.Strings(keys)
		return fmt.Sprintf("%s %s %d %s %s %s %s %s %s %s", hx(d.WorkflowName), hx(runID), typ,
			hx(hdr["topic"]), hx(hdr["workflow_name"]), hx(hdr["foreign_id"]), hx(hdr["run_id"]), hx(hdr["run_state"]), hx(hdr["record_version"]), hx(strings.Join(keys, ",")))
	case "topics":
		n := unhx(a[0])
		s1, s2 := int(atoi64(a[1])), int(atoi64(a[2]))
		t1, t2 := workflow.Topic(n, s1), workflow.Topic(n, s2)
		return fmt.Sprintf("%s %s %s %s", b2s(t1 == t2), b2s(t1 == workflow.DeleteTopic(n)), b2s(t1 == workflow.RunStateChangeTopic(n)), b2s(workflow.DeleteTopic(n) == workflow.RunStateChangeTopic(n)))
	}
	panic("kind")
}

// ---------------------------------------------------------------- error counter
func init() {
	families["counter"] = &family{gen: genCounter, run: runCounter,
		rule: "counter ops: random add/clear sequences over 2 errors x 2 processes x 3 runs on internal/errorcounter; observation = value returned by each Add; non-trivial = sequence with a clear followed by an add of the same key"}
}

func genCounter(p *params, emit func(string, bool)) {
	for i := 0; i < p.pick(300, 5000); i++ {
		n := 1 + p.rng.Intn(30)
		var ops []string
		seenClear := map[string]bool{}
		nt := false
		for j := 0; j < n; j++ {
			key := fmt.Sprintf("%d.%d.%d", p.rng.Intn(2), p.rng.Intn(2), p.rng.Intn(3))
			if p.rng.Intn(4) == 0 {
				ops = append(ops, "c"+key)
				seenClear[key] = true
			} else {
				ops = append(ops, "a"+key)
				if seenClear[key] {
					nt = true
				}
			}
		}
		emit("counter "+strings.Join(ops, " "), nt)
	}
}

func runCounter(kind string, a []string) string {
	c := workflow.VerifNewErrorCounter()
	var res []string
	for _, op := range a {
		parts := strings.Split(op[1:], ".")
		err := fmt.Errorf("error %s", parts[0])
		if op[0] == 'a' {
			res = append(res, itoa(c.Add(err, "proc"+parts[1], "run"+parts[2])))
		} else {
			c.Clear(err, "proc"+parts[1], "run"+parts[2])
		}
	}
	return strings.Join(res, " ")
}
