// Command harness runs luno/workflow (built from /repo's working tree, tag verif) on generated inputs and
// writes case files "kind args | observation" that the extracted Coq model re-computes and compares.
//
//	harness gen    <family> <outfile> <seed> <tier>     generate inputs, run the implementation on each
//	harness replay <family> <infile> <outfile>          re-run the implementation on the inputs (text before '|') of infile
package main

import (
	"bufio"
	"fmt"
	"hash/fnv"
	"math/rand"
	"os"
	"runtime"
	"sort"
	"strconv"
	"strings"
	"sync"
	"time"
)

type params struct {
	seed int64
	tier string
	rng  *rand.Rand
}

func (p *params) thorough() bool { return p.tier == "thorough" }

// pick returns q in the quick tier and t in the thorough tier.
func (p *params) pick(q, t int) int {
	if p.thorough() {
		return t
	}
	return q
}

// family: gen emits case inputs (first token = kind understood by the model driver); run executes the
// implementation on one input and returns the observation.
type family struct {
	gen     func(p *params, emit func(lhs string, nontrivial bool))
	run     func(kind string, args []string) string
	rule    string
	workers int // 0 = NumCPU
}

var families = map[string]*family{}

type caseIn struct {
	lhs        string
	nontrivial bool
}

func b2s(b bool) string {
	if b {
		return "1"
	}
	return "0"
}

func itoa(i int) string     { return strconv.Itoa(i) }
func i64(i int64) string    { return strconv.FormatInt(i, 10) }
func atoi(s string) int     { v, err := strconv.Atoi(s); must(err); return v }
func atoi64(s string) int64 { v, err := strconv.ParseInt(s, 10, 64); must(err); return v }
func must(err error) {
	if err != nil {
		panic(err)
	}
}

func runAll(f *family, cases []caseIn) []string {
	res := make([]string, len(cases))
	workers := f.workers
	if workers <= 0 {
		workers = runtime.NumCPU()
	}
	var wg sync.WaitGroup
	ch := make(chan int, 256)
	for w := 0; w < workers; w++ {
		wg.Add(1)
		go func() {
			defer wg.Done()
			for i := range ch {
				res[i] = safeRun(f, cases[i].lhs)
			}
		}()
	}
	for i := range cases {
		ch <- i
	}
	close(ch)
	wg.Wait()
	return res
}

func safeRun(f *family, lhs string) (obs string) {
	defer func() {
		if r := recover(); r != nil {
			obs = "PANIC " + strings.ReplaceAll(strings.ReplaceAll(fmt.Sprint(r), "\n", " "), "|", "/")
		}
	}()
	toks := strings.Fields(lhs)
	return f.run(toks[0], toks[1:])
}

func main() {
	if len(os.Args) < 5 {
		fmt.Fprintln(os.Stderr, "usage: harness gen <family> <outfile> <seed> <tier> | harness cases <family> <outfile> <seed> <tier> | harness replay <family> <infile> <outfile>")
		os.Exit(2)
	}
	mode, fam := os.Args[1], os.Args[2]
	f, ok := families[fam]
	if !ok {
		fmt.Fprintln(os.Stderr, "unknown family", fam)
		os.Exit(2)
	}
	t0 := time.Now()
	var cases []caseIn
	var outPath string
	switch mode {
	case "gen":
		outPath = os.Args[3]
		p := &params{seed: atoi64(os.Args[4]), tier: "quick"}
		if len(os.Args) > 5 {
			p.tier = os.Args[5]
		}
		p.rng = rand.New(rand.NewSource(p.seed))
		f.gen(p, func(lhs string, nontrivial bool) { cases = append(cases, caseIn{lhs, nontrivial}) })
	case "cases":
		// the generated case lines only, nothing is run (used by check to look for the case on which a run of the harness died)
		p := &params{seed: atoi64(os.Args[4]), tier: "quick"}
		if len(os.Args) > 5 {
			p.tier = os.Args[5]
		}
		p.rng = rand.New(rand.NewSource(p.seed))
		of, err := os.Create(os.Args[3])
		must(err)
		w := bufio.NewWriterSize(of, 1<<20)
		f.gen(p, func(lhs string, nontrivial bool) { fmt.Fprintln(w, lhs) })
		must(w.Flush())
		must(of.Close())
		return
	case "replay":
		in, err := os.Open(os.Args[3])
		must(err)
		outPath = os.Args[4]
		sc := bufio.NewScanner(in)
		sc.Buffer(make([]byte, 1<<20), 1<<26)
		for sc.Scan() {
			line := sc.Text()
			if strings.HasPrefix(line, "#") || strings.TrimSpace(line) == "" {
				continue
			}
			if i := strings.IndexByte(line, '|'); i >= 0 {
				line = line[:i]
			}
			cases = append(cases, caseIn{strings.TrimSpace(line), true})
		}
		in.Close()
	default:
		fmt.Fprintln(os.Stderr, "unknown mode", mode)
		os.Exit(2)
	}
	res := runAll(f, cases)
	of, err := os.Create(outPath)
	must(err)
	w := bufio.NewWriterSize(of, 1<<20)
	distinct := map[uint64]bool{}
	kinds := map[string]int{}
	for i, c := range cases {
		fmt.Fprintf(w, "%s | %s\n", c.lhs, res[i])
		if c.nontrivial {
			h := fnv.New64a()
			h.Write([]byte(c.lhs))
			distinct[h.Sum64()] = true
		}
		kinds[strings.Fields(c.lhs)[0]]++
	}
	var ks []string
	for k, v := range kinds {
		ks = append(ks, fmt.Sprintf("%s=%d", k, v))
	}
	sort.Strings(ks)
	fmt.Fprintf(w, "#stat cases=%d distinct_nontrivial=%d kinds=%s wall_ms=%d\n", len(cases), len(distinct), strings.Join(ks, ","), time.Since(t0).Milliseconds())
	fmt.Fprintf(w, "#rule %s\n", f.rule)
	w.Flush()
	of.Close()
	fmt.Printf("WROTE %d cases to %s\n", len(cases), outPath)
}
