package main

// twowf: TWO workflows with different names and the same shape, built on ONE event streamer, ONE record store, ONE role
// scheduler and ONE timeout store (the bundled in-memory adapters, real goroutines), driven to completion. Everything the
// engine names — roles, receiver names, topics, timers, outbox listings — must keep the two apart: every run of either
// workflow completes, and every hooked run-state entry has its hook run to success, exactly as for one workflow alone.
//   case: twowf <runs per workflow> <step failures> <hook failures> <pause 0|1> <timeout 0|1> [<del>]
//         del = 0: no deletion; k >= 1: once a run has completed its deletion is requested, the custom delete function fails its
//         first k-1 calls per run
//   observation: "<name>:<completed>/<runs>:<runs whose OnPause hook succeeded>:<runs whose OnComplete hook succeeded>" per workflow,
//         followed by ":<runs that ended DataDeleted, scrubbed by the custom function>" when del >= 1
// The engine model (one workflow at a time) says what each workflow does alone; this family is the search for an input on
// which sharing the adapters changes that.

import (
	"context"
	"encoding/json"
	"errors"
	"fmt"
	"sync"
	"time"

	"github.com/luno/workflow"
	"github.com/luno/workflow/adapters/memrecordstore"
	"github.com/luno/workflow/adapters/memrolescheduler"
	"github.com/luno/workflow/adapters/memstreamer"
	"github.com/luno/workflow/adapters/memtimeoutstore"
)

type twoCounts struct {
	mu       sync.Mutex
	stepTry  map[string]int
	paused   map[string]bool // run has been paused by its step once
	hookTry  map[string]int
	pauseOK  map[string]bool
	doneOK   map[string]bool
	timedOut map[string]bool
	delTry   map[int]int // by object seed (= index of the run within its workflow)
}

func newTwoCounts() *twoCounts {
	return &twoCounts{stepTry: map[string]int{}, paused: map[string]bool{}, hookTry: map[string]int{}, pauseOK: map[string]bool{}, doneOK: map[string]bool{}, timedOut: map[string]bool{}, delTry: map[int]int{}}
}

func buildTwo(name string, c *twoCounts, stepFail, hookFail int, pause, timeout bool, del int,
	stream workflow.EventStreamer, store workflow.RecordStore, roles workflow.RoleScheduler, ts workflow.TimeoutStore) *workflow.Workflow[Obj, st] {
	b := workflow.NewBuilder[Obj, st](name)
	b.AddStep(st(1), func(ctx context.Context, r *workflow.Run[Obj, st]) (st, error) {
		c.mu.Lock()
		c.stepTry[r.RunID]++
		n := c.stepTry[r.RunID]
		c.mu.Unlock()
		if n <= stepFail {
			return 0, errors.New("step failure")
		}
		return st(2), nil
	}, st(2))
	if timeout {
		// status 2 is left by a timeout that is due at once
		b.AddTimeout(st(2), workflow.DurationTimerFunc[Obj, st](time.Millisecond),
			func(ctx context.Context, r *workflow.Run[Obj, st], now time.Time) (st, error) {
				c.mu.Lock()
				c.timedOut[r.RunID] = true
				c.mu.Unlock()
				return st(3), nil
			}, st(3))
	} else {
		b.AddStep(st(2), func(ctx context.Context, r *workflow.Run[Obj, st]) (st, error) {
			c.mu.Lock()
			first := pause && !c.paused[r.RunID]
			c.paused[r.RunID] = true
			c.mu.Unlock()
			if first {
				return r.Pause(ctx, "harness")
			}
			return st(3), nil
		}, st(3))
	}
	hook := func(kind string, ok map[string]bool) workflow.RunStateChangeHookFunc[Obj, st] {
		return func(ctx context.Context, r *workflow.TypedRecord[Obj, st]) error {
			c.mu.Lock()
			defer c.mu.Unlock()
			k := kind + r.RunID
			c.hookTry[k]++
			if c.hookTry[k] <= hookFail {
				return errors.New("hook failure")
			}
			ok[r.RunID] = true
			return nil
		}
	}
	b.OnPause(hook("p", c.pauseOK))
	b.OnComplete(hook("c", c.doneOK))
	opts := []workflow.BuildOption{workflow.WithTimeoutStore(ts), workflow.WithLogger(nullLogger{}),
		workflow.WithDefaultOptions(workflow.PollingFrequency(time.Millisecond), workflow.ErrBackOff(time.Millisecond))}
	if del >= 1 {
		opts = append(opts, workflow.WithCustomDelete(func(o *Obj) error {
			c.mu.Lock()
			c.delTry[o.Seed]++
			n := c.delTry[o.Seed]
			c.mu.Unlock()
			if n < del {
				return errors.New("delete failure")
			}
			o.Trail = []int{-1} // the scrub of this harness
			return nil
		}))
	}
	return b.Build(stream, store, roles, opts...)
}

func runTwoWF(kind string, a []string) string {
	r, timedOut := runTwoWFOnce(a, 4*time.Second)
	if timedOut {
		r, _ = runTwoWFOnce(a, 15*time.Second)
	}
	return r
}

func runTwoWFOnce(a []string, bound time.Duration) (string, bool) {
	runs, stepFail, hookFail, pause, timeout := atoi(a[0]), atoi(a[1]), atoi(a[2]), a[3] == "1", a[4] == "1"
	del := 0
	if len(a) > 5 {
		del = atoi(a[5])
	}
	ctx, cancel := context.WithCancel(context.Background())
	defer cancel()
	stream, store, roles, ts := memstreamer.New(), memrecordstore.New(), memrolescheduler.New(), memtimeoutstore.New()
	names := []string{"orders", "payments"}
	var ws []*workflow.Workflow[Obj, st]
	var cs []*twoCounts
	for _, n := range names {
		c := newTwoCounts()
		w := buildTwo(n, c, stepFail, hookFail, pause && !timeout, timeout, del, stream, store, roles, ts)
		w.Run(ctx)
		ws = append(ws, w)
		cs = append(cs, c)
	}
	defer func() {
		cancel()
		// Stop waits (spinning) for every process to end; it is given 5 s of real time per workflow, then left behind
		for _, w := range ws {
			w := w
			done := make(chan struct{})
			go func() { w.Stop(); close(done) }()
			select {
			case <-done:
			case <-time.After(5 * time.Second):
			}
		}
	}()
	runIDs := make([][]string, len(ws))
	for i, w := range ws {
		for j := 0; j < runs; j++ {
			id, err := w.Trigger(ctx, fmt.Sprintf("f%d", j+1), workflow.WithInitialValue[Obj, st](newObj(j+1)))
			must(err)
			runIDs[i] = append(runIDs[i], id)
		}
	}
	deadline := time.Now().Add(bound)
	timedOut := false
	for {
		all := true
		for i := range ws {
			for _, id := range runIDs[i] {
				rec, err := store.Lookup(ctx, id)
				must(err)
				switch {
				case rec.RunState == workflow.RunStatePaused:
					all = false
					// resume once the pause hook has run to success
					cs[i].mu.Lock()
					ok := cs[i].pauseOK[id]
					cs[i].mu.Unlock()
					if ok {
						_ = workflow.NewRunStateController(store.Store, rec).Resume(ctx)
					}
				case del >= 1 && rec.RunState == workflow.RunStateCompleted:
					all = false
					// ask for the deletion once the completion hook has run to success
					cs[i].mu.Lock()
					ok := cs[i].doneOK[id]
					cs[i].mu.Unlock()
					if ok {
						_ = workflow.NewRunStateController(store.Store, rec).DeleteData(ctx, "harness")
					}
				case del >= 1 && rec.RunState == workflow.RunStateRequestedDataDeleted:
					all = false
				case del >= 1 && rec.RunState == workflow.RunStateDataDeleted:
				case rec.RunState != workflow.RunStateCompleted:
					all = false
				default:
					cs[i].mu.Lock()
					if !cs[i].doneOK[id] {
						all = false
					}
					cs[i].mu.Unlock()
				}
			}
		}
		if all {
			break
		}
		if !time.Now().Before(deadline) {
			timedOut = true
			break
		}
		time.Sleep(500 * time.Microsecond)
	}
	var out []string
	for i, n := range names {
		completed, pok, cok, dok := 0, 0, 0, 0
		for _, id := range runIDs[i] {
			rec, err := store.Lookup(ctx, id)
			must(err)
			if (rec.RunState == workflow.RunStateCompleted || del >= 1 && (rec.RunState == workflow.RunStateRequestedDataDeleted || rec.RunState == workflow.RunStateDataDeleted)) && rec.Status == 3 {
				completed++
			}
			if rec.RunState == workflow.RunStateDataDeleted {
				var o Obj
				if json.Unmarshal(rec.Object, &o) == nil && len(o.Trail) == 1 && o.Trail[0] == -1 {
					dok++
				}
			}
			cs[i].mu.Lock()
			if cs[i].pauseOK[id] {
				pok++
			}
			if cs[i].doneOK[id] {
				cok++
			}
			cs[i].mu.Unlock()
		}
		line := fmt.Sprintf("%s:%d/%d:%d:%d", n, completed, runs, pok, cok)
		if del >= 1 {
			line += fmt.Sprintf(":%d", dok)
		}
		out = append(out, line)
	}
	return fmt.Sprint(out[0], " ", out[1]), timedOut
}

func genTwoWF(p *params, emit func(string, bool)) {
	// fixed grid first (every option on its own and together), then random
	for _, c := range []string{"1 0 0 0 0", "2 1 0 0 0", "2 0 1 0 0", "2 0 0 1 0", "2 0 0 0 1", "3 1 1 1 0", "3 1 1 0 1"} {
		emit("twowf "+c, true)
	}
	for i := 0; i < p.pick(5, 60); i++ {
		emit(fmt.Sprintf("twowf %d %d %d %d %d", 1+p.rng.Intn(4), p.rng.Intn(3), p.rng.Intn(3), p.rng.Intn(2), p.rng.Intn(2)), true)
	}
	// with deletion of every completed run (custom delete function, failing its first k-1 calls)
	for _, c := range []string{"1 0 0 0 0 1", "2 0 0 0 0 2", "2 1 1 1 0 2", "3 0 1 0 1 3"} {
		emit("twowf "+c, true)
	}
	for i := 0; i < p.pick(3, 40); i++ {
		emit(fmt.Sprintf("twowf %d %d %d %d %d %d", 1+p.rng.Intn(3), p.rng.Intn(2), p.rng.Intn(2), p.rng.Intn(2), p.rng.Intn(2), 1+p.rng.Intn(3)), true)
	}
}

func init() {
	families["twowf"] = &family{gen: genTwoWF, run: runTwoWF, workers: 4,
		rule: "twowf: two workflows of different names and the same shape (failing step, step or timeout, pause + resume, OnPause / OnComplete hooks failing their first k calls, optional deletion of every completed run through a custom delete function failing its first calls) on ONE in-memory streamer, record store, role scheduler and timeout store with real goroutines; 1..4 runs each; every run must complete and every hook run to success, as for one workflow alone"}
}
