package main

// await family: the real Workflow.Await on the bundled in-memory adapters.
//   aw <awaited status 2|3> <fid> <run> w.<run>.<fid>.<state>.<status> ...
// The workflow declares 1 -> 2 -> 3, so status 3 is terminal (Await listens on the run-state-change topic) and 2 is not.
// Every write is stored and its outbox event relayed to the streamer; the observation is the index of the write after
// which Await returned (-1: it never did) and the status of the run it returned.

import (
	"context"
	"encoding/json"
	"fmt"
	"strings"
	"sync/atomic"
	"time"

	"github.com/luno/workflow"
	"github.com/luno/workflow/adapters/memrecordstore"
	"github.com/luno/workflow/adapters/memrolescheduler"
	"github.com/luno/workflow/adapters/memstreamer"
)

// awStreamer wraps the streamer so that the harness knows which topic Await listens on and how many events its
// receiver has acknowledged (Await acknowledges every event it skips and the one that releases it).
type awStreamer struct {
	workflow.EventStreamer
	topic chan string
	acks  *int64
}

type awReceiver struct {
	workflow.EventReceiver
	acks *int64
}

func (s awStreamer) NewReceiver(ctx context.Context, topic, name string, opts ...workflow.ReceiverOption) (workflow.EventReceiver, error) {
	r, err := s.EventStreamer.NewReceiver(ctx, topic, name, opts...)
	if err != nil {
		return nil, err
	}
	s.topic <- topic
	return awReceiver{r, s.acks}, nil
}

func (r awReceiver) Recv(ctx context.Context) (*workflow.Event, workflow.Ack, error) {
	e, ack, err := r.EventReceiver.Recv(ctx)
	if err != nil {
		return nil, nil, err
	}
	return e, func() error {
		err := ack()
		atomic.AddInt64(r.acks, 1)
		return err
	}, nil
}

// runAwait: a wait that ran into its bound (the awaiting goroutine was not scheduled in time on a loaded machine, or
// Await really does not return) is repeated once with a much longer bound before its answer is believed.
func runAwait(kind string, a []string) string {
	r, timedOut := runAwaitOnce(a, 3*time.Second)
	if timedOut {
		r, _ = runAwaitOnce(a, 25*time.Second)
	}
	return r
}

func runAwaitOnce(a []string, bound time.Duration) (string, bool) {
	timedOut := false
	ctx, cancel := context.WithCancel(context.Background())
	defer cancel()
	store := memrecordstore.New()
	var acks int64
	topicCh := make(chan string, 1)
	stream := awStreamer{memstreamer.New(), topicCh, &acks}
	b := workflow.NewBuilder[Obj, st]("wf")
	b.AddStep(st(1), func(ctx context.Context, r *workflow.Run[Obj, st]) (st, error) { return 0, nil }, st(2))
	b.AddStep(st(2), func(ctx context.Context, r *workflow.Run[Obj, st]) (st, error) { return 0, nil }, st(3))
	w := b.Build(stream, store, memrolescheduler.New(), workflow.WithLogger(nullLogger{}), workflow.WithDefaultOptions(workflow.PollingFrequency(time.Millisecond)))
	status, fid, run := atoi(a[0]), "f"+a[1], "r"+a[2]
	type res struct {
		status int
		err    error
	}
	done := make(chan res, 1)
	go func() {
		r, err := w.Await(ctx, fid, run, st(status))
		if err != nil {
			done <- res{0, err}
			return
		}
		done <- res{int(r.Status), nil}
	}()
	awTopic := <-topicCh // Await has created its receiver (StreamFromLatest is resolved at creation)
	released := -1
	got := 0
	vers := map[string]uint{}
	topicOf := map[int]string{}
	for i, op := range a[3:] {
		f := strings.Split(op, ".")
		obj, _ := json.Marshal(newObj(i))
		vers[f[1]]++
		rec := &workflow.Record{WorkflowName: "wf", ForeignID: "f" + f[2], RunID: "r" + f[1], RunState: workflow.RunState(atoi(f[3])), Status: atoi(f[4]),
			Object: obj, CreatedAt: simBase, UpdatedAt: simBase, Meta: workflow.Meta{Version: vers[f[1]]}}
		must(store.Store(ctx, rec))
		evs, err := store.ListOutboxEvents(ctx, "wf", 100)
		must(err)
		for _, e := range evs {
			rid, typ, hs, derr := workflow.VerifDecodeOutboxData(e.Data)
			must(derr)
			h := map[workflow.Header]string{}
			for k, v := range hs {
				h[workflow.Header(k)] = v
			}
			topicOf[i] = h[workflow.HeaderTopic]
			sd, err := stream.NewSender(ctx, h[workflow.HeaderTopic])
			must(err)
			must(sd.Send(ctx, rid, int(typ), h))
			must(sd.Close())
			must(store.DeleteOutboxEvent(ctx, e.ID))
		}
		// an event on Await's topic is either skipped (acknowledged) or releases the caller: wait for one of the two
		if topicOf[i] == awTopic {
			want := atomic.LoadInt64(&acks) + 1
			deadline := time.Now().Add(bound)
			for atomic.LoadInt64(&acks) < want && len(done) == 0 {
				if !time.Now().Before(deadline) {
					timedOut = true
					break
				}
				time.Sleep(50 * time.Microsecond)
			}
			time.Sleep(200 * time.Microsecond)
		}
		select {
		case r := <-done:
			if r.err != nil {
				return "err", timedOut
			}
			released, got = i, r.status
		default:
		}
		if released >= 0 {
			break
		}
	}
	return fmt.Sprintf("%d %d", released, got), timedOut
}

func genAwait(p *params, emit func(string, bool)) {
	r := p.rng
	// witness of F9: awaiting the terminal status, the run is paused first
	emit("aw 3 1 1 w.1.1.3.1 w.1.1.2.1 w.1.1.2.2 w.1.1.5.3", true)
	// run 2 of the awaited foreign ID reaches the awaited status: not the awaited run
	emit("aw 2 1 1 w.2.1.2.2 w.1.1.2.1 w.2.1.7.2 w.1.1.2.2", true)
	states := []int{1, 2, 3, 4, 5, 6, 7}
	for i := 0; i < p.pick(250, 4000); i++ {
		status := 2 + r.Intn(2)
		var ops []string
		n := 1 + r.Intn(6)
		for j := 0; j < n; j++ {
			run := 1 + r.Intn(2)
			// the two runs belong to different foreign IDs, or (half of the cases) both to the awaited foreign ID: an event
			// about the OTHER run of the same foreign ID must not release the caller
			fid := run
			if i%2 == 1 {
				fid = 1
			}
			ops = append(ops, fmt.Sprintf("w.%d.%d.%d.%d", run, fid, states[r.Intn(len(states))], 1+r.Intn(3)))
		}
		emit(fmt.Sprintf("aw %d 1 1 %s", status, strings.Join(ops, " ")), true)
	}
}

func init() {
	families["await"] = &family{gen: genAwait, run: runAwait, workers: 6,
		rule: "aw: Workflow.Await on the in-memory adapters while 1..6 random writes (2 runs, all run states, statuses 1..3) are published; terminal and non-terminal awaited status; every case non-trivial"}
}
