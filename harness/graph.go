package main

import (
	"context"
	"encoding/json"
	"fmt"
	"io"
	"strconv"
	"strings"
	"time"

	"github.com/luno/workflow"
	"github.com/luno/workflow/adapters/memrecordstore"
	"github.com/luno/workflow/adapters/memrolescheduler"
	"github.com/luno/workflow/adapters/memstreamer"
	"github.com/luno/workflow/adapters/memtimeoutstore"
)

// Obj is the object type of all harness workflows.
type Obj struct {
	Seed  int   `json:"seed"`
	Trail []int `json:"trail"`
	// Extra is present exactly when the seed is odd and then equals it (newObj): a field that encoding/json leaves alone
	// when it is absent from the input, so that an object decoded into a re-used value shows the leftovers of another run
	Extra *int `json:"extra,omitempty"`
	// Amt always equals the seed (newObj). Its type has POINTER-receiver marshallers only, like many money / decimal types:
	// an encoder handed the object by value (not addressable) silently falls back to the struct encoding "{}", which the
	// decoder rejects — the hand-over of the object is then not exact
	Amt money `json:"amt"`
}

type money struct{ cents int }

func (m *money) MarshalJSON() ([]byte, error) { return []byte(fmt.Sprintf("\"c%d\"", m.cents)), nil }
func (m *money) UnmarshalJSON(b []byte) error {
	var s string
	if err := json.Unmarshal(b, &s); err != nil || !strings.HasPrefix(s, "c") {
		return fmt.Errorf("money: cannot decode %s", b)
	}
	n, err := strconv.Atoi(s[1:])
	if err != nil {
		return err
	}
	m.cents = n
	return nil
}

func newObj(seed int) *Obj {
	o := &Obj{Seed: seed, Amt: money{seed}}
	if seed%2 != 0 {
		x := seed
		o.Extra = &x
	}
	return o
}

// objForeign: the object carries an Extra that its own seed does not explain
func objForeign(o *Obj) bool {
	if o.Amt.cents != o.Seed {
		return true
	}
	if o.Seed%2 != 0 {
		return o.Extra == nil || *o.Extra != o.Seed
	}
	return o.Extra != nil
}

func init() {
	families["graph"] = &family{gen: genGraph, run: runGraph,
		rule: "graph calls: random builder call lists (AddStep/AddCallback/AddTimeout, 2-8 nodes, joins, branches, self-loops, cycles) built with the real Builder, several permutations of each list (thorough: all permutations for <= 5 calls); observation per probed node: valid, terminal, transitions; default starting point; validate calls cur next: validateTransition on all node pairs; non-trivial = list with a join, a self-loop or a node that is both source and destination"}
}

type bcall struct {
	kind byte
	from int
	to   []int
}

func (c bcall) String() string {
	var ts []string
	for _, t := range c.to {
		ts = append(ts, itoa(t))
	}
	return fmt.Sprintf("%c:%d:%s", c.kind, c.from, strings.Join(ts, ","))
}

func parseCalls(a []string) []bcall {
	var cs []bcall
	for _, s := range a {
		p := strings.Split(s, ":")
		c := bcall{kind: p[0][0], from: atoi(p[1])}
		if p[2] != "" {
			for _, t := range strings.Split(p[2], ",") {
				c.to = append(c.to, atoi(t))
			}
		}
		cs = append(cs, c)
	}
	return cs
}

func callsString(cs []bcall) string {
	var ss []string
	for _, c := range cs {
		ss = append(ss, c.String())
	}
	return strings.Join(ss, " ")
}

func genGraph(p *params, emit func(string, bool)) {
	r := p.rng
	for i := 0; i < p.pick(150, 2500); i++ {
		k := 2 + r.Intn(7)
		// node labels: 1..k, or (one case in three) multi-digit statuses whose decimal forms are prefixes / concatenations
		// of one another (1, 11, 12, 2, 23, 112, 123 ...), large and negative values
		label := func(i int) int { return i }
		labelled := r.Intn(3) == 0
		if labelled {
			fams := [][]int{{1, 11, 111, 1111}, {1, 2, 12, 21, 11, 22}, {1, 12, 123, 23, 3, 2}, {-1, 1, -11, 11, -111}, {10, 1, 100, 0, 1000000007, 7}}
			pool := append([]int{}, fams[r.Intn(len(fams))]...)
			r.Shuffle(len(pool), func(a, b int) { pool[a], pool[b] = pool[b], pool[a] })
			label = func(i int) int {
				if i >= 1 && i <= len(pool) {
					return pool[i-1]
				}
				return i + 5000
			}
		}
		ncalls := 1 + r.Intn(6)
		var cs []bcall
		stepUsed := map[int]bool{}
		nt := false
		dests := map[int]int{}
		srcs := map[int]bool{}
		for j := 0; j < ncalls; j++ {
			c := bcall{from: label(1 + r.Intn(k))}
			switch r.Intn(3) {
			case 0:
				if stepUsed[c.from] {
					c.kind = 'c'
				} else {
					c.kind = 's'
					stepUsed[c.from] = true
				}
			case 1:
				c.kind = 'c'
			default:
				c.kind = 't'
			}
			nd := r.Intn(4)
			for d := 0; d < nd; d++ {
				t := label(1 + r.Intn(k))
				if r.Intn(12) == 0 {
					t = c.from
				}
				c.to = append(c.to, t)
				dests[t]++
				if t == c.from {
					nt = true
				}
			}
			srcs[c.from] = true
			cs = append(cs, c)
		}
		for d, n := range dests {
			if n > 1 || srcs[d] {
				nt = true
			}
		}
		perms := [][]bcall{cs}
		if p.thorough() && len(cs) <= 5 {
			perms = allPerms(cs)
		} else {
			for q := 0; q < 3; q++ {
				pc := append([]bcall{}, cs...)
				r.Shuffle(len(pc), func(a, b int) { pc[a], pc[b] = pc[b], pc[a] })
				perms = append(perms, pc)
			}
		}
		for _, pc := range perms {
			emit("graph "+callsString(pc), nt)
		}
		emit(fmt.Sprintf("validate %d %d %s", 0, 0, callsString(cs)), false)
		for a := -1; a <= k+1; a++ {
			for b := -1; b <= k+1; b++ {
				if r.Intn(3) == 0 || (labelled && r.Intn(2) == 0) {
					emit(fmt.Sprintf("validate %d %d %s", label(a), label(b), callsString(cs)), true)
				}
			}
		}
	}
}

func allPerms(cs []bcall) [][]bcall {
	if len(cs) <= 1 {
		return [][]bcall{append([]bcall{}, cs...)}
	}
	var res [][]bcall
	for i := range cs {
		rest := append(append([]bcall{}, cs[:i]...), cs[i+1:]...)
		for _, p := range allPerms(rest) {
			res = append(res, append([]bcall{cs[i]}, p...))
		}
	}
	return res
}

func toSt(xs []int) []st {
	var r []st
	for _, x := range xs {
		r = append(r, st(x))
	}
	return r
}

func buildFromCalls(cs []bcall) (w *workflow.Workflow[Obj, st], nostart bool) {
	defer func() {
		if r := recover(); r != nil {
			if strings.Contains(fmt.Sprint(r), "at least one starting point") {
				w, nostart = nil, true
				return
			}
			panic(r)
		}
	}()
	b := workflow.NewBuilder[Obj, st]("g")
	for _, c := range cs {
		switch c.kind {
		case 's':
			b.AddStep(st(c.from), func(ctx context.Context, r *workflow.Run[Obj, st]) (st, error) { return 0, nil }, toSt(c.to)...)
		case 'c':
			b.AddCallback(st(c.from), func(ctx context.Context, r *workflow.Run[Obj, st], rd io.Reader) (st, error) { return 0, nil }, toSt(c.to)...)
		case 't':
			b.AddTimeout(st(c.from), workflow.DurationTimerFunc[Obj, st](time.Hour),
				func(ctx context.Context, r *workflow.Run[Obj, st], now time.Time) (st, error) { return 0, nil }, toSt(c.to)...)
		}
	}
	w = b.Build(memstreamer.New(), memrecordstore.New(), memrolescheduler.New(), workflow.WithTimeoutStore(memtimeoutstore.New()))
	return w, false
}

func runGraph(kind string, a []string) string {
	switch kind {
	case "graph":
		cs := parseCalls(a)
		if len(edgesOf(cs)) == 0 {
			// no transition declared at all: Build panics (no starting point)
		}
		w, nostart := buildFromCalls(cs)
		if nostart {
			return "nostart"
		}
		g := w.VerifGraph()
		var parts []string
		for _, n := range graphProbes(cs) {
			var ts []string
			for _, t := range g.Transitions(n) {
				ts = append(ts, itoa(t))
			}
			parts = append(parts, fmt.Sprintf("%d:%s:%s:%s", n, b2s(g.IsValid(n)), b2s(g.IsTerminal(n)), strings.Join(ts, ",")))
		}
		info := g.Info()
		parts = append(parts, "start="+itoa(int(w.VerifDefaultStartingPoint())))
		parts = append(parts, "S="+joinInts(info.StartingNodes), "T="+joinInts(info.TerminalNodes))
		return strings.Join(parts, " ")
	case "validate":
		cs := parseCalls(a[2:])
		g := workflow.VerifNewGraph()
		for _, c := range cs {
			for _, t := range c.to {
				g.AddTransition(c.from, t)
			}
		}
		return b2s(workflow.VerifValidateTransition(st(atoi(a[0])), st(atoi(a[1])), g) == nil)
	}
	panic("kind")
}

// graphProbes: -1..10, then every node named in the calls (sources, then destinations, in call order) not yet listed
func graphProbes(cs []bcall) []int {
	var ps []int
	seen := map[int]bool{}
	for n := -1; n <= 10; n++ {
		ps = append(ps, n)
		seen[n] = true
	}
	add := func(n int) {
		if !seen[n] {
			seen[n] = true
			ps = append(ps, n)
		}
	}
	for _, c := range cs {
		add(c.from)
		for _, t := range c.to {
			add(t)
		}
	}
	return ps
}

func edgesOf(cs []bcall) [][2]int {
	var es [][2]int
	for _, c := range cs {
		for _, t := range c.to {
			es = append(es, [2]int{c.from, t})
		}
	}
	return es
}

func joinInts(xs []int) string {
	var ss []string
	for _, x := range xs {
		ss = append(ss, itoa(x))
	}
	return strings.Join(ss, ",")
}
