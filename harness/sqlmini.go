package main

// sqlmini: a recording database/sql driver with a small in-process engine for exactly the statement shapes that
// adapters/sqlstore and adapters/sqltimeout emit:
//
//	insert into T set a=?, b=?, c=now() ...            update T set a=?, b=now() ... where k=?        delete from T where k=?
//	select `a`, `b` ... from T where <cond> [order by f asc|desc] [limit ?|n] [offset ?]
//	<cond> := term { (AND|and) term }      term := ( f=? OR f=? ... ) | f=? | f<? | f=false | f=true | f is not null
//
// Transactions stage their writes and apply them on Commit; Rollback (or a failed Commit) discards them. now() is a
// statement clock (strictly increasing), so that `order by created_at` is deterministic. A fault plan fails the n-th
// statement (counting Begin and Commit) of the current operation. Every statement is logged with the connection it ran
// on, whether it ran inside a transaction, its number of placeholders and of bound arguments, and its outcome.

import (
	"context"
	"database/sql"
	"database/sql/driver"
	"errors"
	"fmt"
	"io"
	"regexp"
	"sort"
	"strings"
	"sync"
	"time"
)

type sqlRow map[string]driver.Value

type sqlTable struct {
	rows   []sqlRow
	autoID int64
}

type sqlLogEntry struct {
	conn   string // writer | reader
	inTx   bool
	txID   int
	shape  string
	nPlace int
	nArgs  int
	ok     bool
}

type sqlEngine struct {
	mu      sync.Mutex
	tables  map[string]*sqlTable
	clock   int64 // statement clock, in ms after simBase
	log     []sqlLogEntry
	stmtNo  int // statements seen in the current operation
	failAt  int // fail the statement with this number (-1: none)
	rowsBad bool // the next query is accepted but its result set fails at the first Next (a connection lost while streaming)
	nextTx  int
	problem string
	// the statement text (canonical tokens) and bound arguments of the last List-shaped select (the one with
	// "is not null"), for the comparison with the model's rendering of whereBuilder (coq/model/SqlWhere.v)
	lastList string
}

func newSQLEngine() *sqlEngine {
	return &sqlEngine{tables: map[string]*sqlTable{}, failAt: -1}
}

func (e *sqlEngine) table(name string) *sqlTable {
	t := e.tables[name]
	if t == nil {
		t = &sqlTable{}
		e.tables[name] = t
	}
	return t
}

func (e *sqlEngine) beginOp(failAt int) {
	e.mu.Lock()
	e.stmtNo = 0
	e.failAt = failAt
	e.mu.Unlock()
}

var errSQLInjected = errors.New("sqlmini: injected statement failure")

// step accounts for one statement; it returns an error when the fault plan fails this statement.
func (e *sqlEngine) step(conn string, inTx bool, txID int, shape string, nPlace, nArgs int) error {
	n := e.stmtNo
	e.stmtNo++
	fail := n == e.failAt
	e.log = append(e.log, sqlLogEntry{conn, inTx, txID, shape, nPlace, nArgs, !fail})
	if nPlace != nArgs && e.problem == "" {
		e.problem = fmt.Sprintf("statement [%s] has %d placeholders but %d arguments", shape, nPlace, nArgs)
	}
	if fail {
		return errSQLInjected
	}
	return nil
}

// ---------------------------------------------------------------- driver plumbing
type sqlDriver struct {
	e    *sqlEngine
	name string
}

func (d *sqlDriver) Open(string) (driver.Conn, error) { return &sqlConn{d: d}, nil }

type sqlConnector struct{ d *sqlDriver }

func (c sqlConnector) Connect(context.Context) (driver.Conn, error) { return &sqlConn{d: c.d}, nil }
func (c sqlConnector) Driver() driver.Driver                        { return c.d }

func openSQL(e *sqlEngine, name string) *sql.DB {
	db := sql.OpenDB(sqlConnector{&sqlDriver{e: e, name: name}})
	db.SetMaxOpenConns(4)
	return db
}

type sqlConn struct {
	d  *sqlDriver
	tx *sqlTx
}

type sqlTx struct {
	c      *sqlConn
	id     int
	staged []func()
}

func (c *sqlConn) Prepare(q string) (driver.Stmt, error) { return &sqlStmt{c: c, q: q}, nil }
func (c *sqlConn) Close() error                          { return nil }
func (c *sqlConn) Begin() (driver.Tx, error)             { return c.BeginTx(context.Background(), driver.TxOptions{}) }
func (c *sqlConn) BeginTx(ctx context.Context, _ driver.TxOptions) (driver.Tx, error) {
	e := c.d.e
	e.mu.Lock()
	defer e.mu.Unlock()
	e.nextTx++
	if err := e.step(c.d.name, false, e.nextTx, "begin", 0, 0); err != nil {
		return nil, err
	}
	c.tx = &sqlTx{c: c, id: e.nextTx}
	return c.tx, nil
}

func (t *sqlTx) Commit() error {
	e := t.c.d.e
	e.mu.Lock()
	defer e.mu.Unlock()
	t.c.tx = nil
	if err := e.step(t.c.d.name, true, t.id, "commit", 0, 0); err != nil {
		return err // nothing applied
	}
	for _, f := range t.staged {
		f()
	}
	return nil
}

func (t *sqlTx) Rollback() error {
	e := t.c.d.e
	e.mu.Lock()
	defer e.mu.Unlock()
	t.c.tx = nil
	e.log = append(e.log, sqlLogEntry{t.c.d.name, true, t.id, "rollback", 0, 0, true})
	return nil
}

type sqlStmt struct {
	c *sqlConn
	q string
}

func (s *sqlStmt) Close() error  { return nil }
func (s *sqlStmt) NumInput() int { return -1 }
func (s *sqlStmt) Exec(args []driver.Value) (driver.Result, error) {
	return s.c.d.e.exec(s.c, s.q, args)
}
func (s *sqlStmt) Query(args []driver.Value) (driver.Rows, error) {
	return s.c.d.e.query(s.c, s.q, args)
}

type sqlResult struct{ id, n int64 }

func (r sqlResult) LastInsertId() (int64, error) { return r.id, nil }
func (r sqlResult) RowsAffected() (int64, error) { return r.n, nil }

type sqlRows struct {
	cols []string
	rows []sqlRow
	i    int
	bad  bool
}

func (r *sqlRows) Columns() []string { return r.cols }
func (r *sqlRows) Close() error      { return nil }
func (r *sqlRows) Next(dest []driver.Value) error {
	if r.bad {
		return errSQLInjected
	}
	if r.i >= len(r.rows) {
		return io.EOF
	}
	for j, c := range r.cols {
		dest[j] = r.rows[r.i][c]
	}
	r.i++
	return nil
}

// ---------------------------------------------------------------- the engine
var (
	reInsert = regexp.MustCompile(`(?is)^\s*insert into (\S+) set (.*)$`)
	reUpdate = regexp.MustCompile(`(?is)^\s*update (\S+) set (.*?) where (.*)$`)
	reDelete = regexp.MustCompile(`(?is)^\s*delete from (\S+) where (.*?);?\s*$`)
	reSelect = regexp.MustCompile(`(?is)^\s*select (.*?) from (\S+) where (.*)$`)
	reTail   = regexp.MustCompile(`(?is)^(.*?)(?:\s+order by (\S+) (asc|desc))?(?:\s+limit (\?|\d+))?(?:\s+offset (\?|\d+))?\s*$`)
)

func shapeOf(q string) string { return strings.Join(strings.Fields(q), " ") }

func (e *sqlEngine) now() time.Time {
	e.clock++
	return simBase.Add(time.Duration(e.clock) * time.Millisecond)
}

type argCursor struct {
	args []driver.Value
	i    int
}

func (a *argCursor) next() driver.Value {
	if a.i >= len(a.args) {
		a.i++
		return nil
	}
	v := a.args[a.i]
	a.i++
	return v
}

// assignments "a=?, b=now(), c=true"
func (e *sqlEngine) parseSet(set string, ac *argCursor) sqlRow {
	row := sqlRow{}
	for _, part := range strings.Split(set, ",") {
		kv := strings.SplitN(strings.TrimSpace(part), "=", 2)
		if len(kv) != 2 {
			continue
		}
		k, v := strings.Trim(strings.TrimSpace(kv[0]), "`"), strings.TrimSpace(kv[1])
		switch strings.ToLower(v) {
		case "?":
			row[k] = ac.next()
		case "now()":
			row[k] = e.now()
		case "true":
			row[k] = true
		case "false":
			row[k] = false
		default:
			row[k] = v
		}
	}
	return row
}

func valEq(a, b driver.Value) bool {
	if ab, ok := a.(bool); ok {
		a = map[bool]int64{true: 1, false: 0}[ab]
	}
	if bb, ok := b.(bool); ok {
		b = map[bool]int64{true: 1, false: 0}[bb]
	}
	if x, ok := a.([]byte); ok {
		a = string(x)
	}
	if x, ok := b.([]byte); ok {
		b = string(x)
	}
	return fmt.Sprint(a) == fmt.Sprint(b)
}

type sqlPred func(r sqlRow) bool

// parseCond parses a WHERE condition with SQL's precedence — OR binds weaker than AND, parentheses group — consuming the
// placeholders in textual order:   expr := conj { OR conj }   conj := atom { AND atom }   atom := ( expr ) | comparison
func parseCond(cond string, ac *argCursor) (sqlPred, error) {
	// tokenise: parentheses, the words and / or, and the comparison texts between them
	var toks []string
	cur := ""
	flush := func() {
		if t := strings.TrimSpace(cur); t != "" {
			toks = append(toks, t)
		}
		cur = ""
	}
	words := strings.Fields(strings.NewReplacer("(", " ( ", ")", " ) ").Replace(cond))
	for _, w := range words {
		switch strings.ToLower(w) {
		case "(", ")":
			flush()
			toks = append(toks, w)
		case "and", "or":
			flush()
			toks = append(toks, strings.ToLower(w))
		default:
			if cur != "" {
				cur += " "
			}
			cur += w
		}
	}
	flush()
	pos := 0
	peek := func() string {
		if pos < len(toks) {
			return toks[pos]
		}
		return ""
	}
	var parseExpr func() (sqlPred, error)
	parseAtom := func() (sqlPred, error) {
		t := peek()
		if t == "(" {
			pos++
			p, err := parseExpr()
			if err != nil {
				return nil, err
			}
			if peek() != ")" {
				return nil, fmt.Errorf("sqlmini: missing ) in %q", cond)
			}
			pos++
			return p, nil
		}
		if t == "" || t == ")" || t == "and" || t == "or" {
			return nil, fmt.Errorf("sqlmini: unexpected %q in condition %q", t, cond)
		}
		pos++
		alt := t
		switch {
		case strings.HasSuffix(strings.ToLower(alt), " is not null"):
			f := strings.TrimSpace(alt[:len(alt)-len(" is not null")])
			return func(r sqlRow) bool { return r[f] != nil }, nil
		case strings.Contains(alt, "<"):
			kv := strings.SplitN(alt, "<", 2)
			f, v := strings.TrimSpace(kv[0]), ac.next()
			return func(r sqlRow) bool {
				a, ok1 := r[f].(time.Time)
				b, ok2 := v.(time.Time)
				return ok1 && ok2 && a.Before(b)
			}, nil
		case strings.Contains(alt, "="):
			kv := strings.SplitN(alt, "=", 2)
			f, rhs := strings.TrimSpace(kv[0]), strings.TrimSpace(kv[1])
			var v driver.Value
			switch strings.ToLower(rhs) {
			case "?":
				v = ac.next()
			case "true":
				v = true
			case "false":
				v = false
			default:
				v = rhs
			}
			return func(r sqlRow) bool { return valEq(r[f], v) }, nil
		}
		return nil, fmt.Errorf("sqlmini: unsupported condition %q", alt)
	}
	parseConj := func() (sqlPred, error) {
		var ps []sqlPred
		for {
			p, err := parseAtom()
			if err != nil {
				return nil, err
			}
			ps = append(ps, p)
			if peek() != "and" {
				break
			}
			pos++
		}
		return func(r sqlRow) bool {
			for _, p := range ps {
				if !p(r) {
					return false
				}
			}
			return true
		}, nil
	}
	parseExpr = func() (sqlPred, error) {
		var ps []sqlPred
		for {
			p, err := parseConj()
			if err != nil {
				return nil, err
			}
			ps = append(ps, p)
			if peek() != "or" {
				break
			}
			pos++
		}
		return func(r sqlRow) bool {
			for _, p := range ps {
				if p(r) {
					return true
				}
			}
			return false
		}, nil
	}
	if len(toks) == 0 {
		return func(sqlRow) bool { return true }, nil
	}
	p, err := parseExpr()
	if err != nil {
		return nil, err
	}
	if pos != len(toks) {
		return nil, fmt.Errorf("sqlmini: trailing %q in condition %q", toks[pos:], cond)
	}
	return p, nil
}

func (e *sqlEngine) exec(c *sqlConn, q string, args []driver.Value) (driver.Result, error) {
	e.mu.Lock()
	defer e.mu.Unlock()
	txID := 0
	if c.tx != nil {
		txID = c.tx.id
	}
	if err := e.step(c.d.name, c.tx != nil, txID, shapeOf(q), strings.Count(q, "?"), len(args)); err != nil {
		return nil, err
	}
	ac := &argCursor{args: args}
	var apply func()
	res := sqlResult{}
	switch {
	case reInsert.MatchString(q):
		m := reInsert.FindStringSubmatch(q)
		row := e.parseSet(m[2], ac)
		t := e.table(m[1])
		apply = func() {
			if _, has := row["id"]; !has && strings.Contains(m[1], "timeout") {
				t.autoID++
				row["id"] = t.autoID
			}
			t.rows = append(t.rows, row)
		}
	case reUpdate.MatchString(q):
		m := reUpdate.FindStringSubmatch(q)
		set := e.parseSet(m[2], ac)
		pred, err := parseCond(m[3], ac)
		if err != nil {
			return nil, err
		}
		t := e.table(m[1])
		apply = func() {
			for _, r := range t.rows {
				if pred(r) {
					for k, v := range set {
						r[k] = v
					}
				}
			}
		}
	case reDelete.MatchString(q):
		m := reDelete.FindStringSubmatch(q)
		pred, err := parseCond(m[2], ac)
		if err != nil {
			return nil, err
		}
		t := e.table(m[1])
		apply = func() {
			var keep []sqlRow
			for _, r := range t.rows {
				if !pred(r) {
					keep = append(keep, r)
				}
			}
			t.rows = keep
		}
	default:
		return nil, fmt.Errorf("sqlmini: unsupported statement %q", q)
	}
	if c.tx != nil {
		c.tx.staged = append(c.tx.staged, apply)
	} else {
		apply()
	}
	return res, nil
}

func toInt(v driver.Value, lit string) int {
	if lit != "?" {
		return atoi(lit)
	}
	switch x := v.(type) {
	case int64:
		return int(x)
	case string:
		return atoi(x)
	case []byte:
		return atoi(string(x))
	}
	return 0
}

func (e *sqlEngine) query(c *sqlConn, q string, args []driver.Value) (driver.Rows, error) {
	e.mu.Lock()
	defer e.mu.Unlock()
	txID := 0
	if c.tx != nil {
		txID = c.tx.id
	}
	if err := e.step(c.d.name, c.tx != nil, txID, shapeOf(q), strings.Count(q, "?"), len(args)); err != nil {
		return nil, err
	}
	m := reSelect.FindStringSubmatch(q)
	if m == nil {
		return nil, fmt.Errorf("sqlmini: unsupported query %q", q)
	}
	var cols []string
	for _, c := range strings.Split(m[1], ",") {
		cols = append(cols, strings.Trim(strings.TrimSpace(c), "`"))
	}
	tail := reTail.FindStringSubmatch(m[3])
	if strings.Contains(strings.ToLower(m[3]), "is not null") {
		e.lastList = canonStmt(tail, args)
	}
	ac := &argCursor{args: args}
	pred, err := parseCond(tail[1], ac)
	if err != nil {
		return nil, err
	}
	var out []sqlRow
	// a query inside a transaction sees the committed rows (the adapters only read before they write)
	for _, r := range e.table(m[2]).rows {
		if pred(r) {
			out = append(out, r)
		}
	}
	if tail[2] != "" {
		f, desc := tail[2], strings.EqualFold(tail[3], "desc")
		sort.SliceStable(out, func(i, j int) bool {
			a, _ := out[i][f].(time.Time)
			b, _ := out[j][f].(time.Time)
			if desc {
				return b.Before(a)
			}
			return a.Before(b)
		})
	}
	limit, offset := -1, 0
	if tail[4] != "" {
		var v driver.Value
		if tail[4] == "?" {
			v = ac.next()
		}
		limit = toInt(v, tail[4])
	}
	if tail[5] != "" {
		var v driver.Value
		if tail[5] == "?" {
			v = ac.next()
		}
		offset = toInt(v, tail[5])
	}
	if offset > len(out) {
		offset = len(out)
	}
	out = out[offset:]
	if limit >= 0 && limit < len(out) {
		out = out[:limit]
	}
	// copy the rows: later writes must not change a result set
	res := make([]sqlRow, len(out))
	for i, r := range out {
		cp := sqlRow{}
		for k, v := range r {
			cp[k] = v
		}
		res[i] = cp
	}
	bad := e.rowsBad
	e.rowsBad = false
	return &sqlRows{cols: cols, rows: res, bad: bad}, nil
}

// canonStmt renders a select's condition, tail and arguments as tokens: ( ) and or eq:<field> nn:<field>, then
// ob:<field>:<dir> lim off, then the arguments with their alphabetic prefix (wf, f) removed.
func canonStmt(tail []string, args []driver.Value) string {
	cond := strings.NewReplacer("(", " ( ", ")", " ) ").Replace(tail[1])
	w := strings.Fields(cond)
	var toks []string
	for i := 0; i < len(w); i++ {
		x := w[i]
		switch {
		case x == "(" || x == ")":
			toks = append(toks, x)
		case strings.EqualFold(x, "and") || strings.EqualFold(x, "or"):
			toks = append(toks, strings.ToLower(x))
		case strings.HasSuffix(x, "=?"):
			toks = append(toks, "eq:"+strings.Trim(strings.TrimSuffix(x, "=?"), "`"))
		case i+3 < len(w) && strings.EqualFold(w[i+1], "is") && strings.EqualFold(w[i+2], "not") && strings.EqualFold(w[i+3], "null"):
			toks = append(toks, "nn:"+strings.Trim(x, "`"))
			i += 3
		default:
			toks = append(toks, "?"+x)
		}
	}
	var tl []string
	if tail[2] != "" {
		tl = append(tl, "ob:"+tail[2]+":"+strings.ToLower(tail[3]))
	}
	if tail[4] != "" {
		tl = append(tl, "lim"+strings.TrimPrefix(tail[4], "?"))
	}
	if tail[5] != "" {
		tl = append(tl, "off"+strings.TrimPrefix(tail[5], "?"))
	}
	var as []string
	for _, a := range args {
		v := fmt.Sprint(a)
		if b, ok := a.([]byte); ok {
			v = string(b)
		}
		as = append(as, strings.TrimLeft(v, "abcdefghijklmnopqrstuvwxyz"))
	}
	return strings.Join(toks, ",") + "|" + strings.Join(tl, ",") + "|" + strings.Join(as, ",")
}
