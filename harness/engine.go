package main

// The engine runner: a real *workflow.Workflow (one per service instance) built with the public builder on the
// simulation adapters of sim.go, driven one operation at a time from a scenario.
//
// case line:  eng <program items> -- <ops>
//   program:  S:<status>:<beh>:<dests>:<par>:<pause>:<lag>   C:<status>:<beh>:<dests>   T:<status>:<dur>:<beh>:<dests>:<pause>
//             H:<state>:<k>   D:<mode>   O:<key>=<val>,...   (dpar dpause retry lim bo inst stamp)
//   beh:      comma list in prefix form: R,<mark>,<z> | E,<mark>,<e> | P,<mark> | X,<mark> | F,<k>,<e>,<beh> | B,<beh>,<beh>
//   ops:      tr:<fid>:<start>:<seed>  cb:<fid>:<status>  ct:<run>:<op>  ui:<run>:<op>  adv:<ns>  st:<inst>/<unit>
//             crash:<inst>  rw:<unit>:<pos>  dup:<idx>        each op may carry faults  @<kind>.<occ>.<eb|ea|ll|cr>

import (
	"sync/atomic"
	"bytes"
	"context"
	"errors"
	"fmt"
	"io"
	"net/http"
	"net/http/httptest"
	"regexp"
	"strings"
	"time"

	"github.com/luno/workflow"
	"github.com/luno/workflow/adapters/webui"
)

type behT struct {
	tag  byte
	mark bool
	z    int
	k    int
	sub  []*behT
}

func parseBeh(toks []string) (*behT, []string) {
	t := toks[0]
	switch t {
	case "R", "E":
		return &behT{tag: t[0], mark: toks[1] == "1", z: atoi(toks[2])}, toks[3:]
	case "G":
		return &behT{tag: 'G', mark: toks[1] == "1", k: atoi(toks[2]), z: atoi(toks[3])}, toks[4:]
	case "P", "X":
		return &behT{tag: t[0], mark: toks[1] == "1"}, toks[2:]
	case "Y":
		// Y,<cancel 0|1>,<z>: OUTSIDE the model's script language (engx scenarios only): the function calls r.Pause / r.Cancel and,
		// when that call fails, swallows the error and returns (z, nil); when it succeeds it returns what the call returned
		return &behT{tag: 'Y', k: atoi(toks[1]), z: atoi(toks[2])}, toks[3:]
	case "F":
		b := &behT{tag: 'F', k: atoi(toks[1]), z: atoi(toks[2])}
		sub, rest := parseBeh(toks[3:])
		b.sub = []*behT{sub}
		return b, rest
	case "B":
		b := &behT{tag: 'B'}
		s1, rest := parseBeh(toks[1:])
		s2, rest2 := parseBeh(rest)
		b.sub = []*behT{s1, s2}
		return b, rest2
	}
	panic("bad behaviour " + strings.Join(toks, ","))
}

func mustBeh(s string) *behT {
	b, rest := parseBeh(strings.Split(s, ","))
	if len(rest) != 0 {
		panic("trailing behaviour tokens")
	}
	return b
}

// eval mirrors EngineBase.eval_beh: (mark, action tag, value)
func (b *behT) eval(attempt, seed int) (bool, byte, int) {
	m, t, z, _ := b.eval4(attempt, seed)
	return m, t, z
}

// eval4 also returns the status a G behaviour returns alongside its error.
func (b *behT) eval4(attempt, seed int) (bool, byte, int, int) {
	switch b.tag {
	case 'F':
		if attempt < b.k {
			return false, 'E', b.z, 0
		}
		return b.sub[0].eval4(attempt, seed)
	case 'B':
		if seed%2 == 0 {
			return b.sub[0].eval4(attempt, seed)
		}
		return b.sub[1].eval4(attempt, seed)
	}
	return b.mark, b.tag, b.z, b.k
}

func (b *behT) evalOld(attempt, seed int) (bool, byte, int) {
	switch b.tag {
	case 'F':
		if attempt < b.k {
			return false, 'E', b.z
		}
		return b.sub[0].eval(attempt, seed)
	case 'B':
		if seed%2 == 0 {
			return b.sub[0].eval(attempt, seed)
		}
		return b.sub[1].eval(attempt, seed)
	}
	return b.mark, b.tag, b.z
}

type stepC struct {
	status          int
	beh             *behT
	dests           []int
	par, pause, lag int
}
type cbC struct {
	status int
	beh    *behT
	dests  []int
}
type toC struct {
	status int
	dur    int64
	beh    *behT
	dests  []int
	pause  int
}

type schedC struct {
	fid, spec, seed, filter int
}

var cronSpecs = map[int]string{1: "* * * * *", 2: "*/15 * * * *", 3: "@hourly", 4: "@daily", 5: "0,30 * * * *", 6: "@weekly"}

type ecfg struct {
	scheds []schedC
	steps  []stepC
	cbs    []cbC
	tos    []toC
	hooks  map[int]int
	hookOr []int
	conns  []connC
	del    int
	opt    map[string]int64
}

type connC struct{ cid, fail, par int }

func parseInts(s string) []int {
	var r []int
	if s == "" {
		return r
	}
	for _, x := range strings.Split(s, ",") {
		r = append(r, atoi(x))
	}
	return r
}

func parseCfg(items []string) *ecfg {
	c := &ecfg{hooks: map[int]int{}, opt: map[string]int64{"dpar": 0, "dpause": 0, "retry": -1, "lim": 1000, "bo": 0, "inst": 1, "stamp": 0}}
	for _, it := range items {
		f := strings.Split(it, ":")
		switch f[0] {
		case "S":
			c.steps = append(c.steps, stepC{status: atoi(f[1]), beh: mustBeh(f[2]), dests: parseInts(f[3]), par: atoi(f[4]), pause: atoi(f[5]), lag: atoi(f[6])})
		case "C":
			c.cbs = append(c.cbs, cbC{status: atoi(f[1]), beh: mustBeh(f[2]), dests: parseInts(f[3])})
		case "T":
			c.tos = append(c.tos, toC{status: atoi(f[1]), dur: atoi64(f[2]), beh: mustBeh(f[3]), dests: parseInts(f[4]), pause: atoi(f[5])})
		case "H":
			c.hooks[atoi(f[1])] = atoi(f[2])
			c.hookOr = append(c.hookOr, atoi(f[1]))
		case "K":
			c.conns = append(c.conns, connC{atoi(f[1]), atoi(f[2]), atoi(f[3])})
		case "D":
			c.del = atoi(f[1])
		case "Z":
			c.scheds = append(c.scheds, schedC{atoi(f[1]), atoi(f[2]), atoi(f[3]), atoi(f[4])})
		case "O":
			for _, kv := range strings.Split(f[1], ",") {
				p := strings.SplitN(kv, "=", 2)
				c.opt[p[0]] = atoi64(p[1])
			}
		default:
			panic("bad program item " + it)
		}
	}
	return c
}

type nullLogger struct{}

func (nullLogger) Debug(ctx context.Context, msg string, meta map[string]string) {}
func (nullLogger) Error(ctx context.Context, err error)                          {}

type userErr struct{ code int }

func (e userErr) Error() string { return fmt.Sprintf("user error %d", e.code) }

// error code 99: the user function's error WRAPS context.Canceled (an abandoned request-scoped context of its own) although
// the process still holds its role. To the engine it is an ordinary failure of the function: retried after the back-off.
func (e userErr) Unwrap() error {
	if e.code == 99 {
		return context.Canceled
	}
	return nil
}

type engine struct {
	lastCtl    workflow.RunStateController
	lastCtlRun int
	c       *ecfg
	s       *sim
	wfs     map[int]*workflow.Workflow[Obj, st]
	cancels map[int]context.CancelFunc
	nproc   map[int]int
	// number of processes of an instance seen in StateShutdown while the instance is running
	deadProcs map[int]int
	stopEarly bool // Stop returned while a process of the instance had not reached StateShutdown
	stopHung  bool // a process of a stopped / crashed instance did not end within 3 s of real time
}

func (e *engine) attempt(code int, runID string) int {
	k := fmt.Sprintf("%d/%s", code, runID)
	n := e.s.attempts[k]
	e.s.attempts[k] = n + 1
	return n
}

func (e *engine) userTok(code int, view *workflow.Record, planned string) {
	s := e.s
	s.emit(s.cur, fmt.Sprintf("US:%d:%s/%s@%d=%s", code, s.recTok(view), s.recTok(s.find(view.RunID)), s.now, planned))
}

// scripted step / callback / timeout function
func (e *engine) scripted(code int, b *behT, status int, dests ...int) func(ctx context.Context, r *workflow.Run[Obj, st]) (st, error) {
	return func(ctx context.Context, r *workflow.Run[Obj, st]) (st, error) {
		n := e.attempt(code, r.RunID)
		mark, tag, z, gst := b.eval4(n, r.Object.Seed)
		view := r.Record
		planned := map[byte]string{'R': fmt.Sprintf("r%d", z), 'E': fmt.Sprintf("e%d", z), 'G': fmt.Sprintf("e%d", z), 'P': "pause", 'X': "cancel", 'Y': fmt.Sprintf("r%d", z)}[tag]
		e.userTok(code, &view, planned)
		if mark {
			r.Object.Trail = append(r.Object.Trail, status)
		}
		switch tag {
		case 'R':
			return st(z), nil
		case 'E':
			// every other failing invocation returns one of the unit's declared statuses ALONGSIDE the error: an error return's
			// status is not a transition (step.go, callback.go and timeout.go all leave on err != nil before reading it)
			if len(dests) > 0 && (n+r.Object.Seed)%2 == 0 {
				return st(dests[0]), userErr{z}
			}
			return 0, userErr{z}
		case 'G':
			// an error together with a (declared) status: the status must be ignored
			return st(gst), userErr{z}
		case 'P', 'X':
			if fr := e.s.find(r.RunID); e.c.opt["extctl"] != 0 && fr != nil && fr.RunState == workflow.RunStateRunning {
				// (only when the stored run is Running: the Run handed to a function is promoted from Initiated to Running
				// in memory, so on an Initiated stored record a separate controller would be a different request)
				// the same action taken through a SEPARATE controller on a fresh copy of the stored record (an operator's
				// handle, not the Run handed to this function): the engine's in-memory snapshot of the run is not touched.
				// Same modelled action (one controller write, then skip); harness-only option, ignored by the model parser
				fresh := e.s.find(r.RunID)
				if fresh == nil {
					return 0, errors.New("extctl: run not found")
				}
				ctl := workflow.NewRunStateController(simStore{e.s}.Store, cloneRec(fresh))
				var err error
				if tag == 'P' {
					err = ctl.Pause(ctx, "scripted pause")
				} else {
					err = ctl.Cancel(ctx, "scripted cancel")
				}
				if err != nil {
					return 0, err
				}
				return st(workflow.SkipTypeRunStateUpdate), nil
			}
			if tag == 'P' {
				return r.Pause(ctx, "scripted pause")
			}
			return r.Cancel(ctx, "scripted cancel")
		case 'Y':
			var next st
			var err error
			if gst == 1 {
				next, err = r.Cancel(ctx, "scripted cancel")
			} else {
				next, err = r.Pause(ctx, "scripted pause")
			}
			if err != nil {
				return st(z), nil
			}
			return next, nil
		default:
			panic("behaviour tag")
		}
	}
}

func (e *engine) build(inst int) *workflow.Workflow[Obj, st] {
	c := e.c
	b := workflow.NewBuilder[Obj, st]("wf")
	for _, sc := range c.steps {
		u := b.AddStep(st(sc.status), e.scripted(1000000+sc.status, sc.beh, sc.status, sc.dests...), toSt(sc.dests)...)
		var opts []workflow.Option
		if sc.par != 0 {
			opts = append(opts, workflow.ParallelCount(sc.par))
		}
		if sc.pause != 0 {
			opts = append(opts, workflow.PauseAfterErrCount(sc.pause))
		}
		if sc.lag > 0 {
			opts = append(opts, workflow.ConsumeLag(time.Duration(sc.lag)))
		}
		u.WithOptions(opts...)
	}
	cbIdx := map[int]int{}
	for _, cc := range c.cbs {
		j := cbIdx[cc.status]
		cbIdx[cc.status]++
		fn := e.scripted(2000000+1000*j+cc.status, cc.beh, cc.status, cc.dests...)
		b.AddCallback(st(cc.status), func(ctx context.Context, r *workflow.Run[Obj, st], rd io.Reader) (st, error) { return fn(ctx, r) }, toSt(cc.dests)...)
	}
	toIdx := map[int]int{}
	for _, tc := range c.tos {
		tc := tc
		j := toIdx[tc.status]
		toIdx[tc.status]++
		timer := func(ctx context.Context, r *workflow.Run[Obj, st], now time.Time) (time.Time, error) {
			view := r.Record
			if tc.dur == -2 {
				// a timer function that fails: the error comes back together with the zero time
				e.userTok(3000000+1000*j+tc.status, &view, "e15")
				return time.Time{}, userErr{15}
			}
			if tc.dur < 0 {
				e.userTok(3000000+1000*j+tc.status, &view, "t-")
				if tc.dur == -3 {
					// "no timer" said with a zero instant that carries a location (an unset optional field rendered in the
					// user's zone): IsZero() holds, == time.Time{} does not
					return time.Time{}.In(time.FixedZone("user", 7200)), nil
				}
				return time.Time{}, nil
			}
			ex := now.Add(time.Duration(tc.dur))
			e.userTok(3000000+1000*j+tc.status, &view, fmt.Sprintf("t%d", e.s.ns(ex)))
			return ex, nil
		}
		fn := e.scripted(4000000+1000*j+tc.status, tc.beh, tc.status, tc.dests...)
		u := b.AddTimeout(st(tc.status), timer, func(ctx context.Context, r *workflow.Run[Obj, st], now time.Time) (st, error) { return fn(ctx, r) }, toSt(tc.dests)...)
		if tc.pause != 0 {
			u.WithOptions(workflow.PauseAfterErrCount(tc.pause))
		}
	}
	mkHook := func(state int) workflow.RunStateChangeHookFunc[Obj, st] {
		return func(ctx context.Context, r *workflow.TypedRecord[Obj, st]) error {
			n := e.attempt(5000000+state, r.RunID)
			rec := r.Record
			if k := c.hooks[state]; k >= 1000 && n < k-1000 {
				// a cancelled downstream call: the error wraps context.Canceled
				e.userTok(5000000+state, &rec, "e51")
				return fmt.Errorf("downstream call: %w", context.Canceled)
			} else if k < 1000 && n < k {
				e.userTok(5000000+state, &rec, "e50")
				return userErr{50}
			}
			e.userTok(5000000+state, &rec, "ok")
			return nil
		}
	}
	for _, h := range c.hookOr {
		switch h {
		case 3:
			b.OnPause(mkHook(3))
		case 4:
			b.OnCancel(mkHook(4))
		case 5:
			b.OnComplete(mkHook(5))
		}
	}
	s := e.s
	for _, cn := range c.conns {
		cn := cn
		code := 8000000 + cn.cid
		u := b.AddConnector(fmt.Sprintf("conn%d", cn.cid), simConnector{s: s, cid: cn.cid}, func(ctx context.Context, api workflow.API[Obj, st], ce *workflow.ConnectorEvent) error {
			// scripted connector function: fails its first k invocations per event
			n := e.attempt(code, ce.ID)
			view := connView(s, ce)
			planned := "ok"
			if n < cn.fail {
				planned = "e70"
			}
			s.emit(s.cur, fmt.Sprintf("US:%d:%s/-@%d=%s", code, view, s.now, planned))
			if n < cn.fail {
				return userErr{70}
			}
			return nil
		})
		if cn.par != 0 {
			u.WithOptions(workflow.ParallelCount(cn.par))
		}
	}
	opts := []workflow.BuildOption{
		workflow.WithClock(simClock{s}), workflow.WithLogger(nullLogger{}),
		workflow.WithDefaultOptions(workflow.ParallelCount(int(c.opt["dpar"])), workflow.PauseAfterErrCount(int(c.opt["dpause"])), workflow.ErrBackOff(time.Duration(c.opt["bo"]))),
		workflow.WithOutboxOptions(workflow.OutboxPollingFrequency(0), workflow.OutboxErrBackOff(time.Duration(c.opt["bo"])), workflow.OutboxLookupLimit(c.opt["lim"])),
	}
	if len(c.tos) > 0 {
		opts = append(opts, workflow.WithTimeoutStore(simTimeouts{s}))
	}
	if c.opt["retry"] >= 0 {
		opts = append(opts, workflow.WithPauseRetry(time.Duration(c.opt["retry"])))
	} else {
		opts = append(opts, workflow.DisablePauseRetry())
	}
	if c.del != 0 {
		opts = append(opts, workflow.WithCustomDelete(func(o *Obj) error {
			// the object handed to the custom delete is a fresh unmarshal of the stored object
			rec := s.curDeleteRec
			n := e.attempt(6000000, rec.RunID)
			if n < c.del-2 {
				e.userTok(6000000, rec, "e60")
				return userErr{60}
			}
			e.userTok(6000000, rec, "ok")
			o.Trail = nil
			return nil
		}))
	}
	return b.Build(simStreamer{s}, &deleteSpy{simStore{s}, s}, simRoles{s}, opts...)
}

// deleteSpy remembers the last record looked up by the delete consumer, so that the custom delete wrapper (which only
// receives the unmarshalled object) can report which record it was applied to.
type deleteSpy struct {
	simStore
	s *sim
}

func (d *deleteSpy) Lookup(ctx context.Context, runID string) (*workflow.Record, error) {
	r, err := d.simStore.Lookup(ctx, runID)
	if r != nil {
		d.s.curDeleteRec = cloneRec(r)
	}
	return r, err
}

func (e *engine) start(inst int) {
	ctx, cancel := context.WithCancel(context.WithValue(context.Background(), instKey{}, inst))
	e.s.instCtx[inst] = ctx
	w := e.build(inst)
	e.wfs[inst] = w
	e.deadProcs[inst] = 0
	e.cancels[inst] = cancel
	w.Run(ctx)
	n := len(w.States())
	e.nproc[inst] = n
	// every process parks at its first Await
	for i := 0; i < n; i++ {
		req := <-e.s.reqCh
		if req.kind != "AW" {
			panic("expected AW, got " + req.kind)
		}
		req.p.parked = req
	}
}

func (e *engine) crash(inst int) {
	s := e.s
	s.killInst(inst)
	for _, p := range s.procList() {
		if p.inst == inst {
			p.gone = true
			if p.parked != nil {
				p.parked.resume <- dCancel
				p.parked = nil
			}
		}
	}
	e.cancels[inst]()
	restart := func() {
		// remove the dead processes, restart the instance
		s.mu.Lock()
		for k, p := range s.procs {
			if p.inst == inst {
				delete(s.procs, k)
			}
		}
		s.mu.Unlock()
		s.dead.del(inst)
		e.start(inst)
	}
	if stopHangSeen.Load() && !e.waitDown(inst) {
		// a process of the old incarnation never ended (it stays blocked, idle); the new incarnation starts without waiting for it
		restart()
		return
	}
	done := make(chan struct{})
	go func() { e.wfs[inst].Stop(); close(done) }()
	hung := time.After(patience())
	for {
		select {
		case <-done:
			restart()
			return
		case <-hung:
			giveUps.Add(1)
			e.stopHung = true
			stopHangSeen.Store(true)
			restart()
			return
		case req := <-s.reqCh:
			req.resume <- dCancel
		}
	}
}

// Workflow.Stop waits (spinning) for every process of the instance to end; a process blocked on something that is not under the
// workflow's context (a sleep, a channel nobody feeds) never ends, and Stop never returns. The harness gives such an instance
// up after 3 s of real time (API=-7). The abandoned Stop keeps spinning, so once that has happened in this harness process
// later stops first watch the processes end on their own (waitDown) and do not call Stop at all when one does not.
var stopHangSeen atomic.Bool

// How long the harness waits in real time for something that never comes when the code under test is defective (a Stop that does
// not return, a process that has gone silent): 3 s — but once it has given up four times in this harness process the code under
// test is known to be defective here, and every further give-up costs 150 ms, so that a check on such a tree ends in minutes, not
// in an hour. On a tree where the properties hold the harness never gives up, so nothing changes there.
var giveUps atomic.Int32

func patience() time.Duration {
	if giveUps.Load() >= 4 {
		return 150 * time.Millisecond
	}
	return 3 * time.Second
}

// waitDown watches the processes of an instance whose context was just cancelled end on their own, answering every call they
// still make with a cancellation; false (and API=-7) when after 3 s of real time one has not.
func (e *engine) waitDown(inst int) bool {
	s := e.s
	allDown := func() bool {
		for _, st := range e.wfs[inst].States() {
			if st != workflow.StateShutdown {
				return false
			}
		}
		return true
	}
	deadline := time.Now().Add(patience())
	for !allDown() {
		select {
		case req := <-s.reqCh:
			req.resume <- dCancel
		case <-time.After(200 * time.Microsecond):
		}
		if time.Now().After(deadline) {
			giveUps.Add(1)
			e.stopHung = true
			return false
		}
	}
	return true
}

func (e *engine) findProc(inst int, unit string) *proc {
	for _, p := range e.s.procList() {
		if p.inst == inst && p.unit == unit && !p.gone {
			return p
		}
	}
	return nil
}

// stepProc runs one operation of p: grants calls until the process parks at its next boundary.
func (e *engine) stepProc(p *proc) {
	s := e.s
	s.cur = p
	defer func() { s.cur = nil }()
	prevAW := false
	first := true
	for {
		req := p.parked
		kind := req.kind
		// boundaries
		if !first {
			if kind == "AW" || kind == "RV" || (kind == "TL" && !prevAW) {
				return
			}
		}
		var d int
		switch kind {
		case "AW":
			if h, ok := s.roles[p.role]; ok && h != p {
				s.emit(p, "AW:=blk:")
				return
			} else if ok && h == p {
				// the process asks again for a role it never handed back (its previous role context was not cancelled): with a real
				// role scheduler it now waits for itself for ever — the work of this process is never done again
				p.gone = true
				s.emit(nil, "API=-8")
				return
			}
			d = s.decide(p, "AW")
		case "RV":
			if p.lease != nil && p.lease.live && !s.dead.get(p.inst) {
				rc := e.recvOf(p)
				if _, ev := s.nextEvent(rc.topic, rc.name); ev == nil {
					s.emit(p, "RV:=blk:")
					return
				}
			}
			d = s.decide(p, "RV")
		case "TW":
			if s.dead.get(p.inst) || p.lease == nil || !p.lease.live {
				d = dCancel
			} else if req.deadline > s.now {
				s.emit(p, fmt.Sprintf("TW:%d=blk:", req.deadline))
				return
			} else {
				d = dOk
			}
		default:
			d = s.decide(p, kind)
		}
		prevAW = kind == "AW"
		first = false
		p.parked = nil
		req.resume <- d
		if s.dead.get(p.inst) {
			// the instance crashed at this call: unwind everything and restart it
			e.crash(p.inst)
			return
		}
		var next *request
		silent := time.Now()
		for next == nil {
			select {
			case next = <-s.reqCh:
			case <-time.After(3 * time.Millisecond):
				// no further adapter call: did the process terminate although the workflow is still running?
				if n := e.shutdownCount(p.inst); n > e.deadProcs[p.inst] {
					e.deadProcs[p.inst] = n
					p.gone = true
					s.emit(nil, "API=-1")
					return
				}
				// ... or is it blocked somewhere the simulation does not see (e.g. waiting on a context that is never
				// cancelled because it is not the one its role scheduler handed out)? Give up on it after 3 s of silence.
				if time.Since(silent) > patience() {
					giveUps.Add(1)
					p.gone = true
					s.emit(nil, "API=-6")
					return
				}
			}
		}
		if next.p != p {
			panic(fmt.Sprintf("request from %s/%s while stepping %s/%s", next.p.unit, next.kind, p.unit, kind))
		}
		p.parked = next
	}
}

func (e *engine) shutdownCount(inst int) int {
	n := 0
	for _, st := range e.wfs[inst].States() {
		if st == workflow.StateShutdown {
			n++
		}
	}
	return n
}

func (e *engine) recvOf(p *proc) *simReceiver {
	if p.recv != nil {
		// what the process really reads: a receiver named or subscribed otherwise than its role says then shows up as different
		// behaviour (and in the twowf family as lost events), not as a simulation that cannot go on
		return p.recv
	}
	return &simReceiver{s: e.s, p: p, topic: topicOfUnit(p.unit), name: p.role}
}

func topicOfUnit(u string) string {
	switch u[0] {
	case 's', 'i', 'p':
		return "wf-" + strings.Split(u[1:], ".")[0]
	case 'h', 'r':
		return "wf-run-state-change"
	case 'd':
		return "wf-delete"
	case 'k':
		return "conn-" + strings.Split(u[1:], ".")[0]
	}
	return "?"
}

var reInvalid = regexp.MustCompile(`invalid RunState: from (.*) \| to (.*)$`)
var reUser = regexp.MustCompile(`user error (-?\d+)`)

func rsCode(name string) int {
	for i := 0; i < 8; i++ {
		if workflow.RunState(i).String() == name {
			return i
		}
	}
	return 9
}

func errCode(err error) int {
	switch {
	case err == nil:
		return 0
	case errors.Is(err, workflow.ErrWorkflowInProgress):
		return 3
	case errors.Is(err, context.Canceled):
		return 1000
	case strings.Contains(err.Error(), "not configured"):
		return 4
	}
	if m := reUser.FindStringSubmatch(err.Error()); m != nil && strings.HasPrefix(err.Error(), "user error") {
		return atoi(m[1])
	}
	if m := reInvalid.FindStringSubmatch(err.Error()); m != nil {
		return 100 + 10*rsCode(m[1]) + rsCode(m[2])
	}
	return 1
}

func (s *sim) runID(n int) string {
	for id, k := range s.runNum {
		if k == n {
			return id
		}
	}
	return fmt.Sprintf("unknown-run-%d", n)
}

func parseFaults(parts []string) []fault {
	var fs []fault
	for _, p := range parts {
		f := strings.Split(p, ".")
		fs = append(fs, fault{kind: f[0], occ: atoi(f[1]), f: f[2]})
	}
	return fs
}

func (e *engine) doOp(op string) {
	s := e.s
	segs := strings.Split(op, "@")
	s.plan = parseFaults(segs[1:])
	s.counts = map[string]int{}
	f := strings.Split(segs[0], ":")
	ctx := context.Background()
	api := func(err error) { s.trace = append(s.trace, fmt.Sprintf("API=%d", errCode(err))) }
	switch f[0] {
	case "tr":
		var opts []workflow.TriggerOption[Obj, st]
		if f[2] != "0" {
			opts = append(opts, workflow.WithStartingPoint[Obj, st](st(atoi(f[2]))))
		}
		opts = append(opts, workflow.WithInitialValue[Obj, st](newObj(atoi(f[3]))))
		_, err := e.wfs[1].Trigger(ctx, "f"+f[1], opts...)
		api(err)
	case "cb":
		api(e.wfs[1].Callback(ctx, "f"+f[1], st(atoi(f[2])), nil))
	case "ct", "ctr":
		// ctr: the RunStateController of the previous ct / ctr on this run is used again (no new lookup)
		var c workflow.RunStateController
		if f[0] == "ctr" && e.lastCtl != nil && e.lastCtlRun == atoi(f[1]) {
			c = e.lastCtl
			// the model looks the run up again (same answer: nothing was written in between); keep the traces aligned
			id := s.runID(atoi(f[1]))
			s.trace = append(s.trace, (simStore{s}).lookupTok("LK", s.runN(id), dOk, s.find(id)))
		} else {
			rec, err := (simStore{s}).Lookup(ctx, s.runID(atoi(f[1])))
			if err != nil {
				api(err)
				return
			}
			c = workflow.NewRunStateController((simStore{s}).Store, rec)
		}
		e.lastCtl, e.lastCtlRun = c, atoi(f[1])
		var err error
		switch atoi(f[2]) {
		case 0:
			err = c.Pause(ctx, "api")
		case 1:
			err = c.Resume(ctx)
		case 2:
			err = c.Cancel(ctx, "api")
		case 3:
			err = c.DeleteData(ctx, "api")
		}
		api(err)
	case "ui":
		h := webui.UpdateHandlerFunc(simStore{s})
		action := []string{"pause", "resume", "cancel", "delete"}[atoi(f[2])]
		req := httptest.NewRequest(http.MethodPost, "/update", bytes.NewReader([]byte(fmt.Sprintf(`{"run_id":"%s","action":"%s"}`, s.runID(atoi(f[1])), action))))
		rw := httptest.NewRecorder()
		h(rw, req)
		if rw.Code >= 200 && rw.Code <= 299 {
			s.trace = append(s.trace, "API=0")
		} else {
			s.trace = append(s.trace, "API=1")
		}
	case "adv":
		s.now += atoi64(f[1])
	case "st":
		pu := strings.SplitN(f[1], "/", 2)
		p := e.findProc(atoi(pu[0]), pu[1])
		if p == nil {
			// the process no longer exists (it terminated although the workflow is running)
			s.trace = append(s.trace, "API=-1")
			return
		}
		e.stepProc(p)
	case "crash":
		e.crash(atoi(f[1]))
	case "sched", "schedbad":
		inst, fid := atoi(f[1]), atoi(f[2])
		var sc *schedC
		for i := range e.c.scheds {
			if e.c.scheds[i].fid == fid {
				sc = &e.c.scheds[i]
			}
		}
		if sc == nil {
			panic("no schedule configured for foreign ID " + f[2])
		}
		spec := cronSpecs[sc.spec]
		if f[0] == "schedbad" {
			spec = "not a cron spec"
		}
		opts := []workflow.ScheduleOption[Obj, st]{workflow.WithScheduleInitialValue[Obj, st](newObj(sc.seed))}
		if sc.filter != 0 {
			code := 7000000 + fid
			opts = append(opts, workflow.WithScheduleFilter[Obj, st](func(ctx context.Context) (bool, error) {
				n := e.attempt(code, "")
				ans := n >= sc.filter
				e.userTok(code, &workflow.Record{}, map[bool]string{true: "r1", false: "r0"}[ans])
				return ans, nil
			}))
		}
		ret := make(chan error, 1)
		before := len(e.wfs[inst].States())
		go func() { ret <- e.wfs[inst].Schedule(fmt.Sprintf("f%d", fid), spec, opts...) }()
		if f[0] == "schedbad" {
			api(<-ret)
			if len(e.wfs[inst].States()) != before {
				s.trace = append(s.trace, "API=-1") // a rejected schedule must not start anything
			}
			return
		}
		// Schedule blocks for the life of the workflow; its process parks at its first Await
		select {
		case err := <-ret:
			api(err)
		case req := <-s.reqCh:
			if req.kind != "AW" {
				panic("expected the scheduler's AW, got " + req.kind)
			}
			req.p.parked = req
			api(nil)
		}
	case "lose":
		// the role scheduler revokes the lease of a parked process; the process notices at its next step
		pu := strings.SplitN(f[1], "/", 2)
		if p := e.findProc(atoi(pu[0]), pu[1]); p != nil && p.lease != nil && p.lease.live && p.parked != nil && p.parked.kind != "AW" {
			s.loseLease(p.lease)
		}
	case "rw":
		for _, p := range s.procList() {
			if p.unit == f[1] && atoi(f[2]) < s.cursors[p.role] {
				s.cursors[p.role] = atoi(f[2]) // a rewind only moves a committed position backwards (redelivery)
			}
		}
	case "cs":
		// the external system behind connector f[1] produces an event with ID unhx(f[2]) for foreign ID f<f[3]>
		id := unhx(f[2])
		ge, err := workflow.VerifConnectorEventToEvent(&workflow.ConnectorEvent{ID: id})
		must(err)
		s.log = append(s.log, &workflow.Event{ID: ge.ID, ForeignID: "", Type: 0, CreatedAt: simBase.Add(time.Duration(s.now)),
			Headers: map[workflow.Header]string{workflow.HeaderTopic: "conn-" + f[1], workflow.HeaderForeignID: "f" + f[3],
				workflow.HeaderRunState: "0", workflow.HeaderRecordVersion: "0", "cev_id": id}})
	case "dup":
		i := atoi(f[1])
		if i < len(s.log) {
			c := *s.log[i]
			c.ID = int64(len(s.log)) + 1
			s.log = append(s.log, &c)
		}
	default:
		panic("bad op " + op)
	}
}

func runEngine(kind string, a []string) string {
	sep := -1
	for i, x := range a {
		if x == "--" {
			sep = i
		}
	}
	c := parseCfg(a[:sep])
	e := &engine{c: c, s: newSim(), wfs: map[int]*workflow.Workflow[Obj, st]{}, cancels: map[int]context.CancelFunc{}, nproc: map[int]int{}, deadProcs: map[int]int{}}
	e.s.stamp = c.opt["stamp"] != 0
	e.s.blind = c.opt["blind"] != 0
	e.s.deadlineErrs = c.opt["dl"] != 0
	e.s.missErrs = c.opt["nf"] != 0
	for i := 1; i <= int(c.opt["inst"]); i++ {
		e.start(i)
	}
	var out []string
	for n, op := range a[sep+1:] {
		e.s.trace = nil
		e.doOp(op)
		out = append(out, fmt.Sprintf("#%d", n))
		out = append(out, e.s.trace...)
	}
	// shut everything down
	for i := 1; i <= int(c.opt["inst"]); i++ {
		e.shutdown(i)
	}
	// C11: once Stop has returned no adapter is called again, and everything that was opened has been closed
	select {
	case req := <-e.s.reqCh:
		req.resume <- dCancel
		out = append(out, "API=-3")
	case <-time.After(2 * time.Millisecond):
	}
	if e.s.openReceivers.Load() != 0 || e.s.openSenders.Load() != 0 {
		out = append(out, "API=-4")
	}
	if e.stopEarly {
		out = append(out, "API=-5")
	}
	if e.stopHung {
		out = append(out, "API=-7")
	}
	return strings.Join(out, " ")
}

func (e *engine) shutdown(inst int) {
	s := e.s
	s.killInst(inst)
	for _, p := range s.procList() {
		if p.inst == inst {
			p.gone = true
			if p.parked != nil {
				p.parked.resume <- dCancel
				p.parked = nil
			}
		}
	}
	e.cancels[inst]()
	if stopHangSeen.Load() && !e.waitDown(inst) {
		return
	}
	done := make(chan struct{})
	go func() { e.wfs[inst].Stop(); close(done) }()
	hung := time.After(patience())
	for {
		select {
		case <-hung:
			giveUps.Add(1)
			e.stopHung = true
			stopHangSeen.Store(true)
			return
		case <-done:
			// C11: Stop returns only after every process has shut down
			for _, st := range e.wfs[inst].States() {
				if st != workflow.StateShutdown {
					e.stopEarly = true
				}
			}
			return
		case req := <-s.reqCh:
			req.resume <- dCancel
		}
	}
}

func init() {
	families["engine"] = &family{gen: genEngine, run: runEngine, workers: 8,
		rule: "engine scenarios (see harness/enginegen.go)"}
}
