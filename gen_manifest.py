#!/usr/bin/env python3
"""Regenerates MANIFEST.json from verif_config.py and the table below (keeps it valid at all times)."""
import json, os, sys
ROOT = os.path.dirname(os.path.abspath(__file__))
sys.path.insert(0, ROOT)
from verif_config import PROPS

TEXT = {
 "C02": ("Coq theorems: for every sequence of builder calls the graph's transitions are exactly the declared edges and validateTransition accepts exactly those (all integers). Correspondence: real Builder/graph/validateTransition vs extracted model on random call lists and permutations.",
         "Engine-level part (no write on undeclared return, history form) is carried by the engine model as it is built; until then this check decides the graph/validation half. Trusted: Coq kernel, extraction, harness.",
         "Coq proof (invariant over AddTransition sequences) + differential correspondence"),
 "C03": ("Coq theorems: controller accepts exactly the documented (state, op) pairs, rejected => nothing to store, finished closed under the lifecycle relation, terminal classification = declared destination without outgoing edge for every call list (order-independent). Correspondence: exhaustive table / controller / web UI handler, real Builder.",
         "History form (paths of lc, finished absorbing under faults) is carried by the engine model as it is built. Trusted: Coq kernel, extraction, harness.",
         "Coq proof (finite case analysis, graph invariant) + exhaustive correspondence"),
 "C06": ("Coq theorems: routing is a total function of the record for all integer run-state codes; topic strings of one workflow are pairwise distinct for every name (itoa injective); Await release condition. Correspondence: exhaustive grid against MakeOutboxEventData (decoded protobuf) and topic.go.",
         "End-to-end 'who receives' part is carried by the engine model as it is built. Trusted: Coq kernel, extraction, harness, DecimalString as model of strconv.FormatInt.",
         "Coq proof + exhaustive grid correspondence"),
 "C10": ("Coq theorems over the shard filter model: for every integer event ID and every shard count exactly one shard handles the event. Correspondence of the real shardFilter against the extracted model.",
         "Launch enumeration and role names are being added. Trusted: Coq kernel; extraction; harness + verif_export.go; int64 modelled as Z.",
         "Coq proof (lia/induction) + differential correspondence"),
 "C13": ("Coq theorems: the error counter touches exactly its (error, process, run) key; the pause decision is taken exactly when the count reaches n > 0, never for n = 0. Correspondence: random op sequences against internal/errorcounter.",
         "Engine-level part (pause write in the n-th failing operation, retry interval) is carried by the engine model as it is built. Trusted: Coq kernel, extraction, harness; counter key modelled as a triple.",
         "Coq proof + differential correspondence"),
}

GENERIC = ("Coq theorems over the executable model of the anchored code (coq/props/%s.v) + correspondence of the model with the real code on every run (harness families: %s) + the property monitor evaluated on the implementation's observations.",
           "Trusted: Coq kernel, extraction (ExtrOcamlBasic), OCaml glue, Go harness and simulation adapters; see evidence trusted_base / assumptions and DESIGN.md 3.6.",
           "Coq proof over the model + differential correspondence + monitor on implementation traces")

def chk(pid):
    if pid in TEXT:
        text, note, technique = TEXT[pid]
    else:
        text = GENERIC[0] % (pid, ", ".join(PROPS[pid]["families"]))
        note, technique = GENERIC[1], GENERIC[2]
    return {"property_id": pid, "quick_cmd": "./check %s quick" % pid, "thorough_cmd": "./check %s thorough" % pid,
            "evidence_file": "evidence/%s.json" % pid, "replay_cmd_template": "./check %s --replay {path}" % pid,
            "engine": "coq-model", "level_claimed": {"category": "proof", "text": text, "design_ref": "DESIGN.md section 4, " + pid},
            "level_note": note, "technique": technique}

claimed = sorted(PROPS.keys())
m = {
 "version": 1,
 "setup_cmd": "./setup.sh",
 "hooks": {"guard": "verif", "enable": "go build -tags verif (file /repo/verif_export.go, //go:build verif: add-only re-exports of unexported pure helpers)",
           "baseline_off_cmd": "/verif/baseline_off.sh", "source_commits": ["c23bd4f", "HEAD~:verif_export.go"], "add_only": True},
 "engines": [{"name": "coq-model", "path": "coq/", "serves_properties": claimed, "kind_free_text": "Coq 8.16.1 development: executable Gallina models (coq/model), proofs (coq/proofs), property theorems (coq/props)"},
             {"name": "correspondence", "path": "harness/ + ocaml/", "serves_properties": claimed, "kind_free_text": "Go harness running the real code from /repo's working tree; extracted OCaml model re-computes every observation and evaluates the extracted monitor"}],
 "checks": [chk(p) for p in claimed],
 "not_applicable": [],
 "notes": "All checks: ./check <ID> quick|thorough. See DESIGN.md.",
}
for l in open(os.path.join(ROOT, "properties.jsonl")):
    pid = json.loads(l)["id"]
    if pid not in PROPS:
        m["not_applicable"].append({"property_id": pid, "reason": "not yet claimed: model and check under construction (DESIGN.md section 7); will be claimed when its check exists"})
hooks = os.popen("git -C /repo log --format=%h --grep='^verif:' 2>/dev/null").read().split()
m["hooks"]["source_commits"] = hooks
json.dump(m, open(os.path.join(ROOT, "MANIFEST.json"), "w"), indent=1)
print("MANIFEST: claimed", claimed)
