#!/usr/bin/env python3
"""Regenerates MANIFEST.json from verif_config.py and the table below (keeps it valid at all times)."""
import json, os, sys
ROOT = os.path.dirname(os.path.abspath(__file__))
sys.path.insert(0, ROOT)
from verif_config import PROPS

TRUST = "Trusted: Coq 8.16.1 kernel (no axioms: every theorem prints 'Closed under the global context'), extraction (ExtrOcamlBasic only), hand-written OCaml glue and monitor clauses, Go harness with gated simulation adapters (differential testing bounds the model-code tie), /repo/verif_export.go (tag verif). "
ENGINE_Q = "Quantification of the history theorems: every configuration, every sequence of operations in any order, every fault plan (error before/after the effect, lease loss, crash at any adapter call), crashes, lease revocations, rewinds, duplicated deliveries; hist_ok excludes stale reads and negative clock steps. "
TEXT = {
 "C01": ("Theorems (props/C01.v): no committed write is stranded with respect to the step consumer / timeout inserter of its status (outbox, or ahead of the committed position, or another shard's, or handled to completion with the witness the nil return leaves), proved for all histories from the delivery invariant (a consumer's position never passes an unhandled event; no hypothesis on the history) and the publish invariant; exactly-once effect (functions act on the persisted version only; each write moves the version by one); same effect as the failure-free execution (for every state, every Store of a step / timeout / callback handler is a pause/cancel keeping the status and object the function saw, or exactly the failure-free outcome of the configured function on the record it saw). " + ENGINE_Q + "Correspondence: the real engine under the deterministic simulation harness at every single fault position x fault kind and random multi-fault runs, compared with the extracted model; the monitor checks on the implementation's observations that at quiescence every run's final record equals the failure-free execution.",
         "PARTIAL: the 'final status and object equal the failure-free execution' clause is decided by the monitor on generated histories, not by one theorem; its ingredients (not stranded, effect on persisted version, one version per write, what-is-written is the failure-free outcome) are theorems. " + TRUST,
         "Coq proof (inductive delivery + publish invariants over all operation sequences and fault plans) + differential correspondence with the real engine + at-quiescence monitor"),
 "C02": ("Theorems: for every builder call list (any order) the graph's transitions are exactly the declared edges, validateTransition accepts exactly those for all integers; for all histories every committed write keeps the status or follows a declared transition from the persisted status, and a new run starts at a declared status. " + ENGINE_Q + "Correspondence: real Builder/graph/validateTransition on random call lists and all permutations of small sets; engine histories with functions returning declared, undeclared, 0, -1 and error-with-status outcomes.",
         TRUST, "Coq proof (graph invariant over AddTransition sequences; token theorem over all histories) + differential correspondence + monitor"),
 "C03": ("Theorems: the controller accepts exactly the documented (state, op) pairs (finite case analysis incl. out-of-range), rejected => nothing stored; IsTerminal = declared destination without outgoing edge, invariant under builder order; for all histories stored run states follow the lifecycle relation, finished stays finished, Completed exactly with the move to a terminal status. " + ENGINE_Q + "Correspondence: exhaustive table through NewRunStateController and the web UI handler; engine histories with control operations at every position.",
         TRUST, "Coq proof (finite case analysis, graph invariant, token theorem) + exhaustive / differential correspondence + monitor"),
 "C04": ("Theorems: for EVERY state (stale-read fault on the lookup included) a step/inserter handler that reads a higher version invokes nothing, writes nothing and returns nil; a lower version => nothing invoked or written, error (retry); for all histories functions act on the persisted version only and every write is version+1. Correspondence: rewinds to every position, duplicated deliveries, stale replica answers, on the real engine.",
         "A stale read that makes an old event look current is outside the statement (undetectable without conditional writes). " + TRUST,
         "Coq proof (handler facts for every state + token theorem) + differential correspondence + monitor"),
 "C05": ("Theorems (world invariant, all histories): a Store appends exactly one write and one outbox entry routing it; every committed write is in the outbox or published; every log event and outbox entry stems from a committed write. " + ENGINE_Q + "For every state and batch an entry is deleted only directly after its successful send and close (theorem on the cycle's trace). Correspondence + the same monitor clause at every fault position of the cycle on the real purgeOutbox.",
         "Outbox IDs distinct in every reachable world and a fault-free cycle drains exactly min(limit, n) entries are theorems too. " + TRUST,
         "Coq proof (publish invariant by induction over operations) + differential correspondence + monitor"),
 "C06": ("Theorems: routing is a total function of the record for all integer run-state codes; topic strings of one workflow are pairwise distinct for every name (itoa injective); Await release condition (repaired F9; the original refuted with a witness); for all histories the event a consumer receives is of its own topic and announces a committed write routed to that topic. Correspondence: exhaustive grid through the real protobuf outbox entry and topic.go; await family.",
         "DecimalString models strconv.FormatInt (swept by the harness). " + TRUST,
         "Coq proof + exhaustive grid correspondence + engine correspondence"),
 "C07": ("Theorems: for EVERY state a failing handler leaves no ack, an ack follows a nil handler or a filter, errors take the error exit (close, back-off), only Ack moves a committed position; for all histories with NO hypothesis the committed position never passes an event that was neither filtered nor handled to completion, and Recv returns the first event of the topic at or after the position (=> an unacknowledged event is handled again). Correspondence: every consumer kind x every failure position on the real consume loop.",
         "The consume lag is proved for every state (young event parked until created+lag). PARTIAL: the connector event round trip is proved under the hypothesis dec(enc e) = e about encoding/json, which the connrt family exercises on the real functions (FNV-1 event ID modelled in Coq). " + TRUST,
         "Coq proof (handler facts for every state + delivery invariant over all histories) + differential correspondence + monitor"),
 "C08": ("Theorems (all histories): no step/callback/timeout function is invoked while the run's persisted state is Paused/Cancelled/RequestedDataDeleted/DataDeleted; a stopped run keeps status and object (but for the deletion rewrite). " + ENGINE_Q + "Correspondence: control operations (API, controller, from step functions, by error count) at every position of generated histories.",
         TRUST, "Coq proof (token theorem over all histories) + differential correspondence + monitor"),
 "C09": ("Theorems: a new run is Initiated, version 1, at a declared status; world invariant for all histories: every run followed by a later run of its foreign ID is finished (at most one unfinished). For every state Trigger returns an error with no Store (bad start, unfinished latest run, failed lookup) or performs exactly one Store of the fresh record. Composition with C17 (memrecordstore refines the reference store, Latest = newest created). " + ENGINE_Q,
         TRUST, "Coq proof (world invariant by induction over operations) + differential correspondence + monitor"),
 "C10": ("Theorems over the shard filter: for every integer event ID and every shard count n >= 2 exactly one shard handles the event; the original truncated remainder refuted (F7, repaired). Correspondence: real shardFilter on all residues and both signs; the launch family compares the roles the real Run requests with the model's enumeration on the whole configuration grid (per-unit/default counts 0..8 x hooks x timeouts x connectors x paused-retry, two display-string variants).",
         "Connector consumers run inside the engine harness; for all histories a shard never passes a connector event it owns without the connector function having returned nil on it (theorem), other shards acknowledge it unhandled (theorem), and the monitor checks every connector event is handled by exactly its own shard. Launch: theorems that the model's launch list is exactly the configured units, each once, with max(1,n) consumers forming shards 1..n of n; the list is tied to the real Run by the launch family. PARTIAL: distinctness of the role-name strings is an exhaustive comparison on the grid, not a theorem. int64 modelled as Z. " + TRUST,
         "Coq proof (shard partition for all Z) + exhaustive / differential correspondence"),
 "C11": ("Theorems: for EVERY state a store/stream/timeout call made after lease loss or crash has no effect; a failed operation takes the error exit and the process survives; memrolescheduler transition system: at most one live holder per role for every interleaving of await/grant/cancel/unlock. Monitor on the real engine: every call under the current lease, Await after errors, open/close balance, no call after Stop, every process shut down when Stop returns. Search (not proof): the harness built with go build -race runs the goroutine families and the engine family under the race detector.",
         "PARTIAL: freedom from data races is a statement about Go's memory model; it is not modelled and no theorem is claimed for it (the race detector run is a search for a failing schedule). " + TRUST,
         "Coq proof (handler facts + transition-system mutex invariant) + differential correspondence + monitor"),
 "C12": ("Theorems: for all histories a timeout function runs only for a run persisted at that status, not stopped, not finished; memtimeoutstore refines the reference timeout store for every operation sequence (unknown IDs included); due <=> same workflow/status, not completed, expired; other timers untouched. For every state a poll cycle cancels a timer only directly after reading its run as moved/finished and completes it only directly after the stored transition (theorem on the cycle's trace). Monitor: fired only with an own due timer listed in this cycle.",
         TRUST, "Coq proof (token theorem + refinement by simulation) + differential correspondence + monitor"),
 "C13": ("Theorems: the error counter touches exactly its (error, process, run) key; for EVERY state maybePause never pauses without a count, below the count writes nothing, at the count pauses through the controller and clears; for every history a count is moved only by a scheduling step of the process its key names on that instance or reset by a crash of it (C13_history_frame), and along any chain of failing invocations of one key the first n-1 do not pause and the n-th does (C13_exactly_nth), after which the count is 0. Monitor on the real engine: paused exactly at the n-th failure of that key since the last pause; auto-retry only after the interval.",
         "The trace-level recount (n-th failing-invocation token since the last pause write) is the monitor's form; the count's movers along histories and its exactness along chains are theorems. Counter key modelled as a triple. " + TRUST,
         "Coq proof + differential correspondence + monitor"),
 "C14": ("Theorems: for all histories every write making a run Paused/Cancelled/Completed is, for the hook consumer of that state, in the outbox, or at/after its committed position, or the hook returned nil for that run, or the run's data was deleted; a failing hook is never acknowledged; an event of another state is acknowledged without invoking the hook (every state). " + ENGINE_Q,
         TRUST, "Coq proof (delivery + publish invariants over all histories; handler facts) + differential correspondence + at-quiescence monitor"),
 "C15": ("Theorems (all histories): a deletion request is accepted only for Completed/Cancelled/DataDeleted runs; the scrub keeps status and identity and bumps the version; an accepted request is in the outbox, or at/after the delete consumer's position, or the run is DataDeleted (never lost); in a fault-free state the delete handler serves a request whatever state the run is in, also a redelivered one (every world). " + ENGINE_Q,
         TRUST, "Coq proof (token theorem + delivery invariant) + differential correspondence + at-quiescence monitor"),
 "C16": ("Theorems (all histories): identity fields constant, versions consecutive, update time monotone, StatusDescription of the written status; the object changes only with a status write or the scrub; every function sees the persisted object; conversely, in a fault-free state a declared destination (self-loop included) returned with nil error is written (every world). " + ENGINE_Q,
         TRUST, "Coq proof (token theorem over all histories) + differential correspondence + monitor"),
 "C17": ("Theorems: memrecordstore refines the reference store for every operation sequence including caller mutations (simulation relation); paging theorem for all contents, filters, orders and page sizes. Correspondence: the real adapter on exhaustive short and random long sequences.",
         TRUST, "Coq proof (refinement by simulation, induction over op sequences) + differential correspondence"),
 "C18": ("Theorems: sqlstore.Store as a statement sequence over a transactional row store: for every failure position the committed database is unchanged and an error is returned; without failure exactly the record row and one outbox row are committed; the committed db abstracts to the reference store step; placeholders = arguments; the statement List builds with whereBuilder, read as SQL (OR weaker than AND, parentheses, placeholders in textual order, OFFSET then LIMIT), selects exactly the reference List page for every filter combination, order, limit and offset (C18_list_statement_meaning), and would not without the parentheses (C18_grouping_matters); adapters/sqltimeout as one statement per operation refines the reference timer list inside its domain (C18_sqltimeout_refines). Correspondence: the real sqlstore/sqltimeout on sqlmini (recording database/sql driver + in-process engine) with a failure at every statement; statement-log check; the token text and bound arguments of every List statement compared with the model's list_stmt; cross-check of the extracted model against the committed rows.",
         "PARTIAL: MySQL itself (isolation, datetime ties, collation) is replaced by sqlmini, as the property allows ('a reference SQL engine'). " + TRUST,
         "Coq proof (statement-level atomicity for all failure positions + refinement) + differential correspondence"),
 "C19": ("Theorems: memstreamer refines the reference stream (log + position per name) for every interleaving of send/new receiver/recv/ack/reconnect; delivery from the position, in send order, redelivery until ack. Domain: one topic per receiver name. Correspondence: exhaustive short and random sequences on the real adapter.",
         TRUST, "Coq proof (refinement by simulation) + differential correspondence"),
 "C20": ("Theorems: one run per tick, nothing created when the filter answers false or the latest run is unfinished, cron laws of the periodic family, never-early for the iteration's reference instant; the full 'never before the first tick after the later of start and latest creation' is REFUTED by a vm_compute witness (F13, catch-up after downtime; recorded as a known finding) and the exact restriction is proved as _partial. Correspondence: schedule clock walks on the real Schedule with the simulated clock; next compared with robfig/cron.",
         "Known finding F13 (KNOWN-FINDING line, exit 0); non-periodic cron specifications are outside the model's family. " + TRUST,
         "Coq proof (+ refutation witness) + differential correspondence + monitor"),
}

GENERIC = ("Coq theorems over the executable model of the anchored code (coq/props/%s.v) + correspondence of the model with the real code on every run (harness families: %s) + the property monitor evaluated on the implementation's observations.",
           "Trusted: Coq kernel, extraction (ExtrOcamlBasic), OCaml glue, Go harness and simulation adapters; see evidence trusted_base / assumptions and DESIGN.md 3.6.",
           "Coq proof over the model + differential correspondence + monitor on implementation traces")

def chk(pid):
    if pid in TEXT:
        text, note, technique = TEXT[pid]
    else:
        text = GENERIC[0] % (pid, ", ".join(PROPS[pid]["families"]))
        note, technique = GENERIC[1], GENERIC[2]
    return {"property_id": pid, "quick_cmd": "./check %s quick" % pid, "thorough_cmd": "./check %s thorough" % pid,
            "evidence_file": "evidence/%s.json" % pid, "replay_cmd_template": "./check %s --replay {path}" % pid,
            "engine": "coq-model", "level_claimed": {"category": "proof", "text": text, "design_ref": "DESIGN.md section 4, " + pid},
            "level_note": note, "technique": technique}

claimed = sorted(PROPS.keys())
m = {
 "version": 1,
 "setup_cmd": "./setup.sh",
 "hooks": {"guard": "verif", "enable": "go build -tags verif (file /repo/verif_export.go, //go:build verif: add-only re-exports of unexported pure helpers)",
           "baseline_off_cmd": "/verif/baseline_off.sh", "source_commits": ["c23bd4f", "HEAD~:verif_export.go"], "add_only": True},
 "engines": [{"name": "coq-model", "path": "coq/", "serves_properties": claimed, "kind_free_text": "Coq 8.16.1 development: executable Gallina models (coq/model), proofs (coq/proofs), property theorems (coq/props)"},
             {"name": "correspondence", "path": "harness/ + ocaml/", "serves_properties": claimed, "kind_free_text": "Go harness running the real code from /repo's working tree; extracted OCaml model re-computes every observation and evaluates the extracted monitor"}],
 "checks": [chk(p) for p in claimed],
 "not_applicable": [],
 "notes": "All checks: ./check <ID> quick|thorough|--replay FILE. Every property is claimed; partial clauses are stated in level_note and DESIGN.md section 7. Known findings: known_findings.json. Seeded changes and which check catches them: seeded/ and DESIGN.md section 6.",
}
for l in open(os.path.join(ROOT, "properties.jsonl")):
    pid = json.loads(l)["id"]
    if pid not in PROPS:
        m["not_applicable"].append({"property_id": pid, "reason": "not yet claimed: model and check under construction (DESIGN.md section 7); will be claimed when its check exists"})
hooks = os.popen("git -C /repo log --format=%h --grep='^verif:' 2>/dev/null").read().split()
m["hooks"]["source_commits"] = hooks
json.dump(m, open(os.path.join(ROOT, "MANIFEST.json"), "w"), indent=1)
print("MANIFEST: claimed", claimed)
