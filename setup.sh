#!/bin/sh
# Build the whole framework offline from files on disk: Coq development (full .vo build), extracted OCaml model
# driver, Go harness against /repo (tag verif).
set -e
cd "$(dirname "$0")"
export GOFLAGS=-mod=mod GOPROXY=off GOSUMDB=off GOTOOLCHAIN=local
mkdir -p .work/bin evidence replays
(cd coq && coq_makefile -f _CoqProject -o Makefile >/dev/null && timeout 3400 make -j16 2>&1 | grep -v '^COQC\|^COQDEP\|^Closed under' || true)
(cd coq && make -j16 >/dev/null 2>&1) || { echo "coq build failed"; exit 1; }
./ocaml/build.sh
cat /repo/go.sum /repo/adapters/sqlstore/go.sum /repo/adapters/sqltimeout/go.sum /repo/adapters/webui/go.sum harness/go.sum 2>/dev/null | sort -u > harness/go.sum.new && mv harness/go.sum.new harness/go.sum
(cd harness && go build -tags verif -o ../.work/bin/harness .)
echo "setup ok"
