(* Digest.v — a structural digest of an engine trace (every field of every token), used to compare the trace the EXTRACTED
   interpreter computes in OCaml with the trace the same definitions compute INSIDE Coq (vm_compute) on sampled scenarios:
   a check of the extraction step (thorough tier). Executable definitions only. *)
From WF Require Import model.Base model.RunState model.Routing model.Graph model.Counter model.Shard model.EngineBase model.Engine.
Open Scope Z_scope.

Definition dmod : Z := 2305843009213693951.   (* 2^61 - 1 *)
Definition mix (h x : Z) : Z := (h * 1000003 + x + 1) mod dmod.
Definition mixl (h : Z) (l : list Z) : Z := fold_left mix l h.

Definition d_obj (o : obj) : Z := match o with OVal s t => mixl (mix 11 s) t | ODeleted => 13 end.
Definition d_rec (r : record) : Z :=
  mixl 17 [Z.of_N (r_wf r); Z.of_N (r_fid r); Z.of_N (r_run r); rs_code (r_state r); r_status r; d_obj (r_obj r);
           r_created r; r_updated r; r_ver r; Z.of_N (r_reason r); r_desc r].
Definition d_orec (r : option record) : Z := match r with Some x => mix 19 (d_rec x) | None => 23 end.
Definition d_topic (t : topic) : Z := match t with TStatus s => mix 29 s | TDelete => 31 | TRunStateChange => 37 | TConn c => mix 39 (Z.of_N c) end.
Definition d_event (e : event) : Z :=
  mixl 41 [e_id e; Z.of_N (e_wf e); d_topic (e_topic e); Z.of_N (e_run e); Z.of_N (e_fid e); e_type e; e_state e; e_ver e; e_created e].
Definition d_oentry (o : oentry) : Z :=
  mixl 43 [Z.of_N (o_id o); Z.of_N (o_wf o); d_topic (o_topic o); Z.of_N (o_run o); Z.of_N (o_fid o); o_type o; o_state o; o_ver o].
Definition d_ares (a : ares) : Z := match a with ROk => 1 | RErr => 2 | RErrAfter => 3 | RCancel => 4 | RNotFound => 5 | RBlocked => 6 end.
Definition d_uret (u : uret) : Z :=
  match u with URet z => mix 47 z | UErr e => mix 53 e | UTime None => 59 | UTime (Some t) => mix 61 t | UOk => 67 | UPauseA => 71 | UCancelA => 73 end.

Definition d_tok (t : tok) : Z :=
  match t with
  | TOp n => mix 101 (Z.of_nat n)
  | TCall k args r out => mixl (mixl (mixl 103 [Z.of_nat (ckind_code k); d_ares r]) args) (79 :: out)
  | TLookup k key r rc => mixl 107 [Z.of_nat (ckind_code k); key; d_ares r; d_orec rc]
  | TStore prev r a => mixl 109 [d_orec prev; d_rec r; d_ares a]
  | TUser u view pers now pl => mixl 113 [ufun_code u; d_rec view; d_orec pers; now; d_uret pl]
  | TRecv e => mix 127 (d_event e)
  | TAck e a => mixl 131 [d_event e; d_ares a]
  | TSend o a => mixl 137 [d_oentry o; d_ares a]
  | TDelOut id a => mixl 139 [Z.of_N id; d_ares a]
  | TTCreate run st ex a => mixl 149 [Z.of_N run; st; ex; d_ares a]
  | TTEnd k id a => mixl 151 [Z.of_nat (ckind_code k); id; d_ares a]
  | TApi code => mix 157 code
  end.

Definition trace_digest (tr : list tok) : Z := fold_left (fun h t => mix h (d_tok t)) tr 7.
Definition scenario_digest (c : econfig) (ops : list eop) : Z := trace_digest (snd (run_ops c ops)).
