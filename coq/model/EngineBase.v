(* EngineBase.v — world, tokens, fault plans and the operation monad of the engine model.
   One "operation" = what one process does between two scheduling boundaries (see DESIGN 3.3), or one API call.
   Every adapter call consults the fault plan: (call kind, occurrence within the operation) -> fault. *)
From WF Require Import model.Base model.RunState model.Routing model.Graph model.Counter.

(* ---------- errors / results ---------- *)
(* error codes: 0 = context.Canceled, 1 = injected / wrapped generic error, >= 10 user error texts *)
Definition err := Z.
Definition ECancel : err := 0.
Definition EGen : err := 1.
Inductive res (A : Type) := Ok (a : A) | Err (e : err).
Arguments Ok {A} a. Arguments Err {A} e.

Inductive ares := ROk | RErr | RErrAfter | RCancel | RNotFound | RBlocked.

(* ---------- call kinds and faults ---------- *)
Inductive ckind :=
| KAW | KNR | KRV | KAK | KCL | KLK | KLT | KST | KLO | KNS | KSD | KSC | KDO | KTL | KTC | KTM | KTX | KTW.
Definition ckind_code (k : ckind) : nat :=
  match k with
  | KAW => 0 | KNR => 1 | KRV => 2 | KAK => 3 | KCL => 4 | KLK => 5 | KLT => 6 | KST => 7 | KLO => 8 | KNS => 9
  | KSD => 10 | KSC => 11 | KDO => 12 | KTL => 13 | KTC => 14 | KTM => 15 | KTX => 16 | KTW => 17
  end%nat.
Definition ckind_eqb (a b : ckind) : bool := Nat.eqb (ckind_code a) (ckind_code b).

Inductive fault := FNone | FErrBefore | FErrAfter | FLease | FCrash | FStale.   (* FStale: a Lookup is answered by a lagging replica *)
Definition plan := list (ckind * nat * fault).
Fixpoint plan_at (p : plan) (k : ckind) (occ : nat) : fault :=
  match p with
  | [] => FNone
  | (k', o', f) :: t => if ckind_eqb k k' && Nat.eqb occ o' then f else plan_at t k occ
  end.

(* ---------- units (background processes) ---------- *)
Inductive eunit :=
| EOutbox
| EStep (s i n : Z)
| EPoller (s : Z)
| EInserter (s : Z)
| EHook (st : runstate)
| EDelete
| ERetry
| ESched (fid : N)                      (* schedule.go: the scheduling process of one foreign ID *)
| EConn (cid : N) (i n : Z).            (* connector.go: shard i of n of the consumer of connector cid *)

Definition eunit_eqb (a b : eunit) : bool :=
  match a, b with
  | EOutbox, EOutbox | EDelete, EDelete | ERetry, ERetry => true
  | EStep s i n, EStep s' i' n' => Z.eqb s s' && Z.eqb i i' && Z.eqb n n'
  | EPoller s, EPoller s' | EInserter s, EInserter s' => Z.eqb s s'
  | EHook a, EHook b => rs_eqb a b
  | ESched a, ESched b => N.eqb a b
  | EConn a i n, EConn a' i' n' => N.eqb a a' && Z.eqb i i' && Z.eqb n n'
  | _, _ => false
  end.

(* a numeric code of the unit, used as the "process" component of the error-counter key *)
Definition eunit_code (u : eunit) : N :=
  match u with
  | EOutbox => 1 | EDelete => 2 | ERetry => 3
  | EHook st => 10 + Z.to_N (rs_code st)
  | EStep s i n => 1000 + 1000 * Z.to_N (Z.abs s) + 10 * Z.to_N i
  | EPoller s => 500000 + Z.to_N (Z.abs s)
  | EInserter s => 700000 + Z.to_N (Z.abs s)
  | ESched f => 900000 + f
  | EConn cid i _ => 800000 + 1000 * cid + Z.to_N i
  end%N.

(* ---------- user functions: a small deterministic script language ---------- *)
Inductive beh :=
| BRet (mark : bool) (z : Z)          (* optionally append the current status to the trail; return (z, nil) *)
| BErr (mark : bool) (e : Z)          (* return (0, error e) *)
| BErrZ (mark : bool) (z : Z) (e : Z) (* return (z, error e): an error comes with a status, which must be ignored *)
| BPause (mark : bool)                (* return r.Pause(ctx, ..) *)
| BCancel (mark : bool)               (* return r.Cancel(ctx, ..) *)
| BFailFirst (k : nat) (e : Z) (b : beh)   (* the first k invocations of this function on a run fail with e *)
| BBranch (b1 b2 : beh).              (* object seed even: b1, odd: b2 *)

Inductive action := ARet (z : Z) | AErr (e : Z) | APause | ACancel.

Fixpoint eval_beh (b : beh) (attempt : nat) (seed : Z) : bool * action :=
  match b with
  | BRet m z => (m, ARet z)
  | BErr m e => (m, AErr e)
  | BErrZ m _ e => (m, AErr e)
  | BPause m => (m, APause)
  | BCancel m => (m, ACancel)
  | BFailFirst k e b' => if Nat.ltb attempt k then (false, AErr e) else eval_beh b' attempt seed
  | BBranch b1 b2 => if Z.even seed then eval_beh b1 attempt seed else eval_beh b2 attempt seed
  end.

Inductive ufun :=
| UFStep (s : Z) | UFCallback (s : Z) (j : nat) | UFTimer (s : Z) (j : nat) | UFTimeout (s : Z) (j : nat)
| UFHook (st : runstate) | UFDelete | UFFilter (fid : N) | UFConn (cid : N).

Definition ufun_code (u : ufun) : Z :=
  match u with
  | UFStep s => 1000000 + s
  | UFCallback s j => 2000000 + 1000 * Z.of_nat j + s
  | UFTimer s j => 3000000 + 1000 * Z.of_nat j + s
  | UFTimeout s j => 4000000 + 1000 * Z.of_nat j + s
  | UFHook st => 5000000 + rs_code st
  | UFDelete => 6000000
  | UFFilter f => 7000000 + Z.of_N f
  | UFConn cid => 8000000 + Z.of_N cid
  end.

(* ---------- program / configuration ---------- *)
Record stepcfg := mkStep { sc_status : Z; sc_beh : beh; sc_dests : list Z; sc_par : Z; sc_pause : Z; sc_lag : Z }.
Record cbcfg := mkCb { cb_status : Z; cb_beh : beh; cb_dests : list Z }.
Record tocfg := mkTo { to_status : Z; to_dur : Z (* -2: the timer function FAILS (error 15 with the zero time); other values < 0: it returns the zero time *); to_beh : beh; to_dests : list Z; to_pause : Z }.

(* a schedule: cron specification [sd_spec] (index into the periodic family below), initial value, and a schedule filter
   answering false on its first [sd_filter] invocations (0 = no filter configured) *)
(* a connector: its consumer function fails its first [cn_fail] invocations per event; [cn_par] = its ParallelCount (0 = default) *)
Record conncfg := mkConn { cn_id : N; cn_fail : nat; cn_par : Z }.

Record schedcfg := mkSched { sd_fid : N; sd_spec : Z; sd_seed : Z; sd_filter : Z }.

(* the cron specifications of the harness, as (period, phase) in ns relative to the harness's base instant
   2023-11-14 22:13:20 UTC:  1 "* * * * *"  2 "*/15 * * * *"  3 "@hourly"  4 "@daily"  5 "0,30 * * * *"
   6 "@weekly" (Sunday 00:00 UTC; the base instant is a Tuesday, 252800 s after the last one) *)
Definition spec_period (id : Z) : Z :=
  match id with 1 => 60 | 2 => 900 | 3 => 3600 | 4 => 86400 | 5 => 1800 | 6 => 604800 | _ => 60 end * 1000000000.
Definition spec_phase (id : Z) : Z :=
  match id with 1 => 20 | 2 => 800 | 3 => 800 | 4 => 80000 | 5 => 800 | 6 => 252800 | _ => 20 end * 1000000000.
(* cron.Schedule.Next for these specifications: the first tick strictly after t *)
Definition cron_next (id : Z) (t : Z) : Z :=
  ((t + spec_phase id) / spec_period id + 1) * spec_period id - spec_phase id.

Record econfig := mkEcfg {
  ec_steps : list stepcfg;
  ec_cbs : list cbcfg;
  ec_tos : list tocfg;
  ec_hooks : list (runstate * nat);     (* hook for a state, failing its first k invocations per run *)
  ec_scheds : list schedcfg;
  ec_conns : list conncfg;
  ec_del : Z;                           (* 0 = default marker; 1 = custom delete; 2+k = custom delete failing its first k invocations per run *)
  ec_dpar : Z;                          (* default ParallelCount *)
  ec_dpause : Z;                        (* default PauseAfterErrCount *)
  ec_retry : Z;                         (* resume interval of the paused-retry consumer; < 0 = disabled *)
  ec_limit : Z;                         (* outbox lookup limit *)
  ec_backoff : Z;                       (* error back-off (all processes) *)
  ec_inst : Z;                          (* service instances *)
  ec_stamp : bool                       (* the store stamps UpdatedAt on every write (SQL) *)
}.

Definition ec_calls (c : econfig) : list bcall :=
  map (fun s => (sc_status s, sc_dests s)) (ec_steps c) ++
  map (fun s => (cb_status s, cb_dests s)) (ec_cbs c) ++
  map (fun s => (to_status s, to_dests s)) (ec_tos c).
(* the harness issues AddStep calls first, then AddCallback, then AddTimeout, in list order *)
Definition ec_graph (c : econfig) : graph := build (ec_calls c).

(* ---------- process state ---------- *)
Inductive pstate :=
| PIdle                         (* about to await its role *)
| PRun                          (* holds the role; parked at its boundary call (Recv / ListValid) *)
| PLag (idx : nat) (e : event) (deadline : Z)   (* received e (log index idx), waiting for the consume lag *)
| PBackoff (deadline : Z)       (* error back-off, still holding the role *)
| PWait (deadline : Z).         (* the scheduler waits for the next cron tick *)

Definition procid := (Z * eunit)%type.   (* (instance, unit) *)
Definition procid_eqb (a b : procid) : bool := Z.eqb (fst a) (fst b) && eunit_eqb (snd a) (snd b).

(* ---------- tokens: the observable trace ---------- *)
Inductive uret := URet (z : Z) | UErr (e : Z) | UTime (t : option Z) | UOk | UPauseA | UCancelA.

Inductive tok :=
| TOp (n : nat)                                        (* operation separator *)
| TCall (k : ckind) (args : list Z) (r : ares) (out : list Z)
| TLookup (k : ckind) (key : Z) (r : ares) (rec : option record)
| TStore (prev : option record) (r : record) (a : ares)
| TUser (u : ufun) (view : record) (persisted : option record) (now : Z) (planned : uret)
| TRecv (e : event)
| TAck (e : event) (a : ares)
| TSend (o : oentry) (a : ares)
| TDelOut (id : N) (a : ares)
| TTCreate (run : N) (status : Z) (expire : Z) (a : ares)
| TTEnd (k : ckind) (id : Z) (a : ares)
| TApi (code : Z).                                     (* result of an API call: 0 = nil error, otherwise an error code *)

(* ---------- world ---------- *)
Record world := mkWorld {
  w_recs : list record;                 (* current record per run, creation order *)
  w_hist : list record;                 (* ghost: every committed Store, in order *)
  w_outbox : list oentry;
  w_noid : N;
  w_nrun : N;
  w_log : list event;
  w_cur : list (eunit * nat);           (* committed cursor per receiver name (= role of the unit) *)
  w_timers : list trec;
  w_ntid : Z;
  w_now : Z;
  w_roles : list (eunit * Z);           (* role holder: instance *)
  w_procs : list (procid * pstate);
  w_ctrs : list (Z * counter);          (* error counters per instance *)
  w_att : list (Z * N * nat);           (* invocations per (function code, run) *)
  w_lost : list procid                  (* processes whose lease was revoked while they were parked and that have not noticed yet *)
}.

Definition w0 : world := mkWorld [] [] [] 1%N 1%N [] [] [] 1 0 [] [] [] [] [].

(* record-field setters (one per field that changes) *)
Definition set_recs (w : world) (recs : list record) (hist : list record) (ob : list oentry) (noid : N) : world :=
  mkWorld recs hist ob noid (w_nrun w) (w_log w) (w_cur w) (w_timers w) (w_ntid w) (w_now w) (w_roles w) (w_procs w) (w_ctrs w) (w_att w) (w_lost w).
Definition set_outbox (w : world) (ob : list oentry) : world :=
  mkWorld (w_recs w) (w_hist w) ob (w_noid w) (w_nrun w) (w_log w) (w_cur w) (w_timers w) (w_ntid w) (w_now w) (w_roles w) (w_procs w) (w_ctrs w) (w_att w) (w_lost w).
Definition set_nrun (w : world) (n : N) : world :=
  mkWorld (w_recs w) (w_hist w) (w_outbox w) (w_noid w) n (w_log w) (w_cur w) (w_timers w) (w_ntid w) (w_now w) (w_roles w) (w_procs w) (w_ctrs w) (w_att w) (w_lost w).
Definition set_log (w : world) (l : list event) : world :=
  mkWorld (w_recs w) (w_hist w) (w_outbox w) (w_noid w) (w_nrun w) l (w_cur w) (w_timers w) (w_ntid w) (w_now w) (w_roles w) (w_procs w) (w_ctrs w) (w_att w) (w_lost w).
Definition set_cur (w : world) (c : list (eunit * nat)) : world :=
  mkWorld (w_recs w) (w_hist w) (w_outbox w) (w_noid w) (w_nrun w) (w_log w) c (w_timers w) (w_ntid w) (w_now w) (w_roles w) (w_procs w) (w_ctrs w) (w_att w) (w_lost w).
Definition set_timers (w : world) (t : list trec) (n : Z) : world :=
  mkWorld (w_recs w) (w_hist w) (w_outbox w) (w_noid w) (w_nrun w) (w_log w) (w_cur w) t n (w_now w) (w_roles w) (w_procs w) (w_ctrs w) (w_att w) (w_lost w).
Definition set_now (w : world) (t : Z) : world :=
  mkWorld (w_recs w) (w_hist w) (w_outbox w) (w_noid w) (w_nrun w) (w_log w) (w_cur w) (w_timers w) (w_ntid w) t (w_roles w) (w_procs w) (w_ctrs w) (w_att w) (w_lost w).
Definition set_roles (w : world) (r : list (eunit * Z)) : world :=
  mkWorld (w_recs w) (w_hist w) (w_outbox w) (w_noid w) (w_nrun w) (w_log w) (w_cur w) (w_timers w) (w_ntid w) (w_now w) r (w_procs w) (w_ctrs w) (w_att w) (w_lost w).
Definition set_procs (w : world) (p : list (procid * pstate)) : world :=
  mkWorld (w_recs w) (w_hist w) (w_outbox w) (w_noid w) (w_nrun w) (w_log w) (w_cur w) (w_timers w) (w_ntid w) (w_now w) (w_roles w) p (w_ctrs w) (w_att w) (w_lost w).
Definition set_ctrs (w : world) (c : list (Z * counter)) : world :=
  mkWorld (w_recs w) (w_hist w) (w_outbox w) (w_noid w) (w_nrun w) (w_log w) (w_cur w) (w_timers w) (w_ntid w) (w_now w) (w_roles w) (w_procs w) c (w_att w) (w_lost w).
Definition set_lost (w : world) (l : list procid) : world :=
  mkWorld (w_recs w) (w_hist w) (w_outbox w) (w_noid w) (w_nrun w) (w_log w) (w_cur w) (w_timers w) (w_ntid w) (w_now w) (w_roles w) (w_procs w) (w_ctrs w) (w_att w) l.
Definition set_att (w : world) (a : list (Z * N * nat)) : world :=
  mkWorld (w_recs w) (w_hist w) (w_outbox w) (w_noid w) (w_nrun w) (w_log w) (w_cur w) (w_timers w) (w_ntid w) (w_now w) (w_roles w) (w_procs w) (w_ctrs w) a (w_lost w).

(* ---------- reference adapters (the contracts of store.go / eventstreamer.go) on the world ---------- *)
Definition lookup_run (w : world) (run : N) : option record := find_first (fun r => N.eqb (r_run r) run) (w_recs w).
Definition latest_fid (w : world) (fid : N) : option record := last_opt (filter (fun r => N.eqb (r_fid r) fid) (w_recs w)).

Definition upsert (recs : list record) (r : record) : list record :=
  if existsb (fun x => N.eqb (r_run x) (r_run r)) recs then replace_first (fun x => N.eqb (r_run x) (r_run r)) r recs
  else recs ++ [r].

Definition stamp (c : econfig) (w : world) (r : record) : record :=
  if ec_stamp c then mkRecord (r_wf r) (r_fid r) (r_run r) (r_state r) (r_status r) (r_obj r) (r_created r) (w_now w) (r_ver r) (r_reason r) (r_desc r)
  else r.

Definition do_store (c : econfig) (w : world) (r : record) : world :=
  let r' := stamp c w r in
  set_recs w (upsert (w_recs w) r') (w_hist w ++ [r']) (w_outbox w ++ [route (w_noid w) r']) (w_noid w + 1)%N.

Definition get_cursor (w : world) (u : eunit) : nat :=
  match find_first (fun x => eunit_eqb (fst x) u) (w_cur w) with Some x => snd x | None => O end.
Definition put_cursor (w : world) (u : eunit) (n : nat) : world :=
  set_cur w ((u, n) :: filter (fun x => negb (eunit_eqb (fst x) u)) (w_cur w)).

(* first event of the topic at an index >= pos; returns (index, event) *)
Fixpoint next_event (t : topic) (l : list event) (idx pos : nat) : option (nat * event) :=
  match l with
  | [] => None
  | e :: tl => if Nat.leb pos idx && topic_eqb (e_topic e) t then Some (idx, e) else next_event t tl (S idx) pos
  end.

Definition do_send (w : world) (o : oentry) : world :=
  set_log w (w_log w ++ [event_of_entry (Z.of_nat (length (w_log w)) + 1) (w_now w) o]).

Definition due_timers (w : world) (status : Z) : list trec :=
  filter (fun t => Z.eqb (t_status t) status && negb (t_completed t) && Z.leb (t_expire t) (w_now w)) (w_timers w).

(* ---------- the operation monad ---------- *)
Record ost := mkOst {
  o_w : world;
  o_plan : plan;
  o_counts : list (ckind * nat);
  o_trace : list tok;       (* reversed *)
  o_lease : bool;           (* the lease context is still live *)
  o_dead : bool             (* the instance crashed during this operation *)
}.
Definition M (A : Type) := ost -> res A * ost.
Definition ret {A} (a : A) : M A := fun s => (Ok a, s).
Definition fail {A} (e : err) : M A := fun s => (Err e, s).
Definition bind {A B} (m : M A) (f : A -> M B) : M B :=
  fun s => match m s with (Ok a, s') => f a s' | (Err e, s') => (Err e, s') end.
Notation "x <- m ;; k" := (bind m (fun x => k)) (at level 61, m at next level, right associativity).
Notation "m ;;; k" := (bind m (fun _ => k)) (at level 61, right associativity).

(* nothing is observed of an instance after it crashed *)
Definition emit (t : tok) : M unit := fun s =>
  if o_dead s then (Ok tt, s) else (Ok tt, mkOst (o_w s) (o_plan s) (o_counts s) (t :: o_trace s) (o_lease s) (o_dead s)).
Definition get_w : M world := fun s => (Ok (o_w s), s).
Definition put_w (w : world) : M unit := fun s => (Ok tt, mkOst w (o_plan s) (o_counts s) (o_trace s) (o_lease s) (o_dead s)).
Definition set_flags (lease dead : bool) : M unit := fun s => (Ok tt, mkOst (o_w s) (o_plan s) (o_counts s) (o_trace s) lease dead).

Fixpoint count_get (l : list (ckind * nat)) (k : ckind) : nat :=
  match l with [] => O | (k', n) :: t => if ckind_eqb k k' then n else count_get t k end.
Definition next_fault (k : ckind) : M fault := fun s =>
  let occ := count_get (o_counts s) k in
  (Ok (plan_at (o_plan s) k occ),
   mkOst (o_w s) (o_plan s) ((k, S occ) :: o_counts s) (o_trace s) (o_lease s) (o_dead s)).

(* outcome of consulting the fault plan for one call:
   DoOk = perform, return ok; DoErrAfter = perform, return error; DoErr = no effect, error; DoCancel = no effect, context.Canceled *)
Inductive disp := DoOk | DoErrAfter | DoErr | DoCancel | DoStale.   (* DoStale: perform, return ok, but a Lookup answers with the previous committed version *)

(* [ctx] = the call takes the lease context (fails once the lease is lost); calls without context (Ack, Close) still
   fail without effect once the instance is dead *)
Definition dispatch (k : ckind) (ctx : bool) : M disp := fun s =>
  match next_fault k s with
  | (Ok f, s1) =>
    if o_dead s1 then (Ok DoCancel, s1)
    else if ctx && negb (o_lease s1) then (Ok DoCancel, s1)
    else match f with
         | FNone => (Ok DoOk, s1)
         | FErrBefore => (Ok DoErr, s1)
         | FErrAfter => (Ok DoErrAfter, s1)
         | FLease => (Ok DoCancel, mkOst (o_w s1) (o_plan s1) (o_counts s1) (o_trace s1) false (o_dead s1))
         | FCrash => (Ok DoCancel, mkOst (o_w s1) (o_plan s1) (o_counts s1) (o_trace s1) false true)
         | FStale => (Ok (if ckind_eqb k KLK then DoStale else DoOk), s1)
         end
  | (Err e, s1) => (Err e, s1)
  end.

Definition disp_res (d : disp) : ares := match d with DoOk | DoStale => ROk | DoErrAfter => RErrAfter | DoErr => RErr | DoCancel => RCancel end.
Definition disp_effect (d : disp) : bool := match d with DoOk | DoErrAfter | DoStale => true | _ => false end.
Definition disp_ret {A} (d : disp) (a : A) : M A :=
  match d with DoOk | DoStale => ret a | DoErrAfter | DoErr => fail EGen | DoCancel => fail ECancel end.

(* ---------- primitives ----------
   Every adapter call has the same shape: consult the fault plan, read the world, record the call in the trace, apply the
   effect unless the call failed before taking effect, return the answer or the error. *)
Definition prim {A} (k : ckind) (ctx : bool) (T : disp -> world -> tok) (E : world -> world) (X : disp -> world -> M A) : M A :=
  d <- dispatch k ctx ;; w <- get_w ;; emit (T d w) ;;; (if disp_effect d then put_w (E w) else ret tt) ;;; X d w.

(* what a lagging replica answers: the previous committed version of the run when there is one, else the current one *)
Definition stale_run (w : world) (run : N) : option record :=
  match rev (filter (fun r => N.eqb (r_run r) run) (w_hist w)) with
  | _ :: p :: _ => Some p
  | _ => lookup_run w run
  end.

Definition read_res (d : disp) (r : option record) : ares :=
  match d, r with (DoOk | DoStale), Some _ => ROk | (DoOk | DoStale), None => RNotFound | DoCancel, _ => RCancel | _, _ => RErr end.
Definition read_out (d : disp) (r : option record) : option record := match d with DoOk | DoStale => r | _ => None end.

Definition p_lookup (run : N) : M (option record) :=
  prim KLK true
       (fun d w => let r := match d with DoStale => stale_run w run | _ => lookup_run w run end in
                   TLookup KLK (Z.of_N run) (read_res d r) (read_out d r))
       (fun w => w)
       (fun d w => disp_ret d (match d with DoStale => stale_run w run | _ => lookup_run w run end)).

Definition p_latest (fid : N) : M (option record) :=
  prim KLT true
       (fun d w => TLookup KLT (Z.of_N fid) (read_res d (latest_fid w fid)) (read_out d (latest_fid w fid)))
       (fun w => w)
       (fun d w => disp_ret d (latest_fid w fid)).

Definition p_store (c : econfig) (r : record) : M unit :=
  prim KST true (fun d w => TStore (lookup_run w (r_run r)) (stamp c w r) (disp_res d)) (fun w => do_store c w r) (fun d _ => disp_ret d tt).

Definition p_call (k : ckind) (ctx : bool) (args : list Z) (eff : world -> world) (out : world -> list Z) : M unit :=
  prim k ctx (fun d w => TCall k args (disp_res d) (if disp_effect d then out w else [])) eff (fun d _ => disp_ret d tt).

Definition list_res (d : disp) : ares := match d with DoErrAfter => RErr | _ => disp_res d end.

Definition p_list_outbox (limit : Z) : M (list oentry) :=
  prim KLO true
       (fun d w => TCall KLO [limit] (list_res d)
                     (match d with DoOk | DoStale => map (fun o => Z.of_N (o_id o)) (firstn (Z.to_nat limit) (w_outbox w)) | _ => [] end))
       (fun w => w)
       (fun d w => disp_ret d (firstn (Z.to_nat limit) (w_outbox w))).

Definition p_send (o : oentry) : M unit :=
  prim KSD true (fun d _ => TSend o (disp_res d)) (fun w => do_send w o) (fun d _ => disp_ret d tt).

Definition p_del_outbox (id : N) : M unit :=
  prim KDO true (fun d _ => TDelOut id (disp_res d))
       (fun w => set_outbox w (filter (fun o => negb (N.eqb (o_id o) id)) (w_outbox w))) (fun d _ => disp_ret d tt).

Definition p_ack (u : eunit) (idx : nat) (e : event) : M unit :=
  prim KAK false (fun d _ => TAck e (disp_res d)) (fun w => put_cursor w u (S idx)) (fun d _ => disp_ret d tt).

Definition p_list_valid (status : Z) : M (list trec) :=
  prim KTL true
       (fun d w => TCall KTL [status; w_now w] (list_res d) (match d with DoOk | DoStale => map t_id (due_timers w status) | _ => [] end))
       (fun w => w)
       (fun d w => disp_ret d (due_timers w status)).

Definition p_tcreate (fid run : N) (status expire : Z) : M unit :=
  prim KTC true (fun d _ => TTCreate run status expire (disp_res d))
       (fun w => set_timers w (w_timers w ++ [mkTrec (w_ntid w) 0%N fid run status false expire]) (w_ntid w + 1))
       (fun d _ => disp_ret d tt).

Definition p_tcomplete (id : Z) : M unit :=
  prim KTM true (fun d _ => TTEnd KTM id (disp_res d))
       (fun w => set_timers w (map (fun t => if Z.eqb (t_id t) id then mkTrec (t_id t) (t_wf t) (t_fid t) (t_run t) (t_status t) true (t_expire t) else t) (w_timers w)) (w_ntid w))
       (fun d _ => disp_ret d tt).

Definition p_tcancel (id : Z) : M unit :=
  prim KTX true (fun d _ => TTEnd KTX id (disp_res d))
       (fun w => set_timers w (filter (fun t => negb (Z.eqb (t_id t) id)) (w_timers w)) (w_ntid w))
       (fun d _ => disp_ret d tt).

(* attempts bookkeeping for BFailFirst: number of earlier invocations of function [code] on [run] *)
Fixpoint att_get (l : list (Z * N * nat)) (code : Z) (run : N) : nat :=
  match l with [] => O | (c, r, n) :: t => if Z.eqb c code && N.eqb r run then n else att_get t code run end.
Definition att_bump (code : Z) (run : N) : M nat := fun s =>
  let w := o_w s in
  let n := att_get (w_att w) code run in
  (Ok n, mkOst (set_att w ((code, run, S n) :: w_att w)) (o_plan s) (o_counts s) (o_trace s) (o_lease s) (o_dead s)).

(* error counters of the instance running the operation *)
Fixpoint ctr_of (l : list (Z * counter)) (inst : Z) : counter :=
  match l with [] => [] | (i, c) :: t => if Z.eqb i inst then c else ctr_of t inst end.
Definition ctr_put (l : list (Z * counter)) (inst : Z) (c : counter) : list (Z * counter) :=
  (inst, c) :: filter (fun x => negb (Z.eqb (fst x) inst)) l.
Definition ctr_add (inst : Z) (k : ckey) : M nat := fun s =>
  let w := o_w s in
  let (c', n) := c_add (ctr_of (w_ctrs w) inst) k in
  (Ok n, mkOst (set_ctrs w (ctr_put (w_ctrs w) inst c')) (o_plan s) (o_counts s) (o_trace s) (o_lease s) (o_dead s)).
Definition ctr_clear (inst : Z) (k : ckey) : M unit := fun s =>
  let w := o_w s in
  (Ok tt, mkOst (set_ctrs w (ctr_put (w_ctrs w) inst (c_clear (ctr_of (w_ctrs w) inst) k))) (o_plan s) (o_counts s) (o_trace s) (o_lease s) (o_dead s)).
