(* SqlTimeout.v — adapters/sqltimeout/sqltimeout.go: every operation is ONE statement over the timeouts table
   (insert ... set ...; update ... set completed=true where id=?; delete from ... where id=?;
    select ... where workflow_name=? and status=? and expire_at<? and completed=false;
    select ... where workflow_name=? and completed=false). The table is the list of rows in insertion order; the auto-increment
   key is the counter. Executable definitions only; MySQL is not modelled (the statements' reading is the standard one). *)
From WF Require Import model.Base model.Timeouts.

Definition tsql_step (s : mtstore) (o : top) : mtstore * tobs :=
  match o with
  | TOCreate wf fid run status expire =>
    (mkMtstore (mts_timers s ++ [mkTrec (mts_next s) wf fid run status false expire]) (mts_next s + 1), TbOk)
  | TOComplete id =>
    (mkMtstore (map (fun t => if Z.eqb (t_id t) id then set_completed t else t) (mts_timers s)) (mts_next s), TbOk)
  | TOCancel id =>
    (mkMtstore (filter (fun t => negb (Z.eqb (t_id t) id)) (mts_timers s)) (mts_next s), TbOk)
  | TOListValid wf status now =>
    (s, TbList (filter (fun t => N.eqb (t_wf t) wf && Z.eqb (t_status t) status && Z.ltb (t_expire t) now && negb (t_completed t))
                       (mts_timers s)))
  | TOList wf =>
    (s, TbList (filter (fun t => N.eqb (t_wf t) wf && negb (t_completed t)) (mts_timers s)))
  end.

Fixpoint tsql_run (s : mtstore) (ops : list top) : list tobs :=
  match ops with [] => [] | o :: t => let (s', b) := tsql_step s o in b :: tsql_run s' t end.

(* where the SQL store and the contract may differ and the property accepts either answer: a ListValid asked at the exact
   expiry instant of a stored timer (SQL: expire_at < now; the in-memory store: <=); List is compared only while it does not
   concern a completed timer of the workflow (SQL leaves completed timers out, the in-memory store lists them; List is not part
   of the property) *)
Definition tsql_dom (s : mtstore) (o : top) : bool :=
  match o with
  | TOListValid _ _ now => forallb (fun t => negb (Z.eqb (t_expire t) now)) (mts_timers s)
  | TOList wf => forallb (fun t => negb (N.eqb (t_wf t) wf && t_completed t)) (mts_timers s)
  | _ => true
  end.
Fixpoint tsql_run_dom (s : mtstore) (ops : list top) : bool :=
  match ops with [] => true | o :: t => tsql_dom s o && tsql_run_dom (fst (tsql_step s o)) t end.
