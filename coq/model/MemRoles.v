(* MemRoles.v — adapters/memrolescheduler: one mutex per role, locked by Await, unlocked by a goroutine once the context
   handed out is cancelled. A transition system over the callers of ONE role (roles are independent: each has its own
   mutex); goroutine / mutex semantics are modelled at this level, not Go's memory model. Executable definitions only. *)
From WF Require Import model.Base.

Inductive cstate :=
| CWait          (* blocked in mu.Lock() *)
| CHold          (* holds the role, its context is live *)
| CReleasing     (* its context was cancelled; the unlocking goroutine has not run yet *)
| CDone.

Record roleq := mkRoleq { rq_locked : bool; rq_callers : list (N * cstate) }.
Definition roleq0 : roleq := mkRoleq false [].

Inductive rop :=
| RAwait (id : N)        (* a new caller enters Await and blocks on the mutex *)
| RAcquire (id : N)      (* the mutex is granted to a waiting caller (which one is up to the Go runtime) *)
| RCancel (id : N)       (* the holder's context is cancelled *)
| RUnlock (id : N).      (* the goroutine of a cancelled holder unlocks the mutex *)

Definition cget (l : list (N * cstate)) (id : N) : option cstate :=
  match find_first (fun x => N.eqb (fst x) id) l with Some x => Some (snd x) | None => None end.
Definition cset (l : list (N * cstate)) (id : N) (c : cstate) : list (N * cstate) :=
  map (fun x => if N.eqb (fst x) id then (id, c) else x) l.

(* an operation whose guard does not hold is not enabled: the state is unchanged *)
Definition role_step (q : roleq) (o : rop) : roleq :=
  match o with
  | RAwait id => match cget (rq_callers q) id with None => mkRoleq (rq_locked q) (rq_callers q ++ [(id, CWait)]) | Some _ => q end
  | RAcquire id =>
    match rq_locked q, cget (rq_callers q) id with
    | false, Some CWait => mkRoleq true (cset (rq_callers q) id CHold)
    | _, _ => q
    end
  | RCancel id => match cget (rq_callers q) id with Some CHold => mkRoleq (rq_locked q) (cset (rq_callers q) id CReleasing) | _ => q end
  | RUnlock id => match cget (rq_callers q) id with Some CReleasing => mkRoleq false (cset (rq_callers q) id CDone) | _ => q end
  end.

Definition holders (q : roleq) : nat := count_occ_b (fun x => match snd x with CHold => true | _ => false end) (rq_callers q).
Definition owners (q : roleq) : nat :=
  count_occ_b (fun x => match snd x with CHold | CReleasing => true | _ => false end) (rq_callers q).
