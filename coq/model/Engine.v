(* Engine.v — the handlers of luno/workflow transcribed over the operation monad, the process operations
   (one scheduling step of one background process), the API calls, and the scenario interpreter.
   Mirrors: step.go stepConsumer, update.go newUpdater/validateTransition/updateRecord, callback.go processCallback,
   trigger.go trigger, timeout.go pollTimeouts/processTimeout/timeoutAutoInserterConsumer, hook.go runHook,
   delete.go runDelete, pause.go maybePause/autoRetryConsumer, consumer.go consume, outbox.go purgeOutbox,
   workflow.go runOnce, runstate.go (controller), run.go buildRun/Pause/Cancel.
   The model is written against the REPAIRED tree (fix: commits in /repo; see DESIGN section 5). *)
From WF Require Import model.Base model.RunState model.Routing model.Graph model.Counter model.Shard model.EngineBase.

Section Eng.
Variable c : econfig.
Let g := ec_graph c.

Definition catch {A} (m : M A) : M (res A) := fun s =>
  match m s with (Ok a, s') => (Ok (Ok a), s') | (Err e, s') => (Ok (Err e), s') end.

Definition promote (r : record) : record := match r_state r with RSInitiated => set_state r RSRunning | _ => r end.
Definition mark_obj (o : obj) (status : Z) : obj := match o with OVal s t => OVal s (t ++ [status]) | ODeleted => ODeleted end.
Definition obj_seed (o : obj) : Z := match o with OVal s _ => s | ODeleted => 0 end.
Definition skip_status (z : Z) : bool := (z =? 0) || (z =? -1).

(* run.go buildRun: fresh unmarshal (fails on the delete marker), Initiated promoted to Running in memory *)
Definition build_run (r : record) : M record :=
  match r_obj r with ODeleted => fail EGen | _ => ret (promote r) end.

(* error code of the controller's "invalid RunState" error *)
Definition invalid_rs_err (from to : runstate) : err := 100 + 10 * rs_code from + rs_code to.

(* controller.update on the controller's record [ctl]: returns (result, the controller's record afterwards —
   it is mutated in place before the store: state, reason, version) *)
Definition ctl_do (ctl : record) (target : runstate) (reason : N) : M (res unit * record) :=
  match ctl_update ctl target reason with
  | None => ret (Err (invalid_rs_err (r_state ctl) target), ctl)
  | Some r' => r <- catch (p_store c r') ;; ret (r, r')
  end.

(* update.go newUpdater + updateRecord; [run] is the Run handed to the user function (object possibly modified) *)
Definition updater (cur next : Z) (run : record) : M unit :=
  w <- get_w ;;
  let st := if is_terminal g next then RSCompleted else RSRunning in
  let upd := mkRecord (r_wf run) (r_fid run) (r_run run) st next (r_obj run) (r_created run) (w_now w) (r_ver run) (r_reason run) next in
  latest <- p_lookup (r_run run) ;;
  match latest with
  | None => fail EGen
  | Some l =>
    if negb (r_status l =? cur) then ret tt
    else if negb (validate_transition g cur next) then fail EGen
    else p_store c (bump upd)
  end.

Definition planned_of (a : action) : uret :=
  match a with ARet z => URet z | AErr e => UErr e | APause => UPauseA | ACancel => UCancelA end.

(* invoke a scripted step / callback / timeout function on [view]; result: (object left behind, (status | error), controller record) *)
Definition invoke (u : ufun) (b : beh) (status : Z) (view : record) : M (obj * (Z + err) * record) :=
  n <- att_bump (ufun_code u) (r_run view) ;;
  w <- get_w ;;
  let '(mark, act) := eval_beh b n (obj_seed (r_obj view)) in
  let obj' := if mark then mark_obj (r_obj view) status else r_obj view in
  emit (TUser u view (lookup_run w (r_run view)) (w_now w) (planned_of act)) ;;;
  match act with
  | ARet z => ret (obj', inl z, view)
  | AErr e => ret (obj', inr e, view)
  | APause => x <- ctl_do view RSPaused 1 ;; ret (obj', match fst x with Ok _ => inl (-1) | Err e => inr e end, snd x)
  | ACancel => x <- ctl_do view RSCancelled 3 ;; ret (obj', match fst x with Ok _ => inl (-1) | Err e => inr e end, snd x)
  end.

(* pause.go maybePause: true = paused *)
Definition maybe_pause (inst : Z) (n : Z) (e : err) (u : eunit) (ctl : record) : M bool :=
  if n =? 0 then ret false
  else cnt <- ctr_add inst (Z.to_N e, eunit_code u, r_run ctl) ;;
       if Z.of_nat cnt <? n then ret false
       else x <- ctl_do ctl RSPaused 2 ;;
            match fst x with
            | Err _ => fail EGen
            | Ok _ => ctr_clear inst (Z.to_N e, eunit_code u, r_run ctl) ;;; ret true
            end.

(* step.go stepConsumer, parametrised by the function it wraps (step logic or the timeout inserter) *)
Definition step_handler (inst : Z) (u : eunit) (s : Z) (fn : record -> M (obj * (Z + err) * record)) (n : Z) (e : event) : M unit :=
  r <- p_lookup (e_run e) ;;
  match r with
  | None => ret tt
  | Some r =>
    if r_ver r >? e_ver e then ret tt
    else if r_ver r <? e_ver e then fail EGen
    else if rs_stopped (r_state r) then ret tt
    else view <- build_run r ;;
         out <- fn view ;;
         let '(obj', oc, ctl) := out in
         match oc with
         | inr oe => paused <- maybe_pause inst n oe u ctl ;; if (paused : bool) then ret tt else fail EGen
         | inl z => if skip_status z then ret tt else updater s z (set_obj view obj')
         end
  end.

(* timeout.go: the function the inserter wraps — one TimerFunc call (+ Create) per configured timeout of the status *)
Fixpoint inserter_fn (s : Z) (tos : list tocfg) (j : nat) (view : record) : M (obj * (Z + err) * record) :=
  match tos with
  | [] => ret (r_obj view, inl 0, view)
  | t :: tl =>
    if negb (to_status t =? s) then inserter_fn s tl j view
    else
      w <- get_w ;;
      if to_dur t =? -2 then
        (* a timer function that fails (error 15, returned together with the zero time): the inserter's handler fails *)
        emit (TUser (UFTimer s j) view (lookup_run w (r_run view)) (w_now w) (UErr 15)) ;;; ret (r_obj view, inr 15, view)
      else
      let expire := if to_dur t <? 0 then None else Some (w_now w + to_dur t) in
      emit (TUser (UFTimer s j) view (lookup_run w (r_run view)) (w_now w) (UTime expire)) ;;;
      match expire with
      | None => inserter_fn s tl (S j) view
      | Some ex =>
        r <- catch (p_tcreate (r_fid view) (r_run view) s ex) ;;
        match r with
        | Err e => ret (r_obj view, inr e, view)
        | Ok _ => inserter_fn s tl (S j) view
        end
      end
  end.

(* timeout.go pollTimeouts, the loop over the configured timeouts of the status for one due timer [t]: each timeout
   function acts on the run as re-read now (after the repair of F14); [true] = go on with the next configuration *)
Fixpoint process_timeouts (inst : Z) (u : eunit) (s : Z) (n : Z) (tos : list tocfg) (j : nat) (t : trec) : M unit :=
  match tos with
  | [] => ret tt
  | tc :: tl =>
    if negb (to_status tc =? s) then process_timeouts inst u s n tl j t
    else
      r <- p_lookup (t_run t) ;;
      match r with
      | None => fail EGen
      | Some r =>
        if negb (r_status r =? s) || rs_finished (r_state r) then p_tcancel (t_id t)
        else if rs_stopped (r_state r) then ret tt
        else
          view <- build_run r ;;
          out <- invoke (UFTimeout s j) (to_beh tc) s view ;;
          let '(obj', oc, ctl) := out in
          (match oc with
           | inr oe => maybe_pause inst n oe u ctl ;;; ret tt
           | inl z => if skip_status z then ret tt
                      else updater (t_status t) z (set_obj view obj') ;;; p_tcomplete (t_id t)
           end) ;;;
          process_timeouts inst u s n tl (S j) t
      end
  end.

(* timeout.go pollTimeouts: the body of one poll cycle, after ListValid returned [l] *)
Fixpoint poll_timers (inst : Z) (u : eunit) (s : Z) (n : Z) (l : list trec) : M unit :=
  match l with
  | [] => ret tt
  | t :: tl => process_timeouts inst u s n (ec_tos c) 0 t ;;; poll_timers inst u s n tl
  end.

(* hook.go runHook. [k]: the hook fails its first (k mod 1000) invocations per run; k >= 1000: with an error that wraps
   context.Canceled (a cancelled downstream call) — consume / runOnce then treat it as a lost role: no back-off, no Ack *)
Definition hook_fails (k : nat) : nat := if Nat.leb 1000 k then k - 1000 else k.
Definition hook_err (k : nat) : err := if Nat.leb 1000 k then ECancel else EGen.
Definition hook_handler (st : runstate) (k : nat) (e : event) : M unit :=
  r <- p_lookup (e_run e) ;;
  match r with
  | None => fail EGen
  | Some r =>
    match r_obj r with
    | ODeleted => ret tt
    | _ =>
      n <- att_bump (ufun_code (UFHook st)) (r_run r) ;;
      w <- get_w ;;
      emit (TUser (UFHook st) r (lookup_run w (r_run r)) (w_now w)
                  (if Nat.ltb n (hook_fails k) then UErr (if Nat.leb 1000 k then 51 else 50) else UOk)) ;;;
      if Nat.ltb n (hook_fails k) then fail (hook_err k) else ret tt
    end
  end.

(* delete.go runDelete with builder.go WithCustomDelete *)
Definition delete_handler (e : event) : M unit :=
  r <- p_lookup (e_run e) ;;
  match r with
  | None => fail EGen
  | Some r =>
    repl <- (if ec_del c =? 0 then ret ODeleted
             else match r_obj r with
                  | ODeleted => fail EGen
                  | OVal seed tr =>
                    n <- att_bump (ufun_code UFDelete) (r_run r) ;;
                    w <- get_w ;;
                    let failing := Z.of_nat n <? ec_del c - 2 in
                    emit (TUser UFDelete r (lookup_run w (r_run r)) (w_now w) (if failing then UErr 60 else UOk)) ;;;
                    if failing then fail EGen else ret (OVal seed [])
                  end) ;;
    p_store c (bump (set_state (set_obj r repl) RSDataDeleted))
  end.

(* pause.go autoRetryConsumer *)
Definition retry_handler (e : event) : M unit :=
  r <- p_lookup (e_run e) ;;
  match r with
  | None => fail EGen
  | Some r =>
    if negb (rs_eqb (r_state r) RSPaused) then ret tt
    else w <- get_w ;;
         if r_updated r >? w_now w - ec_retry c then ret tt
         else x <- ctl_do r RSRunning 0 ;;
              match fst x with Ok _ => ret tt | Err e => fail e end
  end.

(* connector.go: the connector function (scripted: fails its first k invocations per event), invoked with the connector event
   the generic event carries; the record handed to the token names the event: run := |event ID|, foreign ID of the event *)
Definition conn_view (e : event) : record :=
  mkRecord 0%N (e_fid e) (Z.to_N (Z.abs (e_id e))) RSUnknown (e_id e) ODeleted (e_created e) (e_created e) 0 0%N (-999999).
Definition conn_handler (cid : N) (k : nat) (e : event) : M unit :=
  n <- att_bump (ufun_code (UFConn cid)) (Z.to_N (Z.abs (e_id e))) ;;
  w <- get_w ;;
  emit (TUser (UFConn cid) (conn_view e) None (w_now w) (if Nat.ltb n k then UErr 70 else UOk)) ;;;
  if Nat.ltb n k then fail EGen else ret tt.

(* ---------- per-unit configuration ---------- *)
Definition find_step (s : Z) : option stepcfg := find_first (fun x => sc_status x =? s) (ec_steps c).
Definition find_to (s : Z) : option tocfg := find_first (fun x => to_status x =? s) (ec_tos c).
Definition resolve_pause (per : Z) : Z := if per =? 0 then ec_dpause c else per.

Definition unit_topic (u : eunit) : topic :=
  match u with
  | EStep s _ _ | EInserter s | EPoller s => TStatus s
  | EHook _ | ERetry => TRunStateChange
  | EDelete => TDelete
  | EConn cid _ _ => TConn cid
  | EOutbox | ESched _ => TDelete
  end.

Definition unit_filter (u : eunit) (e : event) : bool :=
  match u with
  | EStep _ i n | EConn _ i n => shard_skip i n (e_id e)
  | EHook st => filter_by_state st e
  | ERetry => filter_by_state RSPaused e
  | _ => false
  end.

Definition unit_lag (u : eunit) : Z :=
  match u with
  | EStep s _ _ => match find_step s with Some sc => if sc_lag sc >? 0 then sc_lag sc else 0 | None => 0 end
  | ERetry => ec_retry c
  | _ => 0
  end.

Definition unit_handler (inst : Z) (u : eunit) (e : event) : M unit :=
  match u with
  | EStep s _ _ =>
    match find_step s with
    | Some sc => step_handler inst u s (invoke (UFStep s) (sc_beh sc) s) (resolve_pause (sc_pause sc)) e
    | None => fail EGen
    end
  | EInserter s =>
    step_handler inst u s (inserter_fn s (ec_tos c) 0)
                 (resolve_pause (match find_to s with Some t => to_pause t | None => 0 end)) e
  | EHook st => hook_handler st (match find_first (fun h => rs_eqb (fst h) st) (ec_hooks c) with Some h => snd h | None => O end) e
  | EDelete => delete_handler e
  | ERetry => retry_handler e
  | EConn cid _ _ => conn_handler cid (match find_first (fun x => N.eqb (cn_id x) cid) (ec_conns c) with Some x => cn_fail x | None => O end) e
  | _ => fail EGen
  end.

(* outbox.go purgeOutbox: the per-entry loop (after the repair of F10 the sender is closed after Send) *)
Fixpoint relay_entries (l : list oentry) : M unit :=
  match l with
  | [] => ret tt
  | o :: tl =>
    p_call KNS true [] (fun w => w) (fun _ => []) ;;;
    r <- catch (p_send o) ;;
    x <- catch (p_call KSC false [] (fun w => w) (fun _ => [])) ;;
    match r with
    | Err e => fail e
    | Ok _ =>
      match x with
      | Err e => fail e
      | Ok _ => p_del_outbox (o_id o) ;;; relay_entries tl
      end
    end
  end.

(* ---------- roles / process table ---------- *)
Definition role_holder (w : world) (u : eunit) : option Z :=
  match find_first (fun x => eunit_eqb (fst x) u) (w_roles w) with Some x => Some (snd x) | None => None end.
Definition release_role (w : world) (u : eunit) (inst : Z) : world :=
  set_roles w (filter (fun x => negb (eunit_eqb (fst x) u && Z.eqb (snd x) inst)) (w_roles w)).
Definition acquire_role (w : world) (u : eunit) (inst : Z) : world := set_roles w ((u, inst) :: w_roles w).

Definition get_pstate (w : world) (p : procid) : pstate :=
  match find_first (fun x => procid_eqb (fst x) p) (w_procs w) with Some x => snd x | None => PIdle end.
Definition put_pstate (w : world) (p : procid) (ps : pstate) : world :=
  set_procs w ((p, ps) :: filter (fun x => negb (procid_eqb (fst x) p)) (w_procs w)).

Definition m_release (u : eunit) (inst : Z) : M unit := w <- get_w ;; put_w (release_role w u inst).
Definition m_acquire (u : eunit) (inst : Z) : M unit := w <- get_w ;; put_w (acquire_role w u inst).

Definition is_consumer (u : eunit) : bool :=
  match u with EStep _ _ _ | EInserter _ | EHook _ | EDelete | ERetry | EConn _ _ _ => true | _ => false end.

(* workflow.go runOnce after process() returned error [e]; [close] = a receiver is open (deferred stream.Close()) *)
Definition exit_err (inst : Z) (u : eunit) (close : bool) (e : err) : M pstate :=
  (if close then catch (p_call KCL false [] (fun w => w) (fun _ => [])) ;;; ret tt else ret tt) ;;;
  if e =? ECancel then m_release u inst ;;; ret PIdle
  else
    w <- get_w ;;
    let deadline := w_now w + ec_backoff c in
    fun s =>
      if o_dead s || negb (o_lease s) then
        (emit (TCall KTW [deadline] RCancel []) ;;; m_release u inst ;;; ret PIdle) s
      else if deadline >? w_now w then
        (emit (TCall KTW [deadline] RBlocked []) ;;; ret (PBackoff deadline)) s
      else
        (emit (TCall KTW [deadline] ROk []) ;;; m_release u inst ;;; ret PIdle) s.

(* run [m]; on error take the error exit *)
Definition guarded (inst : Z) (u : eunit) (close : bool) (m : M pstate) : M pstate := fun s =>
  match m s with
  | (Ok ps, s') => (Ok ps, s')
  | (Err e, s') => exit_err inst u close e s'
  end.

(* trigger.go trigger *)
Definition api_trigger (fid : N) (start seed : Z) : M unit :=
  match (if start =? 0 then default_start g else Some start) with
  | None => fail EGen
  | Some st0 =>
    if negb (is_valid g st0) then fail 4
    else
      lastr <- p_latest fid ;;
      if (match lastr with Some l => rs_valid (r_state l) && negb (rs_finished (r_state l)) | None => false end)
      then fail 3
      else
        w <- get_w ;;
        put_w (set_nrun w (w_nrun w + 1)%N) ;;;
        p_store c (bump (mkRecord 0%N fid (w_nrun w) RSInitiated st0 (OVal seed []) (w_now w) (w_now w) 0 0%N st0))
  end.

(* ---------- schedule.go ---------- *)
Definition find_sched (fid : N) : option schedcfg := find_first (fun x => N.eqb (sd_fid x) fid) (ec_scheds c).
Definition dummy_record : record := mkRecord 0%N 0%N 0%N RSUnknown 0 ODeleted (-1) (-1) 0 0%N (-999999).

(* after the wait: schedule filter, then Trigger; ErrWorkflowInProgress is swallowed; the iteration then ends (runOnce returns
   and the role is released) *)
Definition sched_after_wait (inst : Z) (sc : schedcfg) : M pstate :=
  ok <- (if sd_filter sc =? 0 then ret true
         else n <- att_bump (ufun_code (UFFilter (sd_fid sc))) 0%N ;;
              w <- get_w ;;
              let ans := negb (Z.of_nat n <? sd_filter sc) in
              emit (TUser (UFFilter (sd_fid sc)) dummy_record None (w_now w) (URet (if ans then 1 else 0))) ;;; ret ans) ;;
  (if (ok : bool) then
     r <- catch (api_trigger (sd_fid sc) 0 (sd_seed sc)) ;;
     match r with
     | Ok _ => ret tt
     | Err e => if e =? 3 then ret tt else fail e
     end
   else ret tt) ;;;
  m_release (ESched (sd_fid sc)) inst ;;; ret PIdle.

Definition sched_body (inst : Z) (sc : schedcfg) : M pstate :=
  lat <- p_latest (sd_fid sc) ;;
  w <- get_w ;;
  let last := match lat with Some r => r_created r | None => w_now w end in
  let deadline := cron_next (sd_spec sc) last in
  if deadline >? w_now w then emit (TCall KTW [deadline] RBlocked []) ;;; ret (PWait deadline)
  else emit (TCall KTW [deadline] ROk []) ;;; sched_after_wait inst sc.

(* consumer.go consume: what follows the lag wait for event e at log index idx *)
Definition after_lag (inst : Z) (u : eunit) (idx : nat) (e : event) : M pstate :=
  (if unit_filter u e then p_ack u idx e else unit_handler inst u e ;;; p_ack u idx e) ;;; ret PRun.

Definition lease_live : M bool := fun s => (Ok (o_lease s && negb (o_dead s)), s).

Definition consume_iter (inst : Z) (u : eunit) : M pstate :=
  w <- get_w ;;
  live <- lease_live ;;
  match next_event (unit_topic u) (w_log w) 0 (get_cursor w u) with
  | None =>
    if (live : bool) then emit (TCall KRV [] RBlocked []) ;;; ret PRun
    else (* Recv returns the context's error once the lease is gone *)
      d <- dispatch KRV true ;; emit (TCall KRV [] (disp_res d) []) ;;; disp_ret d PRun
  | Some (idx, e) =>
    d <- dispatch KRV true ;;
    match d with
    | DoOk | DoStale =>
      emit (TRecv e) ;;;
      let lag := unit_lag u in
      if (lag >? 0) && (e_created e + lag >? w_now w)
      then emit (TCall KTW [e_created e + lag] RBlocked []) ;;; ret (PLag idx e (e_created e + lag))
      else after_lag inst u idx e
    | _ => emit (TCall KRV [] (disp_res d) []) ;;; disp_ret d PRun
    end
  end.

Definition poll_once (inst : Z) (u : eunit) (s : Z) : M pstate :=
  l <- p_list_valid s ;;
  poll_timers inst u s (resolve_pause (match find_to s with Some t => to_pause t | None => 0 end)) l ;;;
  ret PRun.

(* one scheduling step of process (inst, u) in state ps *)
Definition proc_op (inst : Z) (u : eunit) (ps : pstate) : M pstate :=
  match ps with
  | PIdle =>
    w <- get_w ;;
    match role_holder w u with
    | Some _ => emit (TCall KAW [] RBlocked []) ;;; ret PIdle
    | None =>
      d <- dispatch KAW false ;;
      match d with
      | DoOk | DoStale =>
        emit (TCall KAW [] ROk []) ;;;
        m_acquire u inst ;;;
        match u with
        | EOutbox =>
          guarded inst u false
            (l <- p_list_outbox (ec_limit c) ;; relay_entries l ;;; m_release u inst ;;; ret PIdle)
        | EPoller s => guarded inst u false (poll_once inst u s)
        | ESched fid =>
          match find_sched fid with
          | Some sc => guarded inst u false (sched_body inst sc)
          | None => m_release u inst ;;; ret PIdle
          end
        | _ =>
          guarded inst u false
            (p_call KNR true [] (fun w => w) (fun _ => []) ;;; ret PRun)
        end
      | _ => emit (TCall KAW [] (disp_res d) []) ;;; ret PIdle
      end
    end
  | PRun =>
    match u with
    | EPoller s => guarded inst u false (poll_once inst u s)
    | EOutbox | ESched _ => ret PIdle
    | _ => guarded inst u true (consume_iter inst u)
    end
  | PLag idx e deadline =>
    w <- get_w ;;
    live <- lease_live ;;
    if negb live then (* the lag wait returns the context's error: the event is not handled *)
      emit (TCall KTW [deadline] RCancel []) ;;; guarded inst u true (fail ECancel)
    else if deadline >? w_now w then emit (TCall KTW [deadline] RBlocked []) ;;; ret ps
    else emit (TCall KTW [deadline] ROk []) ;;; guarded inst u true (after_lag inst u idx e)
  | PWait deadline =>
    w <- get_w ;;
    live <- lease_live ;;
    if negb live then emit (TCall KTW [deadline] RCancel []) ;;; guarded inst u false (fail ECancel)
    else if deadline >? w_now w then emit (TCall KTW [deadline] RBlocked []) ;;; ret ps
    else emit (TCall KTW [deadline] ROk []) ;;;
         match u with
         | ESched fid => match find_sched fid with Some sc => guarded inst u false (sched_after_wait inst sc) | None => ret PIdle end
         | _ => ret PIdle
         end
  | PBackoff deadline =>
    w <- get_w ;;
    live <- lease_live ;;
    if negb live then emit (TCall KTW [deadline] RCancel []) ;;; m_release u inst ;;; ret PIdle
    else if deadline >? w_now w then emit (TCall KTW [deadline] RBlocked []) ;;; ret ps
    else emit (TCall KTW [deadline] ROk []) ;;; m_release u inst ;;; ret PIdle
  end.

(* a crash of instance [inst]: its processes lose their local state, its leases are released, its counters vanish *)
Definition crash_inst (w : world) (inst : Z) : world :=
  set_ctrs (set_roles (set_procs w (filter (fun x => negb (Z.eqb (fst (fst x)) inst)) (w_procs w)))
                      (filter (fun x => negb (Z.eqb (snd x) inst)) (w_roles w)))
           (filter (fun x => negb (Z.eqb (fst x) inst)) (w_ctrs w)).

(* ---------- API calls ---------- *)

Fixpoint api_callbacks (fid : N) (status : Z) (cbs : list cbcfg) (j : nat) : M unit :=
  match cbs with
  | [] => ret tt
  | cb :: tl =>
    if negb (cb_status cb =? status) then api_callbacks fid status tl j
    else
      wr <- p_latest fid ;;
      match wr with
      | None => fail EGen
      | Some wr =>
        (if negb (r_status wr =? status) then ret tt
         else if rs_stopped (r_state wr) then ret tt
         else view <- build_run wr ;;
              out <- invoke (UFCallback status j) (cb_beh cb) status view ;;
              let '(obj', oc, _) := out in
              match oc with
              | inr e => fail (if e =? ECancel then ECancel else e)
              | inl z => if skip_status z then ret tt else updater status z (set_obj view obj')
              end) ;;;
        api_callbacks fid status tl (S j)
      end
  end.

Definition api_ctl (run : N) (o : ctlop) : M unit :=
  r <- p_lookup run ;;
  match r with
  | None => fail EGen
  | Some r => x <- ctl_do r (ctl_target o) 4 ;; match fst x with Ok _ => ret tt | Err e => fail e end
  end.

(* ---------- scenarios ---------- *)
Inductive eop :=
| OTrigger (fid : N) (start seed : Z) (p : plan)
| OCallback (fid : N) (status : Z) (p : plan)
| OCtl (run : N) (o : ctlop) (ui : bool) (p : plan)   (* ui: through the web UI update handler (only success / failure is observable) *)
| OAdvance (d : Z)
| OStep (inst : Z) (u : eunit) (p : plan)
| OCrash (inst : Z)
| OSched (inst : Z) (fid : N) (valid : bool)   (* Workflow.Schedule: starts the scheduling process, or rejects an invalid cron specification *)
| OLose (inst : Z) (u : eunit)          (* the role scheduler revokes the lease of a parked process (it notices at its next step) *)
| ORewind (u : eunit) (pos : nat)
| ODup (idx : nat)
| OConnSend (cid : N) (id : Z) (fid : N).   (* the external system behind connector cid produces an event; id = int64(fnv64(its ID)) *)

Definition run_api (w : world) (p : plan) (m : M unit) : world * list tok :=
  match m (mkOst w p [] [] true false) with
  | (Ok _, s) => (o_w s, rev (TApi 0 :: o_trace s))
  | (Err e, s) => (o_w s, rev (TApi (if e =? 0 then 1000 else e) :: o_trace s))
  end.

Definition run_op (w : world) (o : eop) : world * list tok :=
  match o with
  | OTrigger fid start seed p => run_api w p (api_trigger fid start seed)
  | OCallback fid status p => run_api w p (api_callbacks fid status (ec_cbs c) 0)
  | OCtl run op ui p =>
    let (w', t) := run_api w p (api_ctl run op) in
    (w', if ui then map (fun x => match x with TApi z => TApi (if z =? 0 then 0 else 1) | _ => x end) t else t)
  | OAdvance d => (set_now w (w_now w + d), [])
  | OStep inst u p =>
    let ps := get_pstate w (inst, u) in
    let lost := match ps with PIdle => false | _ => existsb (procid_eqb (inst, u)) (w_lost w) end in
    let w := set_lost w (filter (fun x => negb (procid_eqb (inst, u) x)) (w_lost w)) in
    match proc_op inst u ps (mkOst w p [] [] (negb lost) false) with
    | (Ok ps', s) =>
      let w' := put_pstate (o_w s) (inst, u) ps' in
      ((if o_dead s then crash_inst w' inst else w'), rev (o_trace s))
    | (Err _, s) => ((if o_dead s then crash_inst (o_w s) inst else o_w s), rev (o_trace s))
    end
  | OCrash inst => (crash_inst w inst, [])
  | OSched _ _ valid => (w, [TApi (if valid then 0 else 1)])
  | OLose inst u =>
    match get_pstate w (inst, u) with
    | PIdle => (w, [])
    | _ => (set_lost (release_role w u inst) ((inst, u) :: w_lost w), [])
    end
  | ORewind u pos => (put_cursor w u (Nat.min pos (get_cursor w u)), [])   (* a rewind only moves a committed position backwards (redelivery) *)
  | ODup idx =>
    match nth_error (w_log w) idx with
    | Some e => (set_log w (w_log w ++ [mkEvent (Z.of_nat (length (w_log w)) + 1) (e_wf e) (e_topic e) (e_run e) (e_fid e) (e_type e) (e_state e) (e_ver e) (e_created e)]), [])
    | None => (w, [])
    end
  | OConnSend cid id fid =>
    (set_log w (w_log w ++ [mkEvent id 0%N (TConn cid) 0%N fid 0 0 0 (w_now w)]), [])
  end.

Fixpoint run_ops_from (n : nat) (w : world) (ops : list eop) : world * list tok :=
  match ops with
  | [] => (w, [])
  | o :: tl =>
    let (w1, t1) := run_op w o in
    let (w2, t2) := run_ops_from (S n) w1 tl in
    (w2, TOp n :: t1 ++ t2)
  end.
Definition run_ops (ops : list eop) : world * list tok := run_ops_from 0 w0 ops.

End Eng.
