(* Strings.v — the string functions the role / topic names are built from.
   Mirrors: strconv.FormatInt(_, 10) (itoa), strings.ReplaceAll(_, " ", "_"), strings.ToLower (ASCII), strings.Join,
   topic.go (Topic, DeleteTopic, RunStateChangeTopic), rolescheduler.go makeRole. *)
From Coq Require Export String Ascii.
From Coq Require Import DecimalString DecimalZ Decimal.
From WF Require Import model.Base.
Open Scope string_scope.

Definition itoa (z : Z) : string := NilZero.string_of_int (Z.to_int z).

Fixpoint smap (f : ascii -> ascii) (s : string) : string :=
  match s with EmptyString => EmptyString | String c t => String (f c) (smap f t) end.

Definition space_to_us (c : ascii) : ascii := if Ascii.eqb c " "%char then "_"%char else c.
Definition replace_space (s : string) : string := smap space_to_us s.

(* ASCII lower-casing: 'A'..'Z' -> 'a'..'z' (the harness only uses ASCII names; strings.ToLower on non-ASCII is outside the model) *)
Definition lower_char (c : ascii) : ascii :=
  let n := nat_of_ascii c in
  if (Nat.leb 65 n && Nat.leb n 90)%bool then ascii_of_nat (n + 32) else c.
Definition lower (s : string) : string := smap lower_char s.

Fixpoint join (sep : string) (l : list string) : string :=
  match l with
  | [] => ""
  | [x] => x
  | x :: t => x ++ sep ++ join sep t
  end.

Definition make_role (parts : list string) : string := replace_space (lower (join "-" parts)).

(* topic.go *)
Definition topic_suffix (t : topic) : string :=
  match t with
  | TStatus s => itoa s
  | TDelete => "delete"
  | TRunStateChange => "run-state-change"
  | TConn c => "connector-source-" ++ itoa (Z.of_N c)   (* a connector's event source is not a stream topic; the name is the model's own *)
  end.
Definition topic_str (name : string) (t : topic) : string := replace_space name ++ "-" ++ topic_suffix t.
