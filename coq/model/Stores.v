(* Stores.v — the RecordStore contract of store.go as a reference store (RefStore), and the in-memory adapter
   adapters/memrecordstore/memrecordstore.go as written after the repairs F3/F4/F5/F15 (MemStore).
   Executable definitions only; the refinement and paging theorems are in proofs/StoresProofs.v. *)
From WF Require Import model.Base model.Routing.

(* ---------- filters (filter.go MakeFilter / Filter.Matches; values are compared as integers / identifiers) ---------- *)
Record sfilter := mkSfilter {
  f_fid : option (list N);
  f_status : option (list Z);
  f_state : option (list Z)
}.
Definition mem_N (x : N) (l : list N) : bool := existsb (N.eqb x) l.
Definition mem_Z (x : Z) (l : list Z) : bool := existsb (Z.eqb x) l.
Definition opt_match {A} (m : A -> list A -> bool) (x : A) (f : option (list A)) : bool :=
  match f with None => true | Some l => m x l end.
(* wf = 0 stands for the empty workflow name: List returns the runs of every workflow *)
Definition smatches (wf : N) (f : sfilter) (r : record) : bool :=
  ((wf =? 0)%N || N.eqb wf (r_wf r)) &&
  opt_match mem_N (r_fid r) (f_fid f) &&
  opt_match mem_Z (r_status r) (f_status f) &&
  opt_match mem_Z (rs_code (r_state r)) (f_state f).

Definition default_list_limit : Z := 25.
Definition page {A} (offset limit : Z) (l : list A) : list A :=
  firstn (Z.to_nat (if limit =? 0 then default_list_limit else limit)) (skipn (Z.to_nat offset) l).

(* ---------- operations and observations ---------- *)
Inductive sop :=
| SStore (r : record)
| SStoreFail (r : record)         (* a Store that returns an error (a statement of its transaction failed): nothing is committed *)
| SLookup (run : N)
| SLatest (wf fid : N)
| SOutbox (wf : N) (limit : Z)
| SDelOutbox (id : N)
| SList (wf : N) (offset limit : Z) (desc : bool) (f : sfilter).

Inductive sobs :=
| ObOk
| ObErr
| ObRec (r : option record)
| ObOutbox (l : list oentry)
| ObList (l : list record).

(* ---------- reference store: the runs in creation order, the outbox oldest first ---------- *)
Record rstore := mkRstore { rs_recs : list record; rs_outbox : list oentry; rs_noid : N }.
Definition rstore0 : rstore := mkRstore [] [] 1%N.

Definition r_upsert (recs : list record) (r : record) : list record :=
  if existsb (fun x => N.eqb (r_run x) (r_run r)) recs then replace_first (fun x => N.eqb (r_run x) (r_run r)) r recs
  else recs ++ [r].

(* domain: limit >= 1 (the code tests the limit after appending, so a limit of 0 would still return one entry; the
   engine's lookup limit is positive) *)
Definition outbox_take (wf : N) (limit : Z) (l : list oentry) : list oentry :=
  firstn (Z.to_nat limit) (filter (fun o => N.eqb (o_wf o) wf) l).

Definition ref_step (s : rstore) (o : sop) : rstore * sobs :=
  match o with
  | SStore r =>
    (mkRstore (r_upsert (rs_recs s) r) (rs_outbox s ++ [route (rs_noid s) r]) (rs_noid s + 1)%N, ObOk)
  | SStoreFail _ => (s, ObErr)
  | SLookup run => (s, ObRec (find_first (fun r => N.eqb (r_run r) run) (rs_recs s)))
  | SLatest wf fid => (s, ObRec (last_opt (filter (fun r => N.eqb (r_wf r) wf && N.eqb (r_fid r) fid) (rs_recs s))))
  | SOutbox wf limit => (s, ObOutbox (outbox_take wf limit (rs_outbox s)))
  | SDelOutbox id => (mkRstore (rs_recs s) (filter (fun o => negb (N.eqb (o_id o) id)) (rs_outbox s)) (rs_noid s), ObOk)
  | SList wf offset limit desc f =>
    let m := filter (smatches wf f) (rs_recs s) in
    (s, ObList (page offset limit (if desc then rev m else m)))
  end.

Fixpoint ref_run (s : rstore) (ops : list sop) : list sobs :=
  match ops with
  | [] => []
  | o :: t => let (s', b) := ref_step s o in b :: ref_run s' t
  end.

(* ---------- memrecordstore: map run -> record, creation order of run IDs, index (workflow, foreign ID) -> newest run ---------- *)
Record mstore := mkMstore {
  ms_store : list (N * record);       (* map: at most one binding per run ID *)
  ms_order : list N;
  ms_key : list (N * N * N);          (* (workflow, foreign ID) -> run ID of the newest created run *)
  ms_outbox : list oentry;
  ms_noid : N
}.
Definition mstore0 : mstore := mkMstore [] [] [] [] 1%N.

Definition m_get (m : list (N * record)) (run : N) : option record :=
  match find_first (fun x => N.eqb (fst x) run) m with Some x => Some (snd x) | None => None end.
Definition m_put (m : list (N * record)) (run : N) (r : record) : list (N * record) :=
  (run, r) :: filter (fun x => negb (N.eqb (fst x) run)) m.
Definition k_get (k : list (N * N * N)) (wf fid : N) : option N :=
  match find_first (fun x => N.eqb (fst (fst x)) wf && N.eqb (snd (fst x)) fid) k with Some x => Some (snd x) | None => None end.
Definition k_put (k : list (N * N * N)) (wf fid run : N) : list (N * N * N) :=
  (wf, fid, run) :: filter (fun x => negb (N.eqb (fst (fst x)) wf && N.eqb (snd (fst x)) fid)) k.

Fixpoint m_collect (m : list (N * record)) (order : list N) : list record :=
  match order with
  | [] => []
  | id :: t => match m_get m id with Some r => r :: m_collect m t | None => m_collect m t end
  end.

Definition mem_step (s : mstore) (o : sop) : mstore * sobs :=
  match o with
  | SStore r =>
    let existed := match m_get (ms_store s) (r_run r) with Some _ => true | None => false end in
    (mkMstore (m_put (ms_store s) (r_run r) r)
              (if existed then ms_order s else ms_order s ++ [r_run r])
              (if existed then ms_key s else k_put (ms_key s) (r_wf r) (r_fid r) (r_run r))
              (ms_outbox s ++ [route (ms_noid s) r]) (ms_noid s + 1)%N, ObOk)
  | SStoreFail _ => (s, ObErr)
  | SLookup run => (s, ObRec (m_get (ms_store s) run))
  | SLatest wf fid =>
    (s, ObRec (match k_get (ms_key s) wf fid with Some run => m_get (ms_store s) run | None => None end))
  | SOutbox wf limit => (s, ObOutbox (outbox_take wf limit (ms_outbox s)))
  | SDelOutbox id =>
    (mkMstore (ms_store s) (ms_order s) (ms_key s) (filter (fun o => negb (N.eqb (o_id o) id)) (ms_outbox s)) (ms_noid s), ObOk)
  | SList wf offset limit desc f =>
    let m := filter (smatches wf f) (m_collect (ms_store s) (ms_order s)) in
    (s, ObList (page offset limit (if desc then rev m else m)))
  end.

Fixpoint mem_run (s : mstore) (ops : list sop) : list sobs :=
  match ops with
  | [] => []
  | o :: t => let (s', b) := mem_step s o in b :: mem_run s' t
  end.

(* domain of the correspondence and of the theorems: a run ID belongs to one (workflow, foreign ID) for its whole life
   (the engine never changes them: C16); offsets are non-negative *)
Definition sop_ok (known : list (N * (N * N))) (o : sop) : bool :=
  match o with
  | SStore r =>
    match find_first (fun x => N.eqb (fst x) (r_run r)) known with
    | Some x => N.eqb (fst (snd x)) (r_wf r) && N.eqb (snd (snd x)) (r_fid r)
    | None => true
    end
  | SList _ offset _ _ _ => 0 <=? offset
  | SOutbox _ limit => 1 <=? limit
  | _ => true
  end.
Fixpoint sops_ok (known : list (N * (N * N))) (ops : list sop) : bool :=
  match ops with
  | [] => true
  | o :: t =>
    sop_ok known o &&
    sops_ok (match o with SStore r => (r_run r, (r_wf r, r_fid r)) :: known | _ => known end) t
  end.
