(* RoutingStr.v — the string-level view of MakeOutboxEventData: header map and topic string, for the routing grid. *)
From WF Require Import model.Base model.Strings model.Routing.
Open Scope string_scope.

Definition route_headers (wf fid run : string) (st status ver : Z) : list (string * string) :=
  [("foreign_id", fid); ("workflow_name", wf); ("topic", topic_str wf (route_topic_code st status));
   ("run_id", run); ("run_state", itoa st); ("record_version", itoa ver)].

Definition route_type (status : Z) : Z := int32 status.

(* coincidences between the topics of one workflow: (Topic s1 = Topic s2, Topic s1 = Delete, Topic s1 = RunStateChange, Delete = RunStateChange) *)
Definition topics_coincide (wf : string) (s1 s2 : Z) : bool * bool * bool * bool :=
  (String.eqb (topic_str wf (TStatus s1)) (topic_str wf (TStatus s2)),
   String.eqb (topic_str wf (TStatus s1)) (topic_str wf TDelete),
   String.eqb (topic_str wf (TStatus s1)) (topic_str wf TRunStateChange),
   String.eqb (topic_str wf TDelete) (topic_str wf TRunStateChange)).
