(* RunState.v — runstate.go: Valid / Finished / Stopped, the controller's transition table and update. *)
From WF Require Import model.Base.

Definition rs_valid (s : runstate) : bool := match s with RSUnknown => false | _ => true end.

Definition rs_finished (s : runstate) : bool :=
  match s with RSCompleted | RSCancelled | RSReqDataDeleted | RSDataDeleted => true | _ => false end.

Definition rs_stopped (s : runstate) : bool :=
  match s with RSPaused | RSCancelled | RSReqDataDeleted | RSDataDeleted => true | _ => false end.

(* runStateTransitions *)
Definition rs_table (from to : runstate) : bool :=
  match from, to with
  | RSInitiated, (RSRunning | RSPaused) => true
  | RSRunning, (RSCompleted | RSPaused | RSCancelled) => true
  | RSPaused, (RSRunning | RSCancelled) => true
  | RSCompleted, RSReqDataDeleted => true
  | RSCancelled, RSReqDataDeleted => true
  | RSReqDataDeleted, RSDataDeleted => true
  | RSDataDeleted, RSReqDataDeleted => true
  | _, _ => false
  end.

(* the same table over raw codes (any integer): out-of-range states have no entry *)
Definition rs_table_code (from to : Z) : bool :=
  match rs_of_code from, rs_of_code to with
  | Some a, Some b => rs_table a b
  | _, _ => false
  end.

Inductive ctlop := OpPause | OpResume | OpCancel | OpDeleteData.
Definition all_ctlops := [OpPause; OpResume; OpCancel; OpDeleteData].

Definition ctl_target (o : ctlop) : runstate :=
  match o with OpPause => RSPaused | OpResume => RSRunning | OpCancel => RSCancelled | OpDeleteData => RSReqDataDeleted end.

(* runStateControllerImpl.update: None = rejected (no Store); Some r' = the record handed to Store (version bumped) *)
Definition ctl_update (r : record) (target : runstate) (reason : N) : option record :=
  if rs_table (r_state r) target then Some (bump (set_reason (set_state r target) reason)) else None.

(* lifecycle relation of the property: the table, plus Initiated taking Running's edges (buildRun promotes it in memory) *)
Definition lc (from to : runstate) : bool :=
  rs_table from to || (match from with RSInitiated => rs_table RSRunning to | _ => false end).

(* documented eligibility, stated independently of the table (used by C03_control_exact / C15_eligible) *)
Definition ctl_documented (s : runstate) (o : ctlop) : bool :=
  match o, s with
  | OpPause, (RSInitiated | RSRunning) => true
  | OpResume, (RSInitiated | RSPaused) => true
  | OpCancel, (RSRunning | RSPaused) => true
  | OpDeleteData, (RSCompleted | RSCancelled | RSDataDeleted) => true
  | _, _ => false
  end.
