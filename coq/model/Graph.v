(* Graph.v — internal/graph/graph.go, maps as association lists (last binding wins = map overwrite). *)
From WF Require Import model.Base.

Definition zmap (A : Type) := list (Z * A).
Fixpoint zget {A} (m : zmap A) (k : Z) : option A :=
  match m with [] => None | (k', v) :: t => if Z.eqb k k' then Some v else zget t k end.
Definition zset {A} (m : zmap A) (k : Z) (v : A) : zmap A := (k, v) :: m.
Definition zhas {A} (m : zmap A) (k : Z) : bool := match zget m k with Some _ => true | None => false end.

Record graph := mkGraph {
  g_edges : zmap (list Z);
  g_order : list Z;
  g_starting : zmap bool;
  g_terminal : zmap bool;
  g_valid : zmap bool
}.

Definition g_empty : graph := mkGraph [] [] [] [] [].

Definition add_transition (g : graph) (from to : Z) : graph :=
  let order1 := if zhas (g_valid g) from then g_order g else g_order g ++ [from] in
  (* note: Go tests validNodes BEFORE this call's update, so a self-loop on a new node appends it twice *)
  let order2 := if zhas (g_valid g) to then order1 else order1 ++ [to] in
  let st1 := zset (g_starting g) to false in
  let st2 := if zhas st1 from then st1 else zset st1 from true in
  let te1 := if zhas (g_edges g) to then g_terminal g else zset (g_terminal g) to true in
  let te2 := if zhas te1 from then zset te1 from false else te1 in
  let ed := zset (g_edges g) from (match zget (g_edges g) from with Some l => l | None => [] end ++ [to]) in
  mkGraph ed order2 st2 te2 (zset (zset (g_valid g) from true) to true).

Definition is_terminal (g : graph) (n : Z) : bool := match zget (g_terminal g) n with Some b => b | None => false end.
Definition transitions (g : graph) (n : Z) : list Z := match zget (g_edges g) n with Some l => l | None => [] end.
Definition is_valid (g : graph) (n : Z) : bool := match zget (g_valid g) n with Some b => b | None => false end.
Definition starting_nodes (g : graph) : list Z :=
  filter (fun n => match zget (g_starting g) n with Some b => b | None => false end) (g_order g).
Definition terminal_nodes (g : graph) : list Z := filter (is_terminal g) (g_order g).

(* builder.go: every AddStep / AddCallback / AddTimeout call declares from -> each destination, in order *)
Definition bcall := (Z * list Z)%type.
Definition add_call (g : graph) (c : bcall) : graph := fold_left (fun g to => add_transition g (fst c) to) (snd c) g.
Definition build (cs : list bcall) : graph := fold_left add_call cs g_empty.
Definition edges_of (cs : list bcall) : list (Z * Z) := flat_map (fun c => map (fun to => (fst c, to)) (snd c)) cs.

(* Build: default starting point = first starting node (panics when there is none) *)
Definition default_start (g : graph) : option Z := hd_error (starting_nodes g).

(* update.go validateTransition *)
Definition validate_transition (g : graph) (cur next : Z) : bool :=
  existsb (Z.eqb next) (transitions g cur).

(* ---- the declared edge relation, and the monitor applied to an observed answer about one node ---- *)
Definition has_out (es : list (Z * Z)) (n : Z) : bool := existsb (fun e => Z.eqb (fst e) n) es.
Definition has_in (es : list (Z * Z)) (n : Z) : bool := existsb (fun e => Z.eqb (snd e) n) es.

(* observed (valid, terminal, transitions) of node n against the declared edges es *)
Definition graph_node_ok (es : list (Z * Z)) (n : Z) (valid term : bool) (ts : list Z) : bool :=
  Bool.eqb valid (has_in es n || has_out es n) &&
  Bool.eqb term (has_in es n && negb (has_out es n)) &&
  forallb (fun t => existsb (fun e => Z.eqb (fst e) n && Z.eqb (snd e) t) es) ts &&
  forallb (fun e => negb (Z.eqb (fst e) n) || existsb (Z.eqb (snd e)) ts) es.

(* observed default starting point: the first declared source (in declaration order) that is nobody's destination *)
Definition graph_start_ok (es : list (Z * Z)) (start : option Z) : bool :=
  match find_first (fun e => negb (has_in es (fst e))) es, start with
  | Some e, Some s => Z.eqb (fst e) s
  | None, None => true
  | _, _ => false
  end.
