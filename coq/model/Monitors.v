(* Monitors.v — the token-local clauses of the properties as boolean functions of one observed trace token.
   These functions are (a) what the theorems of proofs/EngineTokens.v prove of EVERY token of EVERY model trace and
   (b), extracted, what the OCaml driver evaluates on the implementation's observations (ocaml/monitors_engine.ml).
   Executable definitions only. *)
From WF Require Import model.Base model.RunState model.Graph model.EngineBase.

Definition same_id (p r : record) : bool :=
  N.eqb (r_wf p) (r_wf r) && N.eqb (r_fid p) (r_fid r) && N.eqb (r_run p) (r_run r) && Z.eqb (r_created p) (r_created r).

Definition is_run_or_done (s : runstate) : bool := rs_eqb s RSRunning || rs_eqb s RSCompleted.

(* a record handed to RecordStore.Store while [prev] is the run's persisted record (None: a new run).
   C16: identity, version + 1, update time, status description, object changes only with a status write or the scrub.
   C03: lifecycle edge, finished stays finished, Completed exactly with the move to a terminal status.
   C02: a status change follows a declared transition; a new run starts at a declared status.
   C08: a stopped run keeps status and object (but for the data-deletion rewrite).  C09: a new run is Initiated, version 1. *)
Definition store_ok (g : graph) (prev : option record) (r : record) : bool :=
  (r_desc r =? r_status r) &&
  implb (rs_eqb (r_state r) RSCompleted) (is_terminal g (r_status r)) &&
  match prev with
  | None => (r_ver r =? 1) && rs_eqb (r_state r) RSInitiated && is_valid g (r_status r)
  | Some p =>
    same_id p r && (r_ver r =? r_ver p + 1) && (r_updated p <=? r_updated r) &&
    (lc (r_state p) (r_state r) ||
     (rs_eqb (r_state p) (r_state r) && (rs_eqb (r_state p) RSRunning || rs_eqb (r_state p) RSDataDeleted))) &&
    implb (rs_finished (r_state p)) (rs_finished (r_state r)) &&
    (if r_status r =? r_status p then true
     else validate_transition g (r_status p) (r_status r) && negb (rs_stopped (r_state p)) && is_run_or_done (r_state r) &&
          Bool.eqb (rs_eqb (r_state r) RSCompleted) (is_terminal g (r_status r))) &&
    (obj_eqb (r_obj r) (r_obj p) || rs_eqb (r_state r) RSDataDeleted ||
     (is_run_or_done (r_state r) && negb (rs_stopped (r_state p))))
  end.

Definition is_step_fn (u : ufun) : bool :=
  match u with UFStep _ | UFCallback _ _ | UFTimeout _ _ => true | _ => false end.

(* an invocation of a step / callback / timeout function with [view] while [pers] is the run's persisted record.
   C08: never while the run is Paused, Cancelled, RequestedDataDeleted or DataDeleted.  C16: the object handed over is the persisted one.
   C04: the version acted upon is the persisted one. *)
Definition user_ok (u : ufun) (view : record) (pers : option record) : bool :=
  if is_step_fn u then
    match pers with
    | None => false
    | Some p =>
      negb (rs_stopped (r_state p)) &&
      obj_eqb (r_obj view) (r_obj p) && (r_ver view =? r_ver p) && (r_status view =? r_status p) &&
      N.eqb (r_run view) (r_run p) &&
      (* C12: a timeout (callback) function runs only for a run that waits at that very status and is not finished *)
      match u with
      | UFTimeout s _ => (r_status p =? s) && negb (rs_finished (r_state p))
      | UFCallback s _ => r_status p =? s
      | _ => true
      end
    end
  else true.

Definition tok_ok (g : graph) (t : tok) : bool :=
  match t with
  | TStore prev r _ => store_ok g prev r
  | TUser u view pers _ _ => user_ok u view pers
  | _ => true
  end.

(* ---------- the same clauses, property by property (what ./check <ID> evaluates on the implementation's tokens) ---------- *)
Definition on_store (t : tok) (f : option record -> record -> bool) : bool :=
  match t with TStore prev r _ => f prev r | _ => true end.
Definition on_step_call (t : tok) (f : record -> option record -> bool) : bool :=
  match t with TUser u view pers _ _ => if is_step_fn u then f view pers else true | _ => true end.

Definition obj_clause (p r : record) : bool :=
  obj_eqb (r_obj r) (r_obj p) || rs_eqb (r_state r) RSDataDeleted || (is_run_or_done (r_state r) && negb (rs_stopped (r_state p))).

Definition mon_C16 (g : graph) (t : tok) : bool :=
  on_store t (fun prev r =>
    (r_desc r =? r_status r) &&
    match prev with
    | None => r_ver r =? 1
    | Some p => same_id p r && (r_ver r =? r_ver p + 1) && (r_updated p <=? r_updated r) && obj_clause p r
    end) &&
  on_step_call t (fun view pers => match pers with Some p => obj_eqb (r_obj view) (r_obj p) | None => false end).

Definition lc_clause (p r : record) : bool :=
  lc (r_state p) (r_state r) || (rs_eqb (r_state p) (r_state r) && (rs_eqb (r_state p) RSRunning || rs_eqb (r_state p) RSDataDeleted)).

Definition mon_C03 (g : graph) (t : tok) : bool :=
  on_store t (fun prev r =>
    implb (rs_eqb (r_state r) RSCompleted) (is_terminal g (r_status r)) &&
    match prev with
    | None => true
    | Some p => lc_clause p r && implb (rs_finished (r_state p)) (rs_finished (r_state r)) &&
                implb (negb (r_status r =? r_status p) && is_terminal g (r_status r)) (rs_eqb (r_state r) RSCompleted)
    end).

Definition mon_C02 (g : graph) (t : tok) : bool :=
  on_store t (fun prev r =>
    match prev with
    | None => is_valid g (r_status r)
    | Some p => (r_status r =? r_status p) || validate_transition g (r_status p) (r_status r)
    end).

Definition mon_C08 (g : graph) (t : tok) : bool :=
  on_store t (fun prev r =>
    match prev with
    | Some p => implb (rs_stopped (r_state p))
                      ((r_status r =? r_status p) && (obj_eqb (r_obj r) (r_obj p) || rs_eqb (r_state r) RSDataDeleted))
    | None => true
    end) &&
  on_step_call t (fun _ pers => match pers with Some p => negb (rs_stopped (r_state p)) | None => false end).

Definition mon_C09 (g : graph) (t : tok) : bool :=
  on_store t (fun prev r =>
    match prev with None => (r_ver r =? 1) && rs_eqb (r_state r) RSInitiated && is_valid g (r_status r) | Some _ => true end).

Definition mon_C15 (g : graph) (t : tok) : bool :=
  on_store t (fun prev r =>
    match prev with
    | Some p =>
      implb (rs_eqb (r_state r) RSReqDataDeleted)
            (rs_eqb (r_state p) RSCompleted || rs_eqb (r_state p) RSCancelled || rs_eqb (r_state p) RSDataDeleted) &&
      implb (rs_eqb (r_state r) RSDataDeleted)
            ((rs_eqb (r_state p) RSReqDataDeleted || rs_eqb (r_state p) RSDataDeleted) && (r_status r =? r_status p) && same_id p r)
    | None => true
    end).

(* delete.go / builder.go WithCustomDelete: what the delete consumer puts in place of the stored object — the fixed marker, or the
   (scripted) custom delete function's result *)
Definition scrub_obj (c : econfig) (o : obj) : obj :=
  if ec_del c =? 0 then ODeleted else match o with OVal seed _ => OVal seed [] | ODeleted => ODeleted end.
(* C15: whatever becomes DataDeleted holds the scrub of the object that was stored *)
Definition mon_C15_obj (c : econfig) (t : tok) : bool :=
  on_store t (fun prev r =>
    match prev with
    | Some p => implb (rs_eqb (r_state r) RSDataDeleted) (obj_eqb (r_obj r) (scrub_obj c (r_obj p)))
    | None => true
    end).

Definition mon_C04 (g : graph) (t : tok) : bool :=
  on_step_call t (fun view pers => match pers with Some p => r_ver view =? r_ver p | None => false end).

Definition mon_C12 (g : graph) (t : tok) : bool :=
  match t with
  | TUser (UFTimeout s _) _ pers _ _ =>
    match pers with Some p => (r_status p =? s) && negb (rs_stopped (r_state p)) && negb (rs_finished (r_state p)) | None => false end
  | _ => true
  end.
