(* SqlWhere.v — the statement that adapters/sqlstore/sqlstore.go List builds with its whereBuilder, as the token sequence
   the code concatenates (Where: " ( " f=? OR f=? ... " ) "; conditions joined by " AND "; " order by created_at <dir>";
   " limit ?"; " offset ?") with the arguments it binds, and SQL's reading of such a statement: OR binds weaker than AND,
   parentheses group, placeholders take the bound arguments in textual order, LIMIT/OFFSET page the ordered rows.
   Executable definitions only; the theorem that the statement means the reference List is in proofs/SqlWhereProofs.v.
   MySQL itself is not modelled: [ev] / [sql_select] are the standard reading of this fragment of SQL. *)
From WF Require Import model.Base model.Routing model.Stores.

Inductive wfield := FWf | FFid | FStatus | FState | FRun.
Inductive wtok := KLp | KRp | KAnd | KOr | KEq (f : wfield) | KNotNull (f : wfield).
(* the tail of the statement *)
Inductive ttok := KOrderBy (desc : bool) | KLimit | KOffset.

(* ---------- whereBuilder ---------- *)
Fixpoint or_chain (f : wfield) (n : nat) : list wtok :=
  match n with
  | O => []
  | S k => KEq f :: match k with O => [] | S _ => KOr :: or_chain f k end
  end.
(* Where(field, values...) *)
Definition wb_group (c : wfield * list Z) : list wtok := KLp :: or_chain (fst c) (length (snd c)) ++ [KRp].
(* strings.Join(conditions, " AND ") *)
Fixpoint wb_join (l : list (list wtok)) : list wtok :=
  match l with
  | [] => []
  | g :: t => match t with [] => g | _ :: _ => g ++ KAnd :: wb_join t end
  end.

Record sqlstmt := mkStmt { q_cond : list wtok; q_tail : list ttok; q_args : list Z }.

(* List: the conditions in the order the code adds them; wf = 0 is the empty workflow name (no condition) *)
Definition list_conds (wf : N) (f : sfilter) : list (wfield * list Z) :=
  (if (wf =? 0)%N then [] else [(FWf, [Z.of_N wf])]) ++
  (match f_fid f with None => [] | Some l => [(FFid, map Z.of_N l)] end) ++
  (match f_status f with None => [] | Some l => [(FStatus, l)] end) ++
  (match f_state f with None => [] | Some l => [(FState, l)] end).

Definition list_stmt (wf : N) (offset limit : Z) (desc : bool) (f : sfilter) : sqlstmt :=
  let cs := list_conds wf f in
  let lim := if limit =? 0 then default_list_limit else limit in
  mkStmt (wb_join (map wb_group cs ++ [[KNotNull FRun]]))
         ([KOrderBy desc] ++ (if 0 <? lim then [KLimit] else []) ++ (if 0 <? offset then [KOffset] else []))
         (flat_map snd cs ++ (if 0 <? lim then [lim] else []) ++ (if 0 <? offset then [offset] else [])).

(* ---------- SQL's reading of the condition: expr := term [OR expr]; term := atom [AND term];
              atom := ( expr ) | f = ? | f IS NOT NULL ---------- *)
Section Eval.
  Variable val : wfield -> Z.          (* the row's column values *)
  Variable notnull : wfield -> bool.

  Fixpoint ev (fuel : nat) (lvl : nat) (ts : list wtok) (ps : list Z) : option (bool * list wtok * list Z) :=
    match fuel with
    | O => None
    | S k =>
      match lvl with
      | 2%nat =>
        match ts with
        | KEq f :: r => match ps with p :: ps' => Some (val f =? p, r, ps') | [] => None end
        | KNotNull f :: r => Some (notnull f, r, ps)
        | KLp :: r => match ev k 0 r ps with
                      | Some (b, KRp :: r', ps') => Some (b, r', ps')
                      | _ => None
                      end
        | _ => None
        end
      | 1%nat =>
        match ev k 2 ts ps with
        | Some (b, KAnd :: r, ps') =>
          match ev k 1 r ps' with Some (b', r', ps'') => Some (b && b', r', ps'') | None => None end
        | x => x
        end
      | _ =>
        match ev k 1 ts ps with
        | Some (b, KOr :: r, ps') =>
          match ev k 0 r ps' with Some (b', r', ps'') => Some (b || b', r', ps'') | None => None end
        | x => x
        end
      end
    end.

  (* the whole condition: every token read; the remaining arguments are those of the tail *)
  Definition sql_cond (ts : list wtok) (ps : list Z) : option (bool * list Z) :=
    match ev (2 * length ts + 4) 0 ts ps with
    | Some (b, [], ps') => Some (b, ps')
    | _ => None
    end.
End Eval.

Definition row_val (r : record) (f : wfield) : Z :=
  match f with
  | FWf => Z.of_N (r_wf r)
  | FFid => Z.of_N (r_fid r)
  | FStatus => r_status r
  | FState => rs_code (r_state r)
  | FRun => Z.of_N (r_run r)
  end.

(* the tail over the matching rows in creation order (created_at strictly increases in insertion order: modelled, as in
   the reference store): ORDER BY, then OFFSET rows skipped, then LIMIT rows kept; the placeholders in textual order
   (limit before offset) *)
Definition sql_tail (ts : list ttok) (ps : list Z) (m : list record) : option (list record) :=
  match ts with
  | KOrderBy desc :: t =>
    let o := if desc then rev m else m in
    match t, ps with
    | [], [] => Some o
    | [KLimit], [l] => Some (firstn (Z.to_nat l) o)
    | [KLimit; KOffset], [l; off] => Some (firstn (Z.to_nat l) (skipn (Z.to_nat off) o))
    | _, _ => None                                (* OFFSET without LIMIT is not SQL; argument count mismatch *)
    end
  | _ => None
  end.

(* the rows a statement selects: the condition is read once per row with the same arguments *)
Fixpoint sql_filter (q : sqlstmt) (rows : list record) : option (list record * list Z) :=
  match rows with
  | [] => match sql_cond (fun _ => 0) (fun _ => true) (q_cond q) (q_args q) with
          | Some (_, ps) => Some ([], ps) | None => None end
  | r :: t =>
    match sql_cond (row_val r) (fun _ => true) (q_cond q) (q_args q), sql_filter q t with
    | Some (b, ps), Some (m, _) => Some (if b then r :: m else m, ps)
    | _, _ => None
    end
  end.

Definition sql_select (q : sqlstmt) (rows : list record) : option (list record) :=
  match sql_filter q rows with
  | Some (m, ps) => sql_tail (q_tail q) ps m
  | None => None
  end.

(* the same conditions rendered WITHOUT the parentheses (what the statement would mean if Where did not group) *)
Definition wb_group_flat (c : wfield * list Z) : list wtok := or_chain (fst c) (length (snd c)).
