(* Shard.v — eventfilter.go shardFilter. [shard_skip shard total id = true] means the event is
   filtered out (acknowledged unhandled) by consumer [shard] of [total].
   Go (after the repair of F7):  m := e.ID % int64(total); if m < 0 { m += int64(total) }; return m != int64(shard)-1
   which is the non-negative remainder, i.e. Z.modulo for total > 0.
   [shard_skip_trunc] is the pinned tree's original behaviour (Go's truncated %, = Z.rem). *)
From WF Require Import model.Base.

Definition shard_skip (shard total id : Z) : bool :=
  if 1 <? total then negb (Z.modulo id total =? shard - 1) else false.

Definition shard_skip_trunc (shard total id : Z) : bool :=
  if 1 <? total then negb (Z.rem id total =? shard - 1) else false.

(* shards that handle [id] among 1..n *)
Fixpoint handlers_upto (n : nat) (total id : Z) : list Z :=
  match n with
  | O => []
  | S k => handlers_upto k total id ++ (if shard_skip (Z.of_nat n) total id then [] else [Z.of_nat n])
  end.

(* Observation compared with the implementation: the shards in 1..max(total,1) that handle [id]. *)
Definition shardset (total id : Z) : list Z := handlers_upto (Z.to_nat (Z.max total 1)) total id.

(* Monitor (the property as a boolean on an observed answer): exactly one shard handles the event. *)
Definition shardset_ok (obs : list Z) : bool := Nat.eqb (length obs) 1.
