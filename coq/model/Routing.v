(* Routing.v — event.go MakeOutboxEventData (topic selection, headers, int32 type), eventfilter.go header filters,
   await.go release condition. *)
From WF Require Import model.Base.

(* Go's int32(x) conversion of an int *)
Definition int32 (z : Z) : Z := (z + 2147483648) mod 4294967296 - 2147483648.

(* topic chosen for a record with run-state CODE [st] (any integer) and status [status] *)
Definition route_topic_code (st : Z) (status : Z) : topic :=
  if (st =? 3) || (st =? 4) || (st =? 6) || (st =? 5) then TRunStateChange
  else if st =? 7 then TDelete
  else TStatus status.

Definition route_topic (r : record) : topic := route_topic_code (rs_code (r_state r)) (r_status r).

(* the outbox entry content for a record; [id] is the fresh entry ID *)
Definition route (id : N) (r : record) : oentry :=
  mkOentry id (r_wf r) (route_topic r) (r_run r) (r_fid r) (int32 (r_status r)) (rs_code (r_state r)) (r_ver r).

(* the event the relay publishes for an entry (streamer assigns id and time) *)
Definition event_of_entry (eid : Z) (now : Z) (o : oentry) : event :=
  mkEvent eid (o_wf o) (o_topic o) (o_run o) (o_fid o) (o_type o) (o_state o) (o_ver o) now.

(* header filters: true = skip. All our events carry the headers, so "header missing => false" does not arise. *)
Definition filter_by_fid (fid : N) (e : event) : bool := negb (N.eqb (e_fid e) fid).
Definition filter_by_run (run : N) (e : event) : bool := negb (N.eqb (e_run e) run).
Definition filter_by_state (st : runstate) (e : event) : bool := negb (Z.eqb (e_state e) (rs_code st)).

(* await.go: the topic Await subscribes to, and whether an event on it releases the caller (after the repair of F9:
   the event must also record the awaited status) *)
Definition await_topic (terminal : bool) (status : Z) : topic := if terminal then TRunStateChange else TStatus status.
Definition await_release (fid run : N) (status : Z) (e : event) : bool :=
  negb (filter_by_fid fid e) && negb (filter_by_run run e) && Z.eqb (e_type e) (int32 status).
(* pinned tree: no type check *)
Definition await_release_orig (fid run : N) (e : event) : bool :=
  negb (filter_by_fid fid e) && negb (filter_by_run run e).

(* await.go awaitWorkflowStatusByForeignID over the sequence of writes published while the caller waits:
   index of the first write whose event reaches the caller's topic and releases it; -1 = still waiting *)
Fixpoint await_first (terminal : bool) (fid run : N) (status : Z) (writes : list record) (i : Z) : Z :=
  match writes with
  | [] => -1
  | r :: t =>
    let o := route 0%N r in
    if topic_eqb (o_topic o) (await_topic terminal status) && await_release fid run status (event_of_entry 0 0 o)
    then i else await_first terminal fid run status t (i + 1)
  end.
