(* Streams.v — the EventStreamer contract (eventstreamer.go) as a reference log with per-name committed positions
   (RefStream), and adapters/memstreamer/memstreamer.go as written after the repair of F11 (MemStreamer): one shared log,
   a cursor per receiver NAME that is advanced by acknowledgements and while skipping events of other topics,
   StreamFromLatest resolved when the receiver is created and only if the name has no stored position.
   The in-memory connector (adapters/memstreamer/connector.go) is the same machine with a single topic.
   Executable definitions only; proofs in proofs/StreamsProofs.v. *)
From WF Require Import model.Base.

(* an event of the log: (topic, payload identifier); the position in the log (+1) is its ID *)
Definition sev := (N * Z)%type.

Inductive mop :=
| MSend (topic : N) (payload : Z)
| MNewReceiver (h : N) (topic name : N) (latest : bool)   (* h: the handle by which later operations name this receiver *)
| MRecv (h : N)
| MAck (h : N).                                            (* the Ack function returned by the handle's last Recv *)

Inductive mobs :=
| MbOk
| MbEvent (id : Z) (topic : N) (payload : Z)
| MbBlock                                                  (* Recv would not return: nothing to deliver *)
| MbNoHandle.                                              (* scenario error: unknown handle / nothing to acknowledge *)

Record recvh := mkRecvh { h_id : N; h_topic : N; h_name : N; h_last : option nat (* index of the event last received *) }.

Definition get_h (hs : list recvh) (h : N) : option recvh := find_first (fun x => N.eqb (h_id x) h) hs.
Definition put_h (hs : list recvh) (x : recvh) : list recvh := x :: filter (fun y => negb (N.eqb (h_id y) (h_id x))) hs.

Definition pos_get (ps : list (N * nat)) (name : N) : option nat :=
  match find_first (fun x => N.eqb (fst x) name) ps with Some x => Some (snd x) | None => None end.
Definition pos_put (ps : list (N * nat)) (name : N) (p : nat) : list (N * nat) :=
  (name, p) :: filter (fun x => negb (N.eqb (fst x) name)) ps.
Definition pos_or0 (ps : list (N * nat)) (name : N) : nat := match pos_get ps name with Some p => p | None => O end.

(* first event of [topic] at an index >= pos, scanning [l] whose head has index [idx] *)
Fixpoint first_from (topic : N) (l : list sev) (idx pos : nat) : option (nat * sev) :=
  match l with
  | [] => None
  | e :: t => if Nat.leb pos idx && N.eqb (fst e) topic then Some (idx, e) else first_from topic t (S idx) pos
  end.

(* ---------- reference stream ---------- *)
Record rstream := mkRstream { rl_log : list sev; rl_pos : list (N * nat); rl_hs : list recvh }.
Definition rstream0 : rstream := mkRstream [] [] [].

Definition rref_step (s : rstream) (o : mop) : rstream * mobs :=
  match o with
  | MSend topic payload => (mkRstream (rl_log s ++ [(topic, payload)]) (rl_pos s) (rl_hs s), MbOk)
  | MNewReceiver h topic name latest =>
    let ps := match pos_get (rl_pos s) name with
              | None => if latest then pos_put (rl_pos s) name (length (rl_log s)) else rl_pos s
              | Some _ => rl_pos s
              end in
    (mkRstream (rl_log s) ps (put_h (rl_hs s) (mkRecvh h topic name None)), MbOk)
  | MRecv h =>
    match get_h (rl_hs s) h with
    | None => (s, MbNoHandle)
    | Some x =>
      match first_from (h_topic x) (rl_log s) 0 (pos_or0 (rl_pos s) (h_name x)) with
      | None => (s, MbBlock)
      | Some (idx, e) =>
        (mkRstream (rl_log s) (rl_pos s) (put_h (rl_hs s) (mkRecvh h (h_topic x) (h_name x) (Some idx))),
         MbEvent (Z.of_nat idx + 1) (fst e) (snd e))
      end
    end
  | MAck h =>
    match get_h (rl_hs s) h with
    | Some x =>
      match h_last x with
      | Some idx => (mkRstream (rl_log s) (pos_put (rl_pos s) (h_name x) (S idx)) (rl_hs s), MbOk)
      | None => (s, MbNoHandle)
      end
    | None => (s, MbNoHandle)
    end
  end.

Fixpoint rref_run (s : rstream) (ops : list mop) : list mobs :=
  match ops with [] => [] | o :: t => let (s', b) := rref_step s o in b :: rref_run s' t end.

(* ---------- memstreamer ---------- *)
Record mstream := mkMstream { ml_log : list sev; ml_cur : list (N * nat); ml_hs : list recvh }.
Definition mstream0 : mstream := mkMstream [] [] [].

(* the Recv loop from cursor [c] over the remaining log [l] (head has index c): skip other topics, committing the cursor *)
Fixpoint mem_scan (topic : N) (l : list sev) (c : nat) : nat * option sev :=
  match l with
  | [] => (c, None)
  | e :: t => if N.eqb (fst e) topic then (c, Some e) else mem_scan topic t (S c)
  end.

Definition mmem_step (s : mstream) (o : mop) : mstream * mobs :=
  match o with
  | MSend topic payload => (mkMstream (ml_log s ++ [(topic, payload)]) (ml_cur s) (ml_hs s), MbOk)
  | MNewReceiver h topic name latest =>
    let cs := match pos_get (ml_cur s) name with
              | None => if latest then pos_put (ml_cur s) name (length (ml_log s)) else ml_cur s
              | Some _ => ml_cur s
              end in
    (mkMstream (ml_log s) cs (put_h (ml_hs s) (mkRecvh h topic name None)), MbOk)
  | MRecv h =>
    match get_h (ml_hs s) h with
    | None => (s, MbNoHandle)
    | Some x =>
      let c := pos_or0 (ml_cur s) (h_name x) in
      let (c', r) := mem_scan (h_topic x) (skipn c (ml_log s)) c in
      let cs := if Nat.eqb c' c then ml_cur s else pos_put (ml_cur s) (h_name x) c' in
      match r with
      | None => (mkMstream (ml_log s) cs (ml_hs s), MbBlock)
      | Some e =>
        (mkMstream (ml_log s) cs (put_h (ml_hs s) (mkRecvh h (h_topic x) (h_name x) (Some c'))),
         MbEvent (Z.of_nat c' + 1) (fst e) (snd e))
      end
    end
  | MAck h =>
    match get_h (ml_hs s) h with
    | Some x =>
      match h_last x with
      | Some idx => (mkMstream (ml_log s) (pos_put (ml_cur s) (h_name x) (S idx)) (ml_hs s), MbOk)
      | None => (s, MbNoHandle)
      end
    | None => (s, MbNoHandle)
    end
  end.

Fixpoint mmem_run (s : mstream) (ops : list mop) : list mobs :=
  match ops with [] => [] | o :: t => let (s', b) := mmem_step s o in b :: mmem_run s' t end.

(* domain (DESIGN C19): a receiver name is used with one topic and one setting of StreamFromLatest throughout a
   sequence (true of every role name the engine builds: a consumer always passes the same topic and options) *)
Fixpoint mops_ok (names : list (N * (N * bool))) (ops : list mop) : bool :=
  match ops with
  | [] => true
  | MNewReceiver _ topic name latest :: t =>
    match find_first (fun x => N.eqb (fst x) name) names with
    | Some x => N.eqb (fst (snd x)) topic && Bool.eqb (snd (snd x)) latest && mops_ok names t
    | None => mops_ok ((name, (topic, latest)) :: names) t
    end
  | _ :: t => mops_ok names t
  end.

(* second domain (proofs/StreamsSingle.v): every Send and every receiver of the sequence is on ONE topic; receiver names and the
   StreamFromLatest setting are free per receiver *)
Definition single_op (t : N) (o : mop) : bool :=
  match o with
  | MSend topic _ => N.eqb topic t
  | MNewReceiver _ topic _ _ => N.eqb topic t
  | _ => true
  end.
Definition single_topic (t : N) (ops : list mop) : bool := forallb (single_op t) ops.

