(* Timeouts.v — the TimeoutStore contract (timeout.go) as a reference timer list (RefTimeout) and
   adapters/memtimeoutstore/memtimeoutstore.go as written after the repair of F12 (MemTimeout: Cancel removes the slice
   element found by ID and nothing when the ID is unknown). Executable definitions only. *)
From WF Require Import model.Base.

Inductive top :=
| TOCreate (wf fid run : N) (status expire : Z)
| TOComplete (id : Z)
| TOCancel (id : Z)
| TOListValid (wf : N) (status now : Z)
| TOList (wf : N).

Inductive tobs := TbOk | TbList (l : list trec).

(* ---------- reference: a timer is (record, cancelled flag); nothing is ever removed ---------- *)
Record rtimer := mkRtimer { rt_rec : trec; rt_cancelled : bool }.
Record rtstore := mkRtstore { rts_timers : list rtimer; rts_next : Z }.
Definition rtstore0 : rtstore := mkRtstore [] 1.

Definition set_completed (t : trec) : trec := mkTrec (t_id t) (t_wf t) (t_fid t) (t_run t) (t_status t) true (t_expire t).

(* listed as due: same workflow and status, not completed, not cancelled, expired at or before [now]
   (at the exact instant either answer is accepted by the property; the bundled stores answer "due") *)
Definition due (wf : N) (status now : Z) (t : trec) : bool :=
  N.eqb (t_wf t) wf && Z.eqb (t_status t) status && negb (t_completed t) && Z.leb (t_expire t) now.

Definition tref_step (s : rtstore) (o : top) : rtstore * tobs :=
  match o with
  | TOCreate wf fid run status expire =>
    (mkRtstore (rts_timers s ++ [mkRtimer (mkTrec (rts_next s) wf fid run status false expire) false]) (rts_next s + 1), TbOk)
  | TOComplete id =>
    (mkRtstore (map (fun x => if Z.eqb (t_id (rt_rec x)) id then mkRtimer (set_completed (rt_rec x)) (rt_cancelled x) else x) (rts_timers s)) (rts_next s), TbOk)
  | TOCancel id =>
    (mkRtstore (map (fun x => if Z.eqb (t_id (rt_rec x)) id then mkRtimer (rt_rec x) true else x) (rts_timers s)) (rts_next s), TbOk)
  | TOListValid wf status now =>
    (s, TbList (map rt_rec (filter (fun x => negb (rt_cancelled x) && due wf status now (rt_rec x)) (rts_timers s))))
  | TOList wf =>
    (s, TbList (map rt_rec (filter (fun x => negb (rt_cancelled x) && N.eqb (t_wf (rt_rec x)) wf) (rts_timers s))))
  end.

Fixpoint tref_run (s : rtstore) (ops : list top) : list tobs :=
  match ops with [] => [] | o :: t => let (s', b) := tref_step s o in b :: tref_run s' t end.

(* ---------- memtimeoutstore: a slice; Cancel removes the element ---------- *)
Record mtstore := mkMtstore { mts_timers : list trec; mts_next : Z }.
Definition mtstore0 : mtstore := mkMtstore [] 1.

(* Complete: the first element with the ID (then break) *)
Fixpoint complete_first (id : Z) (l : list trec) : list trec :=
  match l with
  | [] => []
  | t :: r => if Z.eqb (t_id t) id then set_completed t :: r else t :: complete_first id r
  end.
(* Cancel: remove the first element with the ID; unknown ID: nothing *)
Fixpoint remove_first (id : Z) (l : list trec) : list trec :=
  match l with
  | [] => []
  | t :: r => if Z.eqb (t_id t) id then r else t :: remove_first id r
  end.

Definition tmem_step (s : mtstore) (o : top) : mtstore * tobs :=
  match o with
  | TOCreate wf fid run status expire =>
    (mkMtstore (mts_timers s ++ [mkTrec (mts_next s) wf fid run status false expire]) (mts_next s + 1), TbOk)
  | TOComplete id => (mkMtstore (complete_first id (mts_timers s)) (mts_next s), TbOk)
  | TOCancel id => (mkMtstore (remove_first id (mts_timers s)) (mts_next s), TbOk)
  | TOListValid wf status now => (s, TbList (filter (due wf status now) (mts_timers s)))
  | TOList wf => (s, TbList (filter (fun t => N.eqb (t_wf t) wf) (mts_timers s)))
  end.

Fixpoint tmem_run (s : mtstore) (ops : list top) : list tobs :=
  match ops with [] => [] | o :: t => let (s', b) := tmem_step s o in b :: tmem_run s' t end.
