(* Connector.v — connector.go: the generic event a connector event is wrapped into, and back.
   connectorEventToEvent: ID = int64(fnv64(e.ID)) (hash/fnv New64 = FNV-1, 64 bit), ForeignID and CreatedAt copied, the whole
   connector event JSON-encoded into the one header "connector_data"; streamerEventToConnectorEvent decodes that header. *)
From WF Require Import model.Base.
Open Scope N_scope.

Definition fnv_offset : N := 14695981039346656037.
Definition fnv_prime : N := 1099511628211.
Definition two64 : N := 18446744073709551616.
Definition two63 : N := 9223372036854775808.

(* FNV-1: multiply, then xor the byte *)
Definition fnv1_64 (bs : list N) : N :=
  (fold_left (fun h b => N.lxor ((h * fnv_prime) mod two64) b) bs fnv_offset) mod two64.

(* Go's int64(uint64) conversion *)
Definition to_int64 (n : N) : Z := if n <? two63 then Z.of_N n else (Z.of_N n - Z.of_N two64)%Z.

Definition conn_event_id (id_bytes : list N) : Z := to_int64 (fnv1_64 id_bytes).

(* a connector event; strings as byte lists; headers in key order; the timestamp as an instant *)
Record cevent := mkCevent { ce_id : list N; ce_fid : list N; ce_type : list N; ce_headers : list (list N * list N); ce_created : Z }.

(* the generic event: only these fields are populated *)
Record gevent (D : Type) := mkGevent { g_id : Z; g_fid : list N; g_created : Z; g_data : D }.
Arguments mkGevent {D}. Arguments g_id {D}. Arguments g_fid {D}. Arguments g_created {D}. Arguments g_data {D}.

Section Codec.
Variable D : Type.
Variable enc : cevent -> D.                 (* encoding/json Marshal *)
Variable dec : D -> option cevent.          (* encoding/json Unmarshal *)

Definition conn_to_event (e : cevent) : gevent D := mkGevent (conn_event_id (ce_id e)) (ce_fid e) (ce_created e) (enc e).
Definition event_to_conn (g : gevent D) : option cevent := dec (g_data g).
End Codec.
