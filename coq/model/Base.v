(* Base.v — shared types of the luno/workflow models (executable definitions only).
   Mirrors: record.go (Record, Meta), runstate.go (RunState), event.go (Event), timeout.go (TimeoutRecord). *)
From Coq Require Export List ZArith NArith Bool Arith Lia.
Export ListNotations.
Open Scope Z_scope.

(* ---------- run states (runstate.go) ---------- *)
Inductive runstate :=
| RSUnknown | RSInitiated | RSRunning | RSPaused | RSCancelled | RSCompleted | RSDataDeleted | RSReqDataDeleted.

Definition rs_code (s : runstate) : Z :=
  match s with
  | RSUnknown => 0 | RSInitiated => 1 | RSRunning => 2 | RSPaused => 3 | RSCancelled => 4
  | RSCompleted => 5 | RSDataDeleted => 6 | RSReqDataDeleted => 7
  end.

Definition rs_of_code (z : Z) : option runstate :=
  match z with
  | 0 => Some RSUnknown | 1 => Some RSInitiated | 2 => Some RSRunning | 3 => Some RSPaused
  | 4 => Some RSCancelled | 5 => Some RSCompleted | 6 => Some RSDataDeleted | 7 => Some RSReqDataDeleted
  | _ => None
  end.

Definition rs_eqb (a b : runstate) : bool := Z.eqb (rs_code a) (rs_code b).

Definition all_runstates : list runstate :=
  [RSUnknown; RSInitiated; RSRunning; RSPaused; RSCancelled; RSCompleted; RSDataDeleted; RSReqDataDeleted].

(* ---------- objects ----------
   The Go harness uses  type Obj struct{ Seed int; Trail []int }  marshalled as JSON.
   ODeleted is the default delete marker "{'result': 'deleted'}" (not valid JSON: Unmarshal fails on it). *)
Inductive obj :=
| OVal (seed : Z) (trail : list Z)
| ODeleted.

Definition obj_eqb (a b : obj) : bool :=
  match a, b with
  | OVal s1 t1, OVal s2 t2 => Z.eqb s1 s2 && (if list_eq_dec Z.eq_dec t1 t2 then true else false)
  | ODeleted, ODeleted => true
  | _, _ => false
  end.

(* ---------- records ---------- *)
Record record := mkRecord {
  r_wf : N;            (* workflow name (identifier) *)
  r_fid : N;           (* foreign ID *)
  r_run : N;           (* run ID *)
  r_state : runstate;
  r_status : Z;
  r_obj : obj;
  r_created : Z;       (* ns on the workflow clock *)
  r_updated : Z;
  r_ver : Z;           (* Meta.Version *)
  r_reason : N;        (* Meta.RunStateReason, as a code: 0 = "" *)
  r_desc : Z           (* Meta.StatusDescription, as "the status it describes" *)
}.

Definition set_state (r : record) (s : runstate) : record :=
  mkRecord (r_wf r) (r_fid r) (r_run r) s (r_status r) (r_obj r) (r_created r) (r_updated r) (r_ver r) (r_reason r) (r_desc r).
Definition set_reason (r : record) (x : N) : record :=
  mkRecord (r_wf r) (r_fid r) (r_run r) (r_state r) (r_status r) (r_obj r) (r_created r) (r_updated r) (r_ver r) x (r_desc r).
Definition set_ver (r : record) (v : Z) : record :=
  mkRecord (r_wf r) (r_fid r) (r_run r) (r_state r) (r_status r) (r_obj r) (r_created r) (r_updated r) v (r_reason r) (r_desc r).
Definition set_obj (r : record) (o : obj) : record :=
  mkRecord (r_wf r) (r_fid r) (r_run r) (r_state r) (r_status r) o (r_created r) (r_updated r) (r_ver r) (r_reason r) (r_desc r).
Definition bump (r : record) : record := set_ver r (r_ver r + 1).

(* ---------- topics (topic.go), as a datatype; Strings.v ties it to the byte strings ---------- *)
Inductive topic :=
| TStatus (s : Z)
| TDelete
| TRunStateChange
| TConn (cid : N).                  (* not a workflow topic: the event source of connector [cid] (connector.go) *)

Definition topic_eqb (a b : topic) : bool :=
  match a, b with
  | TStatus x, TStatus y => Z.eqb x y
  | TDelete, TDelete => true
  | TRunStateChange, TRunStateChange => true
  | TConn a, TConn b => N.eqb a b
  | _, _ => false
  end.

(* ---------- events (event.go) as published by the relay ---------- *)
Record event := mkEvent {
  e_id : Z;            (* assigned by the streamer *)
  e_wf : N;            (* header workflow_name *)
  e_topic : topic;     (* header topic *)
  e_run : N;           (* Event.ForeignID = outbox RunId; also header run_id *)
  e_fid : N;           (* header foreign_id *)
  e_type : Z;          (* int32(status) *)
  e_state : Z;         (* header run_state (code) *)
  e_ver : Z;           (* header record_version *)
  e_created : Z
}.

(* outbox entries: id + the decoded content (everything but the streamer-assigned id / time) *)
Record oentry := mkOentry {
  o_id : N;
  o_wf : N;
  o_topic : topic;
  o_run : N;
  o_fid : N;
  o_type : Z;
  o_state : Z;
  o_ver : Z
}.

(* ---------- timeout records ---------- *)
Record trec := mkTrec {
  t_id : Z;
  t_wf : N;
  t_fid : N;
  t_run : N;
  t_status : Z;
  t_completed : bool;
  t_expire : Z
}.

(* ---------- small list helpers ---------- *)
Fixpoint find_first {A} (p : A -> bool) (l : list A) : option A :=
  match l with [] => None | x :: t => if p x then Some x else find_first p t end.

Fixpoint replace_first {A} (p : A -> bool) (y : A) (l : list A) : list A :=
  match l with
  | [] => []
  | x :: t => if p x then y :: t else x :: replace_first p y t
  end.

Fixpoint firstn_filter {A} (p : A -> bool) (n : nat) (l : list A) : list A :=
  match n, l with
  | O, _ => []
  | _, [] => []
  | S k, x :: t => if p x then x :: firstn_filter p k t else firstn_filter p n t
  end.

Fixpoint last_opt {A} (l : list A) : option A :=
  match l with [] => None | [x] => Some x | _ :: t => last_opt t end.

Fixpoint count_occ_b {A} (p : A -> bool) (l : list A) : nat :=
  match l with [] => O | x :: t => if p x then S (count_occ_b p t) else count_occ_b p t end.
