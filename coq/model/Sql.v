(* Sql.v — adapters/sqlstore/sqlstore.go Store as a sequence of statements inside one transaction over a committed database,
   with a failure position; the where-clause builder of List (placeholders vs bound arguments).
   The relational meaning of the SELECT statements is that of the reference store (model/Stores.v); MySQL itself is not
   modelled. Executable definitions only. *)
From WF Require Import model.Base model.Routing model.Stores.

Record sqldb := mkSqldb { db_recs : list record; db_outbox : list oentry; db_noid : N }.

(* the statements of Store, in the order the code issues them; QEncode is MakeOutboxEventData (no statement, but it can fail) *)
Inductive stmt := QBegin | QSelect | QWrite | QEncode | QOutbox | QCommit.
Definition store_stmts : list stmt := [QBegin; QSelect; QWrite; QEncode; QOutbox; QCommit].

(* the transaction's staged view *)
Record txst := mkTx { tx_exists : bool; tx_recs : list record; tx_outbox : list oentry }.

Definition exec_stmt (db : sqldb) (r : record) (st : stmt) (tx : txst) : txst :=
  match st with
  | QBegin => mkTx false (db_recs db) (db_outbox db)
  | QSelect => mkTx (existsb (fun x => N.eqb (r_run x) (r_run r)) (tx_recs tx)) (tx_recs tx) (tx_outbox tx)
  | QWrite => mkTx (tx_exists tx)
                   (if tx_exists tx then replace_first (fun x => N.eqb (r_run x) (r_run r)) r (tx_recs tx) else tx_recs tx ++ [r])
                   (tx_outbox tx)
  | QEncode => tx
  | QOutbox => mkTx (tx_exists tx) (tx_recs tx) (tx_outbox tx ++ [route (db_noid db) r])
  | QCommit => tx
  end.

(* run the statements from position k; [fail] = the position that fails (the deferred Rollback discards the staged view) *)
Fixpoint run_tx (db : sqldb) (r : record) (fail : option nat) (k : nat) (l : list stmt) (tx : txst) : option txst :=
  match l with
  | [] => Some tx
  | st :: t => if match fail with Some f => Nat.eqb f k | None => false end then None
               else run_tx db r fail (S k) t (exec_stmt db r st tx)
  end.

Definition sql_store (db : sqldb) (r : record) (fail : option nat) : sqldb * bool :=
  match run_tx db r fail 0 store_stmts (mkTx false [] []) with
  | Some tx => (mkSqldb (tx_recs tx) (tx_outbox tx) (db_noid db + 1)%N, true)
  | None => (db, false)
  end.

Definition db_abs (db : sqldb) : rstore := mkRstore (db_recs db) (db_outbox db) (db_noid db).

(* ---------- whereBuilder: conditions (field, values), order, limit, offset -> number of '?' and of bound arguments ---------- *)
Record wherespec := mkWhere { wh_conds : list (nat * list Z); wh_notnull : bool; wh_limit : Z; wh_offset : Z }.
Definition wh_placeholders (w : wherespec) : nat :=
  fold_right (fun c acc => length (snd c) + acc)%nat O (wh_conds w) + (if 0 <? wh_limit w then 1 else 0) + (if 0 <? wh_offset w then 1 else 0).
Definition wh_params (w : wherespec) : nat :=
  length (flat_map snd (wh_conds w)) + (if 0 <? wh_limit w then 1 else 0) + (if 0 <? wh_offset w then 1 else 0).
