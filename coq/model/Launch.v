(* Launch.v — workflow.go Run: which background processes are started for a configuration, and under which role.
   Role names: step.go, timeout.go, connector.go, hook.go, delete.go, pause.go, outbox.go (all via makeRole). *)
From WF Require Import model.Base model.Strings.
Open Scope string_scope.
Open Scope list_scope.
Open Scope Z_scope.

Inductive unit_ :=
| UOutbox
| UStep (status shard total : Z)
| UPoller (status : Z)
| UInserter (status : Z)
| UConn (name : string) (shard total : Z)
| UHook (st : runstate)
| UDelete
| URetry.

Record config := mkConfig {
  cf_name : string;
  cf_default_parallel : Z;
  cf_steps : list (Z * Z);            (* (status, per-step ParallelCount; 0 = not set) *)
  cf_timeouts : list Z;               (* statuses with at least one AddTimeout *)
  cf_has_tstore : bool;
  cf_connectors : list (string * Z);  (* (connector name, per-connector ParallelCount) *)
  cf_hooks : list runstate;           (* registered hooks *)
  cf_retry : bool
}.

Definition resolve (per dflt : Z) : Z := if per =? 0 then dflt else per.

Fixpoint shards_from (k : nat) (mk : Z -> unit_) : list unit_ :=
  match k with O => [] | S j => shards_from j mk ++ [mk (Z.of_nat k)] end.

(* n < 2: one consumer "1 of 1"; otherwise shards 1..n of n *)
Definition sharded (n : Z) (mk : Z -> Z -> unit_) : list unit_ :=
  if n <? 2 then [mk 1 1] else shards_from (Z.to_nat n) (fun i => mk i n).

Definition launch (c : config) : list unit_ :=
  [UOutbox]
  ++ flat_map (fun st => sharded (resolve (snd st) (cf_default_parallel c)) (UStep (fst st))) (cf_steps c)
  ++ (if cf_has_tstore c then flat_map (fun s => [UPoller s; UInserter s]) (cf_timeouts c) else [])
  ++ flat_map (fun cn => sharded (resolve (snd cn) (cf_default_parallel c)) (UConn (fst cn))) (cf_connectors c)
  ++ map UHook (cf_hooks c)
  ++ [UDelete]
  ++ (if cf_retry c then [URetry] else []).

Definition rs_string (s : runstate) : string :=
  match s with
  | RSUnknown => "Unknown" | RSInitiated => "Initiated" | RSRunning => "Running" | RSPaused => "Paused"
  | RSCancelled => "Cancelled" | RSCompleted => "Completed" | RSDataDeleted => "Data Deleted"
  | RSReqDataDeleted => "Requested Data Deleted"
  end.

Definition role_of (wf : string) (u : unit_) : string :=
  match u with
  | UOutbox => make_role [wf; "outbox"; "consumer"]
  | UStep s i n => make_role [wf; itoa s; "consumer"; itoa i; "of"; itoa n]
  | UPoller s => make_role [wf; itoa s; "timeout-consumer"]
  | UInserter s => make_role [wf; itoa s; "timeout-auto-inserter-consumer"]
  | UConn c i n => make_role [c; "connector"; "to"; wf; "consumer"; itoa i; "of"; itoa n]
  | UHook st => make_role [wf; rs_string st; "run-state-change-hook"; "consumer"]
  | UDelete => make_role [wf; "delete"; "consumer"]
  | URetry => make_role [wf; "paused"; "records"; "retry"; "consumer"]
  end.

Definition launch_roles (c : config) : list string := map (role_of (cf_name c)) (launch c).
