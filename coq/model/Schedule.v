(* Schedule.v — schedule.go: one iteration of the scheduling process over an abstract cron [next].
   [next] is a Section variable (robfig/cron is not modelled); the two laws it must satisfy are hypotheses of the
   theorems in proofs/ScheduleProofs.v and are exercised by the harness against cron.ParseStandard(spec).Next. *)
From WF Require Import model.Base.

Section Sched.
Variable next : Z -> Z.

(* latest run of the foreign ID as the iteration sees it: None, or (created, finished?) *)
Definition sched_base (latest : option Z) (now : Z) : Z :=
  match latest with Some c => c | None => now end.

(* the instant the iteration waits for *)
Definition sched_wake (latest : option Z) (now : Z) : Z := next (sched_base latest now).

(* outcome of one iteration that starts at [now0] and whose wait ends at clock reading [now1 >= wake]
   (waitUntil returns at once when wake <= now0, then now1 = now0):
   Some t = a run is created at t; None = nothing created *)
Definition sched_iter (latest : option (Z * bool)) (now1 : Z) (filter_ok : bool) : option Z :=
  if negb filter_ok then None
  else match latest with
       | Some (_, false) => None            (* latest run unfinished: ErrWorkflowInProgress *)
       | _ => Some now1
       end.
End Sched.
