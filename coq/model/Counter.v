(* Counter.v — internal/errorcounter: a map from keys to counts. The key is the triple (error, process, run);
   the code concatenates err.Error() ++ process ++ "-" ++ runID (injectivity of that concatenation is an assumption). *)
From WF Require Import model.Base.

Definition ckey := (N * N * N)%type.
Definition ckey_eqb (a b : ckey) : bool :=
  match a, b with (a1, a2, a3), (b1, b2, b3) => N.eqb a1 b1 && N.eqb a2 b2 && N.eqb a3 b3 end.
Definition counter := list (ckey * nat).

Fixpoint c_get (c : counter) (k : ckey) : nat :=
  match c with [] => O | (k', n) :: t => if ckey_eqb k k' then n else c_get t k end.
Fixpoint c_set (c : counter) (k : ckey) (n : nat) : counter :=
  match c with
  | [] => [(k, n)]
  | (k', m) :: t => if ckey_eqb k k' then (k', n) :: t else (k', m) :: c_set t k n
  end.
Definition c_add (c : counter) (k : ckey) : counter * nat := let n := S (c_get c k) in (c_set c k n, n).
Definition c_clear (c : counter) (k : ckey) : counter := c_set c k O.

(* pause.go maybePause decision: with threshold n (0 = off), after the Add returning [count]: pause? *)
Definition should_pause (n : Z) (count : nat) : bool := negb (n =? 0) && negb (Z.of_nat count <? n).
