(* C20 — Schedule. Property theorems only.
   The cron library is not modelled: [next] is any function with the two cron laws (strictly later; gap-free), and the
   periodic specifications of the harness family (every minute, */15, 0,30, @hourly, @daily) are shown to satisfy them.
   [iteration latest now0 now1 filter] is the decision of one scheduling iteration of schedule.go: it starts at now0 seeing
   the latest run (creation time, finished?), its wait ends at now1, then filter and Trigger; Some t = a run created at t.
   The engine model's scheduler (Engine.sched_body) computes its wake-up instant with exactly this function
   (C20_engine_deadline) and is compared with the real Schedule on every run of the check. *)
From WF Require Import model.Base model.Schedule model.EngineBase model.Engine proofs.ScheduleProofs proofs.EngineProps proofs.Examples.

Theorem C20_never_early_core : forall (next : Z -> Z), (forall t, t < next t) -> (forall t u, t <= u < next t -> next u = next t) ->
  forall latest now0 now1 f t, iteration next latest now0 now1 f = Some t ->
  t = now1 /\ match latest with Some (l, _) => next l <= t | None => next now0 <= t /\ now0 < t end.
Proof. exact never_early_core. Qed.
Print Assumptions C20_never_early_core.

Theorem C20_one_per_tick : forall (next : Z -> Z), (forall t, t < next t) -> (forall t u, t <= u < next t -> next u = next t) ->
  forall latest now0 now1 f t now0' now1' f' t',
  iteration next latest now0 now1 f = Some t -> iteration next (Some (t, true)) now0' now1' f' = Some t' -> next t <= t' /\ t < t'.
Proof. exact one_per_tick. Qed.
Print Assumptions C20_one_per_tick.

Theorem C20_filter_false_creates_nothing : forall next latest now0 now1, iteration next latest now0 now1 false = None.
Proof. exact no_run_when_filtered. Qed.
Print Assumptions C20_filter_false_creates_nothing.

Theorem C20_unfinished_creates_nothing : forall next l now0 now1 f, iteration next (Some (l, false)) now0 now1 f = None.
Proof. exact no_run_when_unfinished. Qed.
Print Assumptions C20_unfinished_creates_nothing.

Theorem C20_cron_laws : forall id, (forall t, t < cron_next id t) /\ (forall t u, t <= u < cron_next id t -> cron_next id u = cron_next id t).
Proof. intros id. split; [apply cron_next_after|apply cron_next_gapfree]. Qed.
Print Assumptions C20_cron_laws.

Theorem C20_engine_deadline : forall (sc : schedcfg) (lat : option record) (now : Z),
  cron_next (sd_spec sc) (match lat with Some r => r_created r | None => now end) =
  sched_wake (cron_next (sd_spec sc)) (option_map r_created lat) now.
Proof. exact engine_deadline_is_wake. Qed.
Print Assumptions C20_engine_deadline.

(* Finding F13 (recorded, not repaired): the full statement — never before the first tick after the LATER of the start and the
   latest run's creation — is refuted, on the decision function and on the engine model (same witness the check replays) *)
Theorem C20_never_early_refuted :
  exists l start t, iteration (cron_next 1) (Some (l, true)) start start true = Some t /\ t < cron_next 1 (Z.max start l).
Proof. exact never_early_refuted. Qed.
Print Assumptions C20_never_early_refuted.

Theorem C20_never_early_refuted_engine :
  created_by_scheduler (trace_of f13_cfg f13_ops) = [180000000000] /\ 180000000000 < cron_next 1 180000000000.
Proof. exact f13_witness. Qed.
Print Assumptions C20_never_early_refuted_engine.

(* the strongest true restriction: exact whenever the latest run is younger than one tick at the start, or absent *)
Theorem C20_never_early_partial : forall id latest start now1 f t,
  match latest with Some (l, _) => start < cron_next id l | None => True end ->
  iteration (cron_next id) latest start now1 f = Some t ->
  cron_next id (Z.max start (match latest with Some (l, _) => l | None => start end)) <= t.
Proof. exact never_early_partial. Qed.
Print Assumptions C20_never_early_partial.

(* "... and ends when the workflow stops": the scheduling process parked in its error back-off (a failed lookup or Store of its
   trigger) whose role is gone is back to asking for its role at its next step, having made no adapter call — for EVERY state
   (the same fact as C11_backoff_ends_when_role_lost, for the scheduler's unit) *)
From WF Require Import proofs.StoreOk.
Theorem C20_scheduler_backoff_ends_when_stopped : forall c inst fid d s,
  o_lease s && negb (o_dead s) = false ->
  fst (proc_op c inst (ESched fid) (PBackoff d) s) = Ok PIdle /\
  o_w (snd (proc_op c inst (ESched fid) (PBackoff d) s)) = release_role (o_w s) (ESched fid) inst.
Proof. intros c inst fid d s H. destruct (backoff_cancelled_when_role_lost c inst (ESched fid) d s H) as (A & B & _). split; assumption. Qed.
Print Assumptions C20_scheduler_backoff_ends_when_stopped.

(* "... passes the configured initial value to the run it creates": from EVERY state (world, fault plan, lease, crash flag) the
   scheduling process of a foreign ID — started at its role acquisition ([sched_body]) or resumed after its wait
   ([sched_after_wait]) — records only Stores that are the first write of a run of THAT foreign ID, Initiated, version 1, at the
   default starting status, holding THE CONFIGURED initial value, whether or not a schedule filter is configured *)
From WF Require Import proofs.Emits proofs.SchedFacts.
Theorem C20_created_run_holds_the_configured_value : forall c sc inst s,
  (exists t, o_trace (snd (sched_body c inst sc s)) = t ++ o_trace s /\ Forall (sched_store c sc) t) /\
  (exists t, o_trace (snd (sched_after_wait c inst sc s)) = t ++ o_trace s /\ Forall (sched_store c sc) t).
Proof. intros c sc inst s. split; [apply es_body|apply es_after_wait]. Qed.
Print Assumptions C20_created_run_holds_the_configured_value.
