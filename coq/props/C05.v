(* C05 — outbox relay: every write is published at least once and removed only afterwards. Property theorems only.
   Quantification: every configuration c and every history ops (hist_ok: no stale-read fault, non-negative clock advances):
   any interleaving of writes and relay cycles, any batch size and lookup limit, any fault (error before / after the effect,
   lease loss, crash) at list / new sender / send / close / delete, duplicated deliveries, two instances.
   [w_hist] is the list of all committed Store calls in order; entry IDs number them. *)
From WF Require Import model.Base model.Routing model.EngineBase model.Engine proofs.EngineInv proofs.EngineTokens proofs.EngineProps.

(* a Store commits the record and exactly one outbox entry, the routing of that very record, in one step *)
Theorem C05_store_one_entry : forall c w r,
  w_hist (do_store c w r) = w_hist w ++ [stamp c w r] /\
  w_outbox (do_store c w r) = w_outbox w ++ [route (w_noid w) (stamp c w r)].
Proof. intros c w r. split; reflexivity. Qed.
Print Assumptions C05_store_one_entry.

(* in every reachable world every committed write is still pending in the outbox or has been accepted by the streamer
   (an event with its topic, run ID, foreign ID, type, run state and version is in the log): an entry is removed only
   after its event was accepted *)
Theorem C05_published_or_pending : forall c ops, hist_ok ops -> forall k r,
  nth_error (w_hist (fst (run_ops c ops))) k = Some r ->
  In (route (N.of_nat k + 1)%N r) (w_outbox (fst (run_ops c ops))) \/ published (fst (run_ops c ops)) r.
Proof. exact p_published_or_pending. Qed.
Print Assumptions C05_published_or_pending.

(* nothing is published that was not written (events of a connector's external source aside: they are not publications) *)
Theorem C05_nothing_invented : forall c ops, hist_ok ops -> forall e, In e (w_log (fst (run_ops c ops))) ->
  conn_topic (e_topic e) = false ->
  exists r, In r (w_hist (fst (run_ops c ops))) /\ ev_of e (route 0%N r).
Proof. exact p_nothing_invented. Qed.
Print Assumptions C05_nothing_invented.

(* every pending entry describes a committed write *)
Theorem C05_outbox_of_writes : forall c ops, hist_ok ops -> forall o, In o (w_outbox (fst (run_ops c ops))) ->
  entry_at (w_hist (fst (run_ops c ops))) o.
Proof. exact p_outbox_of_writes. Qed.
Print Assumptions C05_outbox_of_writes.

(* REMOVED ONLY AFTERWARDS. outbox.go purgeOutbox, for EVERY state (world, fault plan at every call of the cycle, lease and crash
   flags) and every batch: in the trace, every DeleteOutboxEvent sits directly on top of "sender closed: ok" and "event sent: ok"
   of the very same entry ([relay_ok], proofs/RelayFacts.v) — an entry whose NewSender / Send / Close failed, or after which the
   cycle aborted, is never deleted *)
From WF Require Import proofs.RelayFacts.
Theorem C05_delete_only_after_send : forall l s, relay_ok (o_trace s) -> relay_ok (o_trace (snd (relay_entries l s))).
Proof. exact relay_entries_ok. Qed.
Print Assumptions C05_delete_only_after_send.

(* what [relay_ok] says about a delete token *)
Theorem C05_relay_ok_reads : forall t tr id a, relay_ok (t :: tr) -> t = TDelOut id a ->
  exists o tr', tr = TCall KSC [] ROk [] :: TSend o ROk :: tr' /\ o_id o = id.
Proof.
  intros t tr id a H E. inversion H as [|t' tr' Hn Hr|o a' tr' Hr]; subst.
  - exfalso. eapply Hn. reflexivity.
  - inversion H0; subst. eexists _, _. split; reflexivity.
Qed.
Print Assumptions C05_relay_ok_reads.

(* EVERY WRITE IS EVENTUALLY PUBLISHED: in every reachable world the outbox IDs are distinct ... *)
Theorem C05_outbox_ids_distinct : forall c ops, hist_ok ops -> NoDup (map o_id (w_outbox (fst (run_ops c ops)))).
Proof. intros c ops H. apply (wi_oids c _ (final_WI c ops H)). Qed.
Print Assumptions C05_outbox_ids_distinct.

(* ... and a fault-free relay cycle (no fault in the plan, role held, instance alive) over the first [limit] entries of an
   outbox with distinct IDs succeeds, publishes exactly those min(limit, n) entries and leaves exactly the remaining ones:
   ceil(n / limit) fault-free cycles empty an outbox of n entries *)
Theorem C05_fault_free_cycle_drains : forall limit s,
  ff s -> NoDup (map o_id (w_outbox (o_w s))) ->
  exists s', relay_entries (firstn limit (w_outbox (o_w s))) s = (Ok tt, s') /\
    w_outbox (o_w s') = skipn limit (w_outbox (o_w s)) /\
    length (w_log (o_w s')) = (length (w_log (o_w s)) + Nat.min limit (length (w_outbox (o_w s))))%nat.
Proof. exact relay_cycle_drains. Qed.
Print Assumptions C05_fault_free_cycle_drains.
