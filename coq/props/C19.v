(* C19 — in-memory streamer. Property theorems only. *)
From WF Require Import model.Base model.Streams proofs.StreamsProofs.

(* for EVERY interleaving of sends, receiver creations (any name / topic / option), receives, acknowledgements and
   reconnects in which a name keeps its topic and its StreamFromLatest setting, starting from the empty stream, the model of
   adapters/memstreamer delivers exactly what the reference stream delivers (pre-filled streams are sequences starting
   with sends) *)
Theorem C19_refines : forall ops, mops_ok [] ops = true -> mmem_run mstream0 ops = rref_run rstream0 ops.
Proof. intros ops H. exact (streams_refine ops mstream0 rstream0 [] strel0 H). Qed.
Print Assumptions C19_refines.

(* the reference stream: a delivered event is an event of the receiver's topic at or after the committed position ... *)
Theorem C19_delivery_from_position : forall t l pos idx e, first_from t l 0 pos = Some (idx, e) ->
  (pos <= idx)%nat /\ (0 <= idx)%nat /\ nth_error l (idx - 0) = Some e /\ fst e = t.
Proof. intros t l pos idx e H. exact (first_from_ge t l 0 pos idx e H). Qed.
Print Assumptions C19_delivery_from_position.

(* ... and the first such event: events of a topic are delivered in send order, none skipped *)
Theorem C19_in_send_order : forall t l pos idx e, first_from t l 0 pos = Some (idx, e) ->
  forall j x, (pos <= j < idx)%nat -> (0 <= j)%nat -> nth_error l (j - 0) = Some x -> fst x <> t.
Proof. intros t l pos idx e H. exact (first_from_first t l 0 pos idx e H). Qed.
Print Assumptions C19_in_send_order.

(* an event received but not acknowledged (the committed position is unchanged) is delivered again, whatever was sent
   meanwhile, to any receiver of that name *)
Theorem C19_redelivery_until_ack : forall t l l' pos x, first_from t l 0 pos = Some x -> first_from t (l ++ l') 0 pos = Some x.
Proof. intros t l l' pos x H. exact (first_from_app t l l' 0 pos x H). Qed.
Print Assumptions C19_redelivery_until_ack.

(* ON A SINGLE TOPIC the refinement needs no condition on names and options: for EVERY operation sequence whose Sends and
   receivers are all on one topic — receiver names and StreamFromLatest settings chosen freely per receiver, a name used with and
   without the option included — memstreamer answers as the reference stream does. There the Recv loop never skips an event, so
   a position is stored only by an acknowledgement or by StreamFromLatest on a name that has none: READING IS NOT STORING
   (proofs/StreamsSingle.v; with several topics memstreamer also commits a position while skipping foreign events, which is
   why C19_refines asks a name to keep one option) *)
From WF Require Import proofs.StreamsSingle.
Theorem C19_refines_single_topic : forall t ops, single_topic t ops = true -> mmem_run mstream0 ops = rref_run rstream0 ops.
Proof. exact streams_refine_single_from_empty. Qed.
Print Assumptions C19_refines_single_topic.
