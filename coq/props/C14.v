(* C14 — run-state hooks fire at least once per entry and only for their own state. Property theorems only. *)
From WF Require Import model.Base model.RunState model.Routing model.Graph model.EngineBase model.Engine model.Monitors
  proofs.EngineInv proofs.EngineTokens proofs.EngineProps proofs.HandlerFacts proofs.Delivery proofs.DeliveryProps.

(* AT LEAST ONCE, for every configuration and every history (any faults, crashes at every call of the hook consumer,
   lease revocations, rewinds, duplicated deliveries; [hist_ok]: no stale read, clock steps >= 0).
   Each time a write makes a run Paused, Cancelled or Completed (the k-th committed write [r]), and for the hook consumer
   of that state: the announcement is still in the outbox; or it is in the log at or after the consumer's committed
   position (it will be delivered — again, if the hook failed or the instance crashed before the Ack); or the hook was
   invoked with that run and returned nil; or the run's data had been deleted when the consumer read it. *)
Theorem C14_at_least_once : forall c ops, hist_ok ops ->
  forall k r q,
  nth_error (w_hist (fst (run_ops c ops))) k = Some r -> r_state r = q -> (q = RSPaused \/ q = RSCancelled \/ q = RSCompleted) ->
  In (route (N.of_nat k + 1)%N r) (w_outbox (fst (run_ops c ops))) \/
  (exists j e, nth_error (w_log (fst (run_ops c ops))) j = Some e /\ ev_of e (route 0%N r) /\
               (get_cursor (fst (run_ops c ops)) (EHook q) <= j)%nat) \/
  (exists r' pers now, In (TUser (UFHook q) r' pers now UOk) (snd (run_ops c ops)) /\ r_run r' = r_run r) \/
  (exists r', In (TLookup KLK (Z.of_N (r_run r)) ROk (Some r')) (snd (run_ops c ops)) /\ r_obj r' = ODeleted).
Proof. exact hook_at_least_once. Qed.
Print Assumptions C14_at_least_once.

(* a hook consumer's committed position moves past an event of its state only when the handler returned nil on it (no
   hypothesis on the history) *)
Theorem C14_not_lost : forall c ops q j e,
  (j < get_cursor (fst (run_ops c ops)) (EHook q))%nat -> nth_error (w_log (fst (run_ops c ops))) j = Some e ->
  e_topic e = TRunStateChange -> e_state e = rs_code q -> has_wit (EHook q) e (snd (run_ops c ops)).
Proof.
  intros c ops q j e Hj He Ht Hs. apply (position_never_passes_unhandled c ops (EHook q) j e Hj He Ht).
  cbn. unfold filter_by_state. rewrite Hs, Z.eqb_refl. reflexivity.
Qed.
Print Assumptions C14_not_lost.

(* RE-INVOKED UNTIL NIL: a failing hook (or any failing call of the consumer) ends the operation without an Ack, for every state *)
Theorem C14_failure_not_acked : forall c inst q idx e s x s1,
  unit_filter (EHook q) e = false -> unit_handler c inst (EHook q) e s = (Err x, s1) -> after_lag c inst (EHook q) idx e s = (Err x, s1).
Proof. intros c inst q. exact (after_lag_handler_failed c inst (EHook q)). Qed.
Print Assumptions C14_failure_not_acked.

(* ONLY ITS OWN STATE: an event that records any other run state is acknowledged without the hook being invoked, for every state *)
Theorem C14_only_own_state : forall c inst q idx e s,
  e_state e <> rs_code q -> after_lag c inst (EHook q) idx e s = (p_ack (EHook q) idx e ;;; ret PRun) s.
Proof.
  intros c inst q idx e s H. apply after_lag_filtered. cbn. unfold filter_by_state.
  destruct (e_state e =? rs_code q) eqn:E; [apply Z.eqb_eq in E; contradiction|reflexivity].
Qed.
Print Assumptions C14_only_own_state.

(* and every event in the log records the state of the write that produced it *)
Theorem C14_event_state_of_write : forall c ops, hist_ok ops -> forall e, In e (w_log (fst (run_ops c ops))) ->
  e_topic e = TRunStateChange ->
  exists r, In r (w_hist (fst (run_ops c ops))) /\ e_state e = rs_code (r_state r) /\ e_run e = r_run r.
Proof.
  intros c ops H e He Ht. assert (Hc : conn_topic (e_topic e) = false) by (rewrite Ht; reflexivity).
  destruct (p_nothing_invented c ops H e He Hc) as (r & Hr & Ev). exists r. split; [exact Hr|].
  destruct Ev as (_ & _ & E3 & _ & _ & E6 & _). cbn in E3, E6. auto.
Qed.
Print Assumptions C14_event_state_of_write.

(* the IF direction, for EVERY world in a fault-free state: an event of the hook's own state whose hook no longer fails is
   handled — the hook is invoked on the looked-up run and returns nil (or the run's data was deleted: nothing to call) — and
   acknowledged; the hook consumer's committed position moves past it, no record is written *)
From WF Require Import proofs.RelayFacts proofs.FaultFree.
Theorem C14_hook_iteration : forall c inst st idx e r s,
  let k := match find_first (fun h => rs_eqb (fst h) st) (ec_hooks c) with Some h => snd h | None => O end in
  ff s -> unit_filter (EHook st) e = false -> lookup_run (o_w s) (e_run e) = Some r ->
  (hook_fails k <= att_get (w_att (o_w s)) (ufun_code (UFHook st)) (r_run r))%nat ->
  exists s', after_lag c inst (EHook st) idx e s = (Ok PRun, s') /\ ff s' /\
             get_cursor (o_w s') (EHook st) = S idx /\ w_recs (o_w s') = w_recs (o_w s) /\
             (r_obj r <> ODeleted ->
              exists t, o_trace s' = TAck e ROk :: TUser (UFHook st) r (Some r) (w_now (o_w s)) UOk :: t).
Proof. exact hook_iteration_ff. Qed.
Print Assumptions C14_hook_iteration.

(* EVERY REGISTERED HOOK HAS A CONSUMER, for every configuration — whatever the other build options (pause-retry enabled or not,
   timeout store or not, any parallel counts): workflow.go Run launches one run-state-change consumer per registered hook
   (corollary of C10_launch_exact; the launch model is run against the real Builder + Run by the `launch` family, and the engine
   harness marks a configured unit that has no process with API=-1, which C14's monitor reports) *)
From WF Require Import model.Launch proofs.LaunchProofs.
Theorem C14_every_hook_has_a_consumer : forall c h, In h (cf_hooks c) -> In (UHook h) (launch c).
Proof. intros c h H. apply launch_units. do 6 right. exists h. split; [exact H|reflexivity]. Qed.
Print Assumptions C14_every_hook_has_a_consumer.

(* NIL ONLY AFTER THE HOOK RAN — unless the run's data is gone — for EVERY state (fault plan, lease, stale reads included): when
   the hook consumer's lookup answers with a record whose data is still there, whatever its run state (a deletion that is only
   REQUESTED leaves the data in place), and the handler returns nil (only then is the event acknowledged: C14_failure_not_acked),
   the hook was invoked on exactly that record and returned nil — that invocation is the last token of the trace
   (proofs/StoreOk.v) *)
From WF Require Import proofs.StoreOk.
Theorem C14_nil_only_after_the_hook_ran : forall st k e s r s1 s',
  p_lookup (e_run e) s = (Ok (Some r), s1) -> r_obj r <> ODeleted ->
  hook_handler st k e s = (Ok tt, s') -> o_dead s1 = false ->
  exists pers now, o_trace s' = TUser (UFHook st) r pers now UOk :: o_trace s1.
Proof. exact hook_nil_means_invoked. Qed.
Print Assumptions C14_nil_only_after_the_hook_ran.
