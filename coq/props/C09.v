(* C09 — Trigger creates exactly one run or nothing. Property theorems only (quantification as in C16.v). *)
From WF Require Import model.Base model.RunState model.Graph model.EngineBase model.Engine model.Monitors
  proofs.GraphProofs proofs.EngineTokens proofs.EngineProps.

(* every new run is persisted Initiated, at version 1, at a declared status *)
Theorem C09_new_run_shape : forall c ops, hist_ok ops -> forall r a, In (TStore None r a) (trace_of c ops) ->
  r_ver r = 1 /\ r_state r = RSInitiated /\ is_valid (ec_graph c) (r_status r) = true.
Proof. exact store_new_facts. Qed.
Print Assumptions C09_new_run_shape.

(* in every reachable world, of any two runs of one foreign ID the one created earlier is finished: at most one run per
   foreign ID is unfinished, whatever later activity (updates, data deletion, faults, redeliveries) touches older runs.
   [w_recs] lists the runs in creation order. *)
Theorem C09_one_unfinished : forall c ops, hist_ok ops ->
  forall l1 a l2 b, w_recs (fst (run_ops c ops)) = l1 ++ a :: l2 -> In b l2 -> r_fid b = r_fid a ->
  rs_finished (r_state a) = true.
Proof. exact p_one_unfinished. Qed.
Print Assumptions C09_one_unfinished.
