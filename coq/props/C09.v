(* C09 — Trigger creates exactly one run or nothing. Property theorems only (quantification as in C16.v). *)
From WF Require Import model.Base model.RunState model.Graph model.EngineBase model.Engine model.Monitors
  proofs.GraphProofs proofs.EngineTokens proofs.EngineProps.

(* every new run is persisted Initiated, at version 1, at a declared status *)
Theorem C09_new_run_shape : forall c ops, hist_ok ops -> forall r a, In (TStore None r a) (trace_of c ops) ->
  r_ver r = 1 /\ r_state r = RSInitiated /\ is_valid (ec_graph c) (r_status r) = true.
Proof. exact store_new_facts. Qed.
Print Assumptions C09_new_run_shape.
