(* C09 — Trigger creates exactly one run or nothing. Property theorems only (quantification as in C16.v). *)
From WF Require Import model.Base model.RunState model.Graph model.EngineBase model.Engine model.Monitors
  proofs.GraphProofs proofs.EngineTokens proofs.EngineProps.

(* every new run is persisted Initiated, at version 1, at a declared status *)
Theorem C09_new_run_shape : forall c ops, hist_ok ops -> forall r a, In (TStore None r a) (trace_of c ops) ->
  r_ver r = 1 /\ r_state r = RSInitiated /\ is_valid (ec_graph c) (r_status r) = true.
Proof. exact store_new_facts. Qed.
Print Assumptions C09_new_run_shape.

(* in every reachable world, of any two runs of one foreign ID the one created earlier is finished: at most one run per
   foreign ID is unfinished, whatever later activity (updates, data deletion, faults, redeliveries) touches older runs.
   [w_recs] lists the runs in creation order. *)
Theorem C09_one_unfinished : forall c ops, hist_ok ops ->
  forall l1 a l2 b, w_recs (fst (run_ops c ops)) = l1 ++ a :: l2 -> In b l2 -> r_fid b = r_fid a ->
  rs_finished (r_state a) = true.
Proof. exact p_one_unfinished. Qed.
Print Assumptions C09_one_unfinished.

(* ---------- trigger.go, for EVERY state (world, fault plan, lease): Trigger creates exactly one run or nothing ---------- *)
From WF Require Import proofs.HandlerFacts.

(* no declared starting status, or an undeclared requested one: an error before any adapter call, nothing written *)
Theorem C09_bad_start_rejected : forall c fid start seed s,
  (trigger_start c start = None \/ exists st0, trigger_start c start = Some st0 /\ is_valid (ec_graph c) st0 = false) ->
  exists e, api_trigger c fid start seed s = (Err e, s).
Proof. exact trigger_rejects_bad_start. Qed.
Print Assumptions C09_bad_start_rejected.

(* the newest-created run of the foreign ID is unfinished: ErrWorkflowInProgress right after the lookup — no Store *)
Theorem C09_refused_while_unfinished : forall c fid start seed st0 s l s1,
  trigger_start c start = Some st0 -> is_valid (ec_graph c) st0 = true ->
  p_latest fid s = (Ok (Some l), s1) -> rs_valid (r_state l) = true -> rs_finished (r_state l) = false ->
  api_trigger c fid start seed s = (Err 3, s1).
Proof. exact trigger_refused_while_unfinished. Qed.
Print Assumptions C09_refused_while_unfinished.

(* the lookup of the latest run failed: its error is returned — no Store *)
Theorem C09_lookup_failure_writes_nothing : forall c fid start seed st0 s e s1,
  trigger_start c start = Some st0 -> is_valid (ec_graph c) st0 = true ->
  p_latest fid s = (Err e, s1) -> api_trigger c fid start seed s = (Err e, s1).
Proof. exact trigger_lookup_failed. Qed.
Print Assumptions C09_lookup_failure_writes_nothing.

(* otherwise (no run yet, or the latest one finished): exactly ONE Store call, of a fresh run ID, Initiated, version 1, at the
   requested or default starting status with the given initial value *)
Theorem C09_creates_exactly_one : forall c fid start seed st0 s lastr s1,
  trigger_start c start = Some st0 -> is_valid (ec_graph c) st0 = true ->
  p_latest fid s = (Ok lastr, s1) ->
  (match lastr with Some l => rs_valid (r_state l) && negb (rs_finished (r_state l)) | None => false end) = false ->
  api_trigger c fid start seed s =
  p_store c (new_run_record fid st0 seed (o_w s1))
          (mkOst (set_nrun (o_w s1) (w_nrun (o_w s1) + 1)%N) (o_plan s1) (o_counts s1) (o_trace s1) (o_lease s1) (o_dead s1)).
Proof. exact trigger_creates_exactly_one. Qed.
Print Assumptions C09_creates_exactly_one.

Theorem C09_new_record : forall fid st0 seed w,
  let r := new_run_record fid st0 seed w in
  r_ver r = 1 /\ r_state r = RSInitiated /\ r_status r = st0 /\ r_fid r = fid /\ r_run r = w_nrun w /\ r_obj r = OVal seed [] /\ r_created r = w_now w.
Proof. exact new_run_record_shape. Qed.
Print Assumptions C09_new_record.

(* SUCCESS ONLY IF PERSISTED, for EVERY state (world, fault plan, lease): a Trigger that returned nil has left its new run — the
   given foreign ID, Initiated, version 1, the given initial value — as the stored record of a run ID and as the last committed
   write; a Store that fails before taking effect can therefore never be reported as success (proofs/StoreOk.v) *)
From WF Require Import proofs.StoreOk.
Theorem C09_success_means_persisted : forall c fid start seed s s',
  api_trigger c fid start seed s = (Ok tt, s') ->
  exists r, r_fid r = fid /\ r_state r = RSInitiated /\ r_ver r = 1 /\ r_obj r = OVal seed [] /\
            lookup_run (o_w s') (r_run r) = Some r /\ last (w_hist (o_w s')) r = r /\ w_hist (o_w s') <> [].
Proof. exact trigger_success_persisted. Qed.
Print Assumptions C09_success_means_persisted.

(* "... with a fresh run ID": in every history the runs that exist have pairwise distinct run IDs, all below the store's next run
   number (the model's stand-in for UUIDs) — a Trigger never re-uses the ID of a run that exists *)
From WF Require Import proofs.EngineInv.
Theorem C09_run_ids_distinct : forall c ops, hist_ok ops ->
  NoDup (map r_run (w_recs (fst (run_ops c ops)))) /\
  forall r, In r (w_recs (fst (run_ops c ops))) -> (r_run r < w_nrun (fst (run_ops c ops)))%N.
Proof. intros c ops H. split; [apply (wi_nodup c _ (final_WI c ops H))|apply (wi_lt c _ (final_WI c ops H))]. Qed.
Print Assumptions C09_run_ids_distinct.
