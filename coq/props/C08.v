(* C08 — paused and cancelled runs are left alone. Property theorems only (quantification as in C16.v). *)
From WF Require Import model.Base model.RunState model.Graph model.EngineBase model.Engine model.Monitors
  proofs.EngineTokens proofs.EngineProps.

(* no step, callback or timeout function is invoked while the run's persisted state is Paused, Cancelled,
   RequestedDataDeleted or DataDeleted *)
Theorem C08_no_invocation_while_stopped : forall c ops, hist_ok ops -> forall u view pers now planned,
  In (TUser u view pers now planned) (trace_of c ops) -> is_step_fn u = true ->
  exists p, pers = Some p /\ rs_stopped (r_state p) = false /\ r_obj view = r_obj p /\ r_ver view = r_ver p /\
            r_status view = r_status p /\ r_run view = r_run p.
Proof. exact p_fresh_view. Qed.
Print Assumptions C08_no_invocation_while_stopped.

(* while a run is stopped every write keeps its status, and its object but for the data-deletion rewrite *)
Theorem C08_stopped_frozen : forall c ops, hist_ok ops -> forall p r a, In (TStore (Some p) r a) (trace_of c ops) ->
  rs_stopped (r_state p) = true -> r_status r = r_status p /\ (r_obj r = r_obj p \/ r_state r = RSDataDeleted).
Proof. exact p_stopped_frozen. Qed.
Print Assumptions C08_stopped_frozen.
