(* C08 — paused and cancelled runs are left alone. Property theorems only (quantification as in C16.v). *)
From WF Require Import model.Base model.RunState model.Graph model.EngineBase model.Engine model.Monitors
  proofs.EngineTokens proofs.EngineProps.

(* no step, callback or timeout function is invoked while the run's persisted state is Paused, Cancelled,
   RequestedDataDeleted or DataDeleted *)
Theorem C08_no_invocation_while_stopped : forall c ops, hist_ok ops -> forall u view pers now planned,
  In (TUser u view pers now planned) (trace_of c ops) -> is_step_fn u = true ->
  exists p, pers = Some p /\ rs_stopped (r_state p) = false /\ r_obj view = r_obj p /\ r_ver view = r_ver p /\
            r_status view = r_status p /\ r_run view = r_run p.
Proof. exact p_fresh_view. Qed.
Print Assumptions C08_no_invocation_while_stopped.

(* while a run is stopped every write keeps its status, and its object but for the data-deletion rewrite *)
Theorem C08_stopped_frozen : forall c ops, hist_ok ops -> forall p r a, In (TStore (Some p) r a) (trace_of c ops) ->
  rs_stopped (r_state p) = true -> r_status r = r_status p /\ (r_obj r = r_obj p \/ r_state r = RSDataDeleted).
Proof. exact p_stopped_frozen. Qed.
Print Assumptions C08_stopped_frozen.

(* ---------- Resume continues from the same status ---------- *)
From WF Require Import model.Routing model.Shard proofs.RunStateProofs proofs.EngineInv proofs.Delivery proofs.DeliveryProps proofs.HandlerFacts.

(* Resume on a Paused run is accepted and writes Running at version + 1 with the same status and object; that write is
   routed to the status topic of the run's status — the topic of the step consumer / timeout inserter of that status ... *)
Theorem C08_resume_reannounces : forall r reason, r_state r = RSPaused ->
  exists r', ctl_update r RSRunning reason = Some r' /\
    r_state r' = RSRunning /\ r_ver r' = r_ver r + 1 /\ r_status r' = r_status r /\ r_obj r' = r_obj r /\ r_run r' = r_run r /\
    route_topic r' = TStatus (r_status r).
Proof.
  intros r reason H. unfold ctl_update. rewrite H. cbn. eexists. split; [reflexivity|]. cbn. repeat split.
Qed.
Print Assumptions C08_resume_reannounces.

(* ... where (∀ histories) it is never stranded: in the outbox, or ahead of the step consumer's committed position, or handled to
   completion (C01_not_stranded, restated for the write a Resume made) ... *)
Theorem C08_resumed_run_not_stranded : forall c ops, hist_ok ops ->
  forall k r s i n,
  nth_error (w_hist (fst (run_ops c ops))) k = Some r -> r_status r = s -> r_state r = RSRunning ->
  In (route (N.of_nat k + 1)%N r) (w_outbox (fst (run_ops c ops))) \/
  exists j e, nth_error (w_log (fst (run_ops c ops))) j = Some e /\ ev_of e (route 0%N r) /\
              ((get_cursor (fst (run_ops c ops)) (EStep s i n) <= j)%nat \/ shard_skip i n (e_id e) = true \/
               exists t, In t (snd (run_ops c ops)) /\ step_wit s e t).
Proof. intros c ops H k r s i n Hk Hs Hr. apply (step_not_stranded c ops H k r s i n Hk Hs). now right. Qed.
Print Assumptions C08_resumed_run_not_stranded.

(* ... and nothing that completed before the pause is repeated: the announcements of earlier versions are stale for the resumed
   record and are skipped by the version gate (C04_stale_skip, for every state) *)
Theorem C08_earlier_events_skipped : forall c inst u st fn n e s r s1,
  p_lookup (e_run e) s = (Ok (Some r), s1) -> e_ver e < r_ver r ->
  step_handler c inst u st fn n e s = (Ok tt, s1).
Proof. exact stale_event_skipped. Qed.
Print Assumptions C08_earlier_events_skipped.

(* "While a run is Paused, Cancelled, RequestedDataDeleted or DataDeleted ... its status and object do not change (other than the
   data-deletion rewrite)", read off the ghost history of committed writes: a committed write that replaced a STOPPED write of its run
   keeps status and object, or is the data-deletion rewrite holding the scrub of the stored object *)
From WF Require Import proofs.EffectFacts proofs.HistVersions proofs.Determined.
Theorem C08_persisted_stopped_run_is_frozen : forall c ops, hist_ok ops ->
  forall h1 x h2 p, w_hist (fst (run_ops c ops)) = h1 ++ x :: h2 -> lastrun h1 x = Some p -> rs_stopped (r_state p) = true ->
  r_status x = r_status p /\ (r_obj x = r_obj p \/ (r_state x = RSDataDeleted /\ r_obj x = scrub_obj c (r_obj p))).
Proof.
  intros c ops H h1 x h2 p E L Hs. pose proof (history_is_failure_free_path c ops H h1 x h2 E) as F. rewrite L in F.
  pose proof (persisted_sequence_facts c ops H h1 x h2 E) as G. rewrite L in G.
  split.
  - destruct (TokenFacts.sf_status _ _ _ G) as [S|(_ & S & _)]; [exact S|congruence].
  - destruct (TokenFacts.sf_object _ _ _ G) as [O|[O|(_ & O)]]; [left; exact O| |congruence].
    right. split; [exact O|]. destruct F as [(_ & _ & K)|[(_ & _ & S)|([A|A] & _)]]; [contradiction|exact S|congruence|congruence].
Qed.
Print Assumptions C08_persisted_stopped_run_is_frozen.
