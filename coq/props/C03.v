(* C03 — run-state lifecycle. Property theorems only. *)
From WF Require Import model.Base model.RunState model.Graph proofs.RunStateProofs proofs.GraphProofs.

(* Pause/Resume/Cancel/DeleteData are accepted exactly in the documented states, whatever the record. *)
Theorem C03_control_exact : forall r o reason,
  (exists r', ctl_update r (ctl_target o) reason = Some r') <-> ctl_documented (r_state r) o = true.
Proof. exact ctl_exact. Qed.
Print Assumptions C03_control_exact.

(* A rejected operation produces no record to store. *)
Theorem C03_rejected_no_write : forall r o reason,
  ctl_documented (r_state r) o = false -> ctl_update r (ctl_target o) reason = None.
Proof. exact ctl_rejected_none. Qed.
Print Assumptions C03_rejected_no_write.

(* An accepted one stores exactly: target state, reason, version+1; identity, status, object unchanged. *)
Theorem C03_accepted_shape : forall r t reason r', ctl_update r t reason = Some r' ->
  r_state r' = t /\ r_ver r' = r_ver r + 1 /\ r_reason r' = reason /\ r_status r' = r_status r /\ r_obj r' = r_obj r /\
  r_wf r' = r_wf r /\ r_fid r' = r_fid r /\ r_run r' = r_run r /\ r_created r' = r_created r /\ rs_table (r_state r) t = true.
Proof. exact ctl_accepted_shape. Qed.
Print Assumptions C03_accepted_shape.

(* Out-of-range run-state codes are neither source nor target of any controller transition. *)
Theorem C03_table_range : forall a b, rs_table_code a b = true -> 1 <= a <= 7 /\ 1 <= b <= 7.
Proof. exact table_code_range. Qed.
Print Assumptions C03_table_range.

(* Finished is closed under the lifecycle relation. *)
Theorem C03_finished_closed : forall a b, rs_finished a = true -> lc a b = true -> rs_finished b = true.
Proof. exact lc_finished_closed. Qed.
Print Assumptions C03_finished_closed.

(* Terminal classification: for EVERY sequence of builder calls, n is terminal iff it is a declared destination
   without outgoing transition — hence independent of the order of the calls. *)
Theorem C03_terminal_iff : forall cs n,
  is_terminal (build cs) n = true <-> (exists f, declared cs f n) /\ ~ (exists t, declared cs n t).
Proof. exact terminal_iff. Qed.
Print Assumptions C03_terminal_iff.

Theorem C03_terminal_order : forall cs cs' n,
  (forall f t, declared cs f t <-> declared cs' f t) -> is_terminal (build cs) n = is_terminal (build cs') n.
Proof. exact terminal_order_independent. Qed.
Print Assumptions C03_terminal_order.

(* ---- engine level: for every configuration, every history with any faults (quantification as in C16.v) ---- *)
From WF Require Import model.EngineBase model.Engine model.Monitors proofs.EngineTokens proofs.EngineProps.

(* consecutive persisted run states follow the lifecycle relation (or repeat Running / DataDeleted) *)
Theorem C03_history_lifecycle : forall c ops, hist_ok ops -> forall p r a, In (TStore (Some p) r a) (trace_of c ops) ->
  lc (r_state p) (r_state r) = true \/ (r_state r = r_state p /\ (r_state p = RSRunning \/ r_state p = RSDataDeleted)).
Proof. exact p_lifecycle. Qed.
Print Assumptions C03_history_lifecycle.

(* a Completed, Cancelled, RequestedDataDeleted or DataDeleted run never returns to Initiated, Running or Paused — whatever
   API call, callback, expired timeout, redelivered event, fault or crash reaches it *)
Theorem C03_finished_absorbing : forall c ops, hist_ok ops -> forall p r a, In (TStore (Some p) r a) (trace_of c ops) ->
  rs_finished (r_state p) = true -> rs_finished (r_state r) = true.
Proof. exact p_finished_absorbing. Qed.
Print Assumptions C03_finished_absorbing.

(* Completed is written only at a terminal status, and a write that moves a run to a terminal status writes Completed *)
Theorem C03_completed_iff_terminal : forall c ops, hist_ok ops -> forall prev r a, In (TStore prev r a) (trace_of c ops) ->
  (r_state r = RSCompleted -> is_terminal (ec_graph c) (r_status r) = true) /\
  (forall p, prev = Some p -> r_status r <> r_status p -> is_terminal (ec_graph c) (r_status r) = true -> r_state r = RSCompleted).
Proof. exact p_completed_terminal. Qed.
Print Assumptions C03_completed_iff_terminal.

(* ACCEPTED MEANS WRITTEN, for EVERY state (world, fault plan, lease, stale reads included): a Pause / Resume / Cancel / DeleteData
   through the API that returned nil was allowed by the table from the state the controller read, and has left the run stored in
   the target state, one version on, at the same status, as the last committed write — a controller that validates against
   anything but the record it holds, or reports success without the write, breaks this (proofs/StoreOk.v) *)
From WF Require Import model.Base model.EngineBase model.Engine proofs.StoreOk.
Theorem C03_accepted_means_written : forall c run o s s',
  api_ctl c run o s = (Ok tt, s') ->
  exists r0 r, rs_table (r_state r0) (ctl_target o) = true /\ r_run r0 = run /\
               lookup_run (o_w s') run = Some r /\ r_state r = ctl_target o /\ r_ver r = r_ver r0 + 1 /\ r_status r = r_status r0 /\
               last (w_hist (o_w s')) r = r /\ w_hist (o_w s') <> [].
Proof. exact ctl_success_persisted. Qed.
Print Assumptions C03_accepted_means_written.

(* "The sequence of run states PERSISTED for a run is always a path of the documented run-state machine", read off the ghost history
   of committed writes (proofs/HistVersions.v, proofs/Determined.v): every committed write of a run is its first write — Initiated —
   or stands to the write of that run it replaced ([lastrun h1 x]) in a lifecycle edge (or keeps Running / DataDeleted), and a finished
   run stays finished *)
From WF Require Import proofs.TokenFacts proofs.HistVersions proofs.Determined.
Theorem C03_persisted_states_form_a_lifecycle_path : forall c ops, hist_ok ops ->
  forall h1 x h2, w_hist (fst (run_ops c ops)) = h1 ++ x :: h2 ->
  match lastrun h1 x with
  | None => r_state x = RSInitiated
  | Some p => (lc (r_state p) (r_state x) = true \/ (r_state x = r_state p /\ (r_state p = RSRunning \/ r_state p = RSDataDeleted))) /\
              (rs_finished (r_state p) = true -> rs_finished (r_state x) = true)
  end.
Proof.
  intros c ops H h1 x h2 E. pose proof (persisted_sequence_facts c ops H h1 x h2 E) as F.
  destruct (lastrun h1 x) as [p|]; [split; [apply (sf_lifecycle _ _ _ F)|apply (sf_finished _ _ _ F)]|apply F].
Qed.
Print Assumptions C03_persisted_states_form_a_lifecycle_path.
