(* C18 — SQL store: record and outbox row commit together or not at all. Property theorems only.
   Model: coq/model/Sql.v — the statement sequence of sqlstore.Store inside one transaction over a committed database;
   MySQL is not modelled (the relational meaning of the SELECTs is that of the reference store). *)
From WF Require Import model.Base model.Routing model.Stores model.Sql model.SqlWhere model.Timeouts model.SqlTimeout proofs.SqlProofs proofs.SqlWhereProofs proofs.TimeoutsProofs proofs.SqlTimeoutProofs.

(* a failure at ANY position (begin, select, insert/update, event encoding, outbox insert, commit) commits nothing and
   returns the error *)
Theorem C18_atomic_failure : forall db r k, (k < 6)%nat -> sql_store db r (Some k) = (db, false).
Proof. exact sql_store_atomic_fail. Qed.
Print Assumptions C18_atomic_failure.

(* without failure: the record row is inserted (new run ID) or updated, and exactly one outbox row — the routing of that
   record — is added, together *)
Theorem C18_atomic_success : forall db r,
  sql_store db r None = (mkSqldb (r_upsert (db_recs db) r) (db_outbox db ++ [route (db_noid db) r]) (db_noid db + 1)%N, true).
Proof. exact sql_store_ok. Qed.
Print Assumptions C18_atomic_success.

(* hence Store answers as the reference store does, for every committed database, record and failure position *)
Theorem C18_store_refines : forall db r fail, match fail with Some k => (k < 6)%nat | None => True end ->
  let (db', ok) := sql_store db r fail in
  ref_step (db_abs db) (if ok then SStore r else SStoreFail r) = (db_abs db', if ok then ObOk else ObErr).
Proof. exact sql_store_refines. Qed.
Print Assumptions C18_store_refines.

(* the List statement binds as many arguments as it has placeholders, for every filter combination, limit and offset *)
Theorem C18_placeholders : forall w, wh_placeholders w = wh_params w.
Proof. exact where_placeholders_match. Qed.
Print Assumptions C18_placeholders.

(* the query side: the statement List builds with its whereBuilder — groups " ( f=? OR f=? ) " joined by " AND ", then
   run_id is not null, order by created_at, limit ?, offset ? — read as SQL (OR weaker than AND, parentheses group,
   placeholders bound in textual order, LIMIT after OFFSET) over the rows in creation order selects exactly the page
   the reference List returns, for every workflow name (0 = empty), filter combination with non-empty value lists,
   order, limit >= 0 (0 = the default 25) and offset >= 0 *)
Theorem C18_list_statement_meaning : forall wf off lim desc f rows, sfilter_ok f -> 0 <= off -> 0 <= lim ->
  sql_select (list_stmt wf off lim desc f) rows =
  Some (page off lim (let m := filter (smatches wf f) rows in if desc then rev m else m)).
Proof. exact list_stmt_meaning. Qed.
Print Assumptions C18_list_statement_meaning.

(* the parentheses carry that meaning: the same conditions joined without them select a row of another workflow *)
Theorem C18_grouping_matters :
  let cs := [(FWf, [1]); (FStatus, [1; 2])] in
  let val := fun f => match f with FWf => 2 | FStatus => 1 | _ => 0 end in
  sql_cond val (fun _ => true) (flat_stmt_cond cs) (flat_map snd cs) = Some (false, []) /\
  sql_cond val (fun _ => true) (wb_join (map wb_group cs ++ [[KNotNull FRun]])) (flat_map snd cs) = Some (false, []) /\
  let val2 := fun f => match f with FWf => 2 | FStatus => 2 | _ => 0 end in
  sql_cond val2 (fun _ => true) (flat_stmt_cond cs) (flat_map snd cs) = Some (true, []) /\
  sql_cond val2 (fun _ => true) (wb_join (map wb_group cs ++ [[KNotNull FRun]])) (flat_map snd cs) = Some (false, []).
Proof. exact unparenthesised_differs. Qed.
Print Assumptions C18_grouping_matters.

(* the SQL timeout store: each operation is one statement over the timeouts table (coq/model/SqlTimeout.v). Every operation
   sequence gets the reference timer list's answers — created timers keep their fields and get increasing keys; Complete and
   Cancel touch exactly the timer of that key (an unknown key: nothing); ListValid lists exactly the uncompleted, uncancelled
   timers of the workflow and status that have expired — inside the domain: a ListValid is not asked at the exact expiry instant
   of a stored timer (SQL says expire_at < now, the contract accepts either answer there), and List (not part of the property)
   is compared only while no completed timer of the workflow is stored *)
Theorem C18_sqltimeout_refines : forall ops m r, trel m r -> tsql_run_dom m ops = true -> tsql_run m ops = tref_run r ops.
Proof. exact sqltimeout_refines. Qed.
Print Assumptions C18_sqltimeout_refines.

Theorem C18_sqltimeout_from_empty : forall ops, tsql_run_dom mtstore0 ops = true -> tsql_run mtstore0 ops = tref_run rtstore0 ops.
Proof. intros ops. apply sqltimeout_refines, trel0. Qed.
Print Assumptions C18_sqltimeout_from_empty.
