(* C18 — placeholder until the engine theorems are added below. *)
From WF Require Import model.Base model.EngineBase model.Engine.
Theorem C18_emit_dead_silent : forall t s, o_dead s = true -> emit t s = (Ok tt, s).
Proof. intros t s H. unfold emit. now rewrite H. Qed.
Print Assumptions C18_emit_dead_silent.
