(* C18 — SQL store: record and outbox row commit together or not at all. Property theorems only.
   Model: coq/model/Sql.v — the statement sequence of sqlstore.Store inside one transaction over a committed database;
   MySQL is not modelled (the relational meaning of the SELECTs is that of the reference store). *)
From WF Require Import model.Base model.Routing model.Stores model.Sql proofs.SqlProofs.

(* a failure at ANY position (begin, select, insert/update, event encoding, outbox insert, commit) commits nothing and
   returns the error *)
Theorem C18_atomic_failure : forall db r k, (k < 6)%nat -> sql_store db r (Some k) = (db, false).
Proof. exact sql_store_atomic_fail. Qed.
Print Assumptions C18_atomic_failure.

(* without failure: the record row is inserted (new run ID) or updated, and exactly one outbox row — the routing of that
   record — is added, together *)
Theorem C18_atomic_success : forall db r,
  sql_store db r None = (mkSqldb (r_upsert (db_recs db) r) (db_outbox db ++ [route (db_noid db) r]) (db_noid db + 1)%N, true).
Proof. exact sql_store_ok. Qed.
Print Assumptions C18_atomic_success.

(* hence Store answers as the reference store does, for every committed database, record and failure position *)
Theorem C18_store_refines : forall db r fail, match fail with Some k => (k < 6)%nat | None => True end ->
  let (db', ok) := sql_store db r fail in
  ref_step (db_abs db) (if ok then SStore r else SStoreFail r) = (db_abs db', if ok then ObOk else ObErr).
Proof. exact sql_store_refines. Qed.
Print Assumptions C18_store_refines.

(* the List statement binds as many arguments as it has placeholders, for every filter combination, limit and offset *)
Theorem C18_placeholders : forall w, wh_placeholders w = wh_params w.
Proof. exact where_placeholders_match. Qed.
Print Assumptions C18_placeholders.
