(* C07 — events are acknowledged only after successful handling. Property theorems only.
   Every consumer kind (steps, timeout inserter, hooks, delete, paused-retry) is the same [consume]: receive, wait for the
   lag, filter, handler, acknowledge ([after_lag] is what follows the lag wait; [guarded] the process supervision).
   All statements hold for EVERY state: every world, fault plan, lease and crash flag. *)
From WF Require Import model.Base model.EngineBase model.Engine proofs.EngineTokens proofs.HandlerFacts proofs.Delivery proofs.DeliveryProps.

(* the handler failed (any adapter call or the user function): nothing after it runs — in particular no acknowledgement;
   the operation ends in the handler's final state with the handler's error *)
Theorem C07_fail_no_ack : forall c inst u idx e s x s1,
  unit_filter u e = false -> unit_handler c inst u e s = (Err x, s1) -> after_lag c inst u idx e s = (Err x, s1).
Proof. exact after_lag_handler_failed. Qed.
Print Assumptions C07_fail_no_ack.

(* the acknowledgement follows a handler that returned nil ... *)
Theorem C07_ack_after_ok : forall c inst u idx e s s1,
  unit_filter u e = false -> unit_handler c inst u e s = (Ok tt, s1) -> after_lag c inst u idx e s = (p_ack u idx e ;;; ret PRun) s1.
Proof. exact after_lag_handler_ok. Qed.
Print Assumptions C07_ack_after_ok.

(* ... or an event a filter excluded (acknowledged unhandled) *)
Theorem C07_filtered_acked_unhandled : forall c inst u idx e s,
  unit_filter u e = true -> after_lag c inst u idx e s = (p_ack u idx e ;;; ret PRun) s.
Proof. exact after_lag_filtered. Qed.
Print Assumptions C07_filtered_acked_unhandled.

(* an error takes the process to the error exit: the receiver is closed, the role released after the back-off (at once when
   the cause was cancellation) *)
Theorem C07_error_exit : forall c inst u close (m : M pstate) s x s1,
  m s = (Err x, s1) -> guarded c inst u close m s = exit_err c inst u close x s1.
Proof. exact guarded_on_error. Qed.
Print Assumptions C07_error_exit.

(* only the acknowledgement moves the committed position of a consumer, and it moves it just past the acknowledged event *)
Theorem C07_ack_moves_cursor : forall u idx e s,
  w_cur (o_w (snd (p_ack u idx e s))) = w_cur (o_w s) \/ get_cursor (o_w (snd (p_ack u idx e s))) u = S idx.
Proof. exact ack_moves_cursor. Qed.
Print Assumptions C07_ack_moves_cursor.

(* FAILURES ARE REDELIVERED. For every configuration and every history (any faults, crashes, lease revocations, rewinds,
   duplicated deliveries, stale reads — no hypothesis at all): the committed position of a consumer never passes an event of
   its topic unless its filter excluded the event or its handler ran to completion on it ([has_wit]: the evidence the nil
   return leaves in the trace, per consumer kind) ... *)
Theorem C07_never_skipped : forall c ops u j e,
  (j < get_cursor (fst (run_ops c ops)) u)%nat -> nth_error (w_log (fst (run_ops c ops))) j = Some e ->
  e_topic e = unit_topic u -> unit_filter u e = false -> has_wit u e (snd (run_ops c ops)).
Proof. exact position_never_passes_unhandled. Qed.
Print Assumptions C07_never_skipped.

(* ... and Recv hands out the FIRST event of the topic at or after the committed position: an event that was not acknowledged is
   the next one delivered under that name *)
Theorem C07_recv_first_unacked : forall t l pos idx e, next_event t l 0 pos = Some (idx, e) ->
  nth_error l idx = Some e /\ e_topic e = t /\ (pos <= idx)%nat /\
  (forall j e', (pos <= j)%nat -> (j < idx)%nat -> nth_error l j = Some e' -> e_topic e' <> t).
Proof.
  intros t l pos idx e H. destruct (next_event_spec t l 0 pos idx e H) as (_ & A & B & C & D).
  rewrite Nat.sub_0_r in A. split; [exact A|]. split; [exact B|]. split; [exact C|].
  intros j e' H1 H2 H3. apply (D j e'); try lia. rewrite Nat.sub_0_r. exact H3.
Qed.
Print Assumptions C07_recv_first_unacked.

(* THE CONSUME LAG, for every state. An event younger than the configured lag is received and parked — no filter, handler or
   Ack in that operation —, the parked consumer keeps waiting while the deadline (creation time + lag, on the workflow clock) has
   not been reached, and only then is the event handled; if the role is lost meanwhile it is not handled at all (C11). Together:
   whenever lag > 0 the handler starts at a clock reading >= created + lag. *)
Theorem C07_lag_young_event_parked : forall c inst u idx e s,
  next_event (unit_topic u) (w_log (o_w s)) 0 (get_cursor (o_w s) u) = Some (idx, e) ->
  unit_lag c u > 0 -> e_created e + unit_lag c u > w_now (o_w s) ->
  consume_iter c inst u s =
  (d <- dispatch KRV true ;;
   match d with
   | DoOk | DoStale =>
     emit (TRecv e) ;;; emit (TCall KTW [e_created e + unit_lag c u] RBlocked []) ;;; ret (PLag idx e (e_created e + unit_lag c u))
   | _ => emit (TCall KRV [] (disp_res d) []) ;;; disp_ret d PRun
   end) s.
Proof. exact young_event_is_parked. Qed.
Print Assumptions C07_lag_young_event_parked.

Theorem C07_lag_not_elapsed_keeps_waiting : forall c inst u idx e deadline s,
  o_lease s = true -> o_dead s = false -> deadline > w_now (o_w s) ->
  proc_op c inst u (PLag idx e deadline) s = (emit (TCall KTW [deadline] RBlocked []) ;;; ret (PLag idx e deadline)) s.
Proof. exact lag_not_elapsed_keeps_waiting. Qed.
Print Assumptions C07_lag_not_elapsed_keeps_waiting.

Theorem C07_lag_elapsed_then_handled : forall c inst u idx e deadline s,
  o_lease s = true -> o_dead s = false -> deadline <= w_now (o_w s) ->
  proc_op c inst u (PLag idx e deadline) s =
  (emit (TCall KTW [deadline] ROk []) ;;; guarded c inst u true (after_lag c inst u idx e)) s.
Proof. exact lag_elapsed_then_handled. Qed.
Print Assumptions C07_lag_elapsed_then_handled.

Theorem C07_lag_wait_cancelled_not_handled : forall c inst u idx e deadline s,
  o_lease s = false \/ o_dead s = true ->
  proc_op c inst u (PLag idx e deadline) s =
  (emit (TCall KTW [deadline] RCancel []) ;;; guarded c inst u true (fail ECancel)) s.
Proof. exact lag_wait_cancelled_not_handled. Qed.
Print Assumptions C07_lag_wait_cancelled_not_handled.

(* CONNECTOR EVENTS REACH THE CONNECTOR FUNCTION INTACT (connector.go). The connector event travels, JSON-encoded, in one header of
   the generic event; [dec (enc e) = Some e] is the assumption about encoding/json (exercised by the connrt family on the real
   functions); the generic event's ID is int64(fnv64(ID)) — a 64-bit signed integer, negative for about half of the IDs (C10). *)
From WF Require Import model.Connector proofs.ConnectorProofs.
Theorem C07_connector_round_trip : forall D (enc : cevent -> D) (dec : D -> option cevent),
  (forall e, dec (enc e) = Some e) -> forall e, event_to_conn D dec (conn_to_event D enc e) = Some e.
Proof. exact connector_round_trip. Qed.
Print Assumptions C07_connector_round_trip.

Theorem C07_connector_event_id_range : forall bs, (- 9223372036854775808 <= conn_event_id bs < 9223372036854775808)%Z.
Proof. exact conn_event_id_range. Qed.
Print Assumptions C07_connector_event_id_range.

(* a wait of a background process — consume lag, error back-off, schedule — comes back cancelled only when its role was lost:
   for EVERY world and process state, the scheduling step of a process whose role was not revoked while it was parked, under a
   fault plan without lease-loss and crash faults, records no cancelled wait (66 frame lemmas over the whole of proc_op:
   proofs/WaitFrame.v). Hence a wait that is cut short by the process itself shows as a cancelled wait the model cannot produce. *)
From WF Require Import proofs.WaitFrame.
Theorem C07_wait_cancelled_only_if_role_lost : forall c w inst u p,
  plan_clean p ->
  (match get_pstate w (inst, u) with PIdle => false | _ => existsb (procid_eqb (inst, u)) (w_lost w) end) = false ->
  forall args out, ~ In (TCall KTW args RCancel out) (snd (run_op c w (OStep inst u p))).
Proof. exact run_op_wait_cancelled. Qed.
Print Assumptions C07_wait_cancelled_only_if_role_lost.
