(* C11 — processes act only under their role; the in-memory role scheduler never lets two holders overlap.
   Property theorems only. Data-race freedom is a statement about Go's memory model and is not modelled (partial). *)
From WF Require Import model.Base model.EngineBase model.Engine model.MemRoles proofs.EngineTokens proofs.HandlerFacts proofs.MemRolesProofs.

(* a store, stream or timeout-store call made after the lease was lost (or after the instance crashed) takes no effect, for
   every call kind, token, effect and continuation: losing the role stops the work *)
Theorem C11_no_effect_without_lease : forall {A} k T E (X : disp -> world -> M A) s,
  o_dead s = true \/ o_lease s = false ->
  exists s1, prim k true T E X s = X DoCancel (o_w s) s1 /\ o_w s1 = o_w s.
Proof. intros A. exact (@call_without_lease_has_no_effect A). Qed.
Print Assumptions C11_no_effect_without_lease.

(* a process whose operation failed takes the error exit and stays alive (no terminal state exists in the process machine) *)
Theorem C11_survives_errors : forall c inst u close (m : M pstate) s x s1,
  m s = (Err x, s1) -> guarded c inst u close m s = exit_err c inst u close x s1.
Proof. exact guarded_on_error. Qed.
Print Assumptions C11_survives_errors.

(* memrolescheduler: for EVERY interleaving of Await calls, mutex grants, context cancellations and unlocks, at most one
   caller holds a role with a live context *)
Theorem C11_role_mutex : forall ops, (holders (fold_left role_step ops roleq0) <= 1)%nat.
Proof. exact role_mutex. Qed.
Print Assumptions C11_role_mutex.

(* a wait of a background process — consume lag, error back-off, schedule — comes back cancelled only when its role was lost:
   for EVERY world and process state, the scheduling step of a process whose role was not revoked while it was parked, under a
   fault plan without lease-loss and crash faults, records no cancelled wait (66 frame lemmas over the whole of proc_op:
   proofs/WaitFrame.v). Hence a wait that is cut short by the process itself shows as a cancelled wait the model cannot produce. *)
From WF Require Import proofs.WaitFrame.
Theorem C11_wait_cancelled_only_if_role_lost : forall c w inst u p,
  plan_clean p ->
  (match get_pstate w (inst, u) with PIdle => false | _ => existsb (procid_eqb (inst, u)) (w_lost w) end) = false ->
  forall args out, ~ In (TCall KTW args EngineBase.RCancel out) (snd (run_op c w (OStep inst u p))).
Proof. exact run_op_wait_cancelled. Qed.
Print Assumptions C11_wait_cancelled_only_if_role_lost.

(* THE ERROR BACK-OFF ENDS AT ONCE WHEN THE ROLE IS LOST, for EVERY state (workflow.go runOnce's wait after an error): a process
   parked in its back-off whose lease is gone — role revoked, workflow stopped, instance crashed — does not sleep the back-off
   out: at its next step the wait comes back cancelled, the role is released, the process is back to asking for its role, and
   NOT ONE adapter call is made (the world changes by the released role only). With the lease intact it stays parked until the
   deadline. So Stop, which waits for every process to end, is never kept waiting by a back-off (proofs/StoreOk.v; the harness
   gives an instance up, API=-7, when 3 s of real time after cancelling its context a process has still not ended) *)
From WF Require Import proofs.StoreOk.
Theorem C11_backoff_ends_when_role_lost : forall c inst u d s,
  o_lease s && negb (o_dead s) = false ->
  fst (proc_op c inst u (PBackoff d) s) = Ok PIdle /\
  o_w (snd (proc_op c inst u (PBackoff d) s)) = release_role (o_w s) u inst /\
  o_trace (snd (proc_op c inst u (PBackoff d) s)) = (if o_dead s then o_trace s else TCall KTW [d] EngineBase.RCancel [] :: o_trace s).
Proof. exact backoff_cancelled_when_role_lost. Qed.
Print Assumptions C11_backoff_ends_when_role_lost.
