(* C16 — record identity, versioning, status description, object hand-over. Property theorems only.
   Quantification: every configuration c, every operation sequence ops (hist_ok: no stale-read fault, clock advances
   non-negative), hence every fault plan, crash, lease revocation, rewind and duplicate delivery; every Store token of the
   resulting trace (prev = the run's persisted record at that moment, None for a new run). *)
From WF Require Import model.Base model.RunState model.Graph model.EngineBase model.Engine model.Monitors
  proofs.EngineTokens proofs.EngineProps proofs.Examples proofs.RelayFacts proofs.FaultFree.

(* identity never changes, versions start at 1 and grow by exactly 1 per write, the update time never goes backwards,
   the status description describes the status being written *)
Theorem C16_identity_versions : forall c ops, hist_ok ops -> forall prev r a, In (TStore prev r a) (trace_of c ops) ->
  r_desc r = r_status r /\
  match prev with
  | None => r_ver r = 1
  | Some p => r_wf r = r_wf p /\ r_fid r = r_fid p /\ r_run r = r_run p /\ r_created r = r_created p /\
              r_ver r = r_ver p + 1 /\ r_updated p <= r_updated r
  end.
Proof. exact p_identity_versions. Qed.
Print Assumptions C16_identity_versions.

(* the persisted object changes only in a status write (function returned a next status with nil error; the run was not
   stopped) or in the data-deletion rewrite: skip, error, pause, cancel, resume persist nothing of a function's changes *)
Theorem C16_object_iff : forall c ops, hist_ok ops -> forall p r a, In (TStore (Some p) r a) (trace_of c ops) ->
  r_obj r <> r_obj p ->
  r_state r = RSDataDeleted \/ ((r_state r = RSRunning \/ r_state r = RSCompleted) /\ rs_stopped (r_state p) = false).
Proof. exact p_object_changes. Qed.
Print Assumptions C16_object_iff.

(* every step / callback / timeout function observes exactly the persisted object (and version, status) of its run *)
Theorem C16_fresh_view : forall c ops, hist_ok ops -> forall u view pers now planned,
  In (TUser u view pers now planned) (trace_of c ops) -> is_step_fn u = true ->
  exists p, pers = Some p /\ rs_stopped (r_state p) = false /\ r_obj view = r_obj p /\ r_ver view = r_ver p /\
            r_status view = r_status p /\ r_run view = r_run p.
Proof. exact p_fresh_view. Qed.
Print Assumptions C16_fresh_view.

(* non-vacuity: a history satisfying hist_ok with faults, a crash, control operations and data deletion, whose trace
   contains effective writes to existing runs and function invocations *)
Theorem C16_nonvacuous : hist_ok ex_ops /\ (3 <= count_stores (trace_of ex_cfg ex_ops))%nat /\ (2 <= count_users (trace_of ex_cfg ex_ops))%nat.
Proof. exact (conj ex_hist_ok ex_nonvacuous). Qed.
Print Assumptions C16_nonvacuous.

(* the IF direction of "persisted iff a declared next status is returned with a nil error", for EVERY world: in a fault-free
   state (empty fault plan, lease held, instance alive) the updater called with a declared destination of the status the run
   still has (a self-loop included) writes the record — the next status, Running or (terminal) Completed, the object the
   function left behind, version + 1 — and returns nil; the write is the newest token *)
Theorem C16_declared_status_is_persisted : forall c cur next run l s,
  ff s -> lookup_run (o_w s) (r_run run) = Some l -> r_status l = cur -> validate_transition (ec_graph c) cur next = true ->
  let upd := bump (mkRecord (r_wf run) (r_fid run) (r_run run) (if is_terminal (ec_graph c) next then RSCompleted else RSRunning) next
                            (r_obj run) (r_created run) (w_now (o_w s)) (r_ver run) (r_reason run) next) in
  exists s', updater c cur next run s = (Ok tt, s') /\ ff s' /\ o_w s' = do_store c (o_w s) upd /\
             exists t0, o_trace s' = TStore (Some l) (stamp c (o_w s) upd) ROk :: t0 :: o_trace s.
Proof. exact updater_ff. Qed.
Print Assumptions C16_declared_status_is_persisted.

(* ... and through the whole step consumer: the event of the run's current version, the run not stopped, the step function
   returning a declared destination z that is not a skip ==> the handler returns nil (the event is then acknowledged) and the
   run is written at z with the object the function left behind, Running or (terminal) Completed, version + 1 *)
Theorem C16_step_declared_status_is_persisted : forall c inst u st b n e r seed tr mark z s,
  ff s -> lookup_run (o_w s) (e_run e) = Some r -> r_run r = e_run e -> r_ver r = e_ver e -> rs_stopped (r_state r) = false ->
  r_obj r = OVal seed tr -> r_status r = st ->
  eval_beh b (att_get (w_att (o_w s)) (ufun_code (UFStep st)) (e_run e)) seed = (mark, ARet z) ->
  skip_status z = false -> validate_transition (ec_graph c) st z = true ->
  exists s' w1, step_handler c inst u st (invoke c (UFStep st) b st) n e s = (Ok tt, s') /\ ff s' /\
    w_recs w1 = w_recs (o_w s) /\ w_now w1 = w_now (o_w s) /\
    o_w s' = do_store c w1
      (bump (mkRecord (r_wf r) (r_fid r) (r_run r) (if is_terminal (ec_graph c) z then RSCompleted else RSRunning) z
                      (if mark then mark_obj (r_obj r) st else r_obj r) (r_created r) (w_now (o_w s)) (r_ver r) (r_reason r) z)).
Proof. exact step_declared_status_persisted. Qed.
Print Assumptions C16_step_declared_status_is_persisted.

(* the ONLY IF direction for a failing step function, for EVERY state in which the run handed to it carries its stored status
   (step.go stepConsumer's error branch: the invocation, then maybePause): no run's stored status changes and no Store at a
   status other than the stored one is made, whatever status the function returned alongside its error (proofs/TimeoutRetry.v) *)
From WF Require Import proofs.TimeoutRetry.
Theorem C16_failing_step_changes_no_status : forall c inst u st n b view s,
  st_of (o_w s) (r_run view) = Some (r_status view) ->
  tr_step s (snd ((out <- invoke c (UFStep st) b st view ;;
                   let '(obj', oc, ctl) := out in
                   match oc with inr oe => paused <- maybe_pause c inst n oe u ctl ;; if (paused : bool) then ret tt else fail EGen | inl _ => ret tt end) s)).
Proof. exact failing_step_function_changes_no_status. Qed.
Print Assumptions C16_failing_step_changes_no_status.

(* A FUNCTION NEVER RUNS ON A VERSION OLDER THAN THE ANNOUNCEMENT IT HANDLES, for EVERY state (a stale-read fault on the lookup
   included): when the store answers with a lower version than the event carries, the step consumer invokes nothing and writes
   nothing — its final state is the state right after the lookup — and returns an error, so the event is retried until the
   store has caught up and the function then sees the persisted object (the same fact as C04_future_retry, read for C16's
   "every function sees the persisted object"; monitored on stale-read scenarios of step consumers) *)
From WF Require Import proofs.HandlerFacts.
Theorem C16_never_on_a_version_older_than_the_announcement : forall c inst u st fn n e s r s1,
  p_lookup (e_run e) s = (Ok (Some r), s1) -> r_ver r < e_ver e ->
  step_handler c inst u st fn n e s = (Err EGen, s1).
Proof. exact future_event_retried. Qed.
Print Assumptions C16_never_on_a_version_older_than_the_announcement.

(* THE VERSION IDENTIFIES THE WRITE (proofs/HistVersions.v; every history): among all committed writes two writes of one run with
   one version are the same write; every record a token shows as persisted — the record a Store replaced, the persisted record
   beside an invocation, the answer of a Lookup / Latest (a lagging replica's answer included) — is a committed write; every
   committed write was made by a Store call the trace shows, which replaced the previous write of that run *)
From WF Require Import proofs.HistVersions.
Theorem C16_version_identifies_the_write : forall c ops, hist_ok ops ->
  forall x y, In x (w_hist (fst (run_ops c ops))) -> In y (w_hist (fst (run_ops c ops))) -> r_run x = r_run y -> r_ver x = r_ver y -> x = y.
Proof. exact version_identifies_write. Qed.
Print Assumptions C16_version_identifies_the_write.

Theorem C16_shown_records_are_committed_writes : forall c ops, hist_ok ops -> forall t x,
  In t (trace_of c ops) -> shows t x -> In x (w_hist (fst (run_ops c ops))).
Proof. exact shown_records_are_writes. Qed.
Print Assumptions C16_shown_records_are_committed_writes.

Theorem C16_every_write_replaces_the_previous_one : forall c ops, hist_ok ops ->
  forall h1 x h2, w_hist (fst (run_ops c ops)) = h1 ++ x :: h2 -> exists a, In (TStore (lastrun h1 x) x a) (trace_of c ops).
Proof. exact writes_are_announced. Qed.
Print Assumptions C16_every_write_replaces_the_previous_one.

(* the IF-AND-ONLY-IF of the object hand-over, on the persisted record (proofs/Determined.v): whenever a write changes a run's
   object it is the data-deletion rewrite, or the run becomes Running / Completed holding exactly the object that a function
   configured for the PERSISTED status leaves on the PERSISTED object when it returns the status being written *)
From WF Require Import proofs.EffectFacts proofs.Determined.
Theorem C16_object_changes_only_by_a_configured_function : forall c ops, hist_ok ops ->
  forall p r a, In (TStore (Some p) r a) (trace_of c ops) -> r_obj r <> r_obj p ->
  (r_state r = RSDataDeleted /\ r_status r = r_status p /\ r_obj r = scrub_obj c (r_obj p)) \/
  ((r_state r = RSRunning \/ r_state r = RSCompleted) /\
   exists u b mark, configured c u b (r_status p) /\
     final_beh b (obj_seed (r_obj p)) = (mark, ARet (r_status r)) /\
     r_obj r = (if mark then mark_obj (r_obj p) (r_status p) else r_obj p)).
Proof. exact object_changes_only_by_function. Qed.
Print Assumptions C16_object_changes_only_by_a_configured_function.

From WF Require Import proofs.EngineInv.
(* "its version starts at 1 and grows by exactly 1 per write", read off the history of committed writes: the j-th committed write
   of a run (counting from 0, whatever other runs' writes lie in between) carries version j + 1 *)
Theorem C16_version_counts_the_writes : forall c ops, hist_ok ops ->
  forall h1 x h2, w_hist (fst (run_ops c ops)) = h1 ++ x :: h2 ->
  r_ver x = Z.of_nat (length (filter (by_run (r_run x)) h1)) + 1.
Proof. exact version_counts_the_writes. Qed.
Print Assumptions C16_version_counts_the_writes.

(* "Across all writes to a run its workflow name, foreign ID, run ID and creation time never change, its version ... grows by exactly
   1 per write, its update time never goes backwards", read off the ghost history of committed writes: every committed write of a run
   other than its first stands in these relations to the write of that run it replaced *)
From WF Require Import proofs.TokenFacts.
Theorem C16_persisted_identity_and_versions : forall c ops, hist_ok ops ->
  forall h1 x h2 p, w_hist (fst (run_ops c ops)) = h1 ++ x :: h2 -> lastrun h1 x = Some p ->
  r_wf x = r_wf p /\ r_fid x = r_fid p /\ r_run x = r_run p /\ r_created x = r_created p /\
  r_ver x = r_ver p + 1 /\ r_updated p <= r_updated x.
Proof.
  intros c ops H h1 x h2 p E L. pose proof (persisted_sequence_facts c ops H h1 x h2 E) as F. rewrite L in F.
  repeat split; [apply (sf_wf _ _ _ F)|apply (sf_fid _ _ _ F)|apply (sf_run _ _ _ F)|apply (sf_created _ _ _ F)|apply (sf_ver _ _ _ F)|apply (sf_updated _ _ _ F)].
Qed.
Print Assumptions C16_persisted_identity_and_versions.
