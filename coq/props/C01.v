(* C01 — crash-tolerant progress. Property theorems only.
   Quantification: EVERY configuration (graph, steps, callbacks, timeouts, hooks, options, instances), EVERY sequence of
   operations in any order, EVERY fault plan (error before / after the effect, lease loss, crash at any adapter call of
   any process), crashes, lease revocations, cursor rewinds and duplicated deliveries; [hist_ok] excludes only stale reads
   (C04) and negative clock steps.
   PARTIAL: the statement "at quiescence every run's final status and object equal those of the failure-free execution"
   is NOT proved as one theorem; what is proved is its three ingredients — nothing is stranded (below), the persisted
   effect of a function is applied on the persisted version only and moves the version by exactly one (exactly-once
   effect), and the object a function sees and leaves is the persisted one
   (C16_fresh_view + C16_object_iff: the function sees, and its write hands over, the persisted object). The quiescent-final comparison itself is checked by the correspondence monitor on every
   generated history (ocaml/monitors_engine.ml, clause C01). *)
From WF Require Import model.Base model.RunState model.Routing model.Graph model.Shard model.EngineBase model.Engine model.Monitors
  proofs.EngineInv proofs.EngineTokens proofs.EngineProps proofs.MonitorProofs proofs.Delivery proofs.DeliveryProps.

(* No run is left stranded with an unpublished or unprocessed change. For every committed write that left a run Initiated or
   Running at status s, and the step consumer (shard i of n) of s: the announcement is still in the outbox (the relay will
   publish it); or it is in the log ahead of the consumer's committed position (it will be delivered), or it belongs to
   another shard, or the consumer's handler ran to completion on it — [step_wit]: the run had already moved past this
   version / was stopped at it / left the status, or a write on top of this version was committed, or the step function
   itself returned a skip for exactly this version. *)
Theorem C01_not_stranded : forall c ops, hist_ok ops ->
  forall k r s i n,
  nth_error (w_hist (fst (run_ops c ops))) k = Some r -> r_status r = s -> (r_state r = RSInitiated \/ r_state r = RSRunning) ->
  In (route (N.of_nat k + 1)%N r) (w_outbox (fst (run_ops c ops))) \/
  exists j e, nth_error (w_log (fst (run_ops c ops))) j = Some e /\ ev_of e (route 0%N r) /\
              ((get_cursor (fst (run_ops c ops)) (EStep s i n) <= j)%nat \/ shard_skip i n (e_id e) = true \/
               exists t, In t (snd (run_ops c ops)) /\ step_wit s e t).
Proof. exact step_not_stranded. Qed.
Print Assumptions C01_not_stranded.

(* the same for the timeout inserter of a status: the arrival of a run at a timeout status is never skipped *)
Theorem C01_inserter_not_stranded : forall c ops, hist_ok ops ->
  forall k r s,
  nth_error (w_hist (fst (run_ops c ops))) k = Some r -> r_status r = s -> (r_state r = RSInitiated \/ r_state r = RSRunning) ->
  In (route (N.of_nat k + 1)%N r) (w_outbox (fst (run_ops c ops))) \/
  exists j e, nth_error (w_log (fst (run_ops c ops))) j = Some e /\ ev_of e (route 0%N r) /\
              ((get_cursor (fst (run_ops c ops)) (EInserter s) <= j)%nat \/ exists t, In t (snd (run_ops c ops)) /\ seen_wit e t).
Proof. exact inserter_not_stranded. Qed.
Print Assumptions C01_inserter_not_stranded.

(* the invariant behind both, with NO hypothesis on the history (stale reads included): a consumer's committed position
   never passes an event of its topic that was neither excluded by its filter nor handled to completion *)
Theorem C01_position_never_passes_unhandled : forall c ops u j e,
  (j < get_cursor (fst (run_ops c ops)) u)%nat -> nth_error (w_log (fst (run_ops c ops))) j = Some e ->
  e_topic e = unit_topic u -> unit_filter u e = false -> has_wit u e (snd (run_ops c ops)).
Proof. exact position_never_passes_unhandled. Qed.
Print Assumptions C01_position_never_passes_unhandled.

(* exactly-once effect: a function acts on the persisted version only (re-invocations on redelivered events see the new
   version and are skipped by the gate, C04), and each committed write moves the version by exactly one *)
Theorem C01_effect_on_persisted_version : forall c ops, hist_ok ops -> forall t, In t (trace_of c ops) -> mon_C04 (ec_graph c) t = true.
Proof. intros c ops H t Ht. apply (monitors_hold c ops H t Ht). Qed.
Print Assumptions C01_effect_on_persisted_version.

Theorem C01_one_version_per_write : forall c ops, hist_ok ops -> forall p r a, In (TStore (Some p) r a) (trace_of c ops) -> r_ver r = r_ver p + 1.
Proof. intros c ops H p r a Hin. apply (p_identity_versions c ops H (Some p) r a Hin). Qed.
Print Assumptions C01_one_version_per_write.
