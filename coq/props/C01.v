(* C01 — crash-tolerant progress. Property theorems only.
   Quantification: EVERY configuration (graph, steps, callbacks, timeouts, hooks, options, instances), EVERY sequence of
   operations in any order, EVERY fault plan (error before / after the effect, lease loss, crash at any adapter call of
   any process), crashes, lease revocations, cursor rewinds and duplicated deliveries; [hist_ok] excludes only stale reads
   (C04) and negative clock steps.
   PARTIAL: the statement "at quiescence every run's final status and object equal those of the failure-free execution"
   is NOT proved as one theorem. Proved for EVERY history: every committed write of a run is the first write of a new run or the
   failure-free outcome, on the PERSISTED record it replaced, of a function configured for that record's status — or keeps status
   and object, or is the data-deletion rewrite (C01_every_write_is_the_failure_free_write, C01_history_is_the_failure_free_path);
   so a run only ever moves along its failure-free path, and C01_not_stranded says it is not left part-way. Also proved: its ingredients — nothing is stranded (C01_not_stranded ...), the
   persisted effect of a function is applied on the persisted version only and moves the version by exactly one
   (exactly-once effect), and WHAT a step / callback / timeout handler writes is, for every state and fault plan, either a
   pause / cancel keeping the status and object the function saw, or exactly the failure-free outcome of the configured
   function on the record it saw (C01_effect_is_failure_free_step, _timeout, _callback), where the record it saw is the persisted one
   (C16_fresh_view). The quiescent-final comparison itself is checked by the correspondence monitor on every generated
   history (ocaml/monitors_engine.ml, clause C01). *)
From WF Require Import model.Base model.RunState model.Routing model.Graph model.Shard model.EngineBase model.Engine model.Monitors
  proofs.EngineInv proofs.EngineTokens proofs.EngineProps proofs.MonitorProofs proofs.Delivery proofs.DeliveryProps proofs.EffectFacts.

(* No run is left stranded with an unpublished or unprocessed change. For every committed write that left a run Initiated or
   Running at status s, and the step consumer (shard i of n) of s: the announcement is still in the outbox (the relay will
   publish it); or it is in the log ahead of the consumer's committed position (it will be delivered), or it belongs to
   another shard, or the consumer's handler ran to completion on it — [step_wit]: the run had already moved past this
   version / was stopped at it / left the status, or a write on top of this version was committed, or the step function
   itself returned a skip for exactly this version. *)
Theorem C01_not_stranded : forall c ops, hist_ok ops ->
  forall k r s i n,
  nth_error (w_hist (fst (run_ops c ops))) k = Some r -> r_status r = s -> (r_state r = RSInitiated \/ r_state r = RSRunning) ->
  In (route (N.of_nat k + 1)%N r) (w_outbox (fst (run_ops c ops))) \/
  exists j e, nth_error (w_log (fst (run_ops c ops))) j = Some e /\ ev_of e (route 0%N r) /\
              ((get_cursor (fst (run_ops c ops)) (EStep s i n) <= j)%nat \/ shard_skip i n (e_id e) = true \/
               exists t, In t (snd (run_ops c ops)) /\ step_wit s e t).
Proof. exact step_not_stranded. Qed.
Print Assumptions C01_not_stranded.

(* the same for the timeout inserter of a status: the arrival of a run at a timeout status is never skipped *)
Theorem C01_inserter_not_stranded : forall c ops, hist_ok ops ->
  forall k r s,
  nth_error (w_hist (fst (run_ops c ops))) k = Some r -> r_status r = s -> (r_state r = RSInitiated \/ r_state r = RSRunning) ->
  In (route (N.of_nat k + 1)%N r) (w_outbox (fst (run_ops c ops))) \/
  exists j e, nth_error (w_log (fst (run_ops c ops))) j = Some e /\ ev_of e (route 0%N r) /\
              ((get_cursor (fst (run_ops c ops)) (EInserter s) <= j)%nat \/ exists t, In t (snd (run_ops c ops)) /\ seen_wit e t).
Proof. exact inserter_not_stranded. Qed.
Print Assumptions C01_inserter_not_stranded.

(* the invariant behind both, with NO hypothesis on the history (stale reads included): a consumer's committed position
   never passes an event of its topic that was neither excluded by its filter nor handled to completion *)
Theorem C01_position_never_passes_unhandled : forall c ops u j e,
  (j < get_cursor (fst (run_ops c ops)) u)%nat -> nth_error (w_log (fst (run_ops c ops))) j = Some e ->
  e_topic e = unit_topic u -> unit_filter u e = false -> has_wit u e (snd (run_ops c ops)).
Proof. exact position_never_passes_unhandled. Qed.
Print Assumptions C01_position_never_passes_unhandled.

(* exactly-once effect: a function acts on the persisted version only (re-invocations on redelivered events see the new
   version and are skipped by the gate, C04), and each committed write moves the version by exactly one *)
Theorem C01_effect_on_persisted_version : forall c ops, hist_ok ops -> forall t, In t (trace_of c ops) -> mon_C04 (ec_graph c) t = true.
Proof. intros c ops H t Ht. apply (monitors_hold c ops H t Ht). Qed.
Print Assumptions C01_effect_on_persisted_version.

Theorem C01_one_version_per_write : forall c ops, hist_ok ops -> forall p r a, In (TStore (Some p) r a) (trace_of c ops) -> r_ver r = r_ver p + 1.
Proof. intros c ops H p r a Hin. apply (p_identity_versions c ops H (Some p) r a Hin). Qed.
Print Assumptions C01_one_version_per_write.

(* SAME EFFECT AS THE FAILURE-FREE EXECUTION. For EVERY state (world, fault plan at every call, lease and crash flags, attempt
   counters, error counters): in the trace of a step consumer's handler every Store sits directly on top of the invocation that
   explains it ([adv_ok], proofs/EffectFacts.v) — a controller write (pause / cancel by the function or by the error count)
   that keeps run, status and object of the record handed to the function, or the updater's write whose status is what the
   configured function returns ONCE ITS TRANSIENT FAILURES ARE OVER ([final_beh]) and whose object is the one it leaves.
   Faults, retries and redeliveries decide whether and when a write happens, never what is written. *)
Theorem C01_effect_is_failure_free_step : forall c inst u st sc n e s,
  find_step c st = Some sc -> adv_ok c (o_trace s) ->
  adv_ok c (o_trace (snd (step_handler c inst u st (invoke c (UFStep st) (sc_beh sc) st) n e s))).
Proof. exact step_handler_adv. Qed.
Print Assumptions C01_effect_is_failure_free_step.

(* the same for a poll cycle of the timeout poller over any list of due timers ... *)
Theorem C01_effect_is_failure_free_timeout : forall c inst u st n l s,
  adv_ok c (o_trace s) -> adv_ok c (o_trace (snd (poll_timers c inst u st n l s))).
Proof. exact poll_timers_adv. Qed.
Print Assumptions C01_effect_is_failure_free_timeout.

(* ... and for Callback *)
Theorem C01_effect_is_failure_free_callback : forall c fid status s,
  adv_ok c (o_trace s) -> adv_ok c (o_trace (snd (api_callbacks c fid status (ec_cbs c) 0 s))).
Proof. intros c fid status s. apply (api_callbacks_adv c fid status (ec_cbs c) (fun x H => H) 0%nat s). Qed.
Print Assumptions C01_effect_is_failure_free_callback.

(* what [adv_ok] says about a Store token *)
Theorem C01_adv_ok_reads : forall c p r a tr, adv_ok c (TStore p r a :: tr) ->
  (exists u view pers now pl tr', tr = TUser u view pers now pl :: tr' /\ expl_ctl view r) \/
  (exists k key res lk u view pers now z tr', tr = TLookup k key res lk :: TUser u view pers now (URet z) :: tr' /\ expl_adv c u view z r) \/
  r_ver r = 1 \/ (exists k, In k tr /\ src_of c k r).
Proof.
  intros c p r a tr H. inversion H as [|t tr' Hn Hr|p' r' a' tr' Hs Hr|p' r' a' u view pers now pl tr' Hu He Hr|p' r' a' k key res lk u view pers now z tr' He Hr]; subst.
  - destruct Hn.
  - right. right. exact Hs.
  - left. eauto 10.
  - right. left. eauto 12.
Qed.
Print Assumptions C01_adv_ok_reads.

(* determinism of the failure-free outcome: the attempt number never changes a returned status *)
Theorem C01_retries_do_not_change_the_outcome : forall b n seed m z, eval_beh b n seed = (m, ARet z) -> final_beh b seed = (m, ARet z).
Proof. exact eval_final. Qed.
Print Assumptions C01_retries_do_not_change_the_outcome.

(* EVERY WRITE OF EVERY HISTORY IS THE FAILURE-FREE WRITE (proofs/Determined.v, with proofs/HistVersions.v "the version identifies
   the write" and proofs/StepStatus.v "a step function runs only for a run persisted at its status"). Whatever the order of
   operations, fault plan, crashes, lease losses, rewinds and duplicate deliveries: a Store that replaces the persisted record p by r
   - keeps p's status and object (pause, resume, cancel, deletion request: a run-state change only), or
   - is the data-deletion rewrite (DataDeleted, same status), or
   - writes exactly what a function the builder configured FOR p's STATUS (its step, one of its callbacks, one of its timeouts)
     returns on p's object once its transient failures are over: that status, and the object it leaves.
   Which of several enabled functions acts first is up to the schedule; WHAT is written never depends on faults or retries. *)
From WF Require Import proofs.HistVersions proofs.Determined.
Theorem C01_every_write_is_the_failure_free_write : forall c ops, hist_ok ops ->
  forall p r a, In (TStore (Some p) r a) (trace_of c ops) ->
  (r_status r = r_status p /\ r_obj r = r_obj p /\ r_state r <> RSDataDeleted) \/
  (r_state r = RSDataDeleted /\ r_status r = r_status p /\ r_obj r = scrub_obj c (r_obj p)) \/
  ((r_state r = RSRunning \/ r_state r = RSCompleted) /\
   exists u b mark, configured c u b (r_status p) /\
     final_beh b (obj_seed (r_obj p)) = (mark, ARet (r_status r)) /\
     r_obj r = (if mark then mark_obj (r_obj p) (r_status p) else r_obj p)).
Proof. exact every_write_is_failure_free. Qed.
Print Assumptions C01_every_write_is_the_failure_free_write.

(* the same read off the ghost history of committed writes (so: of the writes that took effect, whatever their call returned):
   [lastrun h1 x] is the write of x's run that x replaced *)
Theorem C01_history_is_the_failure_free_path : forall c ops, hist_ok ops ->
  forall h1 x h2, w_hist (fst (run_ops c ops)) = h1 ++ x :: h2 ->
  match lastrun h1 x with
  | None => r_ver x = 1 /\ r_state x = RSInitiated /\ is_valid (ec_graph c) (r_status x) = true
  | Some p => kept p x \/ scrubbed c p x \/ advanced c p x
  end.
Proof. exact history_is_failure_free_path. Qed.
Print Assumptions C01_history_is_the_failure_free_path.

(* the record a run has at the end of a history is the last committed write of that run: the end of that path *)
Theorem C01_current_is_the_last_write : forall c ops, hist_ok ops ->
  forall x, In x (w_recs (fst (run_ops c ops))) -> last_opt (filter (by_run (r_run x)) (w_hist (fst (run_ops c ops)))) = Some x.
Proof. exact current_is_last_write. Qed.
Print Assumptions C01_current_is_the_last_write.

(* non-vacuity: the example history (faults, a crash, pause / resume, a timeout, data deletion; hist_ok) has effective writes of all
   three kinds — status-changing, data-deletion rewrite, run-state change only *)
From WF Require Import proofs.Examples.
Theorem C01_every_write_nonvacuous : hist_ok ex_ops /\
  (2 <= count_kind (fun p r => negb (Z.eqb (r_status r) (r_status p))) (trace_of ex_cfg ex_ops))%nat /\
  (1 <= count_kind (fun p r => rs_eqb (r_state r) RSDataDeleted) (trace_of ex_cfg ex_ops))%nat /\
  (2 <= count_kind (fun p r => Z.eqb (r_status r) (r_status p) && obj_eqb (r_obj r) (r_obj p) && negb (rs_eqb (r_state r) RSDataDeleted)) (trace_of ex_cfg ex_ops))%nat.
Proof. exact (conj ex_hist_ok ex_write_kinds). Qed.
Print Assumptions C01_every_write_nonvacuous.
