(* C17 — in-memory record store vs the transactional store contract. Property theorems only. *)
From WF Require Import model.Base model.Routing model.Stores proofs.StoresProofs.

(* for EVERY sequence of Store, failing Store, Lookup, Latest, List, ListOutboxEvents and DeleteOutboxEvent operations of the
   domain (a run ID keeps its workflow and foreign ID; offsets >= 0; outbox limit >= 1) the model of
   adapters/memrecordstore answers exactly as the reference store (records in creation order, outbox oldest first) *)
Theorem C17_refines : forall ops, sops_ok [] ops = true -> mem_run mstore0 ops = ref_run rstore0 ops.
Proof. intros ops H. exact (stores_refine ops mstore0 rstore0 [] srel0 H). Qed.
Print Assumptions C17_refines.

(* List pages of the reference store: for every store content, filter combination (single and multi-value), order and
   page size k > 0, the pages at offsets 0, k, 2k, ... concatenated are exactly the matching runs in creation order
   (newest first when descending): nothing is missing, repeated or out of order *)
Theorem C17_pages : forall (s : rstore) (wf : N) (f : sfilter) (desc : bool) (k n : nat),
  (0 < k)%nat -> (length (rs_recs s) <= n * k)%nat ->
  concat (map (fun i => match snd (ref_step s (SList wf (Z.of_nat (i * k)) (Z.of_nat k) desc f)) with ObList l => l | _ => [] end) (seq 0 n))
  = (if desc then rev (filter (smatches wf f) (rs_recs s)) else filter (smatches wf f) (rs_recs s)).
Proof. exact list_pages_partition. Qed.
Print Assumptions C17_pages.
