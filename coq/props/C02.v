(* C02 — declared transitions. Property theorems only. *)
From WF Require Import model.Base model.Graph proofs.GraphProofs.

(* For every sequence of AddStep/AddCallback/AddTimeout calls (any order, any interleaving) the graph's
   transitions from a status are exactly the declared destinations. *)
Theorem C02_graph_declared : forall cs from to, In to (transitions (build cs) from) <-> declared cs from to.
Proof. exact graph_declared. Qed.
Print Assumptions C02_graph_declared.

(* validateTransition accepts exactly the declared edges (all integers: zero, negative, huge included). *)
Theorem C02_validate_iff : forall cs cur next, validate_transition (build cs) cur next = true <-> declared cs cur next.
Proof. exact validate_iff_declared. Qed.
Print Assumptions C02_validate_iff.

(* A status is a valid starting status for Trigger iff it occurs in some declaration. *)
Theorem C02_valid_iff : forall cs n,
  is_valid (build cs) n = true <-> (exists f, declared cs f n) \/ (exists t, declared cs n t).
Proof. exact valid_iff. Qed.
Print Assumptions C02_valid_iff.

(* Starting nodes are the declared sources that are nobody's destination. *)
Theorem C02_starting_iff : forall cs n,
  In n (starting_nodes (build cs)) <-> (exists t, declared cs n t) /\ ~ (exists f, declared cs f n).
Proof. exact starting_iff. Qed.
Print Assumptions C02_starting_iff.

(* ---- engine level: for every configuration, every history with any faults (quantification as in C16.v) ---- *)
From WF Require Import model.EngineBase model.Engine model.Monitors proofs.EngineTokens proofs.EngineProps.

(* every change of a run's persisted status follows a transition declared by a builder call *)
Theorem C02_history_declared : forall c ops, hist_ok ops -> forall p r a, In (TStore (Some p) r a) (trace_of c ops) ->
  r_status r <> r_status p -> declared (ec_calls c) (r_status p) (r_status r).
Proof. exact p_declared_transition. Qed.
Print Assumptions C02_history_declared.

(* a run's first status is a status the workflow declares *)
Theorem C02_start_declared : forall c ops, hist_ok ops -> forall r a, In (TStore None r a) (trace_of c ops) ->
  (exists f, declared (ec_calls c) f (r_status r)) \/ (exists t, declared (ec_calls c) (r_status r) t).
Proof. exact p_start_declared. Qed.
Print Assumptions C02_start_declared.

(* "a function that returns an undeclared destination changes nothing ... and the caller or the retry loop sees an error", for
   EVERY state (any world, fault plan, lease): with an undeclared destination the updater never writes, and it returns an
   error whenever the run still has the status the function was invoked at (the handler's error is what Callback returns
   and what keeps the consumer from acknowledging: C07_fail_no_ack) *)
From WF Require Import proofs.HandlerFacts.
Theorem C02_undeclared_is_an_error : forall c cur next run s,
  validate_transition (ec_graph c) cur next = false ->
  o_w (snd (updater c cur next run s)) = o_w s /\
  (forall l s1, p_lookup (r_run run) s = (Ok (Some l), s1) -> r_status l = cur -> fst (updater c cur next run s) = Err EGen).
Proof. exact updater_undeclared. Qed.
Print Assumptions C02_undeclared_is_an_error.

(* A RUN THAT HAS MOVED ON IS LEFT ALONE, for EVERY state (any world, fault plan, lease, stale reads included): when the updater's
   own re-read finds the run at another status than the one the function was invoked at — higher OR lower numbered — the
   function's result is dropped: nothing is written, nil is returned, the final state is the state right after that lookup. So
   no persisted status change ever starts from a status other than the one its transition was validated from *)
Theorem C02_moved_on_run_is_left_alone : forall c cur next run s l s1,
  p_lookup (r_run run) s = (Ok (Some l), s1) -> r_status l <> cur ->
  updater c cur next run s = (Ok tt, s1).
Proof. exact updater_moved_on. Qed.
Print Assumptions C02_moved_on_run_is_left_alone.

(* "For every run, each change of its PERSISTED status goes ... to one of the destinations declared for that status, and its first
   status is ... a status that the workflow declares", read off the ghost history of committed writes: every committed write of a run
   is its first write, at a declared status, or keeps the status of the write of that run it replaced ([lastrun h1 x]), or follows a
   transition declared for it *)
From WF Require Import proofs.TokenFacts proofs.HistVersions proofs.Determined.
Theorem C02_persisted_statuses_follow_declared_transitions : forall c ops, hist_ok ops ->
  forall h1 x h2, w_hist (fst (run_ops c ops)) = h1 ++ x :: h2 ->
  match lastrun h1 x with
  | None => is_valid (ec_graph c) (r_status x) = true
  | Some p => r_status x = r_status p \/ validate_transition (ec_graph c) (r_status p) (r_status x) = true
  end.
Proof.
  intros c ops H h1 x h2 E. pose proof (persisted_sequence_facts c ops H h1 x h2 E) as F.
  destruct (lastrun h1 x) as [p|]; [|apply F]. destruct (sf_status _ _ _ F) as [A|(A & _)]; auto.
Qed.
Print Assumptions C02_persisted_statuses_follow_declared_transitions.
