(* C12 — timeouts fire only for their own run while it still waits there. Property theorems only. *)
From WF Require Import model.Base model.RunState model.Graph model.EngineBase model.Engine model.Monitors
  proofs.EngineTokens proofs.EngineProps proofs.MonitorProofs.

(* for every configuration and every history (any faults, crashes, redeliveries; hist_ok = no stale-read fault, clock
   advances non-negative): a timeout function of status s is invoked only for a run whose persisted record is at status s
   and is neither stopped nor finished *)
Theorem C12_fire_only_while_waiting : forall c ops, hist_ok ops -> forall t, In t (trace_of c ops) -> mon_C12 (ec_graph c) t = true.
Proof. intros c ops H t Ht. apply (monitors_hold c ops H t Ht). Qed.
Print Assumptions C12_fire_only_while_waiting.
