(* C12 — timeouts fire only for their own run while it still waits there. Property theorems only. *)
From WF Require Import model.Base model.RunState model.Graph model.EngineBase model.Engine model.Monitors
  proofs.EngineTokens proofs.EngineProps proofs.MonitorProofs.

(* for every configuration and every history (any faults, crashes, redeliveries; hist_ok = no stale-read fault, clock
   advances non-negative): a timeout function of status s is invoked only for a run whose persisted record is at status s
   and is neither stopped nor finished *)
Theorem C12_fire_only_while_waiting : forall c ops, hist_ok ops -> forall t, In t (trace_of c ops) -> mon_C12 (ec_graph c) t = true.
Proof. intros c ops H t Ht. apply (monitors_hold c ops H t Ht). Qed.
Print Assumptions C12_fire_only_while_waiting.

(* ---- the bundled timeout store ---- *)
From WF Require Import model.Timeouts proofs.TimeoutsProofs.

(* for EVERY operation sequence (create, complete, cancel — also of unknown IDs —, list due, list) the model of
   adapters/memtimeoutstore answers exactly as the reference timer list *)
Theorem C12_store_refines : forall ops, tmem_run mtstore0 ops = tref_run rtstore0 ops.
Proof. intros ops. exact (timeouts_refine ops mtstore0 rtstore0 trel0). Qed.
Print Assumptions C12_store_refines.

(* the reference: a timer is listed as due exactly when it is of that workflow and status, neither completed nor
   cancelled, and expired at or before the instant *)
Theorem C12_due_iff : forall (s : rtstore) (wf : N) (status now : Z) (t : trec),
  (exists l, snd (tref_step s (TOListValid wf status now)) = TbList l /\ In t l) <->
  exists x, In x (rts_timers s) /\ rt_rec x = t /\ rt_cancelled x = false /\
            t_wf t = wf /\ t_status t = status /\ t_completed t = false /\ t_expire t <= now.
Proof. exact ref_due_iff. Qed.
Print Assumptions C12_due_iff.

(* completing or cancelling one ID — or an unknown ID — leaves every other timer as it was *)
Theorem C12_others_untouched : forall (s : rtstore) (o : top) (id : Z) (x : rtimer),
  (o = TOComplete id \/ o = TOCancel id) -> In x (rts_timers s) -> t_id (rt_rec x) <> id ->
  In x (rts_timers (fst (tref_step s o))).
Proof. exact ref_other_untouched. Qed.
Print Assumptions C12_others_untouched.

(* ---------- the poller's bookkeeping, for EVERY state (world, fault plan at every call, lease, crash flag), every list of due
   timers of the status and every configuration of timeouts ---------- *)
From WF Require Import model.EngineBase model.Engine proofs.PollerFacts.

(* in the trace of a poll cycle every Cancel sits directly on top of the lookup that found the timer's run moved on or finished,
   and every Complete directly on top of the stored timeout transition (or of the updater's lookup that found the run already
   moved) — [poll_ok], proofs/PollerFacts.v; a timer whose function failed, skipped or whose write failed stays listed *)
Theorem C12_poller_bookkeeping : forall c st inst u n l, (forall t, In t l -> t_status t = st) ->
  forall s, poll_ok st (o_trace s) -> poll_ok st (o_trace (snd (poll_timers c inst u st n l s))).
Proof. exact poll_timers_ok. Qed.
Print Assumptions C12_poller_bookkeeping.

Theorem C12_cancel_reads : forall st id a top tr, poll_ok st (TTEnd KTX id a :: top :: tr) ->
  exists run r, top = TLookup KLK run ROk (Some r) /\ (r_status r <> st \/ rs_finished (r_state r) = true).
Proof.
  intros st id a top tr H. inversion H as [|t tr' Hn Hr|id' a' top' tr' Hd Hr|id' a' run r tr' Hm Hr]; subst.
  - destruct Hn.
  - eauto.
Qed.
Print Assumptions C12_cancel_reads.

Theorem C12_complete_reads : forall st id a top tr, poll_ok st (TTEnd KTM id a :: top :: tr) ->
  (exists prev r, top = TStore prev r ROk) \/ (exists run l, top = TLookup KLK run ROk (Some l) /\ r_status l <> st).
Proof.
  intros st id a top tr H. inversion H as [|t tr' Hn Hr|id' a' top' tr' Hd Hr|id' a' run r tr' Hm Hr]; subst.
  - destruct Hn.
  - exact Hd.
Qed.
Print Assumptions C12_complete_reads.

(* CREATED ONLY IF: timeout.go timeoutAutoInserterConsumer, for EVERY state: in the trace of the inserter's handler every
   TimeoutStore.Create sits directly on top of the invocation of the status's timer function on that very run which returned
   that very (non-zero) expiry — a zero time creates nothing ([create_ok], proofs/InserterFacts.v) *)
From WF Require Import proofs.InserterFacts.
Theorem C12_create_only_if : forall c inst u st n e s,
  create_ok (o_trace s) -> create_ok (o_trace (snd (step_handler c inst u st (inserter_fn st (ec_tos c) 0) n e s))).
Proof. exact inserter_handler_ok. Qed.
Print Assumptions C12_create_only_if.

Theorem C12_create_reads : forall run st ex a top tr, create_ok (TTCreate run st ex a :: top :: tr) ->
  exists j view pers now, top = TUser (UFTimer st j) view pers now (UTime (Some ex)) /\ r_run view = run.
Proof.
  intros run st ex a top tr H. inversion H as [|t tr' Hn Hr|st' j view pers now ex' a' tr' Hr]; subst.
  - destruct Hn.
  - eauto 8.
Qed.
Print Assumptions C12_create_reads.

(* A FAILING TIMEOUT FUNCTION IS RETRIED: timeout.go processTimeout from the invocation on, along the path of a returned error
   (whatever status was returned alongside; the invocation itself may pause or cancel the run through its controller; maybePause
   may then pause it), for EVERY state in which the run handed to the function carries its stored status: the timeout store is
   untouched (the timer stays due for the next poll), no run's stored status changes, and neither a "timer completed" call nor
   a Store at a status other than the stored one is made ([tr_step], [failing_path] = the [inr] branch of [process_timeouts],
   proofs/TimeoutRetry.v) *)
From WF Require Import proofs.TimeoutRetry.
Theorem C12_failing_function_is_retried : forall c inst u st n j b view s,
  st_of (o_w s) (r_run view) = Some (r_status view) ->
  w_timers (o_w (snd (failing_path c inst u st n j b view s))) = w_timers (o_w s) /\
  (forall run, st_of (o_w (snd (failing_path c inst u st n j b view s))) run = st_of (o_w s) run) /\
  exists t, o_trace (snd (failing_path c inst u st n j b view s)) = (t ++ o_trace s)%list /\ Forall notm t.
Proof. exact failing_timeout_function_is_retried. Qed.
Print Assumptions C12_failing_function_is_retried.

(* EVERY TIMEOUT STATUS HAS ITS POLLER AND ITS INSERTER whenever a timeout store is configured, whatever the other build options
   (corollary of C10_launch_exact; tie: `launch` family, and API=-1 in the engine harness, which C12's monitor reports) *)
From WF Require Import model.Launch proofs.LaunchProofs.
Theorem C12_every_timeout_status_has_its_processes : forall c s, cf_has_tstore c = true -> In s (cf_timeouts c) ->
  In (UPoller s) (launch c) /\ In (UInserter s) (launch c).
Proof.
  intros c s Ht Hs. split; apply launch_units; do 4 right; left; (split; [exact Ht|]); exists s; (split; [exact Hs|]); [left|right]; reflexivity.
Qed.
Print Assumptions C12_every_timeout_status_has_its_processes.

(* "a timer whose run has moved on or finished is cancelled without invoking anything" — the IF direction, for EVERY state: when
   the poller's own read of a timer's run answers with a run that has left the status or is finished (Cancelled and the
   data-deletion states included: the "stopped" guard comes only afterwards), what it does for that timeout configuration is exactly
   the Cancel of that timer. Trace form: the monitor clause "the poller's lookup that finds the run moved on or finished is followed
   at once by the Cancel of that timer" *)
Theorem C12_moved_or_finished_means_cancelled : forall c st inst u n tc tl j t s r s1,
  to_status tc = st -> p_lookup (t_run t) s = (Ok (Some r), s1) ->
  (r_status r <> st \/ rs_finished (r_state r) = true) ->
  process_timeouts c inst u st n (tc :: tl) j t s = p_tcancel (t_id t) s1.
Proof. exact poller_cancels_moved. Qed.
Print Assumptions C12_moved_or_finished_means_cancelled.
