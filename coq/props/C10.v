(* C10 — property theorems only. *)
From WF Require Import model.Base model.Shard proofs.ShardProofs.

(* For every shard count n >= 2 and EVERY event ID (any integer, so in particular every int64, negative
   hashed connector IDs included) exactly one of the n shards handles the event; the others skip it. *)
Theorem C10_shard_partition : forall n id, 2 <= n ->
  exists s, 1 <= s <= n /\ shard_skip s n id = false /\
            forall s', 1 <= s' <= n -> shard_skip s' n id = false -> s' = s.
Proof. exact shard_partition. Qed.
Print Assumptions C10_shard_partition.

(* With a count below 2 the single consumer takes every event. *)
Theorem C10_shard_single : forall s n id, n < 2 -> shard_skip s n id = false.
Proof. exact shard_single. Qed.
Print Assumptions C10_shard_single.

(* The pinned tree's truncated-remainder filter violates the partition (finding F7, repaired). *)
Theorem C10_shard_trunc_refuted : exists n id, 2 <= n /\ forall s, 1 <= s <= n -> shard_skip_trunc s n id = true.
Proof. exact shard_trunc_refuted. Qed.
Print Assumptions C10_shard_trunc_refuted.

(* The observation compared with the implementation (which shards of 1..total handle an ID) always satisfies
   the monitor "exactly one handler" — for every total (also < 2, where the single consumer takes all). *)
Theorem C10_shardset_exactly_one : forall total id, shardset_ok (shardset total id) = true.
Proof. exact shardset_exactly_one. Qed.
Print Assumptions C10_shardset_exactly_one.

(* ---------- workflow.go Run: the launch list (model/Launch.v, compared with the roles the real Run requests on the whole
   configuration grid by the launch family) ---------- *)
From WF Require Import model.Strings model.Launch proofs.LaunchProofs.
From Coq Require Import List.

(* a unit with (resolved) parallel count n gets max 1 n consumers ... *)
Theorem C10_consumer_count : forall n mk, List.length (sharded n mk) = Z.to_nat (Z.max 1 n).
Proof. exact sharded_length. Qed.
Print Assumptions C10_consumer_count.

(* ... "1 of 1" when n < 2, otherwise exactly the shards 1..n of n *)
Theorem C10_shard_set : forall n mk u,
  In u (sharded n mk) <-> (n < 2 /\ u = mk 1 1) \/ (2 <= n /\ exists i, 1 <= i <= n /\ u = mk i n).
Proof. exact sharded_in. Qed.
Print Assumptions C10_shard_set.

(* exactly the configured units are launched: outbox, delete, paused-retry iff enabled, the shard set of every step and of
   every connector (per-unit count if set, else the workflow default), poller + inserter per timeout status iff a timeout
   store is configured, one consumer per registered hook *)
Theorem C10_launch_exact : forall c u,
  In u (launch c) <->
  u = UOutbox \/ u = UDelete \/ (cf_retry c = true /\ u = URetry) \/
  (exists st, In st (cf_steps c) /\ In u (sharded (resolve (snd st) (cf_default_parallel c)) (UStep (fst st)))) \/
  (cf_has_tstore c = true /\ exists s, In s (cf_timeouts c) /\ (u = UPoller s \/ u = UInserter s)) \/
  (exists cn, In cn (cf_connectors c) /\ In u (sharded (resolve (snd cn) (cf_default_parallel c)) (UConn (fst cn)))) \/
  (exists h, In h (cf_hooks c) /\ u = UHook h).
Proof. exact launch_units. Qed.
Print Assumptions C10_launch_exact.

(* ... each exactly once, for every configuration with distinct step statuses, timeout statuses, connector names and hooks *)
Theorem C10_launch_once : forall c,
  NoDup (map fst (cf_steps c)) -> NoDup (cf_timeouts c) -> NoDup (map fst (cf_connectors c)) -> NoDup (cf_hooks c) ->
  NoDup (launch c).
Proof. exact launch_nodup. Qed.
Print Assumptions C10_launch_once.

(* ---------- connector consumers inside the engine (connector.go; the same consume loop as every other consumer) ---------- *)
From WF Require Import model.Base model.EngineBase model.Engine proofs.HandlerFacts proofs.Delivery proofs.DeliveryProps.

(* For EVERY configuration and history (any faults, crashes, rewinds, duplicated deliveries; no hypothesis): the committed position
   of shard i of n of connector cid never passes an event of that connector that the shard does not skip, unless the connector
   function was invoked with that event and returned nil. With C10_shard_partition (exactly one shard does not skip an event ID)
   every connector event is handled by exactly one shard ... *)
Theorem C10_connector_event_handled_by_its_shard : forall c ops cid i n j e,
  (j < get_cursor (fst (run_ops c ops)) (EConn cid i n))%nat -> nth_error (w_log (fst (run_ops c ops))) j = Some e ->
  e_topic e = TConn cid -> shard_skip i n (e_id e) = false ->
  exists pers now, In (TUser (UFConn cid) (conn_view e) pers now UOk) (snd (run_ops c ops)).
Proof.
  intros c ops cid i n j e Hj He Ht Hs.
  destruct (position_never_passes_unhandled c ops (EConn cid i n) j e Hj He Ht Hs) as (t & Hin & (pers & now & ->)).
  exists pers, now. exact Hin.
Qed.
Print Assumptions C10_connector_event_handled_by_its_shard.

(* ... and acknowledged unhandled by the others (every state) *)
Theorem C10_other_shards_acknowledge_unhandled : forall c inst cid i n idx e s,
  shard_skip i n (e_id e) = true ->
  after_lag c inst (EConn cid i n) idx e s = (p_ack (EConn cid i n) idx e ;;; ret PRun) s.
Proof. intros c inst cid i n idx e s H. apply after_lag_filtered. exact H. Qed.
Print Assumptions C10_other_shards_acknowledge_unhandled.

(* ---------- the role names as strings (rolescheduler.go makeRole: ToLower(ReplaceAll(Join(parts, "-"), " ", "_"))) ---------- *)
From WF Require Import model.Strings proofs.RoleNames.

(* for ANY workflow name (any bytes): two units other than connector consumers that get the same role string are the same unit —
   outbox, delete, paused-retry, every (status, shard, count) of the steps, poller and inserter of every timeout status, the hook
   of every run state; statuses enter as decimal numerals only (model/Launch.v role_of has no display string to use) *)
Theorem C10_roles_distinct : forall wf u u',
  is_conn u = false -> is_conn u' = false -> role_of wf u = role_of wf u' -> u = u'.
Proof. exact nonconn_roles_distinct. Qed.
Print Assumptions C10_roles_distinct.

(* connector consumers (names without '-' once normalised): the role determines the normalised connector name, the shard and
   the shard count, and is never the role of another kind of unit *)
Theorem C10_connector_roles_distinct : forall wf c i n c' i' n',
  dashfree (nrm c) = true -> dashfree (nrm c') = true ->
  role_of wf (UConn c i n) = role_of wf (UConn c' i' n') -> nrm c = nrm c' /\ i = i' /\ n = n'.
Proof. exact conn_roles_distinct. Qed.
Print Assumptions C10_connector_roles_distinct.

Theorem C10_connector_role_not_other : forall wf c i n u,
  dashfree (nrm c) = true -> dashfree (nrm wf) = true -> is_conn u = false -> role_of wf (UConn c i n) <> role_of wf u.
Proof. exact conn_role_not_other. Qed.
Print Assumptions C10_connector_role_not_other.

(* hence every launched process has its own role: the launch list has no repetition (C10_launch_once) and neither has the list
   of role strings, for workflow / connector names without '-' and connector names that stay distinct when normalised *)
Theorem C10_launch_roles_nodup : forall cfg,
  NoDup (launch cfg) ->
  dashfree (nrm (cf_name cfg)) = true ->
  (forall c i n, In (UConn c i n) (launch cfg) -> dashfree (nrm c) = true) ->
  (forall c i n c' i' n', In (UConn c i n) (launch cfg) -> In (UConn c' i' n') (launch cfg) -> nrm c = nrm c' -> c = c') ->
  NoDup (launch_roles cfg).
Proof. exact launch_roles_nodup. Qed.
Print Assumptions C10_launch_roles_nodup.
