(* C10 — property theorems only. *)
From WF Require Import model.Base model.Shard proofs.ShardProofs.

(* For every shard count n >= 2 and EVERY event ID (any integer, so in particular every int64, negative
   hashed connector IDs included) exactly one of the n shards handles the event; the others skip it. *)
Theorem C10_shard_partition : forall n id, 2 <= n ->
  exists s, 1 <= s <= n /\ shard_skip s n id = false /\
            forall s', 1 <= s' <= n -> shard_skip s' n id = false -> s' = s.
Proof. exact shard_partition. Qed.
Print Assumptions C10_shard_partition.

(* With a count below 2 the single consumer takes every event. *)
Theorem C10_shard_single : forall s n id, n < 2 -> shard_skip s n id = false.
Proof. exact shard_single. Qed.
Print Assumptions C10_shard_single.

(* The pinned tree's truncated-remainder filter violates the partition (finding F7, repaired). *)
Theorem C10_shard_trunc_refuted : exists n id, 2 <= n /\ forall s, 1 <= s <= n -> shard_skip_trunc s n id = true.
Proof. exact shard_trunc_refuted. Qed.
Print Assumptions C10_shard_trunc_refuted.

(* The observation compared with the implementation (which shards of 1..total handle an ID) always satisfies
   the monitor "exactly one handler" — for every total (also < 2, where the single consumer takes all). *)
Theorem C10_shardset_exactly_one : forall total id, shardset_ok (shardset total id) = true.
Proof. exact shardset_exactly_one. Qed.
Print Assumptions C10_shardset_exactly_one.
