(* C13 — error-count pausing. Property theorems only. *)
From WF Require Import model.Base model.Counter proofs.CounterProofs.

(* Add increments exactly its own (error, process, run) key and returns the new count. *)
Theorem C13_add_exact : forall c k, snd (c_add c k) = S (c_get c k) /\ c_get (fst (c_add c k)) k = S (c_get c k) /\
  forall k', k <> k' -> c_get (fst (c_add c k)) k' = c_get c k'.
Proof. exact c_add_spec. Qed.
Print Assumptions C13_add_exact.

Theorem C13_clear_exact : forall c k, c_get (c_clear c k) k = O /\ forall k', k <> k' -> c_get (c_clear c k) k' = c_get c k'.
Proof. exact c_clear_spec. Qed.
Print Assumptions C13_clear_exact.

(* With a threshold n > 0 the pause decision is taken exactly when the count reaches n; n = 0 never pauses. *)
Theorem C13_threshold : forall n count, 0 < n -> (should_pause n count = true <-> n <= Z.of_nat count).
Proof. exact should_pause_exact. Qed.
Print Assumptions C13_threshold.

Theorem C13_never : forall count, should_pause 0 count = false.
Proof. exact should_pause_zero. Qed.
Print Assumptions C13_never.

(* ---- engine level: pause.go maybePause, for EVERY state (world, counters, fault plan) ---- *)
From WF Require Import model.EngineBase model.Engine proofs.HandlerFacts.

(* no count configured: never paused, the error is passed on (retried forever) *)
Theorem C13_never_without_count : forall c inst e u ctl s, maybe_pause c inst 0 e u ctl s = (Ok false, s).
Proof. exact no_count_never_pauses. Qed.
Print Assumptions C13_never_without_count.

(* below the n-th occurrence of this error in this process on this run: no pause, no write, no token *)
Theorem C13_below_count : forall c inst n e u ctl s,
  n <> 0 -> Z.of_nat (snd (c_add (ctr_of (w_ctrs (o_w s)) inst) (pause_key e u ctl))) < n ->
  exists s1, maybe_pause c inst n e u ctl s = (Ok false, s1) /\
             w_recs (o_w s1) = w_recs (o_w s) /\ w_hist (o_w s1) = w_hist (o_w s) /\ o_trace s1 = o_trace s.
Proof. exact below_count_no_pause. Qed.
Print Assumptions C13_below_count.

(* at the n-th occurrence the run is paused through the controller; on success the count starts afresh and nil is returned *)
Theorem C13_at_count : forall c inst n e u ctl s,
  n <> 0 -> n <= Z.of_nat (snd (c_add (ctr_of (w_ctrs (o_w s)) inst) (pause_key e u ctl))) ->
  exists s1, w_recs (o_w s1) = w_recs (o_w s) /\ o_trace s1 = o_trace s /\
    maybe_pause c inst n e u ctl s =
    (x <- ctl_do c ctl RSPaused 2%N ;;
     match fst x with
     | Err _ => fail EGen
     | Ok _ => ctr_clear inst (pause_key e u ctl) ;;; ret true
     end) s1.
Proof. exact at_count_pauses. Qed.
Print Assumptions C13_at_count.

(* ---------- never because of failures of other runs or processes (for EVERY state) ---------- *)
From WF Require Import proofs.CtrFacts proofs.Delivery.

(* maybePause touches exactly one counter entry: (instance, (error, process, run)) *)
Theorem C13_only_its_own_key : forall c inst n e u ctl s,
  only_key inst (Z.to_N e, eunit_code u, r_run ctl) (o_w s) (o_w (snd (maybe_pause c inst n e u ctl s))).
Proof. exact maybe_pause_only_key. Qed.
Print Assumptions C13_only_its_own_key.

(* a step consumer of process (inst, u) handling an event of run r moves at most counts of instance inst whose key names process u
   and run r: failures of other runs, other processes (steps, shards, timeouts) and other instances never move its counts, and its
   failures never move theirs *)
Theorem C13_step_counts_are_per_process_and_run : forall c inst u st b n e s,
  own inst u (e_run e) (o_w s) (o_w (snd (step_handler c inst u st (invoke c (UFStep st) b st) n e s))).
Proof. intros. apply step_handler_own; [intros v; apply nc_invoke|apply invoke_keeps_run]. Qed.
Print Assumptions C13_step_counts_are_per_process_and_run.

Theorem C13_inserter_counts_are_per_process_and_run : forall c inst u st n e s,
  own inst u (e_run e) (o_w s) (o_w (snd (step_handler c inst u st (inserter_fn st (ec_tos c) 0) n e s))).
Proof. intros. apply step_handler_own; [intros v; apply nc_inserter_fn|apply inserter_keeps_run]. Qed.
Print Assumptions C13_inserter_counts_are_per_process_and_run.

(* the timeout poller: only counts of its own process *)
Theorem C13_poller_counts_are_per_process : forall c inst u st n l s,
  own_proc inst u (o_w s) (o_w (snd (poll_timers c inst u st n l s))).
Proof. exact poll_timers_own. Qed.
Print Assumptions C13_poller_counts_are_per_process.

(* ---------- the paused-records retry process (for EVERY state) ---------- *)
(* a run that is not Paused any more — resumed by hand, or cancelled: never revived — is left alone *)
Theorem C13_retry_leaves_unpaused_alone : forall c e s r s1,
  p_lookup (e_run e) s = (Ok (Some r), s1) -> r_state r <> RSPaused -> retry_handler c e s = (Ok tt, s1).
Proof. exact retry_leaves_unpaused_alone. Qed.
Print Assumptions C13_retry_leaves_unpaused_alone.

(* still Paused but updated less than the resume interval ago (on a store that stamps the update time on every write, that is the
   time it was paused): nothing happens *)
Theorem C13_retry_waits_for_the_interval : forall c e s r s1,
  p_lookup (e_run e) s = (Ok (Some r), s1) -> r_state r = RSPaused -> r_updated r > w_now (o_w s1) - ec_retry c ->
  retry_handler c e s = (Ok tt, s1).
Proof. exact retry_waits_for_the_interval. Qed.
Print Assumptions C13_retry_waits_for_the_interval.

Theorem C13_retry_resumes_after_the_interval : forall c e s r s1,
  p_lookup (e_run e) s = (Ok (Some r), s1) -> r_state r = RSPaused -> r_updated r <= w_now (o_w s1) - ec_retry c ->
  retry_handler c e s = (x <- ctl_do c r RSRunning 0 ;; match fst x with Ok _ => ret tt | Err er => fail er end) s1.
Proof. exact retry_resumes_after_the_interval. Qed.
Print Assumptions C13_retry_resumes_after_the_interval.

(* ---------- the count over whole operations and histories ---------- *)
From WF Require Import proofs.CtrHistory.

(* for EVERY history and next operation: the count of (instance i, key k = (error, process, run)) is unchanged, unless the
   operation is a scheduling step on instance i — of the very process the key names, or one in which the instance crashed
   (count 0) — or a crash of instance i (count 0). API calls, other processes, other instances, clock advances, lease
   revocations, rewinds, duplicate deliveries and connector events never move it. (Within a step of the process the key
   names only the run being handled: C13_step_counts_are_per_process_and_run.) *)
Theorem C13_history_frame : forall c ops o i k,
  let w := fst (run_ops c ops) in let w' := fst (run_ops c (ops ++ [o])) in
  c_get (ctr_of (w_ctrs w') i) k = c_get (ctr_of (w_ctrs w) i) k \/
  (exists u p, o = OStep i u p /\ (snd (fst k) = eunit_code u \/ c_get (ctr_of (w_ctrs w') i) k = O)) \/
  (o = OCrash i /\ c_get (ctr_of (w_ctrs w') i) k = O).
Proof. exact history_counters. Qed.
Print Assumptions C13_history_frame.

(* exactly the n-th occurrence: along ANY chain of failing invocations of one (error, process, run) — the states in which
   maybePause is entered, each one's count being what the previous invocation left, which C13_history_frame guarantees for
   everything that happens in between — starting from a count of j: the invocations with j + t + 1 < n do not pause (no
   write, no token, the error is passed on), and the one with j + t + 1 = n goes through the controller's pause; with j = 0
   that is the n-th occurrence, never an earlier one *)
Theorem C13_exactly_nth : forall c inst n e u ctl, n <> 0 -> forall ss j, fail_chain c inst n e u ctl j ss ->
  forall t s, nth_error ss t = Some s ->
  (Z.of_nat (j + t + 1) < n ->
     kcount inst (pause_key e u ctl) s = (j + t)%nat /\
     exists s1, maybe_pause c inst n e u ctl s = (Ok false, s1) /\ w_recs (o_w s1) = w_recs (o_w s) /\
                w_hist (o_w s1) = w_hist (o_w s) /\ o_trace s1 = o_trace s) /\
  (Z.of_nat (j + t + 1) = n ->
     kcount inst (pause_key e u ctl) s = (j + t)%nat /\
     exists s1, w_recs (o_w s1) = w_recs (o_w s) /\ o_trace s1 = o_trace s /\
       maybe_pause c inst n e u ctl s =
       (x <- ctl_do c ctl RSPaused 2%N ;;
        match fst x with Err _ => fail EGen | Ok _ => ctr_clear inst (pause_key e u ctl) ;;; ret true end) s1).
Proof. exact exactly_nth. Qed.
Print Assumptions C13_exactly_nth.

(* ... and the count starts afresh after the pause: the clear that follows a successful pause leaves 0 *)
Theorem C13_count_afresh : forall inst k s, kcount inst k (snd (ctr_clear inst k s)) = O.
Proof. exact ctr_clear_zero. Qed.
Print Assumptions C13_count_afresh.

(* non-vacuity: from EVERY state the back-to-back failing invocations form such a chain *)
Theorem C13_chains_exist : forall c inst n e u ctl m s,
  fail_chain c inst n e u ctl (kcount inst (pause_key e u ctl) s) (iter_states c inst n e u ctl m s).
Proof. exact iter_chain. Qed.
Print Assumptions C13_chains_exist.

(* WHICH COUNT APPLIES, for every configuration: the count configured on the step / timeout itself decides; the workflow default
   applies exactly where none is configured there (0 = not configured). The step consumer, the timeout poller and the timeout
   INSERTER all resolve their count this way ([unit_handler], [poll_once]) *)
From WF Require Import model.EngineBase model.Engine.
Theorem C13_own_count_beats_the_default : forall c per,
  (per <> 0 -> resolve_pause c per = per) /\ resolve_pause c 0 = ec_dpause c.
Proof. intros c per. unfold resolve_pause. split; [intros H; destruct (per =? 0) eqn:E; [apply Z.eqb_eq in E; contradiction|reflexivity]|reflexivity]. Qed.
Print Assumptions C13_own_count_beats_the_default.

(* the three processes that count failures are handed exactly that resolved count *)
Theorem C13_counts_handed_to_the_processes : forall c inst st sh tot e,
  unit_handler c inst (EInserter st) e =
    step_handler c inst (EInserter st) st (inserter_fn st (ec_tos c) 0)
                 (resolve_pause c (match find_to c st with Some t => to_pause t | None => 0 end)) e /\
  (forall sc, find_step c st = Some sc ->
     unit_handler c inst (EStep st sh tot) e =
       step_handler c inst (EStep st sh tot) st (invoke c (UFStep st) (sc_beh sc) st) (resolve_pause c (sc_pause sc)) e).
Proof. intros c inst st sh tot e. split; [reflexivity|]. intros sc H. cbn [unit_handler]. rewrite H. reflexivity. Qed.
Print Assumptions C13_counts_handed_to_the_processes.
