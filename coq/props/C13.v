(* C13 — error-count pausing. Property theorems only. *)
From WF Require Import model.Base model.Counter proofs.CounterProofs.

(* Add increments exactly its own (error, process, run) key and returns the new count. *)
Theorem C13_add_exact : forall c k, snd (c_add c k) = S (c_get c k) /\ c_get (fst (c_add c k)) k = S (c_get c k) /\
  forall k', k <> k' -> c_get (fst (c_add c k)) k' = c_get c k'.
Proof. exact c_add_spec. Qed.
Print Assumptions C13_add_exact.

Theorem C13_clear_exact : forall c k, c_get (c_clear c k) k = O /\ forall k', k <> k' -> c_get (c_clear c k) k' = c_get c k'.
Proof. exact c_clear_spec. Qed.
Print Assumptions C13_clear_exact.

(* With a threshold n > 0 the pause decision is taken exactly when the count reaches n; n = 0 never pauses. *)
Theorem C13_threshold : forall n count, 0 < n -> (should_pause n count = true <-> n <= Z.of_nat count).
Proof. exact should_pause_exact. Qed.
Print Assumptions C13_threshold.

Theorem C13_never : forall count, should_pause 0 count = false.
Proof. exact should_pause_zero. Qed.
Print Assumptions C13_never.

(* ---- engine level: pause.go maybePause, for EVERY state (world, counters, fault plan) ---- *)
From WF Require Import model.EngineBase model.Engine proofs.HandlerFacts.

(* no count configured: never paused, the error is passed on (retried forever) *)
Theorem C13_never_without_count : forall c inst e u ctl s, maybe_pause c inst 0 e u ctl s = (Ok false, s).
Proof. exact no_count_never_pauses. Qed.
Print Assumptions C13_never_without_count.

(* below the n-th occurrence of this error in this process on this run: no pause, no write, no token *)
Theorem C13_below_count : forall c inst n e u ctl s,
  n <> 0 -> Z.of_nat (snd (c_add (ctr_of (w_ctrs (o_w s)) inst) (pause_key e u ctl))) < n ->
  exists s1, maybe_pause c inst n e u ctl s = (Ok false, s1) /\
             w_recs (o_w s1) = w_recs (o_w s) /\ w_hist (o_w s1) = w_hist (o_w s) /\ o_trace s1 = o_trace s.
Proof. exact below_count_no_pause. Qed.
Print Assumptions C13_below_count.

(* at the n-th occurrence the run is paused through the controller; on success the count starts afresh and nil is returned *)
Theorem C13_at_count : forall c inst n e u ctl s,
  n <> 0 -> n <= Z.of_nat (snd (c_add (ctr_of (w_ctrs (o_w s)) inst) (pause_key e u ctl))) ->
  exists s1, w_recs (o_w s1) = w_recs (o_w s) /\ o_trace s1 = o_trace s /\
    maybe_pause c inst n e u ctl s =
    (x <- ctl_do c ctl RSPaused 2%N ;;
     match fst x with
     | Err _ => fail EGen
     | Ok _ => ctr_clear inst (pause_key e u ctl) ;;; ret true
     end) s1.
Proof. exact at_count_pauses. Qed.
Print Assumptions C13_at_count.
