(* C13 — error-count pausing. Property theorems only. *)
From WF Require Import model.Base model.Counter proofs.CounterProofs.

(* Add increments exactly its own (error, process, run) key and returns the new count. *)
Theorem C13_add_exact : forall c k, snd (c_add c k) = S (c_get c k) /\ c_get (fst (c_add c k)) k = S (c_get c k) /\
  forall k', k <> k' -> c_get (fst (c_add c k)) k' = c_get c k'.
Proof. exact c_add_spec. Qed.
Print Assumptions C13_add_exact.

Theorem C13_clear_exact : forall c k, c_get (c_clear c k) k = O /\ forall k', k <> k' -> c_get (c_clear c k) k' = c_get c k'.
Proof. exact c_clear_spec. Qed.
Print Assumptions C13_clear_exact.

(* With a threshold n > 0 the pause decision is taken exactly when the count reaches n; n = 0 never pauses. *)
Theorem C13_threshold : forall n count, 0 < n -> (should_pause n count = true <-> n <= Z.of_nat count).
Proof. exact should_pause_exact. Qed.
Print Assumptions C13_threshold.

Theorem C13_never : forall count, should_pause 0 count = false.
Proof. exact should_pause_zero. Qed.
Print Assumptions C13_never.
