(* C04 — duplicate, replayed, reordered or stale events never re-run or regress a run. Property theorems only. *)
From WF Require Import model.Base model.RunState model.Graph model.EngineBase model.Engine model.Monitors
  proofs.EngineTokens proofs.EngineProps proofs.MonitorProofs proofs.HandlerFacts.

(* For EVERY state (world, fault plan — including a stale-read fault on the lookup —, lease and crash flags), every consumer
   of a status topic (step function or timeout inserter [fn]) and every event: when the record the store returns is at a
   HIGHER version than the event, the handler invokes nothing, writes nothing and returns nil (the event is then
   acknowledged); its final state is the state right after the lookup. *)
Theorem C04_stale_skip : forall c inst u st fn n e s r s1,
  p_lookup (e_run e) s = (Ok (Some r), s1) -> e_ver e < r_ver r ->
  step_handler c inst u st fn n e s = (Ok tt, s1).
Proof. exact stale_event_skipped. Qed.
Print Assumptions C04_stale_skip.

(* when the record the store returns (e.g. a lagging replica) is at a LOWER version than the event, the handler invokes
   nothing, writes nothing and returns an error: the event is neither dropped nor processed, it is retried *)
Theorem C04_future_retry : forall c inst u st fn n e s r s1,
  p_lookup (e_run e) s = (Ok (Some r), s1) -> r_ver r < e_ver e ->
  step_handler c inst u st fn n e s = (Err EGen, s1).
Proof. exact future_event_retried. Qed.
Print Assumptions C04_future_retry.

(* the lookup itself changes neither records, outbox nor log *)
Theorem C04_lookup_quiet : forall c run s, quiet_step c s (snd (p_lookup run s)).
Proof. exact lookup_is_quiet. Qed.
Print Assumptions C04_lookup_quiet.

(* over every history (no stale-read fault): a step / callback / timeout function is invoked only on the persisted version
   of its run — redelivered, duplicated or reordered older events never reach a function *)
Theorem C04_acts_on_persisted_version : forall c ops, hist_ok ops -> forall t, In t (trace_of c ops) -> mon_C04 (ec_graph c) t = true.
Proof. intros c ops H t Ht. apply (monitors_hold c ops H t Ht). Qed.
Print Assumptions C04_acts_on_persisted_version.

(* every write increases the version by exactly one (shared with C16) *)
Theorem C04_version_increment : forall c ops, hist_ok ops -> forall p r a, In (TStore (Some p) r a) (trace_of c ops) -> r_ver r = r_ver p + 1.
Proof. intros c ops H p r a Hin. apply (p_identity_versions c ops H (Some p) r a Hin). Qed.
Print Assumptions C04_version_increment.
