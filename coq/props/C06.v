(* C06 — routing. Property theorems only. *)
From WF Require Import model.Base model.Strings model.RunState model.Routing proofs.RoutingProofs proofs.StringsProofs.
Open Scope Z_scope.

(* The topic is a total function of (run-state code, status), for ALL integer codes (out-of-range included):
   delete topic for 7, run-state-change topic for 3,4,5,6, the status topic otherwise. *)
Theorem C06_route_total : forall st status,
  route_topic_code st status =
    if (st =? 7) then TDelete
    else if (st =? 3) || (st =? 4) || (st =? 5) || (st =? 6) then TRunStateChange
    else TStatus status.
Proof. exact route_topic_cases. Qed.
Print Assumptions C06_route_total.

Theorem C06_route_by_state : forall r,
  route_topic r = match r_state r with
                  | RSPaused | RSCancelled | RSCompleted | RSDataDeleted => TRunStateChange
                  | RSReqDataDeleted => TDelete
                  | _ => TStatus (r_status r)
                  end.
Proof. exact route_by_state. Qed.
Print Assumptions C06_route_by_state.

(* The entry (topic, run ID, foreign ID, type, run state, version) is a function of the written record alone. *)
Theorem C06_function_of_record : forall id r,
  let o := route id r in
  o_id o = id /\ o_wf o = r_wf r /\ o_topic o = route_topic r /\ o_run o = r_run r /\ o_fid o = r_fid r /\
  o_type o = int32 (r_status r) /\ o_state o = rs_code (r_state r) /\ o_ver o = r_ver r.
Proof. exact route_fields. Qed.
Print Assumptions C06_function_of_record.

(* For one workflow name (any byte string, spaces included) the topics of different statuses, the delete topic
   and the run-state-change topic never coincide. *)
Theorem C06_topics_disjoint : forall name s s',
  (s <> s' -> topic_str name (TStatus s) <> topic_str name (TStatus s')) /\
  topic_str name (TStatus s) <> topic_str name TDelete /\
  topic_str name (TStatus s) <> topic_str name TRunStateChange /\
  topic_str name TDelete <> topic_str name TRunStateChange.
Proof. exact topics_disjoint. Qed.
Print Assumptions C06_topics_disjoint.

(* Await is released only by an event of the awaited run and foreign ID recording the awaited status. *)
Theorem C06_await : forall fid run status e,
  await_release fid run status e = true <-> (e_fid e = fid /\ e_run e = run /\ e_type e = int32 status).
Proof. exact await_release_spec. Qed.
Print Assumptions C06_await.

(* Finding F9 (pinned tree, repaired): without the type check a pause event of the awaited run releases an
   Await for a different status. *)
Theorem C06_await_orig_refuted : exists fid run status e,
  await_release_orig fid run e = true /\ e_type e <> int32 status.
Proof. exact await_orig_refuted. Qed.
Print Assumptions C06_await_orig_refuted.

(* WHO RECEIVES. For every configuration and every history (any faults, crashes, rewinds, duplicated deliveries): whatever
   position a consumer [u] reads from, the event Recv hands it is an event of [u]'s own topic, and it announces a committed
   write whose routing topic is that topic — a step consumer / inserter of status s only ever receives announcements of
   writes that left a run Initiated or Running at s; hook and paused-retry consumers only run-state changes (Paused, Cancelled,
   Completed, DataDeleted); the delete consumer only deletion requests. *)
From WF Require Import model.EngineBase model.Engine proofs.EngineInv proofs.EngineTokens proofs.EngineProps proofs.Delivery.
Theorem C06_who_receives : forall c ops, hist_ok ops -> forall u pos idx e,
  (forall cid i n, u <> EConn cid i n) ->      (* connector consumers read their connector's external source instead *)
  next_event (unit_topic u) (w_log (fst (run_ops c ops))) 0 pos = Some (idx, e) ->
  exists r, In r (w_hist (fst (run_ops c ops))) /\ ev_of e (route 0%N r) /\ route_topic r = unit_topic u.
Proof.
  intros c ops H u pos idx e Hu Hn. destruct (next_event_spec _ _ _ _ _ _ Hn) as (_ & A & B & _).
  rewrite Nat.sub_0_r in A. apply nth_error_In in A.
  assert (Hc : conn_topic (e_topic e) = false) by (rewrite B; destruct u; try reflexivity; exfalso; eapply Hu; reflexivity).
  destruct (p_nothing_invented c ops H e A Hc) as (r & Hr & Ev).
  exists r. split; [exact Hr|]. split; [exact Ev|]. destruct Ev as (_ & E2 & _). cbn in E2. congruence.
Qed.
Print Assumptions C06_who_receives.

(* what "routing topic" means, state by state *)
Theorem C06_route_topic_cases : forall r,
  (route_topic r = TStatus (r_status r) <-> ~ In (rs_code (r_state r)) [3; 4; 5; 6; 7]) /\
  (route_topic r = TDelete <-> rs_code (r_state r) = 7) /\
  (route_topic r = TRunStateChange <-> In (rs_code (r_state r)) [3; 4; 5; 6]).
Proof.
  intros r. unfold route_topic, route_topic_code.
  destruct (rs_code (r_state r) =? 3) eqn:E3; destruct (rs_code (r_state r) =? 4) eqn:E4;
  destruct (rs_code (r_state r) =? 6) eqn:E6; destruct (rs_code (r_state r) =? 5) eqn:E5;
  destruct (rs_code (r_state r) =? 7) eqn:E7; cbn [orb];
  rewrite ?Z.eqb_eq, ?Z.eqb_neq in *; cbn [In]; repeat split; intros; try discriminate; try lia; try tauto;
  try (exfalso; lia).
Qed.
Print Assumptions C06_route_topic_cases.

(* "... so only that status's step consumers see them": step.go never compares the record's status with the consumer's own, it
   relies on the version — and that is enough (proofs/StepStatus.v; every history): the step function of status s is invoked
   only for a run whose PERSISTED record is at status s *)
From WF Require Import proofs.StepStatus.
Theorem C06_step_function_runs_only_at_its_status : forall c ops, hist_ok ops ->
  forall s view q now pl, In (TUser (UFStep s) view (Some q) now pl) (trace_of c ops) -> r_status q = s.
Proof. exact step_invoked_at_its_status. Qed.
Print Assumptions C06_step_function_runs_only_at_its_status.
