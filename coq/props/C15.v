(* C15 — data deletion. Property theorems only (quantification as in C16.v). *)
From WF Require Import model.Base model.RunState model.Graph model.EngineBase model.Engine model.Monitors
  model.Routing proofs.RunStateProofs proofs.EngineInv proofs.EngineTokens proofs.EngineProps proofs.Delivery proofs.DeliveryProps proofs.RelayFacts proofs.FaultFree.

(* DeleteData is accepted (a RequestedDataDeleted write happens) only for Completed, Cancelled or DataDeleted runs *)
Theorem C15_request_eligible : forall c ops, hist_ok ops -> forall p r a, In (TStore (Some p) r a) (trace_of c ops) ->
  r_state r = RSReqDataDeleted -> r_state p = RSCompleted \/ r_state p = RSCancelled \/ r_state p = RSDataDeleted.
Proof. exact p_delete_request_eligible. Qed.
Print Assumptions C15_request_eligible.

(* the scrub: only a run whose deletion was requested becomes DataDeleted; status, identifiers and creation time are
   unchanged, the version grows by one *)
Theorem C15_scrub_shape : forall c ops, hist_ok ops -> forall p r a, In (TStore (Some p) r a) (trace_of c ops) ->
  r_state r = RSDataDeleted ->
  (r_state p = RSReqDataDeleted \/ r_state p = RSDataDeleted) /\ r_status r = r_status p /\
  r_wf r = r_wf p /\ r_fid r = r_fid p /\ r_run r = r_run p /\ r_created r = r_created p /\ r_ver r = r_ver p + 1.
Proof. exact p_scrub_shape. Qed.
Print Assumptions C15_scrub_shape.

Theorem C15_eligible_table : forall s, ctl_documented s OpDeleteData = true <-> (s = RSCompleted \/ s = RSCancelled \/ s = RSDataDeleted).
Proof. exact delete_eligible. Qed.
Print Assumptions C15_eligible_table.

(* an accepted deletion request is never lost (every history, any faults and crashes): its announcement is still in the outbox,
   or in the log at or after the delete consumer's committed position (it will be delivered, again after a failure of the
   delete function or a crash), or the run has been rewritten as DataDeleted *)
Theorem C15_request_served : forall c ops, hist_ok ops ->
  forall k r, nth_error (w_hist (fst (run_ops c ops))) k = Some r -> r_state r = RSReqDataDeleted ->
  In (route (N.of_nat k + 1)%N r) (w_outbox (fst (run_ops c ops))) \/
  (exists j e, nth_error (w_log (fst (run_ops c ops))) j = Some e /\ ev_of e (route 0%N r) /\
               (get_cursor (fst (run_ops c ops)) EDelete <= j)%nat) \/
  (exists prev r', In (TStore prev r' ROk) (snd (run_ops c ops)) /\ r_run r' = r_run r /\ r_state r' = RSDataDeleted).
Proof. exact delete_request_served. Qed.
Print Assumptions C15_request_served.

(* a request delivered to the delete consumer in a fault-free state is served WHATEVER state the run is in — in particular when
   it is delivered again and the run is already DataDeleted (default deletion): the run is (re)written as DataDeleted with the
   deletion marker and the handler returns nil, so the request is acknowledged and the consumer moves on to the next one *)
Theorem C15_redelivered_request_served : forall c e r s,
  ff s -> ec_del c = 0 -> lookup_run (o_w s) (e_run e) = Some r ->
  exists s', delete_handler c e s = (Ok tt, s') /\ ff s' /\
             o_w s' = do_store c (o_w s) (bump (set_state (set_obj r ODeleted) RSDataDeleted)).
Proof. exact delete_handler_ff_default. Qed.
Print Assumptions C15_redelivered_request_served.

(* ... and the whole iteration of the delete consumer on it: the request is acknowledged (the committed position moves past it)
   and the process stays in its consume loop — it moves on to the next request *)
Theorem C15_request_acknowledged : forall c idx e r s,
  ff s -> ec_del c = 0 -> lookup_run (o_w s) (e_run e) = Some r ->
  exists s', after_lag c 1 EDelete idx e s = (Ok PRun, s') /\ ff s' /\
             o_w s' = put_cursor (do_store c (o_w s) (bump (set_state (set_obj r ODeleted) RSDataDeleted))) EDelete (S idx).
Proof. exact delete_iteration_ff. Qed.
Print Assumptions C15_request_acknowledged.

(* THE DELETE CONSUMER ALWAYS EXISTS, for every configuration and whatever the other build options (corollary of
   C10_launch_exact; tie: `launch` family, and API=-1 in the engine harness, which C15's monitor reports) *)
From WF Require Import model.Launch proofs.LaunchProofs.
Theorem C15_delete_consumer_always_launched : forall c, In UDelete (launch c).
Proof. intros c. apply launch_units. right. left. reflexivity. Qed.
Print Assumptions C15_delete_consumer_always_launched.

(* "the run's stored object is replaced by the result of the configured custom delete function applied to the stored object (or by
   the fixed default marker)": EVERY write that leaves a run DataDeleted, in every history — also the write for a request that is
   delivered again — holds exactly the scrub of the object that was persisted ([scrub_obj]: the marker without a custom delete
   function; otherwise what the scripted custom delete makes of the stored object). proofs/Determined.v *)
From WF Require Import model.Monitors proofs.EffectFacts proofs.Determined.
Theorem C15_scrub_object : forall c ops, hist_ok ops -> forall p r a, In (TStore (Some p) r a) (trace_of c ops) ->
  r_state r = RSDataDeleted -> r_obj r = scrub_obj c (r_obj p).
Proof. exact scrub_object. Qed.
Print Assumptions C15_scrub_object.
(* the boolean form the check evaluates (extracted) on the implementation's Store tokens *)
Theorem C15_scrub_object_monitor : forall c ops, hist_ok ops -> forall t, In t (trace_of c ops) -> mon_C15_obj c t = true.
Proof. exact mon_C15_obj_holds. Qed.
Print Assumptions C15_scrub_object_monitor.
