(* C15 — data deletion. Property theorems only (quantification as in C16.v). *)
From WF Require Import model.Base model.RunState model.Graph model.EngineBase model.Engine model.Monitors
  proofs.RunStateProofs proofs.EngineTokens proofs.EngineProps.

(* DeleteData is accepted (a RequestedDataDeleted write happens) only for Completed, Cancelled or DataDeleted runs *)
Theorem C15_request_eligible : forall c ops, hist_ok ops -> forall p r a, In (TStore (Some p) r a) (trace_of c ops) ->
  r_state r = RSReqDataDeleted -> r_state p = RSCompleted \/ r_state p = RSCancelled \/ r_state p = RSDataDeleted.
Proof. exact p_delete_request_eligible. Qed.
Print Assumptions C15_request_eligible.

(* the scrub: only a run whose deletion was requested becomes DataDeleted; status, identifiers and creation time are
   unchanged, the version grows by one *)
Theorem C15_scrub_shape : forall c ops, hist_ok ops -> forall p r a, In (TStore (Some p) r a) (trace_of c ops) ->
  r_state r = RSDataDeleted ->
  (r_state p = RSReqDataDeleted \/ r_state p = RSDataDeleted) /\ r_status r = r_status p /\
  r_wf r = r_wf p /\ r_fid r = r_fid p /\ r_run r = r_run p /\ r_created r = r_created p /\ r_ver r = r_ver p + 1.
Proof. exact p_scrub_shape. Qed.
Print Assumptions C15_scrub_shape.

Theorem C15_eligible_table : forall s, ctl_documented s OpDeleteData = true <-> (s = RSCompleted \/ s = RSCancelled \/ s = RSDataDeleted).
Proof. exact delete_eligible. Qed.
Print Assumptions C15_eligible_table.
