(* Extraction of the executable models for the correspondence check.
   Directives used: those of ExtrOcamlBasic only (bool, option, unit, list, prod, sumbool, sumor -> OCaml natives;
   andb/orb inlined). nat, positive, N, Z stay as the extracted inductive types. *)
From Coq Require Import Extraction ExtrOcamlBasic.
From WF Require Import model.Base model.Shard model.Strings model.RunState model.Routing model.RoutingStr model.Graph model.Counter model.Launch model.Schedule model.EngineBase model.Engine model.Monitors model.Stores model.Sql model.SqlWhere model.SqlTimeout model.Streams model.Timeouts model.Connector model.Digest.
Extraction Language OCaml.
Extraction "wfmodel.ml"
  Z.add Z.mul Z.sub Z.opp Z.div Z.modulo Z.eqb Z.ltb Z.leb Z.of_nat Z.to_nat Z.of_N Z.to_N N.of_nat N.to_nat N.add N.eqb Z.compare
  shard_skip shard_skip_trunc shardset shardset_ok
  itoa make_role topic_str
  rs_code rs_of_code rs_valid rs_finished rs_stopped rs_table rs_table_code ctl_target ctl_update lc ctl_documented
  int32 route_topic_code route_topic route event_of_entry filter_by_fid filter_by_run filter_by_state await_topic await_release await_first
  route_headers route_type topics_coincide
  build add_transition is_terminal transitions is_valid starting_nodes terminal_nodes default_start validate_transition edges_of graph_node_ok graph_start_ok has_in has_out
  c_add c_clear c_get should_pause
  launch launch_roles role_of
  sched_wake sched_iter
  ref_step sql_store db_abs ref_run mem_run rstore0 mstore0 sops_ok rref_run mmem_run rstream0 mstream0 mops_ok single_topic tref_run tmem_run rtstore0 mtstore0
  run_ops run_op w0 eval_beh ckind_code ufun_code find_step find_to resolve_pause unit_lag unit_topic is_consumer ec_graph tok_ok store_ok user_ok mon_C02 mon_C03 mon_C04 mon_C08 mon_C09 mon_C12 mon_C15 mon_C15_obj scrub_obj mon_C16 find_sched cron_next spec_period spec_phase conn_event_id scenario_digest list_stmt sql_select tsql_run tsql_run_dom.
