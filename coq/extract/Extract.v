(* Extraction of the executable models for the correspondence check.
   Directives used: those of ExtrOcamlBasic only (bool, option, unit, list, prod, sumbool, sumor -> OCaml natives;
   andb/orb inlined). nat, positive, N, Z stay as the extracted inductive types. *)
From Coq Require Import Extraction ExtrOcamlBasic.
From WF Require Import model.Base model.Shard.
Extraction Language OCaml.
Extraction "wfmodel.ml"
  Z.add Z.mul Z.sub Z.opp Z.div Z.modulo Z.eqb Z.ltb Z.leb Z.of_nat Z.to_nat Z.of_N Z.to_N N.of_nat N.to_nat N.add N.eqb Z.compare
  shard_skip shard_skip_trunc shardset shardset_ok.
