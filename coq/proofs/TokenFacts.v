(* TokenFacts.v — what the boolean token clauses of model/Monitors.v say, as propositions (used by coq/props). *)
From WF Require Import model.Base model.RunState model.Graph model.EngineBase model.Monitors proofs.EngineInv.

Section Facts.
Variable g : graph.

Lemma and3 (a b c : bool) : a && b && c = true -> a = true /\ b = true /\ c = true.
Proof. intros H. apply andb_prop in H as [H ?]. apply andb_prop in H as [? ?]. auto. Qed.

Lemma store_ok_common (prev : option record) (r : record) :
  store_ok g prev r = true ->
  r_desc r = r_status r /\ (r_state r = RSCompleted -> is_terminal g (r_status r) = true).
Proof.
  unfold store_ok. intros H. apply andb_prop in H as [H _]. apply andb_prop in H as [H1 H2].
  split; [now apply Z.eqb_eq|]. intros E. rewrite E in H2. exact H2.
Qed.

Lemma store_ok_new (r : record) :
  store_ok g None r = true -> r_ver r = 1 /\ r_state r = RSInitiated /\ is_valid g (r_status r) = true.
Proof.
  unfold store_ok. intros H. apply andb_prop in H as [_ H]. apply and3 in H as (A & B & C).
  split; [now apply Z.eqb_eq|]. split; [now apply rs_eqb_eq|exact C].
Qed.

Record store_facts (p r : record) : Prop := {
  sf_wf : r_wf r = r_wf p; sf_fid : r_fid r = r_fid p; sf_run : r_run r = r_run p; sf_created : r_created r = r_created p;
  sf_ver : r_ver r = r_ver p + 1;
  sf_updated : r_updated p <= r_updated r;
  sf_lifecycle : lc (r_state p) (r_state r) = true \/
                 (r_state r = r_state p /\ (r_state p = RSRunning \/ r_state p = RSDataDeleted));
  sf_finished : rs_finished (r_state p) = true -> rs_finished (r_state r) = true;
  sf_status : r_status r = r_status p \/
              (validate_transition g (r_status p) (r_status r) = true /\ rs_stopped (r_state p) = false /\
               (r_state r = RSRunning \/ r_state r = RSCompleted) /\
               (r_state r = RSCompleted <-> is_terminal g (r_status r) = true));
  sf_object : r_obj r = r_obj p \/ r_state r = RSDataDeleted \/
              ((r_state r = RSRunning \/ r_state r = RSCompleted) /\ rs_stopped (r_state p) = false)
}.

Lemma obj_eqb_eq (a b : obj) : obj_eqb a b = true -> a = b.
Proof.
  destruct a as [s1 t1|], b as [s2 t2|]; cbn; intros H; try discriminate; try reflexivity.
  apply andb_prop in H as [H1 H2]. apply Z.eqb_eq in H1. destruct (list_eq_dec Z.eq_dec t1 t2); [now subst|discriminate].
Qed.

Lemma is_run_or_done_iff s : is_run_or_done s = true <-> (s = RSRunning \/ s = RSCompleted).
Proof. unfold is_run_or_done. destruct s; cbn; split; intros H; try discriminate; auto; destruct H; discriminate. Qed.

Lemma store_ok_some (p r : record) : store_ok g (Some p) r = true -> store_facts p r.
Proof.
  unfold store_ok. intros H. apply andb_prop in H as [_ H].
  repeat match type of H with (_ && _ = true) => let H' := fresh "C" in apply andb_prop in H as [H H'] end.
  unfold same_id in H. repeat match type of H with (_ && _ = true) => let H' := fresh "I" in apply andb_prop in H as [H H'] end.
  constructor.
  - symmetry. now apply N.eqb_eq.
  - symmetry. now apply N.eqb_eq.
  - symmetry. now apply N.eqb_eq.
  - symmetry. now apply Z.eqb_eq.
  - now apply Z.eqb_eq.
  - now apply Z.leb_le.
  - apply Bool.orb_true_iff in C2 as [E|E]; [left; exact E|right]. apply andb_prop in E as [E1 E2]. apply rs_eqb_eq in E1.
    split; [now symmetry|]. apply Bool.orb_true_iff in E2 as [E2|E2]; apply rs_eqb_eq in E2; auto.
  - intros Hf. rewrite Hf in C1. exact C1.
  - destruct (r_status r =? r_status p) eqn:E; [left; now apply Z.eqb_eq|right].
    repeat match type of C0 with (_ && _ = true) => let H' := fresh "D" in apply andb_prop in C0 as [C0 H'] end.
    split; [exact C0|]. split; [now apply Bool.negb_true_iff|]. split; [now apply is_run_or_done_iff|].
    apply Bool.eqb_prop in D. rewrite <- D. split; intros X; apply rs_eqb_eq; exact X.
  - apply Bool.orb_true_iff in C as [E|E]; [apply Bool.orb_true_iff in E as [E|E]|].
    + left. now apply obj_eqb_eq.
    + right. left. now apply rs_eqb_eq.
    + right. right. apply andb_prop in E as [E1 E2]. split; [now apply is_run_or_done_iff|now apply Bool.negb_true_iff].
Qed.

Lemma user_ok_step (u : ufun) (view : record) (pers : option record) :
  is_step_fn u = true -> user_ok u view pers = true ->
  exists p, pers = Some p /\ rs_stopped (r_state p) = false /\ r_obj view = r_obj p /\ r_ver view = r_ver p /\
            r_status view = r_status p /\ r_run view = r_run p.
Proof.
  unfold user_ok. intros -> H. destruct pers as [p|]; [|discriminate]. exists p. split; [reflexivity|].
  repeat match type of H with (_ && _ = true) => let H' := fresh "C" in apply andb_prop in H as [H H'] end.
  split; [now apply Bool.negb_true_iff|]. split; [now apply obj_eqb_eq|]. split; [now apply Z.eqb_eq|].
  split; [now apply Z.eqb_eq|now apply N.eqb_eq].
Qed.

End Facts.
