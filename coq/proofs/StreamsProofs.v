(* StreamsProofs.v — memstreamer (as repaired) delivers what the reference stream delivers, for every interleaving of
   sends, receiver creations, receives and acknowledgements of the domain (a name keeps its topic and its option). *)
From WF Require Import model.Base model.Streams proofs.EngineInv.

(* ---------- scanning ---------- *)
Lemma ff_low (t : N) (l : list sev) : forall idx pos pos', (pos <= idx)%nat -> (pos' <= idx)%nat ->
  first_from t l idx pos = first_from t l idx pos'.
Proof.
  induction l as [|e l IH]; intros idx pos pos' H1 H2; cbn; [reflexivity|].
  replace (Nat.leb pos idx) with true by (symmetry; apply Nat.leb_le; exact H1).
  replace (Nat.leb pos' idx) with true by (symmetry; apply Nat.leb_le; exact H2).
  cbn. destruct (N.eqb (fst e) t); [reflexivity|]. apply IH; lia.
Qed.

Lemma ff_from_self (t : N) (l : list sev) : forall c,
  first_from t l c c = match mem_scan t l c with (c', Some e) => Some (c', e) | (_, None) => None end.
Proof.
  induction l as [|e l IH]; intros c; cbn; [reflexivity|].
  rewrite Nat.leb_refl. cbn. destruct (N.eqb (fst e) t); [reflexivity|].
  rewrite (ff_low t l (S c) c (S c)) by lia. apply IH.
Qed.

Lemma ff_skip (t : N) (l : list sev) : forall i pos, (i <= pos)%nat ->
  first_from t l i pos = first_from t (skipn (pos - i) l) pos pos.
Proof.
  induction l as [|e l IH]; intros i pos Hi; cbn.
  - now rewrite skipn_nil.
  - destruct (Nat.eq_dec i pos) as [->|Hne].
    + rewrite Nat.sub_diag. cbn. reflexivity.
    + replace (Nat.leb pos i) with false by (symmetry; apply Nat.leb_gt; lia). cbn.
      replace (pos - i)%nat with (S (pos - S i)) by lia. cbn. apply IH. lia.
Qed.

Definition gap (t : N) (log : list sev) (p c : nat) : Prop :=
  forall i e, (p <= i < c)%nat -> nth_error log i = Some e -> fst e <> t.

Lemma skipn_step {A} (l : list A) (n : nat) (x : A) : nth_error l n = Some x -> skipn n l = x :: skipn (S n) l.
Proof. revert l. induction n as [|n IH]; intros [|a l]; cbn; try discriminate; [intros H; now inversion H|apply IH]. Qed.

Lemma ff_gap (t : N) (log : list sev) (p : nat) : forall c,
  (p <= c <= length log)%nat -> gap t log p c ->
  first_from t (skipn p log) p p = first_from t (skipn c log) c c.
Proof.
  induction c as [|c IH]; intros [Hpc Hcl] Hg; [replace p with 0%nat by lia; reflexivity|].
  destruct (Nat.eq_dec p (S c)) as [->|Hne]; [reflexivity|].
  assert (Hg' : gap t log p c) by (intros i e' Hi; apply Hg; lia).
  rewrite (IH ltac:(lia) Hg').
  destruct (nth_error log c) as [e|] eqn:E; [|apply nth_error_None in E; lia].
  rewrite (skipn_step _ _ _ E). cbn. rewrite Nat.leb_refl. cbn.
  assert (Hne' : N.eqb (fst e) t = false). { apply N.eqb_neq. apply (Hg c e); [lia|exact E]. }
  rewrite Hne'. apply ff_low; lia.
Qed.

(* the scan only passes events of other topics, and stops at an event of the topic or at the end *)
Lemma mem_scan_spec (t : N) (log : list sev) (c : nat) : (c <= length log)%nat ->
  let '(c', r) := mem_scan t (skipn c log) c in
  (c <= c' <= length log)%nat /\ gap t log c c' /\
  match r with Some e => nth_error log c' = Some e /\ fst e = t | None => c' = length log end.
Proof.
  intros Hc. remember (length log - c)%nat as k eqn:Ek. revert c Hc Ek. induction k as [|k IH]; intros c Hc Ek.
  - assert (c = length log) by lia. subst c. rewrite skipn_all. cbn. split; [lia|]. split; [intros i e Hi; lia|reflexivity].
  - destruct (nth_error log c) as [e|] eqn:E; [|apply nth_error_None in E; lia].
    rewrite (skipn_step _ _ _ E). cbn [mem_scan]. destruct (N.eqb (fst e) t) eqn:Et.
    + split; [lia|]. split; [intros i e' Hi; lia|]. split; [exact E|now apply N.eqb_eq].
    + specialize (IH (S c) ltac:(lia) ltac:(lia)). destruct (mem_scan t (skipn (S c) log) (S c)) as [c' r].
      destruct IH as (A & B & C). split; [lia|]. split; [|exact C].
      intros i e' Hi He'. destruct (Nat.eq_dec i c) as [->|Hne]; [rewrite E in He'; inversion He'; subst; now apply N.eqb_neq|].
      apply (B i e'); [lia|exact He'].
Qed.

(* ---------- the simulation ---------- *)
Definition name_info (names : list (N * (N * bool))) (name : N) : option (N * bool) :=
  match find_first (fun x => N.eqb (fst x) name) names with Some x => Some (snd x) | None => None end.

Definition pos_rel (log : list sev) (info : option (N * bool)) (mc rp : option nat) : Prop :=
  match mc, rp with
  | None, None => True
  | Some c, None => exists t, info = Some (t, false) /\ (c <= length log)%nat /\ gap t log 0 c
  | Some c, Some p => (p <= c <= length log)%nat /\ (p = c \/ exists t l, info = Some (t, l) /\ gap t log p c)
  | None, Some _ => False
  end.

Record strel (m : mstream) (r : rstream) (names : list (N * (N * bool))) : Prop := {
  st_log : ml_log m = rl_log r;
  st_hs : ml_hs m = rl_hs r;
  st_pos : forall name, pos_rel (rl_log r) (name_info names name) (pos_get (ml_cur m) name) (pos_get (rl_pos r) name);
  st_handles : forall x, In x (rl_hs r) ->
               (exists l, name_info names (h_name x) = Some (h_topic x, l)) /\
               (forall idx, h_last x = Some idx -> (idx < length (rl_log r))%nat);
  st_unreg : forall name, name_info names name = None -> pos_get (ml_cur m) name = None /\ pos_get (rl_pos r) name = None;
  (* a name registered with StreamFromLatest has had its position resolved at its first creation *)
  st_latest : forall name t, name_info names name = Some (t, true) -> pos_get (ml_cur m) name <> None /\ pos_get (rl_pos r) name <> None
}.

Lemma pos_get_put_same ps name p : pos_get (pos_put ps name p) name = Some p.
Proof. unfold pos_get, pos_put. cbn. now rewrite N.eqb_refl. Qed.

Lemma pos_get_put_other ps name p name' : name' <> name -> pos_get (pos_put ps name p) name' = pos_get ps name'.
Proof.
  intros Hne. unfold pos_get, pos_put. cbn. destruct (N.eqb name name') eqn:E; [apply N.eqb_eq in E; congruence|].
  induction ps as [|[k v] ps IH]; cbn; [reflexivity|].
  destruct (N.eqb k name) eqn:E2; cbn.
  - apply N.eqb_eq in E2. subst k. rewrite E. exact IH.
  - destruct (N.eqb k name'); [reflexivity|exact IH].
Qed.

Lemma gap_app t log e p c : (c <= length log)%nat -> gap t log p c -> gap t (log ++ [e]) p c.
Proof. intros Hc Hg i x Hi Hx. rewrite nth_error_app1 in Hx by lia. eapply Hg; eauto. Qed.

Lemma gap_trans t log a b c : gap t log a b -> gap t log b c -> gap t log a c.
Proof. intros H1 H2 i e Hi He. destruct (Nat.lt_ge_cases i b); [apply (H1 i e); [lia|exact He]|apply (H2 i e); [lia|exact He]]. Qed.

Lemma gap_nil t log a : gap t log a a.
Proof. intros i e Hi. lia. Qed.

Lemma pos_rel_app log e info mc rp : pos_rel log info mc rp -> pos_rel (log ++ [e]) info mc rp.
Proof.
  unfold pos_rel. rewrite app_length. cbn. destruct mc as [c|], rp as [p|]; try tauto.
  - intros [Hle [->|(t & l & Hi & Hg)]]; (split; [lia|]); [now left|right; exists t, l; split; [exact Hi|apply gap_app; [lia|exact Hg]]].
  - intros (t & Hi & Hle & Hg). exists t. repeat split; try assumption; [lia|apply gap_app; assumption].
Qed.

Lemma in_put_h hs x y : In y (put_h hs x) -> y = x \/ In y hs.
Proof. unfold put_h. intros [<-|H]; [now left|right]. apply filter_In in H. apply H. Qed.

Lemma get_h_in hs h x : get_h hs h = Some x -> In x hs /\ h_id x = h.
Proof. unfold get_h. intros H. apply find_first_some in H as [A B]. split; [exact A|now apply N.eqb_eq]. Qed.

Lemma name_info_cons names name topic latest name' :
  name_info ((name, (topic, latest)) :: names) name' = if N.eqb name name' then Some (topic, latest) else name_info names name'.
Proof. unfold name_info. cbn. destruct (N.eqb name name'); reflexivity. Qed.

(* where the two machines stand for a registered name, and that they find the same next event *)
Lemma pos_rel_scan log t l mc rp :
  pos_rel log (Some (t, l)) mc rp ->
  let c := match mc with Some c => c | None => O end in
  let p := match rp with Some p => p | None => O end in
  (p <= c <= length log)%nat /\ gap t log p c.
Proof.
  unfold pos_rel. destruct mc as [c|], rp as [p|]; cbn.
  - intros [Hle [->|(t' & l' & Hi & Hg)]]; (split; [lia|]); [apply gap_nil|inversion Hi; subst; exact Hg].
  - intros (t' & Hi & Hle & Hg). inversion Hi; subst. split; [lia|exact Hg].
  - intros [].
  - intros _. split; [lia|apply gap_nil].
Qed.

Lemma recv_same log t p c : (p <= c <= length log)%nat -> gap t log p c ->
  first_from t log 0 p = match mem_scan t (skipn c log) c with (c', Some e) => Some (c', e) | (_, None) => None end.
Proof.
  intros Hle Hg. rewrite (ff_skip t log 0 p) by lia. rewrite Nat.sub_0_r. rewrite (ff_gap t log p c Hle Hg). apply ff_from_self.
Qed.

Lemma mstep_sim (m : mstream) (r : rstream) names (o : mop) :
  strel m r names ->
  match o with
  | MNewReceiver _ topic name latest =>
    match name_info names name with Some (t, l) => t = topic /\ l = latest | None => True end
  | _ => True
  end ->
  snd (mmem_step m o) = snd (rref_step r o) /\
  strel (fst (mmem_step m o)) (fst (rref_step r o))
        (match o with
         | MNewReceiver _ topic name latest => match name_info names name with Some _ => names | None => (name, (topic, latest)) :: names end
         | _ => names
         end).
Proof.
  intros [Hlog Hhs Hpos Hh Hun Hlat] Hdom. destruct o as [topic payload|h topic name latest|h|h]; cbn [mmem_step rref_step].
  - (* Send *)
    split; [reflexivity|]. constructor; cbn; try assumption.
    + now rewrite Hlog.
    + intros name. apply pos_rel_app, Hpos.
    + intros x Hx. destruct (Hh x Hx) as [A B]. split; [exact A|]. intros idx Hi. rewrite app_length. specialize (B idx Hi). lia.
  - (* NewReceiver *)
    split; [reflexivity|].
    set (names' := match name_info names name with Some _ => names | None => (name, (topic, latest)) :: names end).
    assert (Hinfo : name_info names' name = Some (topic, latest)).
    { unfold names'. destruct (name_info names name) as [[t l]|] eqn:Ei; [destruct Hdom as [-> ->]; exact Ei|].
      rewrite name_info_cons, N.eqb_refl. reflexivity. }
    assert (Hother : forall name', name' <> name -> name_info names' name' = name_info names name').
    { intros name' Hne. unfold names'. destruct (name_info names name); [reflexivity|]. rewrite name_info_cons.
      destruct (N.eqb name name') eqn:E; [apply N.eqb_eq in E; congruence|reflexivity]. }
    assert (Hreg : forall name', name_info names name' <> None -> name_info names' name' = name_info names name').
    { intros name' Hn. unfold names'. destruct (name_info names name) eqn:Ei; [reflexivity|]. rewrite name_info_cons.
      destruct (N.eqb name name') eqn:E; [apply N.eqb_eq in E; subst; contradiction|reflexivity]. }
    set (cs := match pos_get (ml_cur m) name with None => if latest then pos_put (ml_cur m) name (length (ml_log m)) else ml_cur m | Some _ => ml_cur m end).
    set (ps := match pos_get (rl_pos r) name with None => if latest then pos_put (rl_pos r) name (length (rl_log r)) else rl_pos r | Some _ => rl_pos r end).
    assert (Hcs : forall name', name' <> name -> pos_get cs name' = pos_get (ml_cur m) name').
    { intros name' Hne. unfold cs. destruct (pos_get (ml_cur m) name); [reflexivity|]. destruct latest; [apply pos_get_put_other, Hne|reflexivity]. }
    assert (Hps : forall name', name' <> name -> pos_get ps name' = pos_get (rl_pos r) name').
    { intros name' Hne. unfold ps. destruct (pos_get (rl_pos r) name); [reflexivity|]. destruct latest; [apply pos_get_put_other, Hne|reflexivity]. }
    (* the position of [name] itself *)
    assert (Hself : pos_rel (rl_log r) (Some (topic, latest)) (pos_get cs name) (pos_get ps name) /\
                    (latest = true -> pos_get cs name <> None /\ pos_get ps name <> None)).
    { pose proof (Hpos name) as Hp. unfold cs, ps.
      destruct (pos_get (ml_cur m) name) as [c|] eqn:Ec, (pos_get (rl_pos r) name) as [p|] eqn:Ep.
      - rewrite Ec, Ep. assert (Hi : name_info names name = Some (topic, latest)).
        { destruct (name_info names name) as [[t l]|] eqn:Ei; [destruct Hdom as [-> ->]; reflexivity|]. destruct (Hun name Ei); congruence. }
        rewrite Hi in Hp. split; [exact Hp|]. intros _. split; discriminate.
      - cbn in Hp. destruct Hp as (t & Hi & Hle & Hg). rewrite Hi in Hdom. destruct Hdom as [-> <-]. rewrite Ec, Ep.
        split; [exists topic; auto|intros; discriminate].
      - destruct Hp.
      - destruct latest.
        + rewrite !pos_get_put_same, Hlog. split; [cbn; split; [lia|now left]|intros _; split; discriminate].
        + rewrite Ec, Ep. split; [exact I|intros; discriminate]. }
    constructor; cbn; fold cs ps names'.
    + exact Hlog.
    + now rewrite Hhs.
    + intros name'. destruct (N.eq_dec name' name) as [->|Hne]; [rewrite Hinfo; apply Hself|].
      rewrite (Hother _ Hne), (Hcs _ Hne), (Hps _ Hne). apply Hpos.
    + intros x Hx. apply in_put_h in Hx as [->|Hx]; [cbn; split; [exists latest; exact Hinfo|intros; discriminate]|].
      destruct (Hh x Hx) as [(l & A) B]. split; [|exact B]. exists l. rewrite Hreg; [exact A|congruence].
    + intros name' Hn. destruct (N.eq_dec name' name) as [->|Hne]; [congruence|].
      rewrite (Hother _ Hne) in Hn. rewrite (Hcs _ Hne), (Hps _ Hne). apply Hun, Hn.
    + intros name' t Hn. destruct (N.eq_dec name' name) as [->|Hne].
      * rewrite Hinfo in Hn. inversion Hn; subst. apply Hself. reflexivity.
      * rewrite (Hother _ Hne) in Hn. rewrite (Hcs _ Hne), (Hps _ Hne). eapply Hlat, Hn.
  - (* Recv *)
    rewrite Hhs. destruct (get_h (rl_hs r) h) as [x|] eqn:Eh; [|split; [reflexivity|constructor; assumption]].
    apply get_h_in in Eh as [Hx Hid]. destruct (Hh x Hx) as [(l & Hi) Hidx].
    pose proof (Hpos (h_name x)) as Hp. rewrite Hi in Hp.
    destruct (pos_rel_scan _ _ _ _ _ Hp) as [Hle Hg].
    unfold pos_or0. rewrite Hlog.
    set (c := match pos_get (ml_cur m) (h_name x) with Some c => c | None => O end) in *.
    set (p := match pos_get (rl_pos r) (h_name x) with Some p => p | None => O end) in *.
    rewrite (recv_same _ _ _ _ Hle Hg).
    pose proof (mem_scan_spec (h_topic x) (rl_log r) c ltac:(lia)) as Hs.
    destruct (mem_scan (h_topic x) (skipn c (rl_log r)) c) as [c' res]. destruct Hs as (Hcc & Hgc & Hres).
    (* the cursor after the scan *)
    assert (Hposn : forall cs, cs = (if Nat.eqb c' c then ml_cur m else pos_put (ml_cur m) (h_name x) c') ->
              forall name, pos_rel (rl_log r) (name_info names name) (pos_get cs name) (pos_get (rl_pos r) name)).
    { intros cs -> name. destruct (Nat.eqb c' c) eqn:Ecc; [apply Hpos|]. apply Nat.eqb_neq in Ecc.
      destruct (N.eq_dec name (h_name x)) as [->|Hne]; [|rewrite pos_get_put_other by exact Hne; apply Hpos].
      rewrite pos_get_put_same, Hi. destruct (pos_get (rl_pos r) (h_name x)) as [p0|] eqn:Ep; cbn.
      - split; [unfold p in Hle; lia|right]. exists (h_topic x), l. split; [reflexivity|]. eapply gap_trans; [exact Hg|exact Hgc].
      - exists (h_topic x). destruct l.
        + destruct (Hlat _ _ Hi) as [_ B]. contradiction.
        + split; [reflexivity|]. split; [lia|]. eapply gap_trans; [exact Hg|exact Hgc]. }
    assert (Hun' : forall cs, cs = (if Nat.eqb c' c then ml_cur m else pos_put (ml_cur m) (h_name x) c') ->
              forall name, name_info names name = None -> pos_get cs name = None /\ pos_get (rl_pos r) name = None).
    { intros cs -> name Hn. destruct (Nat.eqb c' c); [apply Hun, Hn|]. rewrite pos_get_put_other by congruence. apply Hun, Hn. }
    assert (Hlat' : forall cs, cs = (if Nat.eqb c' c then ml_cur m else pos_put (ml_cur m) (h_name x) c') ->
              forall name t, name_info names name = Some (t, true) -> pos_get cs name <> None /\ pos_get (rl_pos r) name <> None).
    { intros cs -> name t Hn. destruct (Nat.eqb c' c); [eapply Hlat, Hn|].
      destruct (N.eq_dec name (h_name x)) as [->|Hne]; [rewrite pos_get_put_same; split; [discriminate|eapply Hlat, Hn]|].
      rewrite pos_get_put_other by exact Hne. eapply Hlat, Hn. }
    destruct res as [e|].
    + split; [reflexivity|]. constructor; cbn.
      * reflexivity.
      * reflexivity.
      * eapply Hposn; reflexivity.
      * intros y Hy. apply in_put_h in Hy as [->|Hy]; [|apply Hh, Hy]. cbn. split; [exists l; exact Hi|].
        intros idx Hidx'. inversion Hidx'; subst. destruct Hres as [Hn _]. apply nth_error_Some. congruence.
      * eapply Hun'; reflexivity.
      * eapply Hlat'; reflexivity.
    + split; [reflexivity|]. constructor; cbn.
      * reflexivity.
      * reflexivity.
      * eapply Hposn; reflexivity.
      * exact Hh.
      * eapply Hun'; reflexivity.
      * eapply Hlat'; reflexivity.
  - (* Ack *)
    rewrite Hhs. destruct (get_h (rl_hs r) h) as [x|] eqn:Eh; [|split; [reflexivity|constructor; assumption]].
    apply get_h_in in Eh as [Hx Hid]. destruct (Hh x Hx) as [(l & Hi) Hidx].
    destruct (h_last x) as [idx|] eqn:El; [|split; [reflexivity|constructor; assumption]].
    split; [reflexivity|]. specialize (Hidx idx eq_refl). constructor; cbn; [exact Hlog|reflexivity| |exact Hh| |].
    + intros name. destruct (N.eq_dec name (h_name x)) as [->|Hne].
      * rewrite !pos_get_put_same. rewrite Hi. cbn. split; [lia|now left].
      * rewrite !pos_get_put_other by exact Hne. apply Hpos.
    + intros name Hn. rewrite !pos_get_put_other by congruence. apply Hun, Hn.
    + intros name t Hn. destruct (N.eq_dec name (h_name x)) as [->|Hne]; [rewrite !pos_get_put_same; split; discriminate|].
      rewrite !pos_get_put_other by exact Hne. eapply Hlat, Hn.
Qed.

Lemma strel0 : strel mstream0 rstream0 [].
Proof.
  constructor; cbn.
  - reflexivity.
  - reflexivity.
  - intros name. exact I.
  - intros x [].
  - intros; auto.
  - intros name t H. discriminate.
Qed.

(* the domain condition of Streams.mops_ok, phrased with name_info *)
Lemma mops_ok_step names o ops :
  mops_ok names (o :: ops) = true ->
  match o with
  | MNewReceiver _ topic name latest =>
    match name_info names name with Some (t, l) => t = topic /\ l = latest | None => True end
  | _ => True
  end /\
  mops_ok (match o with
           | MNewReceiver _ topic name latest => match name_info names name with Some _ => names | None => (name, (topic, latest)) :: names end
           | _ => names
           end) ops = true.
Proof.
  destruct o as [topic payload|h topic name latest|h|h]; cbn; try (intros H; split; [exact I|exact H]).
  unfold name_info. destruct (find_first (fun x => N.eqb (fst x) name) names) as [[k [t l]]|] eqn:E; cbn.
  - intros H. apply andb_prop in H as [H H3]. apply andb_prop in H as [H1 H2]. apply N.eqb_eq in H1. apply Bool.eqb_prop in H2.
    split; [split; assumption|exact H3].
  - intros H. split; [exact I|exact H].
Qed.

Theorem streams_refine : forall ops m r names, strel m r names -> mops_ok names ops = true -> mmem_run m ops = rref_run r ops.
Proof.
  induction ops as [|o ops IH]; intros m r names H Hok; cbn; [reflexivity|].
  destruct (mops_ok_step names o ops Hok) as [Hdom Hrest].
  destruct (mstep_sim m r names o H Hdom) as [Hb Hr]. destruct (mmem_step m o) as [m' b], (rref_step r o) as [r' b']. cbn in *.
  subst b'. f_equal. eapply IH; [exact Hr|exact Hrest].
Qed.

(* ---------- what the reference stream guarantees (the clauses of the property, on the specification side) ---------- *)
Lemma first_from_ge t l : forall i pos idx e, first_from t l i pos = Some (idx, e) ->
  (pos <= idx)%nat /\ (i <= idx)%nat /\ nth_error l (idx - i) = Some e /\ fst e = t.
Proof.
  induction l as [|a l IH]; intros i pos idx e; cbn; [discriminate|].
  destruct (Nat.leb pos i && N.eqb (fst a) t) eqn:E.
  - intros H. inversion H; subst. apply andb_prop in E as [E1 E2]. apply Nat.leb_le in E1. apply N.eqb_eq in E2.
    rewrite Nat.sub_diag. auto.
  - intros H. destruct (IH _ _ _ _ H) as (A & B & C & D). split; [lia|]. split; [lia|]. split; [|exact D].
    replace (idx - i)%nat with (S (idx - S i)) by lia. exact C.
Qed.

(* nothing of the topic lies between the committed position and the delivered event: deliveries are in send order *)
Lemma first_from_first t l : forall i pos idx e, first_from t l i pos = Some (idx, e) ->
  forall j x, (pos <= j < idx)%nat -> (i <= j)%nat -> nth_error l (j - i) = Some x -> fst x <> t.
Proof.
  induction l as [|a l IH]; intros i pos idx e; cbn; [discriminate|].
  destruct (Nat.leb pos i && N.eqb (fst a) t) eqn:E.
  - intros H. inversion H; subst. intros j x Hj Hi. lia.
  - intros H j x Hj Hi. destruct (Nat.eq_dec j i) as [->|Hne].
    + rewrite Nat.sub_diag. cbn. intros Hx. inversion Hx; subst x. intros Ht.
      apply Bool.andb_false_iff in E as [E|E]; [apply Nat.leb_gt in E; lia|apply N.eqb_neq in E; contradiction].
    + replace (j - i)%nat with (S (j - S i)) by lia. cbn. apply (IH _ _ _ _ H); lia.
Qed.

(* later sends do not change what is delivered next: an unacknowledged event is delivered again *)
Lemma first_from_app t l l' : forall i pos x, first_from t l i pos = Some x -> first_from t (l ++ l') i pos = Some x.
Proof.
  induction l as [|a l IH]; intros i pos x; cbn; [discriminate|].
  destruct (Nat.leb pos i && N.eqb (fst a) t); [auto|apply IH].
Qed.
