(* WaitFrame.v — waits come back cancelled only when the role was lost.
   [ff2_step]: no operation of the engine model changes the fault plan, and unless the plan holds a lease-loss or crash fault it
   changes neither the lease flag nor the crash flag. [wf_step] adds: from a state with a clean plan, lease held, instance alive,
   no token "a wait (consume lag / error back-off / schedule) returned cancelled" is ever emitted. For EVERY start state. *)
From WF Require Import model.Base model.RunState model.Routing model.Graph model.Counter model.Shard model.EngineBase model.Engine
  proofs.Hoare proofs.Frame.
Open Scope list_scope.

Definition nowc (t : tok) : Prop := match t with TCall KTW _ RCancel _ => False | _ => True end.
Definition live (s : ost) : Prop := o_lease s = true /\ o_dead s = false.
Definition plan_clean (p : plan) : Prop := forall k n, plan_at p k n <> FLease /\ plan_at p k n <> FCrash.

Definition ff2_step (s s' : ost) : Prop :=
  o_plan s' = o_plan s /\ (plan_clean (o_plan s) -> o_lease s' = o_lease s /\ o_dead s' = o_dead s).
Definition wf_step (s s' : ost) : Prop :=
  ff2_step s s' /\ (plan_clean (o_plan s) -> live s -> exists t, o_trace s' = t ++ o_trace s /\ Forall nowc t).

Lemma ff2_refl s : ff2_step s s. Proof. split; [reflexivity|]. intros _. split; reflexivity. Qed.
Lemma ff2_trans s1 s2 s3 : ff2_step s1 s2 -> ff2_step s2 s3 -> ff2_step s1 s3.
Proof.
  intros (P1 & F1) (P2 & F2). split; [congruence|]. intros Hc. destruct (F1 Hc) as (A & B).
  rewrite <- P1 in Hc. destruct (F2 Hc) as (A' & B'). split; congruence.
Qed.
Lemma wf_refl s : wf_step s s.
Proof. split; [apply ff2_refl|]. intros _ _. exists []. split; [reflexivity|constructor]. Qed.
Lemma wf_trans s1 s2 s3 : wf_step s1 s2 -> wf_step s2 s3 -> wf_step s1 s3.
Proof.
  intros (F1 & T1) (F2 & T2). split; [eapply ff2_trans; eauto|]. intros Hc Hl.
  destruct (T1 Hc Hl) as (t & E & Ft). destruct F1 as (P1 & G1). destruct (G1 Hc) as (A & B).
  assert (Hl2 : live s2) by (destruct Hl; split; congruence).
  rewrite <- P1 in Hc. destruct (T2 Hc Hl2) as (t' & E' & Ft').
  exists (t' ++ t). split; [rewrite E', E; now rewrite app_assoc|apply Forall_app; auto].
Qed.
(* a state that is not live: the token clause is vacuous *)
Lemma wf_of_ff2 s s' : ~ live s -> ff2_step s s' -> wf_step s s'.
Proof. intros Hn F. split; [exact F|]. intros _ Hl. contradiction. Qed.

Definition ff2 {A} (m : M A) : Prop := forall s, ff2_step s (snd (m s)).
Definition wf {A} (m : M A) : Prop := forall s, wf_step s (snd (m s)).
Lemma wf_ff2 {A} (m : M A) : wf m -> ff2 m. Proof. intros H s. apply H. Qed.

Section P.
(* the generic part, once for the flags frame ([R] = ff2_step) and once for the full frame ([R] = wf_step) *)
Variable R : ost -> ost -> Prop.
Hypothesis R_refl : forall s, R s s.
Hypothesis R_trans : forall s1 s2 s3, R s1 s2 -> R s2 s3 -> R s1 s3.
Definition rr {A} (m : M A) : Prop := forall s, R s (snd (m s)).
Lemma rr_ret {A} (a : A) : rr (ret a). Proof. intros s. apply R_refl. Qed.
Lemma rr_fail {A} e : rr (@fail A e). Proof. intros s. apply R_refl. Qed.
Lemma rr_bind {A B} (m : M A) (f : A -> M B) : rr m -> (forall a, rr (f a)) -> rr (bind m f).
Proof.
  intros Hm Hf s. unfold bind. specialize (Hm s). destruct (m s) as [[a|e] s1]; cbn [snd] in *; [|exact Hm].
  eapply R_trans; [exact Hm|apply Hf].
Qed.
Lemma rr_catch {A} (m : M A) : rr m -> rr (catch m).
Proof. intros Hm s. unfold catch. specialize (Hm s). destruct (m s) as [[a|e] s1]; exact Hm. Qed.
Lemma rr_get_w : rr get_w. Proof. intros s. apply R_refl. Qed.
Lemma rr_disp_ret {A} d (a : A) : rr (disp_ret d a). Proof. destruct d; cbn; try apply rr_ret; apply rr_fail. Qed.
Lemma rr_ite {A} (b : ost -> bool) (m1 m2 : M A) : rr m1 -> rr m2 -> rr (fun s => if b s then m1 s else m2 s).
Proof. intros H1 H2 s. destruct (b s); [apply H1|apply H2]. Qed.
End P.

(* state functions that keep plan, flags and trace *)
Lemma wf_state {A} (f : ost -> res A * ost) :
  (forall s, o_plan (snd (f s)) = o_plan s /\ o_lease (snd (f s)) = o_lease s /\ o_dead (snd (f s)) = o_dead s /\ o_trace (snd (f s)) = o_trace s) ->
  wf (f : M A).
Proof.
  intros H s. destruct (H s) as (A1 & A2 & A3 & A4). split; [split; [exact A1|intros _; split; assumption]|].
  intros _ _. exists []. split; [exact A4|constructor].
Qed.
Lemma wf_emit t : nowc t -> wf (emit t).
Proof.
  intros Ht s. unfold emit. destruct (o_dead s) eqn:D; cbn.
  - split; [split; [reflexivity|intros _; split; cbn; congruence]|]. intros _ _. exists []. split; [reflexivity|constructor].
  - split; [split; [reflexivity|intros _; split; cbn; congruence]|]. intros _ _. exists [t]. split; [reflexivity|repeat constructor; exact Ht].
Qed.
Lemma ff2_emit t : ff2 (emit t).
Proof. intros s. unfold emit. destruct (o_dead s) eqn:D; cbn; (split; [reflexivity|intros _; split; cbn; congruence]). Qed.
Lemma ff2_dispatch k ctx : ff2 (dispatch k ctx).
Proof.
  intros s. unfold dispatch, next_fault. cbn. destruct (o_dead s) eqn:D; [split; [reflexivity|intros _; split; [reflexivity|cbn; congruence]]|].
  destruct (ctx && negb (o_lease s)); [split; [reflexivity|intros _; split; [reflexivity|cbn; congruence]]|].
  destruct (plan_at (o_plan s) k (count_get (o_counts s) k)) eqn:E; cbn;
    try (split; [reflexivity|intros _; split; [reflexivity|cbn; congruence]]);
    (split; [reflexivity|]; intros Hc; destruct (Hc k (count_get (o_counts s) k)) as (A & B); congruence).
Qed.

Lemma wf_notrace s s' : ff2_step s s' -> o_trace s' = o_trace s -> wf_step s s'.
Proof. intros F E. split; [exact F|]. intros _ _. exists []. split; [exact E|constructor]. Qed.
Lemma wf_dispatch k ctx : wf (dispatch k ctx).
Proof. intros s. apply wf_notrace; [apply ff2_dispatch|]. destruct (dispatch_spec2 k ctx s) as (d & _ & _ & E & _). exact E. Qed.

(* instances of the generic part *)
Definition wf_ret {A} (a : A) : wf (ret a) := rr_ret wf_step wf_refl a.
Definition wf_fail {A} e : wf (@fail A e) := rr_fail wf_step wf_refl e.
Definition wf_bind {A B} (m : M A) (f : A -> M B) : wf m -> (forall a, wf (f a)) -> wf (bind m f) := rr_bind wf_step wf_trans m f.
Definition wf_catch {A} (m : M A) : wf m -> wf (catch m) := rr_catch wf_step m.
Definition wf_get_w : wf get_w := rr_get_w wf_step wf_refl.
Definition wf_disp_ret {A} d (a : A) : wf (disp_ret d a) := rr_disp_ret wf_step wf_refl d a.
Definition wf_ite {A} (b : ost -> bool) (m1 m2 : M A) : wf m1 -> wf m2 -> wf (fun s => if b s then m1 s else m2 s) := rr_ite wf_step b m1 m2.
Definition ff2_ret {A} (a : A) : ff2 (ret a) := rr_ret ff2_step ff2_refl a.
Definition ff2_fail {A} e : ff2 (@fail A e) := rr_fail ff2_step ff2_refl e.
Definition ff2_bind {A B} (m : M A) (f : A -> M B) : ff2 m -> (forall a, ff2 (f a)) -> ff2 (bind m f) := rr_bind ff2_step ff2_trans m f.
Definition ff2_catch {A} (m : M A) : ff2 m -> ff2 (catch m) := rr_catch ff2_step m.
Definition ff2_get_w : ff2 get_w := rr_get_w ff2_step ff2_refl.
Definition ff2_disp_ret {A} d (a : A) : ff2 (disp_ret d a) := rr_disp_ret ff2_step ff2_refl d a.
Definition ff2_ite {A} (b : ost -> bool) (m1 m2 : M A) : ff2 m1 -> ff2 m2 -> ff2 (fun s => if b s then m1 s else m2 s) := rr_ite ff2_step b m1 m2.

Lemma wf_put_w w' : wf (put_w w').
Proof. apply wf_state. intros s. cbn. repeat split. Qed.
Lemma wf_get_put (f : world -> world) : wf (w <- get_w ;; put_w (f w)).
Proof. apply wf_bind; [apply wf_get_w|]. intros w. apply wf_put_w. Qed.
Lemma wf_att_bump code run : wf (att_bump code run).
Proof. apply wf_state. intros s. unfold att_bump. cbn. repeat split. Qed.
Lemma wf_ctr_add inst k : wf (ctr_add inst k).
Proof. apply wf_state. intros s. unfold ctr_add. destruct (c_add _ _). cbn. repeat split. Qed.
Lemma wf_ctr_clear inst k : wf (ctr_clear inst k).
Proof. apply wf_state. intros s. unfold ctr_clear. cbn. repeat split. Qed.
Lemma wf_lease_live : wf lease_live.
Proof. apply wf_state. intros s. unfold lease_live. cbn. repeat split. Qed.

Lemma wf_prim {A} k ctx T E (X : disp -> world -> M A) : (forall d w, nowc (T d w)) -> (forall d w, wf (X d w)) -> wf (prim k ctx T E X).
Proof.
  intros HT HX. unfold prim. apply wf_bind; [apply wf_dispatch|]. intros d. apply wf_bind; [apply wf_get_w|]. intros w.
  apply wf_bind; [apply wf_emit, HT|]. intros _. apply wf_bind; [destruct (disp_effect d); [apply wf_put_w|apply wf_ret]|]. intros _. apply HX.
Qed.
Lemma wf_prim_ret {A} k ctx T E (a : disp -> world -> A) : (forall d w, nowc (T d w)) -> wf (prim k ctx T E (fun d w => disp_ret d (a d w))).
Proof. intros HT. apply wf_prim; [exact HT|]. intros d w. apply wf_disp_ret. Qed.
Lemma ff2_prim {A} k ctx T E (X : disp -> world -> M A) : (forall d w, ff2 (X d w)) -> ff2 (prim k ctx T E X).
Proof.
  intros HX. unfold prim. apply ff2_bind; [apply ff2_dispatch|]. intros d. apply ff2_bind; [apply ff2_get_w|]. intros w.
  apply ff2_bind; [apply ff2_emit|]. intros _. apply ff2_bind; [destruct (disp_effect d); [apply wf_ff2, wf_put_w|apply ff2_ret]|]. intros _. apply HX.
Qed.

Section W.
Variable c : econfig.

Ltac tk := intros; exact I.
Lemma wf_p_lookup run : wf (p_lookup run). Proof. unfold p_lookup. apply wf_prim_ret. tk. Qed.
Lemma wf_p_latest fid : wf (p_latest fid). Proof. unfold p_latest. apply wf_prim_ret. tk. Qed.
Lemma wf_p_store r : wf (p_store c r). Proof. unfold p_store. apply wf_prim_ret. tk. Qed.
Lemma wf_p_call k ctx args eff out : k <> KTW -> wf (p_call k ctx args eff out).
Proof. intros Hk. unfold p_call. apply wf_prim_ret. intros d w. destruct k; try exact I. congruence. Qed.
Lemma ff2_p_call k ctx args eff out : ff2 (p_call k ctx args eff out).
Proof. unfold p_call. apply ff2_prim. intros d w. apply ff2_disp_ret. Qed.
Lemma wf_p_list_outbox limit : wf (p_list_outbox limit). Proof. unfold p_list_outbox. apply wf_prim_ret. tk. Qed.
Lemma wf_p_send o : wf (p_send o). Proof. unfold p_send. apply wf_prim_ret. tk. Qed.
Lemma wf_p_del_outbox id : wf (p_del_outbox id). Proof. unfold p_del_outbox. apply wf_prim_ret. tk. Qed.
Lemma wf_p_list_valid st : wf (p_list_valid st). Proof. unfold p_list_valid. apply wf_prim_ret. tk. Qed.
Lemma wf_p_tcreate fid run st ex : wf (p_tcreate fid run st ex). Proof. unfold p_tcreate. apply wf_prim_ret. tk. Qed.
Lemma wf_p_tcomplete id : wf (p_tcomplete id). Proof. unfold p_tcomplete. apply wf_prim_ret. tk. Qed.
Lemma wf_p_tcancel id : wf (p_tcancel id). Proof. unfold p_tcancel. apply wf_prim_ret. tk. Qed.
Lemma wf_p_ack u idx e : wf (p_ack u idx e). Proof. unfold p_ack. apply wf_prim_ret. tk. Qed.
Lemma wf_m_release u inst : wf (m_release u inst). Proof. unfold m_release. apply wf_get_put. Qed.
Lemma wf_m_acquire u inst : wf (m_acquire u inst). Proof. unfold m_acquire. apply wf_get_put. Qed.

Ltac wf_extra := fail.
Ltac wf_go :=
  repeat first
    [ wf_extra | apply wf_ret | apply wf_fail | (apply wf_emit; exact I) | apply wf_get_w | apply wf_disp_ret
    | apply wf_p_lookup | apply wf_p_latest | apply wf_p_store | apply wf_p_list_outbox | apply wf_p_send
    | apply wf_p_del_outbox | apply wf_p_list_valid | apply wf_p_tcreate | apply wf_p_tcomplete | apply wf_p_tcancel | apply wf_p_ack
    | apply wf_m_release | apply wf_m_acquire | apply wf_att_bump | apply wf_ctr_add | apply wf_ctr_clear | apply wf_lease_live | apply wf_dispatch
    | (apply wf_p_call; discriminate)
    | apply wf_catch
    | (apply wf_bind; [|intros])
    | assumption
    | match goal with
      | H : forall _, wf _ |- _ => apply H
      | H : forall _ _, wf _ |- _ => apply H
      | |- wf (match ?x with _ => _ end) => destruct x
      | |- wf (let (_, _) := ?x in _) => destruct x
      end ].

Lemma wf_build_run r : wf (build_run r). Proof. unfold build_run. wf_go. Qed.
Ltac wf_extra ::= apply wf_build_run.
Lemma wf_ctl_do ctl target reason : wf (ctl_do c ctl target reason). Proof. unfold ctl_do. wf_go. Qed.
Ltac wf_extra ::= first [apply wf_build_run | apply wf_ctl_do].
Lemma wf_updater cur next run : wf (updater c cur next run). Proof. unfold updater. wf_go. Qed.
Ltac wf_extra ::= first [apply wf_build_run | apply wf_ctl_do | apply wf_updater].
Lemma wf_invoke u b status view : wf (invoke c u b status view). Proof. unfold invoke. wf_go; try apply wf_ctl_do; wf_go. Qed.
Ltac wf_extra ::= first [apply wf_build_run | apply wf_ctl_do | apply wf_updater | apply wf_invoke].
Lemma wf_maybe_pause inst n e u ctl : wf (maybe_pause c inst n e u ctl). Proof. unfold maybe_pause. wf_go; try apply wf_ctl_do; wf_go. Qed.
Ltac wf_extra ::= first [apply wf_build_run | apply wf_ctl_do | apply wf_updater | apply wf_invoke | apply wf_maybe_pause].
Lemma wf_step_handler inst u st fn n e : (forall v, wf (fn v)) -> wf (step_handler c inst u st fn n e).
Proof. intros Hfn. unfold step_handler. wf_go; try apply wf_build_run; wf_go; try apply wf_maybe_pause; try apply wf_updater; wf_go. Qed.
Lemma wf_inserter_fn st tos : forall j view, wf (inserter_fn st tos j view).
Proof. induction tos as [|t tl IH]; intros j view; cbn [inserter_fn]; wf_go. Qed.
Lemma wf_process_timeouts inst u st n t tos : forall j, wf (process_timeouts c inst u st n tos j t).
Proof.
  induction tos as [|tc tl IH]; intros j; cbn [process_timeouts]; wf_go;
    try apply wf_build_run; wf_go; try apply wf_invoke; wf_go; try apply wf_maybe_pause; try apply wf_updater; wf_go.
Qed.
Lemma wf_poll_timers inst u st n l : wf (poll_timers c inst u st n l).
Proof. induction l as [|t tl IH]; cbn [poll_timers]; wf_go. apply wf_process_timeouts. Qed.
Lemma wf_hook_handler st k e : wf (hook_handler st k e). Proof. unfold hook_handler. wf_go. Qed.
Lemma wf_delete_handler e : wf (delete_handler c e). Proof. unfold delete_handler. wf_go. Qed.
Lemma wf_retry_handler e : wf (retry_handler c e). Proof. unfold retry_handler. wf_go; try apply wf_ctl_do; wf_go. Qed.
Lemma wf_unit_handler inst u e : wf (unit_handler c inst u e).
Proof.
  unfold unit_handler. destruct u; try apply wf_fail.
  - destruct (find_step c s); [|apply wf_fail]. apply wf_step_handler. intros v. apply wf_invoke.
  - apply wf_step_handler. intros v. apply wf_inserter_fn.
  - apply wf_hook_handler.
  - apply wf_delete_handler.
  - apply wf_retry_handler.
  - unfold conn_handler. wf_go.
Qed.
Lemma wf_relay_entries l : wf (relay_entries l).
Proof. induction l as [|o tl IH]; cbn [relay_entries]; wf_go. Qed.
(* ---------- the places where a cancelled wait IS recorded: only reached when the state is not live ---------- *)
Lemma notlive_of_test s : o_dead s || negb (o_lease s) = true -> ~ live s.
Proof. intros H (L & D). rewrite L, D in H. discriminate. Qed.
Lemma wf_ite_notlive {A} (m1 m2 : M A) : ff2 m1 -> wf m2 -> wf (fun s => if o_dead s || negb (o_lease s) then m1 s else m2 s).
Proof.
  intros H1 H2 s. destruct (o_dead s || negb (o_lease s)) eqn:E; [|apply H2].
  apply wf_of_ff2; [apply notlive_of_test, E|apply H1].
Qed.
Lemma wf_bind_live {A} (f : bool -> M A) :
  (forall s, wf_step s (snd (f (o_lease s && negb (o_dead s)) s))) -> wf (bind lease_live f).
Proof. intros H s. unfold bind, lease_live. cbn [fst snd]. apply H. Qed.
Lemma notlive_of_live_false s : o_lease s && negb (o_dead s) = false -> ~ live s.
Proof. intros H (L & D). rewrite L, D in H. discriminate. Qed.

Lemma ff2_m_release u inst : ff2 (m_release u inst). Proof. apply wf_ff2, wf_m_release. Qed.
Lemma ff2_exit_err inst u close e : ff2 (exit_err c inst u close e).
Proof.
  unfold exit_err. apply ff2_bind.
  { destruct close; [|apply ff2_ret]. apply ff2_bind; [apply ff2_catch, ff2_p_call|]. intros; apply ff2_ret. }
  intros _. destruct (e =? ECancel); [apply ff2_bind; [apply ff2_m_release|intros; apply ff2_ret]|].
  apply ff2_bind; [apply ff2_get_w|]. intros w. apply ff2_ite; [|apply ff2_ite].
  - apply ff2_bind; [apply ff2_emit|]. intros _. apply ff2_bind; [apply ff2_m_release|intros; apply ff2_ret].
  - apply ff2_bind; [apply ff2_emit|]. intros; apply ff2_ret.
  - apply ff2_bind; [apply ff2_emit|]. intros _. apply ff2_bind; [apply ff2_m_release|intros; apply ff2_ret].
Qed.
Lemma ff2_guarded inst u close (m : M pstate) : ff2 m -> ff2 (guarded c inst u close m).
Proof.
  intros Hm s. unfold guarded. specialize (Hm s). destruct (m s) as [[ps|e] s']; cbn [snd] in *; [exact Hm|].
  eapply ff2_trans; [exact Hm|apply ff2_exit_err].
Qed.

Lemma wf_exit_err inst u close e : wf (exit_err c inst u close e).
Proof.
  unfold exit_err. apply wf_bind.
  { destruct close; [|apply wf_ret]. apply wf_bind; [apply wf_catch, wf_p_call; discriminate|]. intros; apply wf_ret. }
  intros _. destruct (e =? ECancel); [apply wf_bind; [apply wf_m_release|intros; apply wf_ret]|].
  apply wf_bind; [apply wf_get_w|]. intros w. apply wf_ite_notlive.
  - apply ff2_bind; [apply ff2_emit|]. intros _. apply ff2_bind; [apply ff2_m_release|intros; apply ff2_ret].
  - apply wf_ite.
    + apply wf_bind; [apply wf_emit; exact I|]. intros; apply wf_ret.
    + apply wf_bind; [apply wf_emit; exact I|]. intros _. apply wf_bind; [apply wf_m_release|intros; apply wf_ret].
Qed.
Lemma wf_guarded inst u close (m : M pstate) : wf m -> wf (guarded c inst u close m).
Proof.
  intros Hm s. unfold guarded. specialize (Hm s). destruct (m s) as [[ps|e] s']; cbn [snd] in *; [exact Hm|].
  eapply wf_trans; [exact Hm|apply wf_exit_err].
Qed.

Lemma wf_api_trigger fid start seed : wf (api_trigger c fid start seed).
Proof.
  unfold api_trigger. destruct (if start =? 0 then _ else _); [|apply wf_fail].
  destruct (negb _); [apply wf_fail|]. apply wf_bind; [apply wf_p_latest|]. intros lastr.
  destruct (match lastr with Some _ => _ | None => _ end); [apply wf_fail|].
  apply wf_bind; [apply wf_get_w|]. intros w. apply wf_bind; [apply wf_put_w|]. intros _. apply wf_p_store.
Qed.
Lemma wf_sched_after_wait inst sc : wf (sched_after_wait c inst sc).
Proof.
  unfold sched_after_wait. apply wf_bind.
  { destruct (sd_filter sc =? 0); [apply wf_ret|]. apply wf_bind; [apply wf_att_bump|]. intros n. apply wf_bind; [apply wf_get_w|]. intros w.
    apply wf_bind; [apply wf_emit; exact I|]. intros; apply wf_ret. }
  intros ok. apply wf_bind.
  { destruct ok; [|apply wf_ret]. apply wf_bind; [apply wf_catch, wf_api_trigger|]. intros [|e]; [apply wf_ret|]. destruct (e =? 3); [apply wf_ret|apply wf_fail]. }
  intros _. apply wf_bind; [apply wf_m_release|intros; apply wf_ret].
Qed.
Lemma wf_sched_body inst sc : wf (sched_body c inst sc).
Proof.
  unfold sched_body. apply wf_bind; [apply wf_p_latest|]. intros lat. apply wf_bind; [apply wf_get_w|]. intros w.
  match goal with |- wf (if ?b then _ else _) => destruct b end.
  - apply wf_bind; [apply wf_emit; exact I|]. intros; apply wf_ret.
  - apply wf_bind; [apply wf_emit; exact I|]. intros _. apply wf_sched_after_wait.
Qed.
Lemma wf_poll_once inst u st : wf (poll_once c inst u st).
Proof. unfold poll_once. apply wf_bind; [apply wf_p_list_valid|]. intros l. apply wf_bind; [apply wf_poll_timers|]. intros; apply wf_ret. Qed.
Lemma wf_after_lag inst u idx e : wf (after_lag c inst u idx e).
Proof.
  unfold after_lag. apply wf_bind; [|intros; apply wf_ret].
  destruct (unit_filter u e); [apply wf_p_ack|]. apply wf_bind; [apply wf_unit_handler|]. intros _. apply wf_p_ack.
Qed.
Lemma wf_consume_iter inst u : wf (consume_iter c inst u).
Proof.
  unfold consume_iter. apply wf_bind; [apply wf_get_w|]. intros w. apply wf_bind; [apply wf_lease_live|]. intros lv.
  destruct (next_event _ _ _ _) as [[idx e]|].
  - apply wf_bind; [apply wf_dispatch|]. intros d.
    assert (Hok : wf (emit (TRecv e) ;;;
                      (let lag := unit_lag c u in
                       if (lag >? 0) && (e_created e + lag >? w_now w)
                       then emit (TCall KTW [e_created e + lag] RBlocked []) ;;; ret (PLag idx e (e_created e + lag))
                       else after_lag c inst u idx e))).
    { apply wf_bind; [apply wf_emit; exact I|]. intros _. cbv zeta. destruct (_ && _); [|apply wf_after_lag].
      apply wf_bind; [apply wf_emit; exact I|]. intros; apply wf_ret. }
    destruct d; try exact Hok; (apply wf_bind; [apply wf_emit; exact I|]; intros; apply wf_disp_ret).
  - destruct lv.
    + apply wf_bind; [apply wf_emit; exact I|]. intros; apply wf_ret.
    + apply wf_bind; [apply wf_dispatch|]. intros d. apply wf_bind; [apply wf_emit; destruct d; exact I|]. intros; apply wf_disp_ret.
Qed.

Lemma wf_at {A} (m : M A) s : wf m -> wf_step s (snd (m s)). Proof. intros H. apply H. Qed.
Lemma ff2_at {A} (m : M A) s : ff2 m -> ff2_step s (snd (m s)). Proof. intros H. apply H. Qed.

(* one scheduling step of a process, from EVERY state *)
Theorem wf_proc_op inst u ps : wf (proc_op c inst u ps).
Proof.
  unfold proc_op. destruct ps as [| |idx e deadline|deadline|deadline].
  - apply wf_bind; [apply wf_get_w|]. intros w. destruct (role_holder w u).
    { apply wf_bind; [apply wf_emit; exact I|]. intros; apply wf_ret. }
    apply wf_bind; [apply wf_dispatch|]. intros d.
    assert (Hgo : wf (emit (TCall KAW [] ROk []) ;;; m_acquire u inst ;;;
               match u with
               | EOutbox => guarded c inst u false (l <- p_list_outbox (ec_limit c) ;; relay_entries l ;;; m_release u inst ;;; ret PIdle)
               | EPoller s0 => guarded c inst u false (poll_once c inst u s0)
               | ESched fid => match find_sched c fid with
                               | Some sc => guarded c inst u false (sched_body c inst sc)
                               | None => m_release u inst ;;; ret PIdle
                               end
               | _ => guarded c inst u false (p_call KNR true [] (fun w0 => w0) (fun _ => []) ;;; ret PRun)
               end)).
    { apply wf_bind; [apply wf_emit; exact I|]. intros _. apply wf_bind; [apply wf_m_acquire|]. intros _.
      destruct u; try (apply wf_guarded; apply wf_bind; [apply wf_p_call; discriminate|intros; apply wf_ret]).
      - apply wf_guarded. apply wf_bind; [apply wf_p_list_outbox|]. intros l. apply wf_bind; [apply wf_relay_entries|]. intros _.
        apply wf_bind; [apply wf_m_release|intros; apply wf_ret].
      - apply wf_guarded, wf_poll_once.
      - destruct (find_sched c fid); [apply wf_guarded, wf_sched_body|]. apply wf_bind; [apply wf_m_release|intros; apply wf_ret]. }
    destruct d; try exact Hgo; (apply wf_bind; [apply wf_emit; exact I|]; intros; apply wf_ret).
  - destruct u; try apply wf_ret; try (apply wf_guarded, wf_consume_iter). apply wf_guarded, wf_poll_once.
  - apply wf_bind; [apply wf_get_w|]. intros w. apply wf_bind_live. intros s.
    destruct (o_lease s && negb (o_dead s)) eqn:El; cbn [negb].
    + apply wf_at. destruct (deadline >? w_now w).
      * apply wf_bind; [apply wf_emit; exact I|]. intros; apply wf_ret.
      * apply wf_bind; [apply wf_emit; exact I|]. intros _. apply wf_guarded, wf_after_lag.
    + apply wf_of_ff2; [apply notlive_of_live_false, El|]. apply ff2_at.
      apply ff2_bind; [apply ff2_emit|]. intros _. apply ff2_guarded, ff2_fail.
  - apply wf_bind; [apply wf_get_w|]. intros w. apply wf_bind_live. intros s.
    destruct (o_lease s && negb (o_dead s)) eqn:El; cbn [negb].
    + apply wf_at. destruct (deadline >? w_now w).
      * apply wf_bind; [apply wf_emit; exact I|]. intros; apply wf_ret.
      * apply wf_bind; [apply wf_emit; exact I|]. intros _. apply wf_bind; [apply wf_m_release|intros; apply wf_ret].
    + apply wf_of_ff2; [apply notlive_of_live_false, El|]. apply ff2_at.
      apply ff2_bind; [apply ff2_emit|]. intros _. apply ff2_bind; [apply ff2_m_release|intros; apply ff2_ret].
  - apply wf_bind; [apply wf_get_w|]. intros w. apply wf_bind_live. intros s.
    destruct (o_lease s && negb (o_dead s)) eqn:El; cbn [negb].
    + apply wf_at. destruct (deadline >? w_now w).
      * apply wf_bind; [apply wf_emit; exact I|]. intros; apply wf_ret.
      * apply wf_bind; [apply wf_emit; exact I|]. intros _.
        destruct u; try apply wf_ret. destruct (find_sched c fid); [apply wf_guarded, wf_sched_after_wait|apply wf_ret].
    + apply wf_of_ff2; [apply notlive_of_live_false, El|]. apply ff2_at.
      apply ff2_bind; [apply ff2_emit|]. intros _. apply ff2_guarded, ff2_fail.
Qed.

(* hence: a process whose role was not lost — the lease is held, the instance is alive, and the step's fault plan holds neither a
   lease-loss nor a crash fault — never records a wait (consume lag, error back-off, schedule) that came back cancelled *)
Theorem wait_cancelled_only_if_role_lost inst u ps s :
  plan_clean (o_plan s) -> o_lease s = true -> o_dead s = false ->
  exists t, o_trace (snd (proc_op c inst u ps s)) = t ++ o_trace s /\
            forall args out, ~ In (TCall KTW args RCancel out) t.
Proof.
  intros Hc Hl Hd. destruct (wf_proc_op inst u ps s) as (_ & H). destruct (H Hc (conj Hl Hd)) as (t & E & F).
  exists t. split; [exact E|]. intros args out Hin. rewrite Forall_forall in F. exact (F _ Hin).
Qed.

(* the same for a whole scheduling operation of a history: the step of a process whose role was not revoked while it was parked,
   under a fault plan without lease-loss and crash faults, records no cancelled wait — in whatever world it starts *)
Theorem run_op_wait_cancelled w inst u p :
  plan_clean p ->
  (match get_pstate w (inst, u) with PIdle => false | _ => existsb (procid_eqb (inst, u)) (w_lost w) end) = false ->
  forall args out, ~ In (TCall KTW args RCancel out) (snd (run_op c w (OStep inst u p))).
Proof.
  intros Hc Hl args out. cbn [run_op]. rewrite Hl. cbn [negb].
  set (w1 := set_lost w _). set (s0 := mkOst w1 p [] [] true false).
  destruct (wait_cancelled_only_if_role_lost inst u (get_pstate w (inst, u)) s0 Hc eq_refl eq_refl) as (t & E & F).
  destruct (proc_op c inst u (get_pstate w (inst, u)) s0) as [[ps'|e] s]; cbn [snd] in *;
    rewrite E, app_nil_r; intros Hin; apply in_rev in Hin; exact (F args out Hin).
Qed.

End W.
