(* Delivery.v — at-least-once delivery, for EVERY configuration, operation sequence and fault plan (stale reads included):
   the committed position of a consumer never passes an event of its topic unless a filter excluded the event or the
   consumer's handler ran to completion on it (returned nil) — and "ran to completion" leaves a witness token in the trace. *)
From WF Require Import model.Base model.RunState model.Routing model.Graph model.Counter model.Shard model.EngineBase model.Engine
  model.Monitors proofs.Hoare proofs.EngineInv proofs.EngineTokens proofs.Frame.

Definition CRany (_ _ : list (eunit * nat)) : Prop := True.
Definition CReq (a b : list (eunit * nat)) : Prop := b = a.
Lemma CRany_refl x : CRany x x. Proof. exact I. Qed.
Lemma CRany_trans x y z : CRany x y -> CRany y z -> CRany x z. Proof. intros; exact I. Qed.
Lemma CReq_refl x : CReq x x. Proof. reflexivity. Qed.
Lemma CReq_trans x y z : CReq x y -> CReq y z -> CReq x z. Proof. unfold CReq. congruence. Qed.

Definition okA : (forall x, CRany x x) /\ (forall x y z, CRany x y -> CRany y z -> CRany x z) := conj CRany_refl CRany_trans.
Definition okE : (forall x, CReq x x) /\ (forall x y z, CReq x y -> CReq y z -> CReq x z) := conj CReq_refl CReq_trans.

Lemma fr_weaken {A} (m : M A) : fr CReq m -> fr CRany m.
Proof. intros H s. destruct (H s) as (A1 & A2 & _ & A4 & A5). repeat split; auto. Qed.

(* ---------- witnesses: what a handler that returned nil for event [e] has left in the trace ---------- *)
(* the hook was invoked with the run and returned nil, or the run's data had been deleted *)
Definition hook_wit (st : runstate) (e : event) (t : tok) : Prop :=
  (exists r pers now, t = TUser (UFHook st) r pers now UOk /\ r_run r = e_run e) \/
  (exists r, t = TLookup KLK (Z.of_N (e_run e)) ROk (Some r) /\ r_obj r = ODeleted).
(* the run was rewritten as DataDeleted *)
Definition delete_wit (e : event) (t : tok) : Prop :=
  exists prev r, t = TStore prev r ROk /\ r_run r = e_run e /\ r_state r = RSDataDeleted.
(* the run was read back *)
Definition read_wit (e : event) (t : tok) : Prop :=
  exists r, t = TLookup KLK (Z.of_N (e_run e)) ROk (Some r).
(* the run does not exist, or was read back at the event's version or a later one *)
Definition seen_wit (e : event) (t : tok) : Prop :=
  t = TLookup KLK (Z.of_N (e_run e)) RNotFound None \/
  exists r, t = TLookup KLK (Z.of_N (e_run e)) ROk (Some r) /\ e_ver e <= r_ver r.
(* a step consumer of status [s]: the run does not exist; or it was read back at a later version, or stopped at this version,
   or at another status; or a write on top of this version was committed (transition, pause, cancel); or the step function
   itself returned a skip for exactly this version *)
Definition step_wit (s : Z) (e : event) (t : tok) : Prop :=
  t = TLookup KLK (Z.of_N (e_run e)) RNotFound None \/
  (exists r, t = TLookup KLK (Z.of_N (e_run e)) ROk (Some r) /\
             (e_ver e < r_ver r \/ (r_ver r = e_ver e /\ rs_stopped (r_state r) = true) \/ r_status r <> s)) \/
  (exists prev r, t = TStore prev r ROk /\ r_run r = e_run e /\ e_ver e < r_ver r) \/
  (exists view pers now z, t = TUser (UFStep s) view pers now (URet z) /\ skip_status z = true /\
                           r_run view = e_run e /\ r_ver view = e_ver e).

(* the connector function was invoked with this event and returned nil *)
Definition conn_wit (cid : N) (e : event) (t : tok) : Prop :=
  exists pers now, t = TUser (UFConn cid) (conn_view e) pers now UOk.

Definition wit (u : eunit) (e : event) (t : tok) : Prop :=
  match u with
  | EStep s _ _ => step_wit s e t
  | EInserter _ => seen_wit e t
  | EHook st => hook_wit st e t
  | EDelete => delete_wit e t
  | ERetry => read_wit e t
  | EConn cid _ _ => conn_wit cid e t
  | _ => False
  end.

Definition has_wit (u : eunit) (e : event) (T : list tok) : Prop := exists t, In t T /\ wit u e t.

Lemma has_wit_mono u e T T' : (forall t, In t T -> In t T') -> has_wit u e T -> has_wit u e T'.
Proof. intros H (t & Ht & W). exists t. auto. Qed.

Section Delivery.
Variable c : econfig.

Notation frA := (fr CRany).
Notation frE := (fr CReq).

(* "unless the instance has crashed (its tokens are then not recorded), the trace holds a witness" *)
Definition Wd (P : list tok -> Prop) (s : ost) : Prop := o_dead s = false -> P (o_trace s).
Definition tmono (P : list tok -> Prop) : Prop := forall T T', (forall t, In t T -> In t T') -> P T -> P T'.

Lemma Wd_fr (P : list tok -> Prop) s s' : tmono P -> fr_step CRany s s' -> Wd P s -> Wd P s'.
Proof.
  intros HP (_ & (t & Et) & _ & _ & Hd) H Hd'. rewrite Et. eapply HP; [|apply H].
  - intros x Hx. apply in_or_app. now right.
  - destruct (o_dead s) eqn:E; [|reflexivity]. rewrite (Hd eq_refl) in Hd'. discriminate.
Qed.

Lemma Wd_run {A} (P : list tok -> Prop) (m : M A) s : tmono P -> frA m -> Wd P s -> Wd P (snd (m s)).
Proof. intros HP Hm. apply Wd_fr; [exact HP|apply Hm]. Qed.

Lemma tmono_has_wit u e : tmono (has_wit u e).
Proof. intros T T' H. apply has_wit_mono, H. Qed.

Lemma tmono_in t : tmono (fun T => In t T).
Proof. intros T T' H. apply H. Qed.

(* ---------- tokens of the two primitives the witnesses come from ---------- *)
Lemma lookup_run_run w run r : lookup_run w run = Some r -> r_run r = run.
Proof. unfold lookup_run. intros H. apply find_first_some in H as [_ H]. now apply N.eqb_eq. Qed.

Lemma stale_run_run w run r : stale_run w run = Some r -> r_run r = run.
Proof.
  unfold stale_run. destruct (rev (filter _ (w_hist w))) as [|a [|p l]] eqn:E; try apply lookup_run_run.
  intros H. inversion H; subst.
  assert (Hin : In r (rev (filter (fun r0 => N.eqb (r_run r0) run) (w_hist w)))) by (rewrite E; right; now left).
  apply in_rev, filter_In in Hin as [_ Hin]. now apply N.eqb_eq.
Qed.

Lemma p_lookup_tok run s ro :
  fst (p_lookup run s) = Ok ro ->
  Wd (fun T => In (TLookup KLK (Z.of_N run) (match ro with Some _ => ROk | None => RNotFound end) ro) T) (snd (p_lookup run s)) /\
  (forall x, ro = Some x -> r_run x = run).
Proof.
  unfold p_lookup.
  match goal with |- context [prim ?k ?ctx ?T ?E ?X s] => destruct (prim_spec2 k ctx T E X s) as (d & s1 & W & Tr & D1 & D2 & D3 & R) end.
  rewrite R. clear R. intros H.
  assert (Hd : (d = DoOk \/ d = DoStale) /\ ro = match d with DoStale => stale_run (o_w s) run | _ => lookup_run (o_w s) run end /\
               snd (disp_ret d (match d with DoStale => stale_run (o_w s) run | _ => lookup_run (o_w s) run end) s1) = s1).
  { destruct d; cbn in H |- *; inversion H; auto. }
  destruct Hd as (Hd & Hro & Hs1). rewrite Hs1. split.
  - intros Hnd. rewrite Tr, Hnd. left. unfold read_res, read_out. destruct Hd as [-> | ->]; rewrite <- Hro; destruct ro; reflexivity.
  - intros x Hx. subst ro. destruct Hd as [-> | ->]; [eapply lookup_run_run|eapply stale_run_run]; eauto.
Qed.

Lemma p_store_tok r s :
  fst (p_store c r s) = Ok tt ->
  Wd (fun T => In (TStore (lookup_run (o_w s) (r_run r)) (stamp c (o_w s) r) ROk) T) (snd (p_store c r s)).
Proof.
  unfold p_store.
  match goal with |- context [prim ?k ?ctx ?T ?E ?X s] => destruct (prim_spec2 k ctx T E X s) as (d & s1 & W & Tr & D1 & D2 & D3 & R) end.
  rewrite R. clear R. intros H.
  assert (Hd : (d = DoOk \/ d = DoStale) /\ snd (disp_ret d tt s1) = s1) by (destruct d; cbn in H |- *; inversion H; auto).
  destruct Hd as (Hd & Hs1). rewrite Hs1. intros Hnd. rewrite Tr, Hnd. left. destruct Hd as [-> | ->]; reflexivity.
Qed.

(* a committed write of run [run] at a version above [v] *)
Definition st_tok (run : N) (v : Z) (T : list tok) : Prop :=
  exists prev r, In (TStore prev r ROk) T /\ r_run r = run /\ v < r_ver r.
Lemma tmono_st_tok run v : tmono (st_tok run v).
Proof. intros T T' H (p & r & Hin & A & B). exists p, r. auto. Qed.

Lemma stamp_ver w r : r_ver (stamp c w r) = r_ver r.
Proof. unfold stamp. destruct (ec_stamp c); reflexivity. Qed.

Lemma ctl_update_fields ctl target reason r' :
  ctl_update ctl target reason = Some r' -> r_run r' = r_run ctl /\ r_ver r' = r_ver ctl + 1.
Proof. unfold ctl_update. destruct (rs_table _ _); [|discriminate]. intros H. inversion H. cbn. auto. Qed.

Lemma p_lookup_tok' run s ro s1 :
  p_lookup run s = (Ok ro, s1) ->
  Wd (fun T => In (TLookup KLK (Z.of_N run) (match ro with Some _ => ROk | None => RNotFound end) ro) T) s1 /\
  (forall x, ro = Some x -> r_run x = run) /\ fr_step CRany s s1.
Proof.
  intros H. pose proof (p_lookup_tok run s ro) as P. pose proof (fr_p_lookup _ okA run s) as F. rewrite H in P, F.
  destruct (P eq_refl) as [P1 P2]. auto.
Qed.

Lemma p_store_tok' r s s1 :
  p_store c r s = (Ok tt, s1) ->
  Wd (fun T => In (TStore (lookup_run (o_w s) (r_run r)) (stamp c (o_w s) r) ROk) T) s1.
Proof. intros H. pose proof (p_store_tok r s) as P. rewrite H in P. apply P. reflexivity. Qed.

Lemma fr_eq {A} (m : M A) s r s' : m s = (r, s') -> frA m -> fr_step CRany s s'.
Proof. intros H F. specialize (F s). rewrite H in F. exact F. Qed.

Ltac bind_step H E a s1 :=
  unfold bind at 1 in H;
  match type of H with
  | (match ?m ?s with _ => _ end = _) => destruct (m s) as [[a|?] s1] eqn:E; [|try (inversion H; fail); try (unfold get_w, lease_live, att_bump, ret in E; discriminate E)]
  end.

(* the controller: the record it hands back is the same run at the same or the next version; success = a committed write *)
Lemma ctl_do_wit ctl target reason s x s' :
  ctl_do c ctl target reason s = (Ok x, s') ->
  (r_run (snd x) = r_run ctl /\ r_ver ctl <= r_ver (snd x)) /\
  (forall y, fst x = Ok y -> Wd (st_tok (r_run ctl) (r_ver ctl)) s').
Proof.
  unfold ctl_do. destruct (ctl_update ctl target reason) as [r'|] eqn:E.
  - destruct (ctl_update_fields _ _ _ _ E) as [F1 F2].
    unfold bind, catch. destruct (p_store c r' s) as [[[]|er] s1] eqn:Es; cbn; intros H; inversion H; subst; cbn [fst snd].
    + split; [split; [exact F1|lia]|]. intros _ _ Hd. pose proof (p_store_tok' _ _ _ Es Hd) as Hs. cbn beta in Hs.
      eexists _, _. split; [exact Hs|]. rewrite (stamp_run c), stamp_ver. split; [exact F1|lia].
    + split; [split; [exact F1|lia]|]. intros y Hy. discriminate.
  - cbn. intros H. inversion H; subst. cbn. split; [split; [reflexivity|lia]|]. intros y Hy. discriminate.
Qed.

Lemma maybe_pause_wit inst n e u ctl s s' :
  maybe_pause c inst n e u ctl s = (Ok true, s') -> Wd (st_tok (r_run ctl) (r_ver ctl)) s'.
Proof.
  unfold maybe_pause. destruct (n =? 0); [cbn; intros H; inversion H|]. intros H.
  bind_step H E1 cnt s1. destruct (Z.of_nat cnt <? n); [inversion H|].
  bind_step H E2 x s2. destruct (ctl_do_wit _ _ _ _ _ _ E2) as [_ Hw].
  destruct (fst x) as [y|er] eqn:Ex; [|inversion H].
  assert (F : fr_step CRany s2 s').
  { apply (fr_eq _ _ _ _ H). apply (fr_bind _ okA); [apply (fr_ctr_clear _ okA)|intros; apply (fr_ret _ okA)]. }
  eapply Wd_fr; [apply tmono_st_tok|exact F|]. eapply Hw. reflexivity.
Qed.


Lemma get_w_eq s w s1 : get_w s = (Ok w, s1) -> w = o_w s /\ s1 = s.
Proof. unfold get_w. intros H. inversion H. auto. Qed.
Lemma ret_eq {A} (a b : A) s s' : ret a s = (Ok b, s') -> b = a /\ s' = s.
Proof. unfold ret. intros H. inversion H. auto. Qed.
Lemma emit_eq t s x s1 : emit t s = (Ok x, s1) -> o_dead s1 = o_dead s /\ o_trace s1 = (if o_dead s then o_trace s else t :: o_trace s).
Proof. intros H. destruct (emit_spec2 t s) as (_ & _ & A & B). rewrite H in A, B. auto. Qed.

Lemma updater_wit cur next run s s' :
  updater c cur next run s = (Ok tt, s') ->
  Wd (fun T => (exists l, In (TLookup KLK (Z.of_N (r_run run)) ROk (Some l)) T /\ r_status l <> cur) \/ st_tok (r_run run) (r_ver run) T) s'.
Proof.
  unfold updater. intros H. bind_step H E0 w s0. apply get_w_eq in E0 as [-> ->].
  bind_step H E1 latest s1. destruct (p_lookup_tok' _ _ _ _ E1) as (T1 & R1 & F1).
  destruct latest as [l|]; [|inversion H].
  destruct (negb (r_status l =? cur)) eqn:Ec.
  - apply ret_eq in H as [_ ->]. intros Hd. left. exists l. split; [apply T1, Hd|].
    apply Bool.negb_true_iff, Z.eqb_neq in Ec. exact Ec.
  - destruct (negb (validate_transition (ec_graph c) cur next)); [inversion H|].
    pose proof (p_store_tok' _ _ _ H) as Hs. intros Hd. right. eexists _, _. split; [apply Hs, Hd|].
    rewrite (stamp_run c), stamp_ver. cbn. split; [reflexivity|lia].
Qed.

Definition skip_tok (u : ufun) (view : record) (T : list tok) : Prop :=
  exists pers now z, In (TUser u view pers now (URet z)) T /\ skip_status z = true.

Lemma invoke_wit u b status view s obj' oc ctl s' :
  invoke c u b status view s = (Ok (obj', oc, ctl), s') ->
  (r_run ctl = r_run view /\ r_ver view <= r_ver ctl) /\
  (forall z, oc = inl z -> skip_status z = true -> Wd (fun T => skip_tok u view T \/ st_tok (r_run view) (r_ver view) T) s').
Proof.
  unfold invoke. intros H. bind_step H E1 n s1. bind_step H E2 w s2. apply get_w_eq in E2 as [-> ->].
  destruct (eval_beh b n (obj_seed (r_obj view))) as [mark act].
  bind_step H E3 uu s3. apply emit_eq in E3 as [D3 T3].
  destruct act as [z|er| |]; cbn [planned_of] in *.
  - apply ret_eq in H as [H ->]. inversion H; subst. split; [split; [reflexivity|lia]|].
    intros z' Hz Hs Hd. inversion Hz; subst z'. left. eexists _, _, z. split; [|exact Hs].
    rewrite T3. rewrite D3 in Hd. rewrite Hd. now left.
  - apply ret_eq in H as [H ->]. inversion H; subst. split; [split; [reflexivity|lia]|]. intros z' Hz. discriminate.
  - bind_step H E4 x s4. apply ret_eq in H as [H ->]. inversion H; subst.
    destruct (ctl_do_wit _ _ _ _ _ _ E4) as [Hf Hw]. split; [exact Hf|].
    intros z' Hz Hs. right. destruct (fst x) as [y|er] eqn:Ex; [|discriminate]. eapply Hw; eauto.
  - bind_step H E4 x s4. apply ret_eq in H as [H ->]. inversion H; subst.
    destruct (ctl_do_wit _ _ _ _ _ _ E4) as [Hf Hw]. split; [exact Hf|].
    intros z' Hz Hs. right. destruct (fst x) as [y|er] eqn:Ex; [|discriminate]. eapply Hw; eauto.
Qed.

Lemma promote_run r : r_run (promote r) = r_run r. Proof. unfold promote. destruct (r_state r); reflexivity. Qed.
Lemma promote_ver r : r_ver (promote r) = r_ver r. Proof. unfold promote. destruct (r_state r); reflexivity. Qed.

Lemma build_run_eq r s view s1 : build_run r s = (Ok view, s1) -> view = promote r /\ s1 = s.
Proof. unfold build_run. destruct (r_obj r); intros H; inversion H; auto. Qed.

(* step.go stepConsumer returned nil: the witnesses of a step consumer *)
Lemma step_handler_wit inst i n0 st b n e s s' :
  step_handler c inst (EStep st i n0) st (invoke c (UFStep st) b st) n e s = (Ok tt, s') -> Wd (has_wit (EStep st i n0) e) s'.
Proof.
  unfold step_handler. intros H. bind_step H E1 ro s1. destruct (p_lookup_tok' _ _ _ _ E1) as (T1 & R1 & F1).
  destruct ro as [r|].
  2:{ apply ret_eq in H as [_ ->]. intros Hd. eexists. split; [apply T1, Hd|]. left. reflexivity. }
  specialize (R1 r eq_refl).
  destruct (r_ver r >? e_ver e) eqn:Eg.
  { apply ret_eq in H as [_ ->]. intros Hd. eexists. split; [apply T1, Hd|]. right. left. exists r. split; [reflexivity|]. left. lia. }
  destruct (r_ver r <? e_ver e) eqn:El; [inversion H|].
  assert (Ev : r_ver r = e_ver e) by lia.
  destruct (rs_stopped (r_state r)) eqn:Est.
  { apply ret_eq in H as [_ ->]. intros Hd. eexists. split; [apply T1, Hd|]. right. left. exists r. split; [reflexivity|]. right. left. auto. }
  bind_step H E2 view s2. apply build_run_eq in E2 as [-> ->].
  bind_step H E3 out s3. destruct out as [[obj' oc] ctl]. destruct (invoke_wit _ _ _ _ _ _ _ _ _ E3) as [[Hc1 Hc2] Hsk].
  rewrite promote_run in *. rewrite promote_ver in *.
  assert (Hst : forall T, st_tok (r_run r) (r_ver r) T -> has_wit (EStep st i n0) e T).
  { intros T (pv & r' & Hin & A & B). exists (TStore pv r' ROk). split; [exact Hin|]. right. right. left. exists pv, r'.
    split; [reflexivity|]. split; [congruence|lia]. }
  destruct oc as [z|oe].
  - destruct (skip_status z) eqn:Esk.
    + apply ret_eq in H as [_ ->]. intros Hd. destruct (Hsk z eq_refl Esk Hd) as [(pers & now & z' & Hin & Hz)|Hs]; [|apply Hst, Hs].
      eexists. split; [exact Hin|]. right. right. right. exists (promote r), pers, now, z'.
      rewrite promote_run, promote_ver. auto.
    + pose proof (updater_wit _ _ _ _ _ H) as Hu. cbn [set_obj r_run r_ver] in Hu. rewrite promote_run, promote_ver in Hu.
      intros Hd. destruct (Hu Hd) as [(l & Hin & Hl)|Hs]; [|apply Hst, Hs].
      eexists. split; [exact Hin|]. right. left. exists l. rewrite R1. split; [reflexivity|]. right. right. exact Hl.
  - bind_step H E4 paused s4. destruct paused; [|inversion H]. apply ret_eq in H as [_ ->].
    pose proof (maybe_pause_wit _ _ _ _ _ _ _ E4) as Hp. intros Hd. destruct (Hp Hd) as (pv & r' & Hin & A & B).
    apply Hst. exists pv, r'. split; [exact Hin|]. split; [congruence|lia].
Qed.

(* the same handler around any function (the timeout inserter): the run was read back at the event's version or later *)
Lemma step_handler_seen inst u st fn n e s s' :
  (forall v, frA (fn v)) ->
  step_handler c inst u st fn n e s = (Ok tt, s') -> Wd (fun T => exists t, In t T /\ seen_wit e t) s'.
Proof.
  intros Hfn. unfold step_handler. intros H. bind_step H E1 ro s1. destruct (p_lookup_tok' _ _ _ _ E1) as (T1 & R1 & F1).
  destruct ro as [r|].
  2:{ apply ret_eq in H as [_ ->]. intros Hd. eexists. split; [apply T1, Hd|]. left. reflexivity. }
  assert (Hkeep : e_ver e <= r_ver r -> fr_step CRany s1 s' -> Wd (fun T => exists t, In t T /\ seen_wit e t) s').
  { intros Hv F. eapply Wd_fr; [|exact F|].
    - intros T T' HT (t & Ht & W). exists t. auto.
    - intros Hd. eexists. split; [apply T1, Hd|]. right. exists r. split; [reflexivity|exact Hv]. }
  destruct (r_ver r >? e_ver e) eqn:Eg.
  { apply ret_eq in H as [_ ->]. apply Hkeep; [lia|apply (fr_refl _ okA)]. }
  destruct (r_ver r <? e_ver e) eqn:El; [inversion H|].
  apply Hkeep; [lia|]. apply (fr_eq _ _ _ _ H).
  destruct (rs_stopped (r_state r)); [apply (fr_ret _ okA)|].
  apply (fr_bind _ okA); [apply (fr_build_run _ okA)|]. intros view.
  apply (fr_bind _ okA); [apply Hfn|]. intros [[obj' oc] ctl].
  destruct oc as [z|oe].
  - destruct (skip_status z); [apply (fr_ret _ okA)|apply (fr_updater c _ okA)].
  - apply (fr_bind _ okA); [apply (fr_maybe_pause c _ okA)|]. intros []; [apply (fr_ret _ okA)|apply (fr_fail _ okA)].
Qed.

Lemma hook_handler_wit st k e s s' : hook_handler st k e s = (Ok tt, s') -> Wd (has_wit (EHook st) e) s'.
Proof.
  unfold hook_handler. intros H. bind_step H E1 ro s1. destruct (p_lookup_tok' _ _ _ _ E1) as (T1 & R1 & F1).
  destruct ro as [r|]; [|inversion H]. specialize (R1 r eq_refl).
  destruct (r_obj r) as [seed tr|] eqn:Eo.
  - bind_step H E2 n s2. bind_step H E3 w s3. apply get_w_eq in E3 as [-> ->].
    bind_step H E4 uu s4. apply emit_eq in E4 as [D4 T4].
    destruct (Nat.ltb n (hook_fails k)); [inversion H|]. apply ret_eq in H as [_ ->].
    intros Hd. rewrite D4 in Hd. eexists. split; [rewrite T4, Hd; now left|].
    left. eexists _, _, _. split; [reflexivity|exact R1].
  - apply ret_eq in H as [_ ->]. intros Hd. eexists. split; [apply T1, Hd|]. right. exists r. auto.
Qed.

Lemma delete_handler_wit e s s' : delete_handler c e s = (Ok tt, s') -> Wd (has_wit EDelete e) s'.
Proof.
  unfold delete_handler. intros H. bind_step H E1 ro s1. destruct (p_lookup_tok' _ _ _ _ E1) as (T1 & R1 & F1).
  destruct ro as [r|]; [|inversion H]. specialize (R1 r eq_refl).
  bind_step H E2 repl s2. pose proof (p_store_tok' _ _ _ H) as Hs. intros Hd.
  eexists. split; [apply Hs, Hd|]. eexists _, _. split; [reflexivity|]. rewrite (stamp_run c), (stamp_state c). cbn. auto.
Qed.

Lemma retry_handler_wit e s s' : retry_handler c e s = (Ok tt, s') -> Wd (has_wit ERetry e) s'.
Proof.
  unfold retry_handler. intros H. bind_step H E1 ro s1. destruct (p_lookup_tok' _ _ _ _ E1) as (T1 & R1 & F1).
  destruct ro as [r|]; [|inversion H].
  eapply Wd_fr; [apply tmono_has_wit| |intros Hd; eexists; split; [apply T1, Hd|exists r; reflexivity]].
  apply (fr_eq _ _ _ _ H).
  destruct (negb _); [apply (fr_ret _ okA)|].
  apply (fr_bind _ okA); [apply (fr_get_w _ okA)|]. intros w.
  destruct (_ >? _); [apply (fr_ret _ okA)|].
  apply (fr_bind _ okA); [apply (fr_ctl_do c _ okA)|]. intros x. destruct (fst x); [apply (fr_ret _ okA)|apply (fr_fail _ okA)].
Qed.

Lemma conn_handler_wit cid k e s s' : conn_handler cid k e s = (Ok tt, s') -> Wd (has_wit (EConn cid 0 0) e) s'.
Proof.
  unfold conn_handler. intros H. bind_step H E2 n s2. bind_step H E3 w s3. apply get_w_eq in E3 as [-> ->].
  bind_step H E4 uu s4. apply emit_eq in E4 as [D4 T4].
  destruct (Nat.ltb n k); [inversion H|]. apply ret_eq in H as [_ ->].
  intros Hd. rewrite D4 in Hd. eexists. split; [rewrite T4, Hd; now left|]. cbn. eexists _, _. reflexivity.
Qed.

(* every consumer's handler: returning nil leaves a witness for the event *)
Theorem unit_handler_wit inst u e s s' : unit_handler c inst u e s = (Ok tt, s') -> Wd (has_wit u e) s'.
Proof.
  unfold unit_handler. destruct u as [|st i n|st|st|hs| | |fid|cid ci cn]; try (intros H; inversion H; fail).
  - destruct (find_step c st) as [sc|]; [|intros H; inversion H]. apply step_handler_wit.
  - intros H. apply (step_handler_seen _ _ _ _ _ _ _ _ (fun v => fr_inserter_fn _ okA _ _ _ v) H).
  - apply hook_handler_wit.
  - apply delete_handler_wit.
  - apply retry_handler_wit.
  - apply conn_handler_wit.
Qed.


(* ================= the delivery invariant ================= *)
(* every event of [u]'s topic before position [n] of the log was excluded by [u]'s filter or has a witness in [T] *)
Definition upto (u : eunit) (n : nat) (L : list event) (T : list tok) : Prop :=
  forall j e, (j < n)%nat -> nth_error L j = Some e -> e_topic e = unit_topic u -> unit_filter u e = false -> has_wit u e T.

Lemma upto_mono u n L T l T' :
  (n <= length L)%nat -> (forall t, In t T -> In t T') -> upto u n L T -> upto u n (L ++ l) T'.
Proof.
  intros Hn HT H j e Hj He. rewrite nth_error_app1 in He by lia. intros A B. eapply has_wit_mono; [exact HT|]. eapply H; eauto.
Qed.

Lemma upto_le u n n' L T : (n' <= n)%nat -> upto u n L T -> upto u n' L T.
Proof. intros Hn H j e Hj. apply H. lia. Qed.

(* the state invariant inside an operation; [T0] = the tokens of the earlier operations *)
Definition DS (T0 : list tok) (s : ost) : Prop :=
  forall u, (get_cursor (o_w s) u <= length (w_log (o_w s)))%nat /\
            upto u (get_cursor (o_w s) u) (w_log (o_w s)) (o_trace s ++ T0).

(* an event a consumer holds (waiting for the consume lag, or being handled): it is the event at its index and
   everything before it is settled *)
Definition lag_ok (T0 : list tok) (u : eunit) (idx : nat) (e : event) (s : ost) : Prop :=
  nth_error (w_log (o_w s)) idx = Some e /\ e_topic e = unit_topic u /\ upto u idx (w_log (o_w s)) (o_trace s ++ T0).

Lemma in_app_mono {A} (t t0 T0 : list A) x : In x (t0 ++ T0) -> In x ((t ++ t0) ++ T0).
Proof. intros H. apply in_app_or in H as [H|H]; apply in_or_app; [left; apply in_or_app; now right|now right]. Qed.

Lemma DS_fr T0 s s' : fr_step CReq s s' -> DS T0 s -> DS T0 s'.
Proof.
  intros ((l & El) & (t & Et) & Ec & _ & _) H u. destruct (H u) as [A B]. unfold get_cursor. rewrite Ec. fold (get_cursor (o_w s) u).
  rewrite El, Et. split; [rewrite app_length; lia|]. apply upto_mono with (T := o_trace s ++ T0); [exact A| |exact B]. intros x. apply in_app_mono.
Qed.

Lemma lag_ok_fr T0 u idx e s s' : fr_step CRany s s' -> lag_ok T0 u idx e s -> lag_ok T0 u idx e s'.
Proof.
  intros ((l & El) & (t & Et) & _ & _ & _) (A & B & C). assert (Hi : (idx < length (w_log (o_w s)))%nat) by (apply nth_error_Some; congruence).
  unfold lag_ok. rewrite El, Et. split; [rewrite nth_error_app1 by exact Hi; exact A|]. split; [exact B|].
  apply upto_mono with (T := o_trace s ++ T0); [lia| |exact C]. intros x. apply in_app_mono.
Qed.

Lemma frE_eq {A} (m : M A) s r s' : m s = (r, s') -> frE m -> fr_step CReq s s'.
Proof. intros H F. specialize (F s). rewrite H in F. exact F. Qed.

Lemma frE_step_any s s' : fr_step CReq s s' -> fr_step CRany s s'.
Proof. intros (A1 & A2 & _ & A4 & A5). repeat split; auto. Qed.

(* ---------- cursors ---------- *)
Lemma eunit_eqb_refl u : eunit_eqb u u = true.
Proof.
  destruct u; cbn; rewrite ?Z.eqb_refl, ?N.eqb_refl; try reflexivity. destruct st; reflexivity.
Qed.

Lemma eunit_eqb_sym a b : eunit_eqb a b = eunit_eqb b a.
Proof.
  destruct (eunit_eqb a b) eqn:E1; destruct (eunit_eqb b a) eqn:E2; try reflexivity.
  - apply eunit_eqb_eq in E1. subst. rewrite eunit_eqb_refl in E2. discriminate.
  - apply eunit_eqb_eq in E2. subst. rewrite eunit_eqb_refl in E1. discriminate.
Qed.

Lemma find_first_filter {A} (p q : A -> bool) (l : list A) :
  (forall x, p x = true -> q x = true) -> find_first p (filter q l) = find_first p l.
Proof.
  intros H. induction l as [|a l IH]; cbn; [reflexivity|].
  destruct (q a) eqn:Eq; cbn.
  - destruct (p a); [reflexivity|exact IH].
  - destruct (p a) eqn:Ep; [rewrite (H a Ep) in Eq; discriminate|exact IH].
Qed.

Lemma get_put_cursor_same w u n : get_cursor (put_cursor w u n) u = n.
Proof. unfold get_cursor, put_cursor. cbn. now rewrite eunit_eqb_refl. Qed.

Lemma get_put_cursor_other w u n u' : u' <> u -> get_cursor (put_cursor w u n) u' = get_cursor w u'.
Proof.
  intros Hne. unfold get_cursor, put_cursor. cbn.
  destruct (eunit_eqb u u') eqn:E; [apply eunit_eqb_eq in E; congruence|].
  rewrite find_first_filter; [reflexivity|]. intros x Hx. cbn in Hx. apply eunit_eqb_eq in Hx. rewrite Hx, eunit_eqb_sym, E. reflexivity.
Qed.

Lemma eunit_dec (a b : eunit) : a = b \/ a <> b.
Proof. destruct (eunit_eqb a b) eqn:E; [left; apply eunit_eqb_eq, E|right; intros ->; rewrite eunit_eqb_refl in E; discriminate]. Qed.

(* ---------- Ack: the only place a committed position moves forward ---------- *)
Lemma p_ack_DS T0 u idx e s r s' :
  p_ack u idx e s = (r, s') -> DS T0 s -> lag_ok T0 u idx e s ->
  (unit_filter u e = true \/ Wd (has_wit u e) s) -> DS T0 s'.
Proof.
  unfold p_ack.
  match goal with |- context [prim ?k ?ctx ?T ?E ?X s] => destruct (prim_spec2 k ctx T E X s) as (d & s1 & W & Tr & D1 & D2 & D3 & R) end.
  rewrite R. clear R. intros H HD (L1 & L2 & L3) Hw.
  assert (Hs1 : s' = s1) by (destruct d; cbn in H; inversion H; reflexivity). subst s'.
  assert (Hsub : forall x, In x (o_trace s ++ T0) -> In x (o_trace s1 ++ T0)).
  { intros x Hx. rewrite Tr. destruct (o_dead s1); [exact Hx|]. apply in_app_or in Hx as [Hx|Hx]; apply in_or_app; [left; now right|now right]. }
  intros u'. rewrite W. destruct (disp_effect d) eqn:Ed.
  2:{ destruct (HD u') as [A B]. split; [exact A|]. intros j e' Hj He' Ht Hf. eapply has_wit_mono; [exact Hsub|]. eapply B; eauto. }
  assert (Hi : (idx < length (w_log (o_w s)))%nat) by (apply nth_error_Some; congruence).
  destruct (eunit_dec u' u) as [->|Hne].
  - rewrite get_put_cursor_same. cbn. split; [lia|].
    intros j e' Hj He' Ht Hf. destruct (Nat.eq_dec j idx) as [->|Hji].
    + rewrite L1 in He'. inversion He'; subst e'. destruct Hw as [Hw|Hw]; [congruence|].
      eapply has_wit_mono; [|apply Hw].
      * intros x Hx. apply Hsub. apply in_or_app. now left.
      * specialize (D2 eq_refl). destruct (o_dead s) eqn:E; [rewrite (D1 eq_refl) in D2; discriminate|reflexivity].
    + eapply has_wit_mono; [exact Hsub|]. eapply L3; eauto. lia.
  - rewrite get_put_cursor_other by exact Hne. cbn. destruct (HD u') as [A B]. split; [exact A|].
    intros j e' Hj He' Ht Hf. eapply has_wit_mono; [exact Hsub|]. eapply B; eauto.
Qed.

Lemma after_lag_DS T0 inst u idx e s r s' :
  after_lag c inst u idx e s = (r, s') -> DS T0 s -> lag_ok T0 u idx e s ->
  DS T0 s' /\ match r with Ok ps => not_lag ps | Err _ => True end.
Proof.
  unfold after_lag. intros H HD HL. unfold bind at 1 in H.
  destruct (unit_filter u e) eqn:Ef.
  - destruct (p_ack u idx e s) as [[uu|er] s1] eqn:E1.
    + unfold ret in H; inversion H; subst. split; [|exact I]. eapply p_ack_DS; eauto.
    + inversion H; subst. split; [|exact I]. eapply p_ack_DS; eauto.
  - unfold bind at 1 in H. destruct (unit_handler c inst u e s) as [[[]|er] s1] eqn:E1.
    + pose proof (unit_handler_wit _ _ _ _ _ E1) as Hw.
      pose proof (frE_eq _ _ _ _ E1 (fr_unit_handler c _ okE inst u e)) as F.
      destruct (p_ack u idx e s1) as [[uu|er] s2] eqn:E2.
      * unfold ret in H; inversion H; subst. split; [|exact I].
        eapply p_ack_DS; [exact E2|eapply DS_fr; eauto|eapply lag_ok_fr; [apply frE_step_any, F|exact HL]|right; exact Hw].
      * inversion H; subst. split; [|exact I].
        eapply p_ack_DS; [exact E2|eapply DS_fr; eauto|eapply lag_ok_fr; [apply frE_step_any, F|exact HL]|right; exact Hw].
    + inversion H; subst. split; [|exact I]. eapply DS_fr; [|exact HD]. apply (frE_eq _ _ _ _ E1 (fr_unit_handler c _ okE inst u e)).
Qed.


(* ---------- Recv ---------- *)
Lemma topic_eqb_refl t : topic_eqb t t = true.
Proof. destruct t; cbn; try reflexivity; [apply Z.eqb_refl|apply N.eqb_refl]. Qed.

Lemma next_event_spec t l : forall i pos idx e, next_event t l i pos = Some (idx, e) ->
  (i <= idx)%nat /\ nth_error l (idx - i) = Some e /\ e_topic e = t /\ (pos <= idx)%nat /\
  (forall j e', (i <= j)%nat -> (j < idx)%nat -> (pos <= j)%nat -> nth_error l (j - i) = Some e' -> e_topic e' <> t).
Proof.
  induction l as [|a l IH]; intros i pos idx e H; cbn in H; [discriminate|].
  destruct (Nat.leb pos i && topic_eqb (e_topic a) t) eqn:E.
  - inversion H; subst. apply andb_prop in E as [E1 E2]. apply Nat.leb_le in E1. apply topic_eqb_eq in E2.
    split; [lia|]. rewrite Nat.sub_diag. split; [reflexivity|]. split; [exact E2|]. split; [exact E1|]. intros; lia.
  - apply IH in H as (A & B & C & D & F). split; [lia|].
    replace (idx - i)%nat with (S (idx - S i)) by lia. split; [exact B|]. split; [exact C|]. split; [exact D|].
    intros j e' H1 H2 H3 H4. destruct (Nat.eq_dec j i) as [->|Hne].
    + rewrite Nat.sub_diag in H4. cbn in H4. inversion H4; subst e'. intros Ht.
      assert (Hp : Nat.leb pos i = true) by (apply Nat.leb_le; lia). rewrite Hp, Ht, topic_eqb_refl in E. discriminate.
    + replace (j - i)%nat with (S (j - S i)) in H4 by lia. apply (F j e'); try lia. exact H4.
Qed.

Lemma noLag_disp_ret d : noLag (disp_ret d PRun).
Proof. destruct d; cbn; try (apply noLag_ret; exact I); apply noLag_fail. Qed.

Lemma noLag_guarded inst u close m : noLag m -> noLag (guarded c inst u close m).
Proof.
  intros H s. unfold guarded. specialize (H s). destruct (m s) as [[ps|e] s1]; cbn [fst] in *; [exact H|]. apply (noLag_exit_err c).
Qed.

Definition lag_post (T0 : list tok) (u : eunit) (r : res pstate) (s : ost) : Prop :=
  forall idx e d, r = Ok (PLag idx e d) -> lag_ok T0 u idx e s.

Lemma quiet_post T0 u (m : M pstate) s r s' :
  m s = (r, s') -> frE m -> noLag m -> DS T0 s -> DS T0 s' /\ lag_post T0 u r s'.
Proof.
  intros H F N HD. split; [eapply DS_fr; [apply (frE_eq _ _ _ _ H F)|exact HD]|].
  intros idx e d Hr. specialize (N s). rewrite H in N. cbn in N. subst r. destruct N.
Qed.

Lemma exit_post T0 u inst close er s r s' :
  exit_err c inst u close er s = (r, s') -> DS T0 s -> DS T0 s' /\ lag_post T0 u r s'.
Proof. intros H. apply (quiet_post T0 u _ _ _ _ H); [apply (fr_exit_err c _ okE)|apply (noLag_exit_err c)]. Qed.

Lemma lease_live_eq s b s1 : lease_live s = (Ok b, s1) -> s1 = s.
Proof. unfold lease_live. intros H. inversion H. reflexivity. Qed.

Lemma consume_iter_DS T0 inst u s r s' :
  consume_iter c inst u s = (r, s') -> DS T0 s -> DS T0 s' /\ lag_post T0 u r s'.
Proof.
  unfold consume_iter. intros H HD. bind_step H E0 w s0. apply get_w_eq in E0 as [-> ->].
  bind_step H E1 lv s1. apply lease_live_eq in E1 as ->.
  destruct (next_event (unit_topic u) (w_log (o_w s)) 0 (get_cursor (o_w s) u)) as [[idx e]|] eqn:En.
  - apply next_event_spec in En as (_ & Hn & Ht & Hpos & Hskip). rewrite Nat.sub_0_r in Hn.
    assert (HL : lag_ok T0 u idx e s).
    { split; [exact Hn|]. split; [exact Ht|]. destruct (HD u) as [A B]. intros j e' Hj He' Ht' Hf.
      destruct (Nat.lt_ge_cases j (get_cursor (o_w s) u)) as [Hlt|Hge]; [eapply B; eauto|].
      exfalso. apply (Hskip j e'); try lia; [rewrite Nat.sub_0_r; exact He'|exact Ht']. }
    unfold bind at 1 in H. destruct (dispatch KRV true s) as [[d|er] s1] eqn:Ed.
    2:{ inversion H; subst. split; [eapply DS_fr; [apply (frE_eq _ _ _ _ Ed (fr_dispatch _ okE _ _))|exact HD]|intros ? ? ? Hx; discriminate]. }
    pose proof (frE_eq _ _ _ _ Ed (fr_dispatch _ okE _ _)) as F1.
    assert (HD1 : DS T0 s1) by (eapply DS_fr; eauto).
    assert (HL1 : lag_ok T0 u idx e s1) by (eapply lag_ok_fr; [apply frE_step_any, F1|exact HL]).
    assert (Hother : forall m', m' = (emit (TCall KRV [] (disp_res d) []) ;;; disp_ret d PRun) -> m' s1 = (r, s') -> DS T0 s' /\ lag_post T0 u r s').
    { intros m' -> H'. apply (quiet_post T0 u _ _ _ _ H'); [|apply noLag_bind; intros; apply noLag_disp_ret|exact HD1].
      apply (fr_bind _ okE); [apply (fr_emit _ okE)|intros; apply (fr_disp_ret _ okE)]. }
    assert (Hok : (emit (TRecv e) ;;;
                   (let lag := unit_lag c u in
                    if (lag >? 0) && (e_created e + lag >? w_now (o_w s))
                    then emit (TCall KTW [e_created e + lag] RBlocked []) ;;; ret (PLag idx e (e_created e + lag))
                    else after_lag c inst u idx e)) s1 = (r, s') -> DS T0 s' /\ lag_post T0 u r s').
    { clear H Hother. intros H. bind_step H E2 uu s2.
      2:{ inversion H; subst. split; [eapply DS_fr; [apply (frE_eq _ _ _ _ E2 (fr_emit _ okE _))|exact HD1]|intros ? ? ? Hx; discriminate]. }
      pose proof (frE_eq _ _ _ _ E2 (fr_emit _ okE _)) as F2.
      assert (HD2 : DS T0 s2) by (eapply DS_fr; eauto).
      assert (HL2 : lag_ok T0 u idx e s2) by (eapply lag_ok_fr; [apply frE_step_any, F2|exact HL1]).
      cbv zeta in H. destruct ((unit_lag c u >? 0) && (e_created e + unit_lag c u >? w_now (o_w s))).
      - bind_step H E3 uu3 s3.
        2:{ inversion H; subst. split; [eapply DS_fr; [apply (frE_eq _ _ _ _ E3 (fr_emit _ okE _))|exact HD2]|intros ? ? ? Hx; discriminate]. }
        pose proof (frE_eq _ _ _ _ E3 (fr_emit _ okE _)) as F3. unfold ret in H. inversion H; subst.
        split; [eapply DS_fr; eauto|]. intros idx' e' d' Hx. inversion Hx; subst. eapply lag_ok_fr; [apply frE_step_any, F3|exact HL2].
      - destruct (after_lag_DS T0 _ _ _ _ _ _ _ H HD2 HL2) as [A B]. split; [exact A|].
        intros idx' e' d' Hx. subst r. destruct B. }
    destruct d; try (apply Hok; exact H); eapply Hother; try exact H; reflexivity.
  - destruct lv.
    + apply (quiet_post T0 u _ _ _ _ H); [|apply noLag_bind; intros; apply noLag_ret; exact I|exact HD].
      apply (fr_bind _ okE); [apply (fr_emit _ okE)|intros; apply (fr_ret _ okE)].
    + apply (quiet_post T0 u _ _ _ _ H); [|apply noLag_bind; intros; apply noLag_bind; intros; apply noLag_disp_ret|exact HD].
      apply (fr_bind _ okE); [apply (fr_dispatch _ okE)|intros]. apply (fr_bind _ okE); [apply (fr_emit _ okE)|intros; apply (fr_disp_ret _ okE)].
Qed.


(* ---------- one scheduling step of one process ---------- *)
Lemma noLag_proc_op_noack inst u ps :
  match ps with PLag _ _ _ => False | PRun => acks u = false | _ => True end -> noLag (proc_op c inst u ps).
Proof.
  intros Hps. unfold proc_op. destruct ps as [| |idx e deadline|deadline|deadline]; [| |destruct Hps| |].
  - apply noLag_bind. intros w. destruct (role_holder w u); [apply noLag_bind; intros; apply noLag_ret; exact I|].
    apply noLag_bind. intros d.
    assert (Hf : noLag (emit (TCall KAW [] (disp_res d) []) ;;; ret PIdle)) by (apply noLag_bind; intros; apply noLag_ret; exact I).
    destruct d; try exact Hf; apply noLag_bind; intros _; apply noLag_bind; intros _.
    all: destruct u; try (apply noLag_guarded; repeat (apply noLag_bind; intros); try (apply noLag_ret; exact I)).
    all: try (destruct (find_sched c fid); [apply noLag_guarded|]; repeat (apply noLag_bind; intros); try (apply noLag_ret; exact I)).
    all: try (unfold sched_body; repeat (apply noLag_bind; intros); destruct (_ >? _); repeat (apply noLag_bind; intros); try (apply noLag_ret; exact I);
              unfold sched_after_wait; repeat (apply noLag_bind; intros); apply noLag_ret; exact I).
  - destruct u; cbn in Hps; try discriminate; try (apply noLag_ret; exact I).
    apply noLag_guarded. unfold poll_once. repeat (apply noLag_bind; intros). apply noLag_ret. exact I.
  - apply noLag_bind. intros w. apply noLag_bind. intros lv.
    destruct (negb lv); [repeat (apply noLag_bind; intros); apply noLag_ret; exact I|].
    destruct (deadline >? w_now w); repeat (apply noLag_bind; intros); apply noLag_ret; exact I.
  - apply noLag_bind. intros w. apply noLag_bind. intros lv.
    destruct (negb lv); [apply noLag_bind; intros; apply noLag_guarded, noLag_fail|].
    destruct (deadline >? w_now w); [apply noLag_bind; intros; apply noLag_ret; exact I|].
    apply noLag_bind. intros _. destruct u; try (apply noLag_ret; exact I).
    destruct (find_sched c fid); [|apply noLag_ret; exact I]. apply noLag_guarded.
    unfold sched_after_wait. repeat (apply noLag_bind; intros). apply noLag_ret. exact I.
Qed.

Lemma guarded_post T0 u inst close (m : M pstate) s r s' :
  guarded c inst u close m s = (r, s') ->
  (forall r1 s1, m s = (r1, s1) -> DS T0 s1 /\ lag_post T0 u r1 s1) -> DS T0 s' /\ lag_post T0 u r s'.
Proof.
  unfold guarded. intros H Hm. destruct (m s) as [[ps|er] s1] eqn:E; destruct (Hm _ _ eq_refl) as [A B].
  - inversion H; subst. auto.
  - eapply exit_post; eauto.
Qed.

Lemma proc_op_DS T0 inst u ps s r s' :
  proc_op c inst u ps s = (r, s') -> DS T0 s -> (forall idx e d, ps = PLag idx e d -> lag_ok T0 u idx e s) ->
  DS T0 s' /\ lag_post T0 u r s'.
Proof.
  intros H HD HL.
  destruct ps as [| |idx e deadline|deadline|deadline];
    try (apply (quiet_post T0 u _ _ _ _ H); [apply (fr_proc_op_noack c _ okE); exact I|apply noLag_proc_op_noack; exact I|exact HD]).
  - destruct (acks u) eqn:Ea.
    2:{ apply (quiet_post T0 u _ _ _ _ H); [apply (fr_proc_op_noack c _ okE); exact Ea|apply noLag_proc_op_noack; exact Ea|exact HD]. }
    assert (H' : guarded c inst u true (consume_iter c inst u) s = (r, s')) by (destruct u; cbn in Ea; try discriminate; exact H).
    apply (guarded_post _ _ _ _ _ _ _ _ H'). intros r1 s1 E. eapply consume_iter_DS; eauto.
  - specialize (HL idx e deadline eq_refl). unfold proc_op in H.
    bind_step H E0 w s0. apply get_w_eq in E0 as [-> ->]. bind_step H E1 lv s1. apply lease_live_eq in E1 as ->.
    destruct (negb lv).
    { apply (quiet_post T0 u _ _ _ _ H); [|apply noLag_bind; intros; apply noLag_guarded, noLag_fail|exact HD].
      apply (fr_bind _ okE); [apply (fr_emit _ okE)|intros; apply (fr_guarded c _ okE), (fr_fail _ okE)]. }
    destruct (deadline >? w_now (o_w s)).
    + bind_step H E3 uu3 s3.
      2:{ inversion H; subst. split; [eapply DS_fr; [apply (frE_eq _ _ _ _ E3 (fr_emit _ okE _))|exact HD]|intros ? ? ? Hx; discriminate]. }
      pose proof (frE_eq _ _ _ _ E3 (fr_emit _ okE _)) as F3. unfold ret in H. inversion H; subst.
      split; [eapply DS_fr; eauto|]. intros idx' e' d' Hx. inversion Hx; subst. eapply lag_ok_fr; [apply frE_step_any, F3|exact HL].
    + bind_step H E3 uu3 s3.
      2:{ inversion H; subst. split; [eapply DS_fr; [apply (frE_eq _ _ _ _ E3 (fr_emit _ okE _))|exact HD]|intros ? ? ? Hx; discriminate]. }
      pose proof (frE_eq _ _ _ _ E3 (fr_emit _ okE _)) as F3.
      apply (guarded_post _ _ _ _ _ _ _ _ H). intros r1 s1 E.
      destruct (after_lag_DS T0 _ _ _ _ _ _ _ E (DS_fr _ _ _ F3 HD) (lag_ok_fr _ _ _ _ _ _ (frE_step_any _ _ F3) HL)) as [A B].
      split; [exact A|]. intros idx' e' d' Hx. subst r1. destruct B.
Qed.

(* ================= histories ================= *)
Definition DI (w : world) (T : list tok) : Prop :=
  (forall u, (get_cursor w u <= length (w_log w))%nat /\ upto u (get_cursor w u) (w_log w) T) /\
  (forall p idx e d, In (p, PLag idx e d) (w_procs w) ->
     nth_error (w_log w) idx = Some e /\ e_topic e = unit_topic (snd p) /\ upto (snd p) idx (w_log w) T).

Lemma wit_not_api u e t : wit u e t -> match t with TApi _ => False | _ => True end.
Proof.
  destruct u; cbn; try contradiction.
  - intros [->|[(r & -> & _)|[(pv & r & -> & _)|(v & pers & now & z & -> & _)]]]; exact I.
  - intros [->|(r & -> & _)]; exact I.
  - intros [(r & pers & now & -> & _)|(r & -> & _)]; exact I.
  - intros (pv & r & -> & _). exact I.
  - intros (r & ->). exact I.
  - intros (pers & now & ->). exact I.
Qed.

Definition not_api (t : tok) : Prop := match t with TApi _ => False | _ => True end.

Lemma upto_mono_w u n L T l T' :
  (n <= length L)%nat -> (forall t, In t T -> not_api t -> In t T') -> upto u n L T -> upto u n (L ++ l) T'.
Proof.
  intros Hn HT H j e Hj He. rewrite nth_error_app1 in He by lia. intros A B.
  destruct (H j e Hj He A B) as (t & Ht & W). exists t. split; [apply HT; [exact Ht|eapply wit_not_api; eauto]|exact W].
Qed.

Lemma DI_mono w w' T T' :
  (exists l, w_log w' = w_log w ++ l) -> w_cur w' = w_cur w -> (forall x, In x (w_procs w') -> In x (w_procs w)) ->
  (forall t, In t T -> not_api t -> In t T') -> DI w T -> DI w' T'.
Proof.
  intros (l & El) Ec Hp HT [H1 H2]. split.
  - intros u. destruct (H1 u) as [A B]. unfold get_cursor. rewrite Ec. fold (get_cursor w u). rewrite El.
    split; [rewrite app_length; lia|]. apply upto_mono_w with (T := T); assumption.
  - intros p idx e d Hin. destruct (H2 p idx e d (Hp _ Hin)) as (A & B & C).
    assert (Hi : (idx < length (w_log w))%nat) by (apply nth_error_Some; congruence).
    rewrite El. split; [rewrite nth_error_app1 by exact Hi; exact A|]. split; [exact B|]. apply upto_mono_w with (T := T); [lia|exact HT|exact C].
Qed.

Lemma DI_DS w T p lease : DI w T -> DS T (mkOst w p [] [] lease false).
Proof. intros [H1 _] u. cbn. apply H1. Qed.

Lemma run_api_DI w p (m : M unit) T :
  frE m -> DI w T -> DI (fst (run_api w p m)) (snd (run_api w p m) ++ T).
Proof.
  intros F HD. unfold run_api. set (s0 := mkOst w p [] [] true false).
  pose proof (F s0) as Fs. pose proof (DS_fr T _ _ Fs (DI_DS w T p true HD)) as HS.
  destruct Fs as ((l & El) & _ & Ec & Ep & _). cbn in El, Ec, Ep.
  assert (G : forall x, DI (o_w (snd (m s0))) (rev (TApi x :: o_trace (snd (m s0))) ++ T)).
  { intros x. split.
    - intros u. destruct (HS u) as [A B]. split; [exact A|]. intros j e Hj He Ht Hf. eapply has_wit_mono; [|eapply B; eauto].
      intros t Ht'. apply in_app_or in Ht' as [Ht'|Ht']; apply in_or_app; [left; apply in_rev; rewrite rev_involutive; now right|now right].
    - intros q idx e d Hin. rewrite Ep in Hin. destruct HD as [_ H2]. destruct (H2 q idx e d Hin) as (A & B & C).
      assert (Hi : (idx < length (w_log w))%nat) by (apply nth_error_Some; congruence).
      rewrite El. split; [rewrite nth_error_app1 by exact Hi; exact A|]. split; [exact B|].
      apply upto_mono with (T := T); [lia| |exact C]. intros t Ht. apply in_or_app. now right. }
  destruct (m s0) as [[a|e] s]; cbn [fst snd] in *; apply G.
Qed.

Lemma get_pstate_in w inst u idx e d :
  get_pstate w (inst, u) = PLag idx e d -> exists i', In ((i', u), PLag idx e d) (w_procs w).
Proof.
  unfold get_pstate. destruct (find_first _ (w_procs w)) as [x|] eqn:E; [|discriminate].
  intros Hx. apply find_first_some in E as [Hin Hq]. destruct x as [[i' u'] ps]. cbn in *. subst ps.
  unfold procid_eqb in Hq. cbn in Hq. apply andb_prop in Hq as [_ Hu]. apply eunit_eqb_eq in Hu. subst u'. eauto.
Qed.

Lemma run_op_DI w o T : DI w T -> DI (fst (run_op c w o)) (snd (run_op c w o) ++ T).
Proof.
  intros HD. destruct o as [fid start seed p|fid status p|run op ui p|d|inst u p|inst|inst fid valid|inst u|u pos|idx|cid id cfid]; cbn [run_op].
  - apply run_api_DI; [apply (fr_api_trigger c _ okE)|exact HD].
  - apply run_api_DI; [apply (fr_api_callbacks c _ okE)|exact HD].
  - pose proof (run_api_DI w p (api_ctl c run op) T (fr_api_ctl c _ okE run op) HD) as G.
    destruct (run_api w p (api_ctl c run op)) as [w' t]. cbn [fst snd] in *. destruct ui; [|exact G].
    apply (DI_mono w' w' (t ++ T)); [exists []; now rewrite app_nil_r|reflexivity|intros x Hx; exact Hx| |exact G].
    intros x Hx Hna. apply in_app_or in Hx as [Hx|Hx]; apply in_or_app; [|now right]. left.
    apply in_map_iff. exists x. split; [|exact Hx]. destruct x; try reflexivity. destruct Hna.
  - eapply (DI_mono w); [exists []; now rewrite app_nil_r|reflexivity|intros x Hx; exact Hx|intros t Ht _; exact Ht|exact HD].
  - (* a process step *)
    set (ps := get_pstate w (inst, u)).
    set (w1 := set_lost w (filter (fun x => negb (procid_eqb (inst, u) x)) (w_lost w))).
    match goal with |- context [proc_op c inst u ps ?s0] => set (s0' := s0) end.
    assert (HD1 : DI w1 T) by (eapply (DI_mono w); [exists []; now rewrite app_nil_r|reflexivity|intros x Hx; exact Hx|intros t Ht _; exact Ht|exact HD]).
    assert (HS0 : DS T s0') by (intros u'; cbn; apply HD1).
    assert (HL0 : forall idx e d, ps = PLag idx e d -> lag_ok T u idx e s0').
    { intros idx e d Hps. destruct (get_pstate_in w inst u idx e d Hps) as (i' & Hin). destruct HD as [_ H2].
      destruct (H2 _ _ _ _ Hin) as (A & B & C). split; [exact A|]. split; [exact B|exact C]. }
    pose proof (fr_proc_op c _ okA (fun _ _ _ => I) inst u ps s0') as Fa.
    destruct (proc_op c inst u ps s0') as [r s] eqn:E. destruct (proc_op_DS T _ _ _ _ _ _ E HS0 HL0) as [HS HP].
    destruct Fa as ((l & El) & _ & _ & Ep & _). cbn [snd] in El, Ep. cbn in El, Ep.
    assert (Hbase : forall q idx e d, In (q, PLag idx e d) (w_procs w) ->
              nth_error (w_log (o_w s)) idx = Some e /\ e_topic e = unit_topic (snd q) /\ upto (snd q) idx (w_log (o_w s)) (rev (o_trace s) ++ T)).
    { intros q idx e d Hin. destruct HD as [_ H2]. destruct (H2 q idx e d Hin) as (A & B & C).
      assert (Hi : (idx < length (w_log w))%nat) by (apply nth_error_Some; congruence).
      rewrite El. split; [rewrite nth_error_app1 by exact Hi; exact A|]. split; [exact B|].
      apply upto_mono with (T := T); [lia| |exact C]. intros t Ht. apply in_or_app. now right. }
    assert (Hcur : forall u', (get_cursor (o_w s) u' <= length (w_log (o_w s)))%nat /\
                              upto u' (get_cursor (o_w s) u') (w_log (o_w s)) (rev (o_trace s) ++ T)).
    { intros u'. destruct (HS u') as [A B]. split; [exact A|]. intros j e Hj He Ht Hf. eapply has_wit_mono; [|eapply B; eauto].
      intros t Ht'. apply in_app_or in Ht' as [Ht'|Ht']; apply in_or_app; [left; now apply in_rev in Ht'|now right]. }
    assert (Hnew : forall ps', r = Ok ps' -> DI (put_pstate (o_w s) (inst, u) ps') (rev (o_trace s) ++ T)).
    { intros ps' ->. split; [exact Hcur|]. intros q idx e d [Hx|Hx].
      - inversion Hx; subst. cbn. destruct (HP idx e d eq_refl) as (A & B & C). split; [exact A|]. split; [exact B|].
        intros j e' Hj He' Ht Hf. eapply has_wit_mono; [|eapply C; eauto].
        intros t Ht'. apply in_app_or in Ht' as [Ht'|Ht']; apply in_or_app; [left; now apply in_rev in Ht'|now right].
      - apply filter_In in Hx as [Hx _]. rewrite Ep in Hx. apply (Hbase q idx e d Hx). }
    assert (Hcrash : forall w2, DI w2 (rev (o_trace s) ++ T) -> DI (crash_inst w2 inst) (rev (o_trace s) ++ T)).
    { intros w2 H2. eapply (DI_mono w2); [exists []; now rewrite app_nil_r|reflexivity| |intros t Ht _; exact Ht|exact H2].
      unfold crash_inst. cbn. intros x Hx. apply filter_In in Hx. apply Hx. }
    destruct r as [ps'|er]; cbn [fst snd].
    + destruct (o_dead s); [apply Hcrash|]; apply Hnew; reflexivity.
    + assert (H0 : DI (o_w s) (rev (o_trace s) ++ T)) by (split; [exact Hcur|intros q idx e d Hin; rewrite Ep in Hin; apply (Hbase q idx e d Hin)]).
      destruct (o_dead s); [apply Hcrash|]; exact H0.
  - eapply (DI_mono w); [exists []; now rewrite app_nil_r|reflexivity| |intros t Ht _; exact Ht|exact HD].
    unfold crash_inst. cbn. intros x Hx. apply filter_In in Hx. apply Hx.
  - eapply (DI_mono w); [exists []; now rewrite app_nil_r|reflexivity|intros x Hx; exact Hx| |exact HD]. intros t Ht _. now right.
  - destruct (get_pstate w (inst, u)); cbn [fst snd]; (eapply (DI_mono w); [exists []; now rewrite app_nil_r|reflexivity|intros x Hx; exact Hx|intros t Ht _; exact Ht|exact HD]).
  - (* a rewind moves a committed position backwards only *)
    cbn [fst snd app]. destruct HD as [H1 H2]. split; [|exact H2].
    intros u'. cbn. destruct (eunit_dec u' u) as [->|Hne].
    + rewrite get_put_cursor_same. destruct (H1 u) as [A B]. split; [lia|]. eapply upto_le; [|exact B]. lia.
    + rewrite get_put_cursor_other by exact Hne. apply H1.
  - (* a duplicated delivery appends to the log *)
    destruct (nth_error (w_log w) idx) as [e|]; cbn [fst snd app]; [|exact HD].
    eapply (DI_mono w); [eexists; reflexivity|reflexivity|intros x Hx; exact Hx|intros t Ht _; exact Ht|exact HD].
  - (* an event of a connector's source appends to the log *)
    cbn [fst snd app]. eapply (DI_mono w); [eexists; reflexivity|reflexivity|intros x Hx; exact Hx|intros t Ht _; exact Ht|exact HD].
Qed.

Lemma run_ops_from_DI ops : forall n w T,
  DI w T -> DI (fst (run_ops_from c n w ops)) (snd (run_ops_from c n w ops) ++ T).
Proof.
  induction ops as [|o tl IH]; intros n w T HD; cbn [run_ops_from]; [exact HD|].
  pose proof (run_op_DI w o T HD) as H1. destruct (run_op c w o) as [w1 t1]. cbn [fst snd] in *.
  pose proof (IH (S n) w1 (t1 ++ T) H1) as H2. destruct (run_ops_from c (S n) w1 tl) as [w2 t2]. cbn [fst snd] in *.
  eapply (DI_mono w2); [exists []; now rewrite app_nil_r|reflexivity|intros x Hx; exact Hx| |exact H2].
  intros t Ht _. cbn. right. rewrite <- app_assoc. apply in_app_or in Ht as [Ht|Ht]; apply in_or_app; [right; apply in_or_app; now left|].
  apply in_app_or in Ht as [Ht|Ht]; [now left|right; apply in_or_app; now right].
Qed.

Lemma w0_DI : DI w0 [].
Proof. split; [intros u; cbn; split; [lia|intros j e Hj; lia]|intros p idx e d []]. Qed.

(* THE DELIVERY INVARIANT, for every configuration and every history (any faults, crashes, lease revocations, rewinds,
   duplicated deliveries, stale reads): behind every consumer's committed position every event of its topic was excluded
   by its filter or handled to completion; the same holds before an event a consumer holds while it waits for the lag. *)
Theorem delivery_invariant (ops : list eop) :
  DI (fst (run_ops c ops)) (snd (run_ops c ops)).
Proof.
  pose proof (run_ops_from_DI ops 0%nat w0 [] w0_DI) as H. rewrite app_nil_r in H. exact H.
Qed.


End Delivery.
