(* EngineProps.v — the token theorem read property by property. [hist_ok ops]: no stale-read fault (C04 treats those
   separately), clock advances are non-negative. Everything else is arbitrary: the configuration (graph, steps, callbacks,
   timeouts, hooks, options, instances), the operations and their order, every fault plan (error before / after the
   effect, lease loss, crash at any adapter call), crashes, lease revocations, cursor rewinds, duplicated deliveries. *)
From WF Require Import model.Base model.RunState model.Routing model.Graph model.Counter model.Shard model.EngineBase
  model.Engine model.Monitors proofs.GraphProofs proofs.RunStateProofs proofs.Hoare proofs.EngineInv proofs.EngineTokens
  proofs.TokenFacts.

Definition hist_ok (ops : list eop) : Prop := Forall op_ok ops.
Definition trace_of (c : econfig) (ops : list eop) : list tok := snd (run_ops c ops).

Section Props.
Variable c : econfig.
Variable ops : list eop.
Hypothesis Hops : hist_ok ops.
Let g := ec_graph c.

Lemma tok_in (t : tok) : In t (trace_of c ops) -> tok_ok g t = true.
Proof. intros H. pose proof (all_tokens_ok c ops Hops) as HA. rewrite Forall_forall in HA. apply HA, H. Qed.

(* a Store of an existing run *)
Lemma store_some_facts p r a : In (TStore (Some p) r a) (trace_of c ops) -> store_facts g p r.
Proof. intros H. apply store_ok_some. apply (tok_in _ H). Qed.

Lemma store_new_facts r a : In (TStore None r a) (trace_of c ops) ->
  r_ver r = 1 /\ r_state r = RSInitiated /\ is_valid g (r_status r) = true.
Proof. intros H. apply store_ok_new. apply (tok_in _ H). Qed.

Lemma store_common prev r a : In (TStore prev r a) (trace_of c ops) ->
  r_desc r = r_status r /\ (r_state r = RSCompleted -> is_terminal g (r_status r) = true).
Proof. intros H. apply (store_ok_common g prev r). apply (tok_in _ H). Qed.

(* C16 *)
Lemma p_identity_versions prev r a : In (TStore prev r a) (trace_of c ops) ->
  r_desc r = r_status r /\
  match prev with
  | None => r_ver r = 1
  | Some p => r_wf r = r_wf p /\ r_fid r = r_fid p /\ r_run r = r_run p /\ r_created r = r_created p /\
              r_ver r = r_ver p + 1 /\ r_updated p <= r_updated r
  end.
Proof.
  intros H. split; [apply (store_common _ _ _ H)|]. destruct prev as [p|].
  - destruct (store_some_facts _ _ _ H) as [F1 F2 F3 F4 F5 F6 F7 F8 F9 F10]. repeat split; assumption.
  - apply (store_new_facts _ _ H).
Qed.

Lemma p_object_changes p r a : In (TStore (Some p) r a) (trace_of c ops) -> r_obj r <> r_obj p ->
  r_state r = RSDataDeleted \/ ((r_state r = RSRunning \/ r_state r = RSCompleted) /\ rs_stopped (r_state p) = false).
Proof. intros H Hne. destruct (store_some_facts _ _ _ H) as [F1 F2 F3 F4 F5 F6 F7 F8 F9 F10]. destruct F10 as [E|[E|E]]; [contradiction|auto|auto]. Qed.

Lemma p_fresh_view u view pers now planned : In (TUser u view pers now planned) (trace_of c ops) -> is_step_fn u = true ->
  exists p, pers = Some p /\ rs_stopped (r_state p) = false /\ r_obj view = r_obj p /\ r_ver view = r_ver p /\
            r_status view = r_status p /\ r_run view = r_run p.
Proof. intros H Hs. apply (user_ok_step u view pers Hs). apply (tok_in _ H). Qed.

(* C03 *)
Lemma p_lifecycle p r a : In (TStore (Some p) r a) (trace_of c ops) ->
  lc (r_state p) (r_state r) = true \/ (r_state r = r_state p /\ (r_state p = RSRunning \/ r_state p = RSDataDeleted)).
Proof. intros H. apply (store_some_facts _ _ _ H). Qed.

Lemma p_finished_absorbing p r a : In (TStore (Some p) r a) (trace_of c ops) ->
  rs_finished (r_state p) = true -> rs_finished (r_state r) = true.
Proof. intros H. apply (store_some_facts _ _ _ H). Qed.

Lemma p_completed_terminal prev r a : In (TStore prev r a) (trace_of c ops) ->
  (r_state r = RSCompleted -> is_terminal g (r_status r) = true) /\
  (forall p, prev = Some p -> r_status r <> r_status p -> is_terminal g (r_status r) = true -> r_state r = RSCompleted).
Proof.
  intros H. split; [apply (store_common _ _ _ H)|]. intros p -> Hne Ht.
  destruct (store_some_facts _ _ _ H) as [F1 F2 F3 F4 F5 F6 F7 F8 F9 F10]. destruct F9 as [E|(_ & _ & _ & E)]; [contradiction|]. now apply E.
Qed.

(* C02 *)
Lemma p_declared_transition p r a : In (TStore (Some p) r a) (trace_of c ops) -> r_status r <> r_status p ->
  declared (ec_calls c) (r_status p) (r_status r).
Proof.
  intros H Hne. destruct (store_some_facts _ _ _ H) as [F1 F2 F3 F4 F5 F6 F7 F8 F9 F10]. destruct F9 as [E|(E & _)]; [contradiction|].
  now apply validate_iff_declared.
Qed.

Lemma p_start_declared r a : In (TStore None r a) (trace_of c ops) ->
  (exists f, declared (ec_calls c) f (r_status r)) \/ (exists t, declared (ec_calls c) (r_status r) t).
Proof. intros H. apply valid_iff. apply (store_new_facts _ _ H). Qed.

(* C08 *)
Lemma p_stopped_frozen p r a : In (TStore (Some p) r a) (trace_of c ops) -> rs_stopped (r_state p) = true ->
  r_status r = r_status p /\ (r_obj r = r_obj p \/ r_state r = RSDataDeleted).
Proof.
  intros H Hs. destruct (store_some_facts _ _ _ H) as [F1 F2 F3 F4 F5 F6 F7 F8 F9 F10]. split.
  - destruct F9 as [E|(_ & E & _)]; [exact E|congruence].
  - destruct F10 as [E|[E|(_ & E)]]; [auto|auto|congruence].
Qed.

(* C15 *)
Lemma p_delete_request_eligible p r a : In (TStore (Some p) r a) (trace_of c ops) -> r_state r = RSReqDataDeleted ->
  r_state p = RSCompleted \/ r_state p = RSCancelled \/ r_state p = RSDataDeleted.
Proof.
  intros H Hr. destruct (p_lifecycle _ _ _ H) as [E|[E1 [E2|E2]]]; rewrite Hr in *.
  - destruct (r_state p); cbn in E; try discriminate; auto.
  - congruence.
  - auto.
Qed.

Lemma p_scrub_shape p r a : In (TStore (Some p) r a) (trace_of c ops) -> r_state r = RSDataDeleted ->
  (r_state p = RSReqDataDeleted \/ r_state p = RSDataDeleted) /\ r_status r = r_status p /\
  r_wf r = r_wf p /\ r_fid r = r_fid p /\ r_run r = r_run p /\ r_created r = r_created p /\ r_ver r = r_ver p + 1.
Proof.
  intros H Hr. destruct (store_some_facts _ _ _ H) as [F1 F2 F3 F4 F5 F6 F7 F8 F9 F10]. split; [|split; [|repeat split; assumption]].
  - destruct F7 as [E|[E1 [E2|E2]]]; rewrite Hr in *.
    + destruct (r_state p); cbn in E; try discriminate; auto.
    + congruence.
    + auto.
  - destruct F9 as [E|(_ & _ & [E|E] & _)]; [exact E|congruence|congruence].
Qed.

End Props.

(* ---------- C05: the publish invariant, of every reachable world ---------- *)
Section Publish.
Variable c : econfig.
Variable ops : list eop.
Hypothesis Hops : hist_ok ops.
Let w := fst (run_ops c ops).

Lemma final_WI : WI c w.
Proof. apply (run_ops_from_ok c ops Hops 0%nat w0 (w0_WI c)). Qed.

Lemma p_published_or_pending k r : nth_error (w_hist w) k = Some r ->
  In (route (N.of_nat k + 1)%N r) (w_outbox w) \/ published w r.
Proof. apply (wi_pub c w final_WI). Qed.

Lemma p_nothing_invented e : In e (w_log w) -> conn_topic (e_topic e) = false -> exists r, In r (w_hist w) /\ ev_of e (route 0%N r).
Proof. apply (wi_logh c w final_WI). Qed.

Lemma p_outbox_of_writes o : In o (w_outbox w) -> entry_at (w_hist w) o.
Proof. apply (wi_out c w final_WI). Qed.
End Publish.

Lemma store_one_entry c w r :
  w_hist (do_store c w r) = w_hist w ++ [stamp c w r] /\
  w_outbox (do_store c w r) = w_outbox w ++ [route (w_noid w) (stamp c w r)] /\
  lookup_run (do_store c w r) (r_run r) = (if existsb (fun x => N.eqb (r_run x) (r_run r)) (w_recs w) then lookup_run (do_store c w r) (r_run r) else lookup_run (do_store c w r) (r_run r)).
Proof. repeat split. destruct (existsb _ _); reflexivity. Qed.

(* ---------- C09: at most one unfinished run per foreign ID, in every reachable world ---------- *)
Lemma older_finished_in (recs : list record) : older_finished recs ->
  forall l1 a l2, recs = l1 ++ a :: l2 -> forall b, In b l2 -> r_fid b = r_fid a -> rs_finished (r_state a) = true.
Proof.
  induction recs as [|x recs IH]; intros Ho l1 a l2 E b Hb Hf; [destruct l1; discriminate|].
  destruct Ho as [Hx Hrest]. destruct l1 as [|y l1]; cbn in E; inversion E; subst.
  - apply Hx. apply existsb_exists. exists b. split; [exact Hb|now apply N.eqb_eq].
  - eapply IH; eauto.
Qed.

Theorem p_one_unfinished (c : econfig) (ops : list eop) : hist_ok ops ->
  forall l1 a l2 b, w_recs (fst (run_ops c ops)) = l1 ++ a :: l2 -> In b l2 -> r_fid b = r_fid a ->
  rs_finished (r_state a) = true.
Proof.
  intros H l1 a l2 b E Hb Hf. eapply older_finished_in; eauto. apply (wi_one c _ (final_WI c ops H)).
Qed.
