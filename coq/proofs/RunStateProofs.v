From WF Require Import model.Base model.RunState.

(* The controller accepts exactly the documented (state, operation) pairs; a rejected operation yields no record
   to store; an accepted one yields exactly: target state, reason, version + 1, everything else unchanged. *)
Lemma ctl_exact : forall r o reason,
  (exists r', ctl_update r (ctl_target o) reason = Some r') <-> ctl_documented (r_state r) o = true.
Proof.
  intros r o reason. unfold ctl_update.
  destruct (r_state r) eqn:E; destruct o; cbn; split; intro H; try discriminate; try (destruct H; discriminate); eauto.
Qed.

Lemma ctl_rejected_none : forall r o reason, ctl_documented (r_state r) o = false -> ctl_update r (ctl_target o) reason = None.
Proof.
  intros r o reason H. destruct (ctl_update r (ctl_target o) reason) eqn:E; [|reflexivity].
  assert (ctl_documented (r_state r) o = true) by (apply (ctl_exact r o reason); eauto). congruence.
Qed.

Lemma ctl_accepted_shape : forall r t reason r', ctl_update r t reason = Some r' ->
  r_state r' = t /\ r_ver r' = r_ver r + 1 /\ r_reason r' = reason /\ r_status r' = r_status r /\ r_obj r' = r_obj r /\
  r_wf r' = r_wf r /\ r_fid r' = r_fid r /\ r_run r' = r_run r /\ r_created r' = r_created r /\ rs_table (r_state r) t = true.
Proof.
  intros r t reason r' H. unfold ctl_update in H. destruct (rs_table (r_state r) t) eqn:E; [|discriminate].
  inversion H; subst; cbn. repeat split; reflexivity.
Qed.

(* out-of-range codes are never a source or a target of the table *)
Lemma table_code_range : forall a b, rs_table_code a b = true -> 1 <= a <= 7 /\ 1 <= b <= 7.
Proof.
  intros a b H. unfold rs_table_code in H.
  destruct (rs_of_code a) as [x|] eqn:Ea; [|discriminate]. destruct (rs_of_code b) as [y|] eqn:Eb; [|discriminate].
  assert (Ha : a = rs_code x).
  { unfold rs_of_code in Ea. repeat (destruct a as [|a|a]; try discriminate; try (inversion Ea; reflexivity)). }
  assert (Hb : b = rs_code y).
  { unfold rs_of_code in Eb. repeat (destruct b as [|b|b]; try discriminate; try (inversion Eb; reflexivity)). }
  subst. destruct x; destruct y; cbn in *; try discriminate; lia.
Qed.

(* finished states are closed under the table: from a finished state the controller only reaches finished states *)
Lemma table_finished_closed : forall a b, rs_finished a = true -> rs_table a b = true -> rs_finished b = true.
Proof. intros a b; destruct a; destruct b; cbn; congruence. Qed.

Lemma lc_finished_closed : forall a b, rs_finished a = true -> lc a b = true -> rs_finished b = true.
Proof. intros a b; destruct a; destruct b; cbn; congruence. Qed.

Lemma table_sub_lc : forall a b, rs_table a b = true -> lc a b = true.
Proof. intros a b H. unfold lc. now rewrite H. Qed.

Lemma finished_stopped_or_completed : forall s, rs_finished s = true -> rs_stopped s = true \/ s = RSCompleted.
Proof. destruct s; cbn; intro; try discriminate; auto. Qed.

(* DeleteData eligibility (C15) *)
Lemma delete_eligible : forall s, ctl_documented s OpDeleteData = true <-> (s = RSCompleted \/ s = RSCancelled \/ s = RSDataDeleted).
Proof. destruct s; cbn; split; intro H; try discriminate; auto; destruct H as [H|[H|H]]; discriminate. Qed.
