(* FaultFree.v — what handlers do in a fault-free state (empty fault plan, lease held, instance alive), for EVERY world:
   the "if" directions of the properties — a declared next status returned with a nil error IS persisted (C16), a
   deletion request IS served, also when it is delivered again (C15). *)
From WF Require Import model.Base model.RunState model.Routing model.Graph model.Counter model.Shard model.EngineBase
  model.Engine proofs.Hoare proofs.EngineInv proofs.RelayFacts proofs.Delivery.

Section FF.
Variable c : econfig.
Notation g := (ec_graph c).

(* a fault-free adapter call: takes effect, returns the success continuation, emits exactly its token, stays fault-free *)
Lemma prim_fft {A} k ctx T E (X : disp -> world -> M A) s :
  ff s -> exists s1, ff s1 /\ o_w s1 = E (o_w s) /\ o_trace s1 = T DoOk (o_w s) :: o_trace s /\
                     prim k ctx T E X s = X DoOk (o_w s) s1.
Proof.
  intros (Hp & Hl & Hd). destruct s as [w pl cn tr le de]. cbn in Hp, Hl, Hd. subst pl le de.
  unfold prim, bind, dispatch, next_fault, get_w, emit, put_w. cbn.
  destruct ctx; cbn; eexists; (split; [|split; [|split; [|reflexivity]]]); try (repeat split; reflexivity); reflexivity.
Qed.

Lemma p_lookup_ff run s : ff s ->
  exists s1, ff s1 /\ o_w s1 = o_w s /\ p_lookup run s = (Ok (lookup_run (o_w s) run), s1) /\
             o_trace s1 = TLookup KLK (Z.of_N run) (read_res DoOk (lookup_run (o_w s) run)) (read_out DoOk (lookup_run (o_w s) run)) :: o_trace s.
Proof.
  intros H. unfold p_lookup.
  match goal with |- context [prim ?k ?ctx ?T ?E ?X s] => destruct (prim_fft k ctx T E X s H) as (s1 & F1 & W1 & T1 & R1) end.
  exists s1. split; [exact F1|]. split; [exact W1|]. split; [rewrite R1; reflexivity|exact T1].
Qed.

Lemma p_store_ff r s : ff s ->
  exists s1, ff s1 /\ o_w s1 = do_store c (o_w s) r /\ p_store c r s = (Ok tt, s1) /\
             o_trace s1 = TStore (lookup_run (o_w s) (r_run r)) (stamp c (o_w s) r) ROk :: o_trace s.
Proof.
  intros H. unfold p_store.
  match goal with |- context [prim ?k ?ctx ?T ?E ?X s] => destruct (prim_fft k ctx T E X s H) as (s1 & F1 & W1 & T1 & R1) end.
  exists s1. split; [exact F1|]. split; [exact W1|]. split; [rewrite R1; reflexivity|exact T1].
Qed.

(* update.go newUpdater, fault-free: the run still has the status the function was invoked at and the destination is declared
   (a self-loop included) ==> the record is written: next status, Running or (terminal) Completed, the object the function left,
   version + 1; the write is the last-but-one token (after the updater's own lookup) *)
Theorem updater_ff cur next run l s :
  ff s -> lookup_run (o_w s) (r_run run) = Some l -> r_status l = cur -> validate_transition g cur next = true ->
  let upd := bump (mkRecord (r_wf run) (r_fid run) (r_run run) (if is_terminal g next then RSCompleted else RSRunning) next
                            (r_obj run) (r_created run) (w_now (o_w s)) (r_ver run) (r_reason run) next) in
  exists s', updater c cur next run s = (Ok tt, s') /\ ff s' /\ o_w s' = do_store c (o_w s) upd /\
             exists t0, o_trace s' = TStore (Some l) (stamp c (o_w s) upd) ROk :: t0 :: o_trace s.
Proof.
  intros H Hl Hs Hv upd. unfold updater. unfold bind at 1, get_w. cbn [fst snd].
  unfold bind at 1. destruct (p_lookup_ff (r_run run) s H) as (s1 & F1 & W1 & R1 & T1). rewrite R1, Hl.
  rewrite Hs, Z.eqb_refl. cbn [negb]. rewrite Hv. cbn [negb].
  destruct (p_store_ff upd s1 F1) as (s2 & F2 & W2 & R2 & T2).
  exists s2. split; [exact R2|]. split; [exact F2|]. split; [rewrite W2, W1; reflexivity|].
  assert (Hr : r_run upd = r_run run) by reflexivity.
  eexists. rewrite T2, W1, Hr, Hl, T1. reflexivity.
Qed.

(* delete.go runDelete, fault-free, default deletion (no custom function): WHATEVER state the run is in — in particular when
   the request is delivered again and the run is already DataDeleted — the run is rewritten as DataDeleted with the
   deletion marker and the handler returns nil (so the request is acknowledged and the consumer moves on) *)
Theorem delete_handler_ff_default e r s :
  ff s -> ec_del c = 0 -> lookup_run (o_w s) (e_run e) = Some r ->
  exists s', delete_handler c e s = (Ok tt, s') /\ ff s' /\
             o_w s' = do_store c (o_w s) (bump (set_state (set_obj r ODeleted) RSDataDeleted)).
Proof.
  intros H Hd Hl. unfold delete_handler. unfold bind at 1.
  destruct (p_lookup_ff (e_run e) s H) as (s1 & F1 & W1 & R1 & _). rewrite R1, Hl.
  rewrite Hd. cbn [Z.eqb]. unfold bind at 1, ret. cbn [fst snd].
  destruct (p_store_ff (bump (set_state (set_obj r ODeleted) RSDataDeleted)) s1 F1) as (s2 & F2 & W2 & R2 & _).
  exists s2. split; [exact R2|]. split; [exact F2|]. rewrite W2, W1. reflexivity.
Qed.

Lemma p_ack_ff u idx e s : ff s ->
  exists s1, ff s1 /\ o_w s1 = put_cursor (o_w s) u (S idx) /\ p_ack u idx e s = (Ok tt, s1) /\
             o_trace s1 = TAck e ROk :: o_trace s.
Proof.
  intros H. unfold p_ack.
  match goal with |- context [prim ?k ?ctx ?T ?E ?X s] => destruct (prim_fft k ctx T E X s H) as (s1 & F1 & W1 & T1 & R1) end.
  exists s1. split; [exact F1|]. split; [exact W1|]. split; [rewrite R1; reflexivity|exact T1].
Qed.

(* the whole iteration of the delete consumer on a request, fault-free, default deletion: the run is (re)written as DataDeleted,
   the request is acknowledged — the committed position moves past it — and the process stays in its consume loop *)
Theorem delete_iteration_ff idx e r s :
  ff s -> ec_del c = 0 -> lookup_run (o_w s) (e_run e) = Some r ->
  exists s', after_lag c 1 EDelete idx e s = (Ok PRun, s') /\ ff s' /\
             o_w s' = put_cursor (do_store c (o_w s) (bump (set_state (set_obj r ODeleted) RSDataDeleted))) EDelete (S idx).
Proof.
  intros H Hd Hl. unfold after_lag. cbn [unit_filter unit_handler].
  unfold bind at 1. unfold bind at 1.
  destruct (delete_handler_ff_default e r s H Hd Hl) as (s1 & R1 & F1 & W1). rewrite R1.
  destruct (p_ack_ff EDelete idx e s1 F1) as (s2 & F2 & W2 & R2 & _). rewrite R2.
  exists s2. split; [reflexivity|]. split; [exact F2|]. rewrite W2, W1. reflexivity.
Qed.

Lemma invoke_ret_ff u b status view seed tr mark z s :
  ff s -> r_obj view = OVal seed tr ->
  eval_beh b (att_get (w_att (o_w s)) (ufun_code u) (r_run view)) seed = (mark, ARet z) ->
  exists s1, invoke c u b status view s = (Ok (if mark then mark_obj (r_obj view) status else r_obj view, inl z, view), s1) /\ ff s1 /\
             w_recs (o_w s1) = w_recs (o_w s) /\ w_now (o_w s1) = w_now (o_w s).
Proof.
  intros (P & L & D) Ho Hb. unfold invoke. unfold bind at 1. unfold att_bump. cbn [fst snd].
  unfold bind at 1, get_w. cbn [fst snd o_w]. rewrite Ho. cbn [obj_seed]. rewrite Hb.
  unfold bind at 1. unfold emit. cbn [o_dead]. rewrite D. cbn [fst snd ret].
  eexists. split; [reflexivity|]. split; [repeat split; cbn; assumption|]. split; reflexivity.
Qed.

Lemma lookup_run_recs w w' run : w_recs w' = w_recs w -> lookup_run w' run = lookup_run w run.
Proof. intros E. unfold lookup_run. now rewrite E. Qed.

(* step.go stepConsumer on the event of the run's current version, fault-free: the step function returns a declared destination
   z (not a skip) ==> the handler returns nil and the run is written at z with the object the function left behind
   (marked or not), Running or (terminal) Completed, version + 1 *)
Theorem step_declared_status_persisted inst u st b n e r seed tr mark z s :
  ff s -> lookup_run (o_w s) (e_run e) = Some r -> r_run r = e_run e -> r_ver r = e_ver e -> rs_stopped (r_state r) = false ->
  r_obj r = OVal seed tr -> r_status r = st ->
  eval_beh b (att_get (w_att (o_w s)) (ufun_code (UFStep st)) (e_run e)) seed = (mark, ARet z) ->
  skip_status z = false -> validate_transition g st z = true ->
  exists s' w1, step_handler c inst u st (invoke c (UFStep st) b st) n e s = (Ok tt, s') /\ ff s' /\
    w_recs w1 = w_recs (o_w s) /\ w_now w1 = w_now (o_w s) /\
    o_w s' = do_store c w1
      (bump (mkRecord (r_wf r) (r_fid r) (r_run r) (if is_terminal g z then RSCompleted else RSRunning) z
                      (if mark then mark_obj (r_obj r) st else r_obj r) (r_created r) (w_now (o_w s)) (r_ver r) (r_reason r) z)).
Proof.
  intros H Hl Hrr Hv Hst Ho Hs Hb Hk Hval.
  unfold step_handler. unfold bind at 1.
  destruct (p_lookup_ff (e_run e) s H) as (s1 & F1 & W1 & R1 & _). rewrite R1, Hl.
  assert (E1 : (r_ver r >? e_ver e) = false) by (rewrite Z.gtb_ltb; apply Z.ltb_ge; lia). rewrite E1.
  assert (E2 : (r_ver r <? e_ver e) = false) by (apply Z.ltb_ge; lia). rewrite E2. rewrite Hst.
  unfold bind at 1. unfold build_run. rewrite Ho. cbn [ret fst snd].
  assert (Hpo : r_obj (promote r) = OVal seed tr) by (unfold promote; destruct (r_state r); cbn; exact Ho).
  assert (Hrun : r_run (promote r) = r_run r) by (unfold promote; destruct (r_state r); reflexivity).
  unfold bind at 1.
  destruct (invoke_ret_ff (UFStep st) b st (promote r) seed tr mark z s1 F1 Hpo) as (s2 & R2 & F2 & Wr2 & Wn2).
  { rewrite W1, Hrun, Hrr. exact Hb. }
  rewrite R2. rewrite Hk.
  assert (Hl2 : lookup_run (o_w s2) (r_run (set_obj (promote r) (if mark then mark_obj (r_obj (promote r)) st else r_obj (promote r)))) = Some r).
  { rewrite (lookup_run_recs (o_w s1) (o_w s2)) by exact Wr2. rewrite W1. cbn [set_obj r_run]. rewrite Hrun, Hrr. exact Hl. }
  destruct (updater_ff st z _ r s2 F2 Hl2 Hs Hval) as (s3 & R3 & F3 & W3 & _).
  rewrite R3. exists s3, (o_w s2). split; [reflexivity|]. split; [exact F3|].
  split; [rewrite Wr2, W1; reflexivity|]. split; [rewrite Wn2, W1; reflexivity|].
  rewrite W3. rewrite Wn2, W1.
  assert (Hp : forall o, set_obj (promote r) o = set_obj (promote r) o) by reflexivity.
  f_equal. f_equal. cbn [set_obj r_wf r_fid r_run r_obj r_created r_ver r_reason].
  rewrite Hpo. rewrite <- Ho.
  unfold promote. destruct (r_state r); cbn; rewrite ?Ho; reflexivity.
Qed.

(* hook.go runHook inside consume, fault-free: an event of the hook's own state (not filtered) whose hook no longer fails is
   handled — the hook is invoked on the looked-up run and returns nil (or the run's data was deleted: nothing to call) — and
   acknowledged: the committed position of the hook consumer moves past it *)
Theorem hook_iteration_ff inst st idx e r s :
  let k := match find_first (fun h => rs_eqb (fst h) st) (ec_hooks c) with Some h => snd h | None => O end in
  ff s -> unit_filter (EHook st) e = false -> lookup_run (o_w s) (e_run e) = Some r ->
  (hook_fails k <= att_get (w_att (o_w s)) (ufun_code (UFHook st)) (r_run r))%nat ->
  exists s', after_lag c inst (EHook st) idx e s = (Ok PRun, s') /\ ff s' /\
             get_cursor (o_w s') (EHook st) = S idx /\ w_recs (o_w s') = w_recs (o_w s) /\
             (r_obj r <> ODeleted ->
              exists t, o_trace s' = TAck e ROk :: TUser (UFHook st) r (Some r) (w_now (o_w s)) UOk :: t).
Proof.
  intros k H Hf Hl Hk. unfold after_lag. rewrite Hf. cbn [unit_handler]. fold k.
  unfold bind at 1. unfold bind at 1. unfold hook_handler. unfold bind at 1.
  destruct (p_lookup_ff (e_run e) s H) as (s1 & F1 & W1 & R1 & T1). rewrite R1, Hl.
  destruct (r_obj r) eqn:Ho.
  - unfold bind at 1. unfold att_bump. cbn [fst snd]. unfold bind at 1, get_w. cbn [fst snd o_w].
    rewrite W1.
    assert (Hn : Nat.ltb (att_get (w_att (o_w s)) (ufun_code (UFHook st)) (r_run r)) (hook_fails k) = false) by (apply Nat.ltb_ge; exact Hk).
    rewrite Hn. unfold bind at 1. destruct F1 as (P1 & L1 & D1). unfold emit. cbn [o_dead]. rewrite D1. cbn [fst snd ret].
    match goal with |- context [p_ack ?u ?i ?ev ?st0] => destruct (p_ack_ff u i ev st0) as (s3 & F3 & W3 & R3 & T3); [repeat split; assumption|] end.
    rewrite R3. exists s3. split; [reflexivity|]. split; [exact F3|]. rewrite W3. cbn [o_w].
    split; [apply get_put_cursor_same|].
    split; [reflexivity|]. intros _. eexists. rewrite T3. cbn [o_trace]. rewrite T1.
    assert (Hlr : lookup_run (set_att (o_w s) ((ufun_code (UFHook st), r_run r, S (att_get (w_att (o_w s)) (ufun_code (UFHook st)) (r_run r))) :: w_att (o_w s))) (r_run r) = Some r).
    { unfold lookup_run. cbn. unfold lookup_run in Hl.
      pose proof Hl as Hl'. apply find_first_some in Hl'. destruct Hl' as (_ & Hrr). apply N.eqb_eq in Hrr. rewrite Hrr. exact Hl. }
    rewrite Hlr. reflexivity.
  - cbn [ret fst snd].
    destruct (p_ack_ff (EHook st) idx e s1 F1) as (s3 & F3 & W3 & R3 & T3). rewrite R3.
    exists s3. split; [reflexivity|]. split; [exact F3|]. rewrite W3, W1.
    split; [apply get_put_cursor_same|]. split; [reflexivity|]. intros Hc. congruence.
Qed.

End FF.
