(* FaultFree.v — what handlers do in a fault-free state (empty fault plan, lease held, instance alive), for EVERY world:
   the "if" directions of the properties — a declared next status returned with a nil error IS persisted (C16), a
   deletion request IS served, also when it is delivered again (C15). *)
From WF Require Import model.Base model.RunState model.Routing model.Graph model.Counter model.Shard model.EngineBase
  model.Engine proofs.Hoare proofs.RelayFacts.

Section FF.
Variable c : econfig.
Notation g := (ec_graph c).

(* a fault-free adapter call: takes effect, returns the success continuation, emits exactly its token, stays fault-free *)
Lemma prim_fft {A} k ctx T E (X : disp -> world -> M A) s :
  ff s -> exists s1, ff s1 /\ o_w s1 = E (o_w s) /\ o_trace s1 = T DoOk (o_w s) :: o_trace s /\
                     prim k ctx T E X s = X DoOk (o_w s) s1.
Proof.
  intros (Hp & Hl & Hd). destruct s as [w pl cn tr le de]. cbn in Hp, Hl, Hd. subst pl le de.
  unfold prim, bind, dispatch, next_fault, get_w, emit, put_w. cbn.
  destruct ctx; cbn; eexists; (split; [|split; [|split; [|reflexivity]]]); try (repeat split; reflexivity); reflexivity.
Qed.

Lemma p_lookup_ff run s : ff s ->
  exists s1, ff s1 /\ o_w s1 = o_w s /\ p_lookup run s = (Ok (lookup_run (o_w s) run), s1) /\
             o_trace s1 = TLookup KLK (Z.of_N run) (read_res DoOk (lookup_run (o_w s) run)) (read_out DoOk (lookup_run (o_w s) run)) :: o_trace s.
Proof.
  intros H. unfold p_lookup.
  match goal with |- context [prim ?k ?ctx ?T ?E ?X s] => destruct (prim_fft k ctx T E X s H) as (s1 & F1 & W1 & T1 & R1) end.
  exists s1. split; [exact F1|]. split; [exact W1|]. split; [rewrite R1; reflexivity|exact T1].
Qed.

Lemma p_store_ff r s : ff s ->
  exists s1, ff s1 /\ o_w s1 = do_store c (o_w s) r /\ p_store c r s = (Ok tt, s1) /\
             o_trace s1 = TStore (lookup_run (o_w s) (r_run r)) (stamp c (o_w s) r) ROk :: o_trace s.
Proof.
  intros H. unfold p_store.
  match goal with |- context [prim ?k ?ctx ?T ?E ?X s] => destruct (prim_fft k ctx T E X s H) as (s1 & F1 & W1 & T1 & R1) end.
  exists s1. split; [exact F1|]. split; [exact W1|]. split; [rewrite R1; reflexivity|exact T1].
Qed.

(* update.go newUpdater, fault-free: the run still has the status the function was invoked at and the destination is declared
   (a self-loop included) ==> the record is written: next status, Running or (terminal) Completed, the object the function left,
   version + 1; the write is the last-but-one token (after the updater's own lookup) *)
Theorem updater_ff cur next run l s :
  ff s -> lookup_run (o_w s) (r_run run) = Some l -> r_status l = cur -> validate_transition g cur next = true ->
  let upd := bump (mkRecord (r_wf run) (r_fid run) (r_run run) (if is_terminal g next then RSCompleted else RSRunning) next
                            (r_obj run) (r_created run) (w_now (o_w s)) (r_ver run) (r_reason run) next) in
  exists s', updater c cur next run s = (Ok tt, s') /\ ff s' /\ o_w s' = do_store c (o_w s) upd /\
             exists t0, o_trace s' = TStore (Some l) (stamp c (o_w s) upd) ROk :: t0 :: o_trace s.
Proof.
  intros H Hl Hs Hv upd. unfold updater. unfold bind at 1, get_w. cbn [fst snd].
  unfold bind at 1. destruct (p_lookup_ff (r_run run) s H) as (s1 & F1 & W1 & R1 & T1). rewrite R1, Hl.
  rewrite Hs, Z.eqb_refl. cbn [negb]. rewrite Hv. cbn [negb].
  destruct (p_store_ff upd s1 F1) as (s2 & F2 & W2 & R2 & T2).
  exists s2. split; [exact R2|]. split; [exact F2|]. split; [rewrite W2, W1; reflexivity|].
  assert (Hr : r_run upd = r_run run) by reflexivity.
  eexists. rewrite T2, W1, Hr, Hl, T1. reflexivity.
Qed.

(* delete.go runDelete, fault-free, default deletion (no custom function): WHATEVER state the run is in — in particular when
   the request is delivered again and the run is already DataDeleted — the run is rewritten as DataDeleted with the
   deletion marker and the handler returns nil (so the request is acknowledged and the consumer moves on) *)
Theorem delete_handler_ff_default e r s :
  ff s -> ec_del c = 0 -> lookup_run (o_w s) (e_run e) = Some r ->
  exists s', delete_handler c e s = (Ok tt, s') /\ ff s' /\
             o_w s' = do_store c (o_w s) (bump (set_state (set_obj r ODeleted) RSDataDeleted)).
Proof.
  intros H Hd Hl. unfold delete_handler. unfold bind at 1.
  destruct (p_lookup_ff (e_run e) s H) as (s1 & F1 & W1 & R1 & _). rewrite R1, Hl.
  rewrite Hd. cbn [Z.eqb]. unfold bind at 1, ret. cbn [fst snd].
  destruct (p_store_ff (bump (set_state (set_obj r ODeleted) RSDataDeleted)) s1 F1) as (s2 & F2 & W2 & R2 & _).
  exists s2. split; [exact R2|]. split; [exact F2|]. rewrite W2, W1. reflexivity.
Qed.

End FF.
