(* CtrFacts.v — pause.go / internal/errorcounter inside the engine, for EVERY state: the error counters are touched by
   maybePause only, and a handler of process (inst, u) working on an event of run r changes at most the counter entries of
   instance inst whose key names process u and run r. Failures of other runs, other processes and other instances never
   move a count. *)
From WF Require Import model.Base model.RunState model.Routing model.Graph model.Counter model.Shard model.EngineBase model.Engine
  proofs.CounterProofs proofs.Hoare proofs.EngineInv proofs.Frame proofs.Delivery.

Definition nc {A} (m : M A) : Prop := forall s, w_ctrs (o_w (snd (m s))) = w_ctrs (o_w s).

Lemma nc_ret {A} (a : A) : nc (ret a). Proof. intros s. reflexivity. Qed.
Lemma nc_fail {A} e : nc (@fail A e). Proof. intros s. reflexivity. Qed.
Lemma nc_bind {A B} (m : M A) (f : A -> M B) : nc m -> (forall a, nc (f a)) -> nc (bind m f).
Proof. intros Hm Hf s. unfold bind. specialize (Hm s). destruct (m s) as [[a|e] s1]; cbn in *; [|exact Hm]. rewrite Hf. exact Hm. Qed.
Lemma nc_catch {A} (m : M A) : nc m -> nc (catch m).
Proof. intros Hm s. unfold catch. specialize (Hm s). destruct (m s) as [[a|e] s1]; exact Hm. Qed.
Lemma nc_emit t : nc (emit t).
Proof. intros s. destruct (emit_spec2 t s) as (_ & E & _). now rewrite E. Qed.
Lemma nc_get_w : nc get_w. Proof. intros s. reflexivity. Qed.
Lemma nc_disp_ret {A} d (a : A) : nc (disp_ret d a). Proof. destruct d; cbn; try apply nc_ret; apply nc_fail. Qed.
Lemma nc_att_bump code run : nc (att_bump code run). Proof. intros s. reflexivity. Qed.
Lemma nc_prim {A} k ctx T E (X : disp -> world -> M A) :
  (forall w, w_ctrs (E w) = w_ctrs w) -> (forall d w, nc (X d w)) -> nc (prim k ctx T E X).
Proof.
  intros HE HX s. destruct (prim_spec2 k ctx T E X s) as (d & s1 & W & _ & _ & _ & _ & R). rewrite R, HX, W.
  destruct (disp_effect d); [apply HE|reflexivity].
Qed.
Lemma nc_prim_ret {A} k ctx T E (a : disp -> world -> A) :
  (forall w, w_ctrs (E w) = w_ctrs w) -> nc (prim k ctx T E (fun d w => disp_ret d (a d w))).
Proof. intros HE. apply nc_prim; [exact HE|intros; apply nc_disp_ret]. Qed.

Section Ctr.
Variable c : econfig.

Lemma nc_p_lookup run : nc (p_lookup run).
Proof. unfold p_lookup. apply nc_prim; [reflexivity|intros; apply nc_disp_ret]. Qed.
Lemma nc_p_store r : nc (p_store c r).
Proof. unfold p_store. apply nc_prim; [reflexivity|intros; apply nc_disp_ret]. Qed.
Lemma nc_ctl_do ctl target reason : nc (ctl_do c ctl target reason).
Proof.
  unfold ctl_do. destruct (ctl_update ctl target reason); [|apply nc_ret].
  apply nc_bind; [apply nc_catch, nc_p_store|intros; apply nc_ret].
Qed.
Lemma nc_updater cur next run : nc (updater c cur next run).
Proof.
  unfold updater. apply nc_bind; [apply nc_get_w|]. intros w. apply nc_bind; [apply nc_p_lookup|]. intros [l|]; [|apply nc_fail].
  destruct (negb _); [apply nc_ret|]. destruct (negb _); [apply nc_fail|apply nc_p_store].
Qed.
Lemma nc_invoke u b status view : nc (invoke c u b status view).
Proof.
  unfold invoke. apply nc_bind; [apply nc_att_bump|]. intros n. apply nc_bind; [apply nc_get_w|]. intros w.
  destruct (eval_beh b n (obj_seed (r_obj view))) as [mark act]. apply nc_bind; [apply nc_emit|]. intros _.
  destruct act; try apply nc_ret; (apply nc_bind; [apply nc_ctl_do|intros; apply nc_ret]).
Qed.
Lemma nc_inserter_fn st tos : forall j view, nc (inserter_fn st tos j view).
Proof.
  induction tos as [|t tl IH]; intros j view; cbn [inserter_fn]; [apply nc_ret|].
  destruct (negb _); [apply IH|]. apply nc_bind; [apply nc_get_w|]. intros w.
  destruct (to_dur t =? -2); [apply nc_bind; [apply nc_emit|intros _; apply nc_ret]|].
  apply nc_bind; [apply nc_emit|]. intros _.
  destruct (if to_dur t <? 0 then None else Some (w_now w + to_dur t)); [|apply IH].
  apply nc_bind; [apply nc_catch; unfold p_tcreate; apply nc_prim_ret; reflexivity|]. intros [|]; [apply IH|apply nc_ret].
Qed.
Lemma nc_build_run r : nc (build_run r).
Proof. unfold build_run. destruct (r_obj r); [apply nc_ret|apply nc_fail]. Qed.

(* the counters of instance [inst] agree outside the one key, and all other instances' counters are untouched *)
Definition only_key (inst : Z) (k : ckey) (w w' : world) : Prop :=
  forall i k', (i <> inst \/ k' <> k) -> c_get (ctr_of (w_ctrs w') i) k' = c_get (ctr_of (w_ctrs w) i) k'.

Lemma ctr_of_put_same l inst cn : ctr_of (ctr_put l inst cn) inst = cn.
Proof. unfold ctr_put. cbn. now rewrite Z.eqb_refl. Qed.
Lemma ctr_of_put_other l inst cn i : i <> inst -> ctr_of (ctr_put l inst cn) i = ctr_of l i.
Proof.
  intros Hne. unfold ctr_put. cbn. destruct (Z.eqb_spec inst i) as [E|E]; [congruence|].
  induction l as [|[j cj] t IH]; cbn; [reflexivity|].
  destruct (Z.eqb_spec j inst) as [E1|E1]; cbn.
  - subst j. destruct (Z.eqb_spec inst i); [congruence|exact IH].
  - destruct (Z.eqb j i); [reflexivity|exact IH].
Qed.

Lemma only_key_refl inst k w : only_key inst k w w.
Proof. intros i k' _. reflexivity. Qed.
Lemma only_key_trans inst k w1 w2 w3 : only_key inst k w1 w2 -> only_key inst k w2 w3 -> only_key inst k w1 w3.
Proof. intros H1 H2 i k' H. rewrite (H2 i k' H). apply H1, H. Qed.
Lemma only_key_eq inst k w w' : w_ctrs w' = w_ctrs w -> only_key inst k w w'.
Proof. intros E i k' _. now rewrite E. Qed.

Lemma set_ctrs_only_key inst k w cn :
  (forall k', k' <> k -> c_get cn k' = c_get (ctr_of (w_ctrs w) inst) k') ->
  only_key inst k w (set_ctrs w (ctr_put (w_ctrs w) inst cn)).
Proof.
  intros H i k' Hik. unfold set_ctrs. cbn [w_ctrs]. destruct (Z.eq_dec i inst) as [->|Hne].
  - rewrite ctr_of_put_same. destruct Hik as [Hi|Hk]; [congruence|]. apply H, Hk.
  - now rewrite ctr_of_put_other.
Qed.

(* pause.go maybePause: only the entry (inst, (error, process, run)) *)
Lemma maybe_pause_only_key inst n e u ctl s :
  only_key inst (Z.to_N e, eunit_code u, r_run ctl) (o_w s) (o_w (snd (maybe_pause c inst n e u ctl s))).
Proof.
  set (k := (Z.to_N e, eunit_code u, r_run ctl)). unfold maybe_pause. fold k. destruct (n =? 0); [apply only_key_refl|].
  unfold bind at 1. unfold ctr_add at 1.
  destruct (c_add (ctr_of (w_ctrs (o_w s)) inst) k) as [c' cnt] eqn:Ea. cbn [fst snd].
  assert (H1 : only_key inst k (o_w s) (set_ctrs (o_w s) (ctr_put (w_ctrs (o_w s)) inst c'))).
  { apply set_ctrs_only_key. intros k' Hk. unfold c_add in Ea. inversion Ea; subst. apply c_get_set_other. congruence. }
  destruct (Z.of_nat cnt <? n); [exact H1|].
  unfold bind at 1.
  match goal with |- context [ctl_do c ctl RSPaused 2 ?sx] => set (s1 := sx); pose proof (nc_ctl_do ctl RSPaused 2 s1) as N1 end.
  destruct (ctl_do c ctl RSPaused 2 s1) as [[x|er] s2]; cbn [snd] in *.
  2:{ eapply only_key_trans; [exact H1|apply only_key_eq; exact N1]. }
  destruct (fst x).
  - unfold bind, ctr_clear. cbn [fst snd]. eapply only_key_trans; [exact H1|].
    eapply only_key_trans; [apply only_key_eq; exact N1|].
    apply set_ctrs_only_key. intros k' Hk. unfold c_clear. apply c_get_set_other. congruence.
  - eapply only_key_trans; [exact H1|apply only_key_eq; exact N1].
Qed.

(* the consumers: a handler of process (inst, u) on event e moves only counts of instance inst, process u, run (e_run e) *)
Definition own (inst : Z) (u : eunit) (run : N) (w w' : world) : Prop :=
  forall i k, (i <> inst \/ snd (fst k) <> eunit_code u \/ snd k <> run) ->
              c_get (ctr_of (w_ctrs w') i) k = c_get (ctr_of (w_ctrs w) i) k.

Lemma own_of_only_key inst u run e w w' : only_key inst (Z.to_N e, eunit_code u, run) w w' -> own inst u run w w'.
Proof.
  intros H i k Hk. apply H. destruct Hk as [Hk|[Hk|Hk]]; [now left|right|right]; intros ->; cbn in Hk; congruence.
Qed.
Lemma own_eq inst u run w w' : w_ctrs w' = w_ctrs w -> own inst u run w w'.
Proof. intros E i k _. now rewrite E. Qed.
Lemma own_trans inst u run w1 w2 w3 : own inst u run w1 w2 -> own inst u run w2 w3 -> own inst u run w1 w3.
Proof. intros H1 H2 i k H. rewrite (H2 i k H). apply H1, H. Qed.

Definition keeps_run (fn : record -> M (obj * (Z + err) * record)) : Prop :=
  forall view s obj' oc ctl s', fn view s = (Ok (obj', oc, ctl), s') -> r_run ctl = r_run view.

Lemma invoke_keeps_run u b st : keeps_run (invoke c u b st).
Proof. intros view s obj' oc ctl s' H. apply (invoke_wit c _ _ _ _ _ _ _ _ _ H). Qed.

Lemma inserter_keeps_run st tos : forall j, keeps_run (inserter_fn st tos j).
Proof.
  induction tos as [|t tl IH]; intros j view s obj' oc ctl s' H; cbn [inserter_fn] in H.
  - unfold ret in H. inversion H. reflexivity.
  - destruct (negb _); [eapply IH; eauto|]. unfold bind at 1, get_w in H. cbn [fst snd] in H.
    destruct (to_dur t =? -2).
    { unfold bind at 1 in H. destruct (emit _ s) as [[[]|er] s1]; [|inversion H]. unfold ret in H. inversion H. reflexivity. }
    unfold bind at 1 in H.
    destruct (emit _ s) as [[[]|er] s1]; [|inversion H].
    destruct (if to_dur t <? 0 then None else Some (w_now (o_w s) + to_dur t)); [|eapply IH; eauto].
    unfold bind at 1 in H. destruct (catch _ s1) as [[[uu|ee]|er] s2]; try (inversion H; fail).
    + eapply IH; eauto.
    + unfold ret in H. inversion H. reflexivity.
Qed.

Theorem step_handler_own inst u st fn n e s :
  (forall v, nc (fn v)) -> keeps_run fn ->
  own inst u (e_run e) (o_w s) (o_w (snd (step_handler c inst u st fn n e s))).
Proof.
  intros Hnc Hkr. unfold step_handler. unfold bind at 1.
  pose proof (nc_p_lookup (e_run e) s) as N1. destruct (p_lookup (e_run e) s) as [[ro|er] s1] eqn:E1; cbn [snd] in *; [|apply own_eq, N1].
  destruct (p_lookup_tok' _ _ _ _ E1) as (_ & R1 & _).
  destruct ro as [r|]; [|apply own_eq, N1]. specialize (R1 r eq_refl).
  destruct (r_ver r >? e_ver e); [apply own_eq, N1|]. destruct (r_ver r <? e_ver e); [apply own_eq, N1|].
  destruct (rs_stopped (r_state r)); [apply own_eq, N1|].
  unfold bind at 1. unfold build_run. destruct (r_obj r) as [seed tr|]; [|apply own_eq, N1]. cbn [ret fst snd].
  unfold bind at 1. pose proof (Hnc (promote r) s1) as N2.
  destruct (fn (promote r) s1) as [[[[obj' oc] ctl]|er] s2] eqn:E2; cbn [snd] in *; [|apply own_eq; congruence].
  pose proof (Hkr _ _ _ _ _ _ E2) as Hr. rewrite promote_run, R1 in Hr.
  destruct oc as [z|oe].
  - destruct (skip_status z); [apply own_eq; unfold ret; cbn [snd]; congruence|].
    pose proof (nc_updater st z (set_obj (promote r) obj') s2) as N3. apply own_eq. congruence.
  - unfold bind at 1. pose proof (maybe_pause_only_key inst n oe u ctl s2) as Hp. rewrite Hr in Hp.
    assert (G : own inst u (e_run e) (o_w s) (o_w (snd (maybe_pause c inst n oe u ctl s2)))).
    { apply (own_trans _ _ _ _ (o_w s2)); [apply own_eq; congruence|]. apply (own_of_only_key _ _ _ _ _ _ Hp). }
    destruct (maybe_pause c inst n oe u ctl s2) as [[paused|er] s3]; cbn [snd] in *; [|exact G].
    destruct paused; exact G.
Qed.

(* the poller: only counts of its own process (of any run whose timer it handles) *)
Definition own_proc (inst : Z) (u : eunit) (w w' : world) : Prop :=
  forall i k, (i <> inst \/ snd (fst k) <> eunit_code u) -> c_get (ctr_of (w_ctrs w') i) k = c_get (ctr_of (w_ctrs w) i) k.
Lemma own_proc_eq inst u w w' : w_ctrs w' = w_ctrs w -> own_proc inst u w w'.
Proof. intros E i k _. now rewrite E. Qed.
Lemma own_proc_trans inst u w1 w2 w3 : own_proc inst u w1 w2 -> own_proc inst u w2 w3 -> own_proc inst u w1 w3.
Proof. intros H1 H2 i k H. rewrite (H2 i k H). apply H1, H. Qed.
Lemma own_proc_of_only_key inst u run e w w' : only_key inst (Z.to_N e, eunit_code u, run) w w' -> own_proc inst u w w'.
Proof. intros H i k Hk. apply H. destruct Hk as [Hk|Hk]; [now left|right]; intros ->; cbn in Hk; congruence. Qed.

Lemma nc_p_tcancel id : nc (p_tcancel id).
Proof. unfold p_tcancel. apply nc_prim; [reflexivity|intros; apply nc_disp_ret]. Qed.
Lemma nc_p_tcomplete id : nc (p_tcomplete id).
Proof. unfold p_tcomplete. apply nc_prim; [reflexivity|intros; apply nc_disp_ret]. Qed.

Theorem process_timeouts_own inst u st n t tos : forall j s,
  own_proc inst u (o_w s) (o_w (snd (process_timeouts c inst u st n tos j t s))).
Proof.
  induction tos as [|tc tl IH]; intros j s; cbn [process_timeouts]; [apply own_proc_eq; reflexivity|].
  destruct (negb (to_status tc =? st)); [apply IH|].
  unfold bind at 1. pose proof (nc_p_lookup (t_run t) s) as N1.
  destruct (p_lookup (t_run t) s) as [[[r|]|er] s1]; cbn [snd] in *; try (apply own_proc_eq; exact N1).
  destruct (negb (r_status r =? st) || rs_finished (r_state r)).
  { apply own_proc_eq. rewrite (nc_p_tcancel (t_id t) s1). exact N1. }
  destruct (rs_stopped (r_state r)); [apply own_proc_eq; exact N1|].
  unfold bind at 1. unfold build_run. destruct (r_obj r) as [seed tr|]; [|apply own_proc_eq; exact N1]. cbn [ret fst snd].
  unfold bind at 1. pose proof (nc_invoke (UFTimeout st j) (to_beh tc) st (promote r) s1) as N2.
  destruct (invoke c (UFTimeout st j) (to_beh tc) st (promote r) s1) as [[[[obj' oc] ctl]|er] s2]; cbn [snd] in *; [|apply own_proc_eq; congruence].
  unfold bind at 1.
  assert (Hmid : own_proc inst u (o_w s2) (o_w (snd ((match oc with
      | inr oe => maybe_pause c inst n oe u ctl ;;; ret tt
      | inl z => if skip_status z then ret tt else updater c (t_status t) z (set_obj (promote r) obj') ;;; p_tcomplete (t_id t)
      end) s2)))).
  { destruct oc as [z|oe].
    - destruct (skip_status z); [apply own_proc_eq; reflexivity|]. apply own_proc_eq.
      apply (nc_bind _ _ (nc_updater _ _ _) (fun _ => nc_p_tcomplete _)).
    - unfold bind at 1. pose proof (maybe_pause_only_key inst n oe u ctl s2) as Hp. apply own_proc_of_only_key in Hp.
      destruct (maybe_pause c inst n oe u ctl s2) as [[paused|er] s3]; cbn [snd] in *; exact Hp. }
  match goal with |- context [match ?m s2 with _ => _ end] => destruct (m s2) as [[[]|er] sm] end; cbn [snd] in *.
  - apply (own_proc_trans _ _ _ (o_w sm)); [|apply IH]. apply (own_proc_trans _ _ _ (o_w s2)); [apply own_proc_eq; congruence|exact Hmid].
  - apply (own_proc_trans _ _ _ (o_w s2)); [apply own_proc_eq; congruence|exact Hmid].
Qed.

Theorem poll_timers_own inst u st n l : forall s, own_proc inst u (o_w s) (o_w (snd (poll_timers c inst u st n l s))).
Proof.
  induction l as [|t tl IH]; intros s; cbn [poll_timers]; [apply own_proc_eq; reflexivity|].
  unfold bind. pose proof (process_timeouts_own inst u st n t (ec_tos c) 0%nat s) as H1.
  destruct (process_timeouts c inst u st n (ec_tos c) 0 t s) as [[[]|e] s1]; cbn [snd] in *; [|exact H1].
  apply (own_proc_trans _ _ _ (o_w s1)); [exact H1|apply IH].
Qed.

End Ctr.
