(* CtrHistory.v — the error counters over whole operations and histories.
   (1) run_op_counters: for EVERY world and operation, a count of instance i under key k changes only in a scheduling step of
       the very process the key names on instance i, or vanishes with a crash of instance i. Together with the handler-level
       facts of CtrFacts.v (within such a step only the run being handled) nothing else ever moves a count.
   (2) exactly_nth: along any chain of failing invocations of one (error, process, run) between which the key's count is
       preserved (which (1) guarantees for everything else that happens), starting from a count of 0, the first n-1 do not
       pause (no write, no token) and the n-th goes through the controller's pause; after a successful pause the count is 0. *)
From WF Require Import model.Base model.RunState model.Routing model.Graph model.Counter model.Shard model.EngineBase model.Engine
  proofs.CounterProofs proofs.Hoare proofs.EngineInv proofs.Frame proofs.Delivery proofs.HandlerFacts proofs.CtrFacts.
Open Scope list_scope.

(* ---------- more "does not touch the counters" facts ---------- *)
Lemma nc_lease_live : nc lease_live. Proof. intros s. reflexivity. Qed.
Lemma nc_put_w_eq w' : nc (fun s => put_w (set_ctrs w' (w_ctrs (o_w s))) s).
Proof. intros s. reflexivity. Qed.
Lemma nc_get_put (F : world -> world) : (forall w, w_ctrs (F w) = w_ctrs w) -> nc (w <- get_w ;; put_w (F w)).
Proof. intros HF s. unfold bind, get_w, put_w. cbn. apply HF. Qed.
Lemma nc_get_put_k {A} (F : world -> world) (K : world -> M A) :
  (forall w, w_ctrs (F w) = w_ctrs w) -> (forall w, nc (K w)) -> nc (w <- get_w ;; put_w (F w) ;;; K w).
Proof. intros HF HK s. unfold bind at 1, get_w. cbn [fst snd]. unfold bind at 1, put_w. cbn [fst snd]. rewrite HK. cbn. apply HF. Qed.
Lemma nc_state_if {A} (b : ost -> bool) (m1 m2 : M A) : nc m1 -> nc m2 -> nc (fun s => if b s then m1 s else m2 s).
Proof. intros H1 H2 s. destruct (b s); [apply H1|apply H2]. Qed.
Lemma nc_p_call k ctx args eff out : (forall w, w_ctrs (eff w) = w_ctrs w) -> nc (p_call k ctx args eff out).
Proof. intros H. unfold p_call. apply nc_prim_ret. exact H. Qed.

Ltac nc_step :=
  first [ apply nc_ret | apply nc_fail | apply nc_get_w | apply nc_emit | apply nc_att_bump | apply nc_disp_ret | apply nc_lease_live
        | apply nc_p_lookup | apply nc_p_store | apply nc_ctl_do | apply nc_updater | apply nc_invoke | apply nc_build_run
        | apply nc_p_tcancel | apply nc_p_tcomplete | apply nc_inserter_fn
        | (apply nc_p_call; reflexivity) | (apply nc_prim_ret; reflexivity)
        | apply nc_catch | (apply nc_bind; [|intros]) ].
Ltac nc_auto := repeat nc_step.

Section H.
Variable c : econfig.

Lemma nc_m_release u inst : nc (m_release u inst).
Proof. unfold m_release. apply nc_get_put. reflexivity. Qed.
Lemma nc_m_acquire u inst : nc (m_acquire u inst).
Proof. unfold m_acquire. apply nc_get_put. reflexivity. Qed.
Lemma nc_p_latest fid : nc (p_latest fid).
Proof. unfold p_latest. apply nc_prim; [reflexivity|intros; apply nc_disp_ret]. Qed.
Lemma nc_p_ack u idx e : nc (p_ack u idx e).
Proof. unfold p_ack. apply nc_prim_ret. reflexivity. Qed.
Lemma nc_p_send o : nc (p_send o).
Proof. unfold p_send. apply nc_prim_ret. reflexivity. Qed.
Lemma nc_p_del_outbox id : nc (p_del_outbox id).
Proof. unfold p_del_outbox. apply nc_prim_ret. reflexivity. Qed.
Lemma nc_p_list_outbox l : nc (p_list_outbox l).
Proof. unfold p_list_outbox. apply nc_prim; [reflexivity|intros; apply nc_disp_ret]. Qed.
Lemma nc_p_list_valid st : nc (p_list_valid st).
Proof. unfold p_list_valid. apply nc_prim; [reflexivity|intros; apply nc_disp_ret]. Qed.

Lemma nc_relay_entries l : nc (relay_entries l).
Proof.
  induction l as [|o tl IH]; cbn [relay_entries]; [apply nc_ret|].
  apply nc_bind; [apply nc_p_call; reflexivity|]. intros _.
  apply nc_bind; [apply nc_catch, nc_p_send|]. intros r.
  apply nc_bind; [apply nc_catch, nc_p_call; reflexivity|]. intros x.
  destruct r; [|apply nc_fail]. destruct x; [|apply nc_fail].
  apply nc_bind; [apply nc_p_del_outbox|]. intros _. exact IH.
Qed.

Lemma nc_hook_handler st k e : nc (hook_handler st k e).
Proof.
  unfold hook_handler. apply nc_bind; [apply nc_p_lookup|]. intros [r|]; [|apply nc_fail].
  destruct (r_obj r); [|apply nc_ret]. nc_auto. destruct (Nat.ltb _ _); nc_auto.
Qed.
Lemma nc_delete_handler e : nc (delete_handler c e).
Proof.
  unfold delete_handler. apply nc_bind; [apply nc_p_lookup|]. intros [r|]; [|apply nc_fail].
  apply nc_bind; [|intros; apply nc_p_store].
  destruct (ec_del c =? 0); [apply nc_ret|]. destruct (r_obj r); [|apply nc_fail].
  nc_auto. destruct (_ <? _); nc_auto.
Qed.
Lemma nc_retry_handler e : nc (retry_handler c e).
Proof.
  unfold retry_handler. apply nc_bind; [apply nc_p_lookup|]. intros [r|]; [|apply nc_fail].
  destruct (negb _); [apply nc_ret|]. apply nc_bind; [apply nc_get_w|]. intros w.
  destruct (_ >? _); [apply nc_ret|]. apply nc_bind; [apply nc_ctl_do|]. intros x. destruct (fst x); nc_auto.
Qed.
Lemma nc_conn_handler cid k e : nc (conn_handler cid k e).
Proof. unfold conn_handler. nc_auto. destruct (Nat.ltb _ _); nc_auto. Qed.

Lemma nc_exit_err inst u close e : nc (exit_err c inst u close e).
Proof.
  unfold exit_err. apply nc_bind.
  { destruct close; nc_auto. }
  intros _. destruct (e =? ECancel).
  { apply nc_bind; [apply nc_m_release|]. intros; apply nc_ret. }
  apply nc_bind; [apply nc_get_w|]. intros w.
  apply nc_state_if.
  { apply nc_bind; [apply nc_emit|]. intros _. apply nc_bind; [apply nc_m_release|]. intros; apply nc_ret. }
  destruct (_ >? _).
  - apply nc_bind; [apply nc_emit|]. intros; apply nc_ret.
  - apply nc_bind; [apply nc_emit|]. intros _. apply nc_bind; [apply nc_m_release|]. intros; apply nc_ret.
Qed.

Lemma nc_api_trigger fid start seed : nc (api_trigger c fid start seed).
Proof.
  unfold api_trigger. destruct (if start =? 0 then _ else _) as [st0|]; [|apply nc_fail].
  destruct (negb _); [apply nc_fail|]. apply nc_bind; [apply nc_p_latest|]. intros lastr.
  match goal with |- nc (if ?b then _ else _) => destruct b end; [apply nc_fail|].
  apply (nc_get_put_k (fun w => set_nrun w (w_nrun w + 1)%N)); [reflexivity|]. intros w. apply nc_p_store.
Qed.

Lemma nc_sched_after_wait inst sc : nc (sched_after_wait c inst sc).
Proof.
  unfold sched_after_wait. apply nc_bind.
  { destruct (sd_filter sc =? 0); nc_auto. }
  intros ok. apply nc_bind.
  { destruct ok; [|apply nc_ret]. apply nc_bind; [apply nc_catch, nc_api_trigger|]. intros [|e]; [apply nc_ret|].
    destruct (e =? 3); nc_auto. }
  intros _. apply nc_bind; [apply nc_m_release|]. intros; apply nc_ret.
Qed.
Lemma nc_sched_body inst sc : nc (sched_body c inst sc).
Proof.
  unfold sched_body. apply nc_bind; [apply nc_p_latest|]. intros lat. apply nc_bind; [apply nc_get_w|]. intros w.
  match goal with |- nc (if ?b then _ else _) => destruct b end.
  - nc_auto.
  - apply nc_bind; [apply nc_emit|]. intros _. apply nc_sched_after_wait.
Qed.

(* ---------- the frame of a whole process step: only counts of instance inst whose key names process u ---------- *)
Definition opf (inst : Z) (u : eunit) {A} (m : M A) : Prop := forall s, own_proc inst u (o_w s) (o_w (snd (m s))).
Lemma opf_nc inst u {A} (m : M A) : nc m -> opf inst u m.
Proof. intros H s. apply own_proc_eq, H. Qed.
Lemma opf_bind inst u {A B} (m : M A) (f : A -> M B) : opf inst u m -> (forall a, opf inst u (f a)) -> opf inst u (bind m f).
Proof.
  intros Hm Hf s. unfold bind. specialize (Hm s). destruct (m s) as [[a|e] s1]; cbn [snd] in *; [|exact Hm].
  eapply own_proc_trans; [exact Hm|apply Hf].
Qed.
Lemma opf_guarded inst u close (m : M pstate) : opf inst u m -> opf inst u (guarded c inst u close m).
Proof.
  intros Hm s. unfold guarded. specialize (Hm s). destruct (m s) as [[ps|e] s1]; cbn [snd] in *; [exact Hm|].
  eapply own_proc_trans; [exact Hm|]. apply own_proc_eq, nc_exit_err.
Qed.

Lemma opf_own_run inst u run {A} (m : M A) : (forall s, own inst u run (o_w s) (o_w (snd (m s)))) -> opf inst u m.
Proof.
  intros H s i k Hk. apply (H s i k). destruct Hk as [Hk|Hk]; [now left|right; now left].
Qed.

Lemma opf_unit_handler inst u e : opf inst u (unit_handler c inst u e).
Proof.
  unfold unit_handler. destruct u as [|status i n|status|status|st| | |fid|cid i n]; try solve [apply opf_nc; apply nc_fail].
  - destruct (find_step c status) as [sc|]; [|apply opf_nc, nc_fail].
    apply (opf_own_run _ _ (e_run e)). intros s. apply step_handler_own; [intros; apply nc_invoke|apply invoke_keeps_run].
  - apply (opf_own_run _ _ (e_run e)). intros s. apply step_handler_own; [intros; apply nc_inserter_fn|apply inserter_keeps_run].
  - apply opf_nc, nc_hook_handler.
  - apply opf_nc, nc_delete_handler.
  - apply opf_nc, nc_retry_handler.
  - apply opf_nc, nc_conn_handler.
Qed.

Lemma opf_after_lag inst u idx e : opf inst u (after_lag c inst u idx e).
Proof.
  unfold after_lag. apply opf_bind; [|intros; apply opf_nc, nc_ret].
  destruct (unit_filter u e); [apply opf_nc, nc_p_ack|].
  apply opf_bind; [apply opf_unit_handler|]. intros _. apply opf_nc, nc_p_ack.
Qed.

Lemma opf_consume_iter inst u : opf inst u (consume_iter c inst u).
Proof.
  unfold consume_iter. apply opf_bind; [apply opf_nc, nc_get_w|]. intros w.
  apply opf_bind; [apply opf_nc, nc_lease_live|]. intros live.
  destruct (next_event _ _ _ _) as [[idx e]|].
  - apply opf_bind; [apply opf_nc; intros s; destruct (dispatch_spec2 KRV true s) as (d & _ & W & _); now rewrite W|].
    intros d. destruct d; try solve [apply opf_nc; nc_auto].
    + apply opf_bind; [apply opf_nc, nc_emit|]. intros _.
      match goal with |- opf _ _ (if ?b then _ else _) => destruct b end; [apply opf_nc; nc_auto|apply opf_after_lag].
    + apply opf_bind; [apply opf_nc, nc_emit|]. intros _.
      match goal with |- opf _ _ (if ?b then _ else _) => destruct b end; [apply opf_nc; nc_auto|apply opf_after_lag].
  - destruct live; [apply opf_nc; nc_auto|].
    apply opf_bind; [apply opf_nc; intros s; destruct (dispatch_spec2 KRV true s) as (d & _ & W & _); now rewrite W|].
    intros d. apply opf_nc. nc_auto.
Qed.

Lemma opf_poll_once inst u st : opf inst u (poll_once c inst u st).
Proof.
  unfold poll_once. apply opf_bind; [apply opf_nc, nc_p_list_valid|]. intros l.
  apply opf_bind; [intros s; apply poll_timers_own|]. intros; apply opf_nc, nc_ret.
Qed.

Lemma nc_dispatch k ctx : nc (dispatch k ctx).
Proof. intros s. destruct (dispatch_spec2 k ctx s) as (d & _ & W & _). now rewrite W. Qed.

Theorem opf_proc_op inst u ps : opf inst u (proc_op c inst u ps).
Proof.
  unfold proc_op. destruct ps as [| |idx e deadline|deadline|deadline].
  - apply opf_bind; [apply opf_nc, nc_get_w|]. intros w.
    destruct (role_holder w u); [apply opf_nc; nc_auto|].
    apply opf_bind; [apply opf_nc, nc_dispatch|]. intros d.
    assert (Hgo : opf inst u (emit (TCall KAW [] ROk []) ;;; m_acquire u inst ;;;
       match u with
       | EOutbox => guarded c inst u false (l <- p_list_outbox (ec_limit c) ;; relay_entries l ;;; m_release u inst ;;; ret PIdle)
       | EPoller s => guarded c inst u false (poll_once c inst u s)
       | ESched fid => match find_sched c fid with
                       | Some sc => guarded c inst u false (sched_body c inst sc)
                       | None => m_release u inst ;;; ret PIdle
                       end
       | _ => guarded c inst u false (p_call KNR true [] (fun w => w) (fun _ => []) ;;; ret PRun)
       end)).
    { apply opf_bind; [apply opf_nc, nc_emit|]. intros _. apply opf_bind; [apply opf_nc, nc_m_acquire|]. intros _.
      destruct u; try solve [apply opf_guarded, opf_nc; nc_auto].
      - apply opf_guarded, opf_nc. apply nc_bind; [apply nc_p_list_outbox|]. intros l.
        apply nc_bind; [apply nc_relay_entries|]. intros _. apply nc_bind; [apply nc_m_release|]. intros; apply nc_ret.
      - apply opf_guarded, opf_poll_once.
      - destruct (find_sched c fid) as [sc|].
        + apply opf_guarded, opf_nc, nc_sched_body.
        + apply opf_nc. apply nc_bind; [apply nc_m_release|]. intros; apply nc_ret. }
    destruct d; try exact Hgo; solve [apply opf_nc; nc_auto].
  - destruct u; try solve [apply opf_nc, nc_ret]; try solve [apply opf_guarded, opf_consume_iter].
    apply opf_guarded, opf_poll_once.
  - apply opf_bind; [apply opf_nc, nc_get_w|]. intros w. apply opf_bind; [apply opf_nc, nc_lease_live|]. intros live.
    destruct (negb live).
    + apply opf_bind; [apply opf_nc, nc_emit|]. intros _. apply opf_guarded, opf_nc, nc_fail.
    + destruct (_ >? _); [apply opf_nc; nc_auto|].
      apply opf_bind; [apply opf_nc, nc_emit|]. intros _. apply opf_guarded, opf_after_lag.
  - apply opf_bind; [apply opf_nc, nc_get_w|]. intros w. apply opf_bind; [apply opf_nc, nc_lease_live|]. intros live.
    apply opf_nc. destruct (negb live).
    + apply nc_bind; [apply nc_emit|]. intros _. apply nc_bind; [apply nc_m_release|]. intros; apply nc_ret.
    + destruct (_ >? _); [nc_auto|].
      apply nc_bind; [apply nc_emit|]. intros _. apply nc_bind; [apply nc_m_release|]. intros; apply nc_ret.
  - apply opf_bind; [apply opf_nc, nc_get_w|]. intros w. apply opf_bind; [apply opf_nc, nc_lease_live|]. intros live.
    destruct (negb live).
    + apply opf_bind; [apply opf_nc, nc_emit|]. intros _. apply opf_guarded, opf_nc, nc_fail.
    + destruct (_ >? _); [apply opf_nc; nc_auto|].
      apply opf_bind; [apply opf_nc, nc_emit|]. intros _.
      destruct u; try solve [apply opf_nc, nc_ret].
      destruct (find_sched c fid) as [sc|]; [|apply opf_nc, nc_ret].
      apply opf_guarded, opf_nc, nc_sched_after_wait.
Qed.

(* ---------- API calls never touch a counter ---------- *)
Lemma nc_api_callbacks fid status cbs : forall j, nc (api_callbacks c fid status cbs j).
Proof.
  induction cbs as [|cb tl IH]; intros j; cbn [api_callbacks]; [apply nc_ret|].
  destruct (negb _); [apply IH|]. apply nc_bind; [apply nc_p_latest|]. intros [wr|]; [|apply nc_fail].
  apply nc_bind; [|intros; apply IH].
  destruct (negb _); [apply nc_ret|]. destruct (rs_stopped _); [apply nc_ret|].
  apply nc_bind; [apply nc_build_run|]. intros view. apply nc_bind; [apply nc_invoke|]. intros [[obj' oc] ctl].
  destruct oc as [z|e]; [|apply nc_fail]. destruct (skip_status z); [apply nc_ret|apply nc_updater].
Qed.
Lemma nc_api_ctl run o : nc (api_ctl c run o).
Proof.
  unfold api_ctl. apply nc_bind; [apply nc_p_lookup|]. intros [r|]; [|apply nc_fail].
  apply nc_bind; [apply nc_ctl_do|]. intros x. destruct (fst x); nc_auto.
Qed.
Lemma run_api_ctrs w p (m : M unit) : nc m -> w_ctrs (fst (run_api w p m)) = w_ctrs w.
Proof.
  intros H. unfold run_api. specialize (H (mkOst w p [] [] true false)).
  destruct (m (mkOst w p [] [] true false)) as [[u|e] s]; cbn [fst snd] in *; exact H.
Qed.

Lemma crash_inst_ctr w inst i k :
  c_get (ctr_of (w_ctrs (crash_inst w inst)) i) k = if Z.eqb i inst then O else c_get (ctr_of (w_ctrs w) i) k.
Proof.
  unfold crash_inst. cbn. induction (w_ctrs w) as [|[j cn] t IH]; cbn.
  - destruct (Z.eqb i inst); reflexivity.
  - destruct (Z.eqb j inst) eqn:Ej; cbn.
    + rewrite IH. destruct (Z.eqb_spec i inst) as [->|Hn]; [reflexivity|].
      apply Z.eqb_eq in Ej. subst j. destruct (Z.eqb_spec inst i) as [E|_]; [congruence|reflexivity].
    + destruct (Z.eqb_spec j i) as [->|Hji].
      * rewrite Ej. reflexivity.
      * exact IH.
Qed.

(* (1) for EVERY world and operation: a count (instance i, key k) is unchanged, unless the operation is a scheduling step on
   instance i — and then either of the process the key names, or the instance crashed in it and the count is 0 — or a crash of
   instance i (count 0) *)
Theorem run_op_counters (w : world) (o : eop) (i : Z) (k : ckey) :
  let w' := fst (run_op c w o) in
  c_get (ctr_of (w_ctrs w') i) k = c_get (ctr_of (w_ctrs w) i) k \/
  (exists u p, o = OStep i u p /\ (snd (fst k) = eunit_code u \/ c_get (ctr_of (w_ctrs w') i) k = O)) \/
  (o = OCrash i /\ c_get (ctr_of (w_ctrs w') i) k = O).
Proof.
  destruct o as [fid start seed p|fid status p|run op ui p|d|inst u p|inst|inst fid valid|inst u|u pos|idx|cid id fid]; cbn [run_op].
  - left. now rewrite (run_api_ctrs w p _ (nc_api_trigger fid start seed)).
  - left. now rewrite (run_api_ctrs w p _ (nc_api_callbacks fid status (ec_cbs c) 0)).
  - left. pose proof (run_api_ctrs w p _ (nc_api_ctl run op)) as H. destruct (run_api w p (api_ctl c run op)) as [w' t]. exact (f_equal (fun l => c_get (ctr_of l i) k) H).
  - left. reflexivity.
  - set (w1 := set_lost w _).
    set (s0 := mkOst w1 p [] [] _ false).
    pose proof (opf_proc_op inst u (get_pstate w (inst, u)) s0) as Hf.
    assert (Hw1 : w_ctrs w1 = w_ctrs w) by reflexivity.
    destruct (proc_op c inst u (get_pstate w (inst, u)) s0) as [[ps'|e] s] eqn:E; cbn [fst snd] in *.
    + destruct (o_dead s) eqn:Hd; cbn [fst].
      * rewrite crash_inst_ctr. destruct (Z.eqb_spec i inst) as [->|Hn].
        -- right. left. exists u, p. split; [reflexivity|right; reflexivity].
        -- left. cbn. destruct (Z.eq_dec i inst) as [->|Hne]; [congruence|].
           change (w_ctrs (put_pstate (o_w s) (inst, u) ps')) with (w_ctrs (o_w s)).
           rewrite (Hf i k (or_introl Hne)). reflexivity.
      * change (w_ctrs (put_pstate (o_w s) (inst, u) ps')) with (w_ctrs (o_w s)).
        destruct (Z.eq_dec i inst) as [->|Hne].
        -- destruct (N.eq_dec (snd (fst k)) (eunit_code u)) as [Ek|Ek].
           ++ right. left. exists u, p. split; [reflexivity|left; exact Ek].
           ++ left. rewrite (Hf inst k (or_intror Ek)). reflexivity.
        -- left. rewrite (Hf i k (or_introl Hne)). reflexivity.
    + destruct (o_dead s) eqn:Hd; cbn [fst].
      * rewrite crash_inst_ctr. destruct (Z.eqb_spec i inst) as [->|Hn].
        -- right. left. exists u, p. split; [reflexivity|right; reflexivity].
        -- left. rewrite (Hf i k (or_introl Hn)). reflexivity.
      * destruct (Z.eq_dec i inst) as [->|Hne].
        -- destruct (N.eq_dec (snd (fst k)) (eunit_code u)) as [Ek|Ek].
           ++ right. left. exists u, p. split; [reflexivity|left; exact Ek].
           ++ left. rewrite (Hf inst k (or_intror Ek)). reflexivity.
        -- left. rewrite (Hf i k (or_introl Hne)). reflexivity.
  - cbn [fst]. rewrite crash_inst_ctr. destruct (Z.eqb_spec i inst) as [->|Hn]; [right; right; split; reflexivity|left; reflexivity].
  - left. reflexivity.
  - left. destruct (get_pstate w (inst, u)); reflexivity.
  - left. reflexivity.
  - left. cbn. destruct (nth_error _ _); reflexivity.
  - left. reflexivity.
Qed.

(* the same along every history: extending any history by one operation *)
Lemma run_ops_from_snoc_w ops : forall n w o,
  fst (run_ops_from c n w (ops ++ [o])) = fst (run_op c (fst (run_ops_from c n w ops)) o).
Proof.
  induction ops as [|a tl IH]; intros n w o; cbn [app run_ops_from].
  - cbn [fst]. destruct (run_op c w o) as [w1 t1]. reflexivity.
  - destruct (run_op c w a) as [w1 t1]. specialize (IH (S n) w1 o).
    destruct (run_ops_from c (S n) w1 (tl ++ [o])) as [w2 t2]. destruct (run_ops_from c (S n) w1 tl) as [w3 t3]. exact IH.
Qed.

Theorem history_counters (ops : list eop) (o : eop) (i : Z) (k : ckey) :
  let w := fst (run_ops c ops) in let w' := fst (run_ops c (ops ++ [o])) in
  c_get (ctr_of (w_ctrs w') i) k = c_get (ctr_of (w_ctrs w) i) k \/
  (exists u p, o = OStep i u p /\ (snd (fst k) = eunit_code u \/ c_get (ctr_of (w_ctrs w') i) k = O)) \/
  (o = OCrash i /\ c_get (ctr_of (w_ctrs w') i) k = O).
Proof. cbv zeta. unfold run_ops. rewrite run_ops_from_snoc_w. apply run_op_counters. Qed.

(* ---------- (2) exactly the n-th occurrence ---------- *)
Definition kcount (inst : Z) (k : ckey) (s : ost) : nat := c_get (ctr_of (w_ctrs (o_w s)) inst) k.

(* one failing invocation below the threshold: no pause, no write, no token; the count is one more *)
Lemma maybe_pause_below inst n e u ctl s :
  n <> 0 -> Z.of_nat (S (kcount inst (pause_key e u ctl) s)) < n ->
  exists s1, maybe_pause c inst n e u ctl s = (Ok false, s1) /\ kcount inst (pause_key e u ctl) s1 = S (kcount inst (pause_key e u ctl) s) /\
             w_recs (o_w s1) = w_recs (o_w s) /\ w_hist (o_w s1) = w_hist (o_w s) /\ o_trace s1 = o_trace s.
Proof.
  intros Hn Hlt. unfold maybe_pause. destruct (Z.eqb_spec n 0) as [->|_]; [congruence|].
  unfold bind at 1. unfold ctr_add. fold (pause_key e u ctl).
  destruct (c_add_spec (ctr_of (w_ctrs (o_w s)) inst) (pause_key e u ctl)) as (A1 & A2 & _).
  destruct (c_add (ctr_of (w_ctrs (o_w s)) inst) (pause_key e u ctl)) as [c' cnt] eqn:Ec. cbn [fst snd] in *.
  unfold kcount in *. rewrite A1.
  assert (Hb : (Z.of_nat (S (c_get (ctr_of (w_ctrs (o_w s)) inst) (pause_key e u ctl))) <? n) = true) by (apply Z.ltb_lt; exact Hlt).
  rewrite Hb. eexists. split; [reflexivity|]. cbn [snd o_w w_ctrs set_ctrs]. rewrite ctr_of_put_same. repeat split; try reflexivity. exact A2.
Qed.

(* the failing invocation that reaches the threshold goes through the controller's pause; when that succeeds the count is 0 *)
Lemma maybe_pause_at inst n e u ctl s :
  n <> 0 -> n <= Z.of_nat (S (kcount inst (pause_key e u ctl) s)) ->
  exists s1, w_recs (o_w s1) = w_recs (o_w s) /\ o_trace s1 = o_trace s /\
    maybe_pause c inst n e u ctl s =
    (x <- ctl_do c ctl RSPaused 2%N ;;
     match fst x with
     | Err _ => fail EGen
     | Ok _ => ctr_clear inst (pause_key e u ctl) ;;; ret true
     end) s1.
Proof.
  intros Hn Hge. unfold maybe_pause. destruct (Z.eqb_spec n 0) as [->|_]; [congruence|].
  unfold bind at 1. unfold ctr_add. fold (pause_key e u ctl).
  destruct (c_add_spec (ctr_of (w_ctrs (o_w s)) inst) (pause_key e u ctl)) as (A1 & _).
  destruct (c_add (ctr_of (w_ctrs (o_w s)) inst) (pause_key e u ctl)) as [c' cnt] eqn:Ec. cbn [fst snd] in *.
  unfold kcount in *. rewrite A1.
  assert (Hb : (Z.of_nat (S (c_get (ctr_of (w_ctrs (o_w s)) inst) (pause_key e u ctl))) <? n) = false) by (apply Z.ltb_ge; exact Hge).
  rewrite Hb. eexists. split; [|split; [|reflexivity]]; reflexivity.
Qed.

Lemma ctr_clear_zero inst k s : kcount inst k (snd (ctr_clear inst k s)) = O.
Proof. unfold kcount, ctr_clear. cbn [snd o_w w_ctrs set_ctrs]. rewrite ctr_of_put_same. apply (proj1 (c_clear_spec _ _)). Qed.

(* a chain of failing invocations of ONE (error, process, run): the states in which maybePause is entered, each one's count
   being what the previous invocation left (everything that happens in between preserves it — run_op_counters, step_handler_own) *)
Inductive fail_chain (inst : Z) (n : Z) (e : err) (u : eunit) (ctl : record) : nat -> list ost -> Prop :=
| fc_nil j : fail_chain inst n e u ctl j []
| fc_cons j s rest :
    kcount inst (pause_key e u ctl) s = j ->
    fail_chain inst n e u ctl (kcount inst (pause_key e u ctl) (snd (maybe_pause c inst n e u ctl s))) rest ->
    fail_chain inst n e u ctl j (s :: rest).

Theorem exactly_nth inst n e u ctl : n <> 0 -> forall ss j, fail_chain inst n e u ctl j ss ->
  forall t s, nth_error ss t = Some s ->
  (Z.of_nat (j + t + 1) < n ->
     kcount inst (pause_key e u ctl) s = (j + t)%nat /\
     exists s1, maybe_pause c inst n e u ctl s = (Ok false, s1) /\ w_recs (o_w s1) = w_recs (o_w s) /\
                w_hist (o_w s1) = w_hist (o_w s) /\ o_trace s1 = o_trace s) /\
  (Z.of_nat (j + t + 1) = n ->
     kcount inst (pause_key e u ctl) s = (j + t)%nat /\
     exists s1, w_recs (o_w s1) = w_recs (o_w s) /\ o_trace s1 = o_trace s /\
       maybe_pause c inst n e u ctl s =
       (x <- ctl_do c ctl RSPaused 2%N ;;
        match fst x with Err _ => fail EGen | Ok _ => ctr_clear inst (pause_key e u ctl) ;;; ret true end) s1).
Proof.
  intros Hn ss. induction ss as [|s0 rest IH]; intros j Hc t s Ht; [destruct t; discriminate|].
  inversion Hc as [|j' s' rest' Hj Hrest]; subst.
  destruct t as [|t]; cbn [nth_error] in Ht.
  - inversion Ht; subst s. rewrite Nat.add_0_r. split; intros Hlt.
    + split; [reflexivity|].
      destruct (maybe_pause_below inst n e u ctl s0 Hn) as (s1 & R & _ & W1 & W2 & T); [lia|].
      exists s1. auto.
    + split; [reflexivity|]. apply maybe_pause_at; [exact Hn|lia].
  - (* the count the head invocation leaves: one more, when it was below the threshold *)
    specialize (IH _ Hrest t s Ht).
    destruct (Z_lt_dec (Z.of_nat (S (kcount inst (pause_key e u ctl) s0))) n) as [Hbelow|Hnot].
    + destruct (maybe_pause_below inst n e u ctl s0 Hn Hbelow) as (s1 & R & K1 & _).
      rewrite R in IH. cbn [snd] in IH. rewrite K1 in IH.
      replace (S (kcount inst (pause_key e u ctl) s0) + t + 1)%nat with (kcount inst (pause_key e u ctl) s0 + S t + 1)%nat in IH by lia.
      replace (S (kcount inst (pause_key e u ctl) s0) + t)%nat with (kcount inst (pause_key e u ctl) s0 + S t)%nat in IH by lia.
      exact IH.
    + split; intros Hlt; exfalso; lia.
Qed.

(* chains exist from every state (back-to-back failing invocations): the premises of exactly_nth are satisfiable *)
Fixpoint iter_states (inst : Z) (n : Z) (e : err) (u : eunit) (ctl : record) (m : nat) (s : ost) : list ost :=
  match m with O => [] | S m' => s :: iter_states inst n e u ctl m' (snd (maybe_pause c inst n e u ctl s)) end.
Lemma iter_chain inst n e u ctl m : forall s,
  fail_chain inst n e u ctl (kcount inst (pause_key e u ctl) s) (iter_states inst n e u ctl m s).
Proof. induction m as [|m IH]; intros s; cbn [iter_states]; constructor; [reflexivity|apply IH]. Qed.

End H.
