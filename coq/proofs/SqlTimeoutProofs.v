(* SqlTimeoutProofs.v — the statements of adapters/sqltimeout answer as the reference timer list does. *)
From WF Require Import model.Base model.Timeouts model.SqlTimeout proofs.TimeoutsProofs.
Open Scope list_scope.

Lemma complete_first_all (id : Z) (l : list trec) : NoDup (map t_id l) ->
  complete_first id l = map (fun t => if Z.eqb (t_id t) id then set_completed t else t) l.
Proof.
  induction l as [|t r IH]; intros Hnd; cbn; [reflexivity|]. inversion Hnd as [|? ? Hn Hnd']; subst.
  destruct (Z.eqb_spec (t_id t) id) as [E|E].
  - f_equal. rewrite <- (map_id r) at 1. apply map_ext_in. intros x Hx.
    destruct (Z.eqb_spec (t_id x) id) as [E'|_]; [|reflexivity]. exfalso. apply Hn. rewrite E, <- E'. apply in_map, Hx.
  - f_equal. apply IH, Hnd'.
Qed.

Lemma remove_first_all (id : Z) (l : list trec) : NoDup (map t_id l) ->
  remove_first id l = filter (fun t => negb (Z.eqb (t_id t) id)) l.
Proof.
  induction l as [|t r IH]; intros Hnd; cbn; [reflexivity|]. inversion Hnd as [|? ? Hn Hnd']; subst.
  destruct (Z.eqb_spec (t_id t) id) as [E|E]; cbn.
  - symmetry. rewrite <- (filter_ext_in' (fun _ => true)).
    + clear. induction r as [|a r IH]; cbn; [reflexivity|]. now rewrite IH.
    + intros x Hx. destruct (Z.eqb_spec (t_id x) id) as [E'|_]; [|reflexivity]. exfalso. apply Hn. rewrite E, <- E'. apply in_map, Hx.
  - f_equal. apply IH, Hnd'.
Qed.

(* one statement = one step of the in-memory store, on a table with distinct keys, inside the domain *)
Lemma tsql_mem_step (s : mtstore) (o : top) : NoDup (map t_id (mts_timers s)) -> tsql_dom s o = true ->
  tsql_step s o = tmem_step s o.
Proof.
  intros Hnd Hd. destruct o as [wf fid run status expire|id|id|wf status now|wf]; cbn.
  - reflexivity.
  - now rewrite complete_first_all.
  - now rewrite remove_first_all.
  - f_equal. f_equal. apply filter_ext_in'. intros t Ht. unfold due. cbn in Hd. rewrite forallb_forall in Hd.
    specialize (Hd t Ht). apply Bool.negb_true_iff, Z.eqb_neq in Hd.
    destruct (N.eqb (t_wf t) wf), (Z.eqb (t_status t) status), (t_completed t); cbn; rewrite ?Bool.andb_false_r, ?Bool.andb_true_r; try reflexivity.
    destruct (Z.ltb_spec (t_expire t) now), (Z.leb_spec (t_expire t) now); try reflexivity; lia.
  - f_equal. f_equal. apply filter_ext_in'. intros t Ht. cbn in Hd. rewrite forallb_forall in Hd. specialize (Hd t Ht).
    destruct (N.eqb (t_wf t) wf), (t_completed t); cbn in *; try reflexivity. discriminate.
Qed.

Lemma trel_nodup m r : trel m r -> NoDup (map t_id (mts_timers m)).
Proof.
  intros (Ht & _ & _ & Hnd). rewrite Ht. rewrite map_map. clear Ht.
  induction (rts_timers r) as [|x l IH]; cbn; [constructor|]. inversion Hnd as [|? ? Hn Hnd']; subst.
  destruct (rt_cancelled x); cbn; [apply IH, Hnd'|]. constructor; [|apply IH, Hnd'].
  intros Hin. apply Hn. apply in_map_iff in Hin as (y & E & Hy). apply filter_In in Hy as [Hy _]. rewrite <- E. apply in_map with (f := fun x => t_id (rt_rec x)), Hy.
Qed.

(* the SQL timeout store refines the reference timer list: every operation sequence inside the domain gets the reference's
   answers *)
Theorem sqltimeout_refines : forall ops m r, trel m r -> tsql_run_dom m ops = true -> tsql_run m ops = tref_run r ops.
Proof.
  induction ops as [|o ops IH]; intros m r H Hd; cbn; [reflexivity|].
  cbn in Hd. apply Bool.andb_true_iff in Hd as [Hd1 Hd2].
  pose proof (tsql_mem_step m o (trel_nodup m r H) Hd1) as E. rewrite E in Hd2 |- *.
  destruct (tstep_sim m r o H) as [Hb Hr]. destruct (tmem_step m o) as [m' b], (tref_step r o) as [r' b']. cbn in *.
  subst b'. f_equal. apply IH with (r := r'); assumption.
Qed.
