(* TimeoutRetry.v — "a failing timeout function is retried on later polls" (C12), and its twin for steps.
   [tr_step]: the timeout store is untouched, no run's stored status changes, and no token "timer completed" nor any token
   "a record was stored at a status other than the stored one" is emitted.  The failing path of a timeout function — the
   invocation itself (which may pause or cancel the run through its controller), then maybePause on the error — is such a
   step from EVERY state in which the run handed to the function carries the stored status (no invariant needed, no NoDup). *)
From WF Require Import model.Base model.RunState model.Routing model.Graph model.Counter model.Shard model.EngineBase model.Engine
  proofs.Hoare proofs.Frame proofs.WaitFrame.
Open Scope list_scope.

Definition notm (t : tok) : Prop :=
  match t with
  | TTEnd KTM _ _ => False
  | TStore (Some p) r _ => r_status r = r_status p
  | _ => True
  end.

Definition st_of (w : world) (run : N) : option Z := option_map r_status (lookup_run w run).

Definition tr_step (s s' : ost) : Prop :=
  w_timers (o_w s') = w_timers (o_w s) /\ (forall run, st_of (o_w s') run = st_of (o_w s) run) /\
  exists t, o_trace s' = t ++ o_trace s /\ Forall notm t.

Lemma tr_refl s : tr_step s s.
Proof. split; [reflexivity|]. split; [reflexivity|]. exists []. split; [reflexivity|constructor]. Qed.
Lemma tr_trans s1 s2 s3 : tr_step s1 s2 -> tr_step s2 s3 -> tr_step s1 s3.
Proof.
  intros (A1 & A2 & t1 & A3 & A4) (B1 & B2 & t2 & B3 & B4). split; [congruence|]. split; [intros run; rewrite B2; apply A2|].
  exists (t2 ++ t1). split; [rewrite B3, A3, app_assoc; reflexivity|]. apply Forall_app. split; assumption.
Qed.

(* a step that keeps records, timers and trace *)
Lemma tr_same s s' : w_recs (o_w s') = w_recs (o_w s) -> w_timers (o_w s') = w_timers (o_w s) -> o_trace s' = o_trace s -> tr_step s s'.
Proof.
  intros R T E. split; [exact T|]. split; [intros run; unfold st_of, lookup_run; rewrite R; reflexivity|].
  exists []. split; [exact E|constructor].
Qed.

(* ---------- the status read back after a store ---------- *)
Lemma st_upsert (recs : list record) (r : record) (run : N) :
  option_map r_status (find_first (fun x => N.eqb (r_run x) run) (upsert recs r)) =
  if N.eqb (r_run r) run then Some (r_status r) else option_map r_status (find_first (fun x => N.eqb (r_run x) run) recs).
Proof.
  unfold upsert. destruct (existsb (fun x => N.eqb (r_run x) (r_run r)) recs) eqn:Ex.
  - induction recs as [|x xs IH]; cbn; [discriminate Ex|].
    cbn in Ex. destruct (N.eqb (r_run x) (r_run r)) eqn:E1; cbn.
    + apply N.eqb_eq in E1. rewrite E1. destruct (N.eqb (r_run r) run) eqn:E2; reflexivity.
    + cbn in Ex. destruct (N.eqb (r_run x) run) eqn:E3; cbn.
      * destruct (N.eqb (r_run r) run) eqn:E2; [|reflexivity].
        apply N.eqb_eq in E2. apply N.eqb_eq in E3. apply N.eqb_neq in E1. congruence.
      * apply IH, Ex.
  - induction recs as [|x xs IH]; cbn.
    + destruct (N.eqb (r_run r) run); reflexivity.
    + cbn in Ex. apply Bool.orb_false_iff in Ex as [E1 Ex]. destruct (N.eqb (r_run x) run) eqn:E3; cbn.
      * destruct (N.eqb (r_run r) run) eqn:E2; [|reflexivity].
        apply N.eqb_eq in E2. apply N.eqb_eq in E3. apply N.eqb_neq in E1. congruence.
      * apply IH, Ex.
Qed.

Lemma stamp_status c w r : r_status (stamp c w r) = r_status r.
Proof. unfold stamp. destruct (ec_stamp c); reflexivity. Qed.
Lemma stamp_run c w r : r_run (stamp c w r) = r_run r.
Proof. unfold stamp. destruct (ec_stamp c); reflexivity. Qed.

Lemma st_do_store c w r run :
  st_of (do_store c w r) run = if N.eqb (r_run r) run then Some (r_status r) else st_of w run.
Proof.
  unfold st_of, lookup_run, do_store. cbn. rewrite st_upsert, stamp_run, stamp_status. reflexivity.
Qed.

(* ---------- combinators ---------- *)
Definition trr {A} (m : M A) : Prop := forall s, tr_step s (snd (m s)).
Definition trr_ret {A} (a : A) : trr (ret a) := rr_ret tr_step tr_refl a.
Definition trr_fail {A} e : trr (@fail A e) := rr_fail tr_step tr_refl e.
Definition trr_bind {A B} (m : M A) (f : A -> M B) : trr m -> (forall a, trr (f a)) -> trr (bind m f) := rr_bind tr_step tr_trans m f.

Lemma tr_bind_at {A B} (m : M A) (f : A -> M B) s :
  tr_step s (snd (m s)) -> (forall a, tr_step (snd (m s)) (snd (f a (snd (m s))))) -> tr_step s (snd (bind m f s)).
Proof.
  intros H1 H2. unfold bind. destruct (m s) as [[a|e] s1] eqn:E; cbn in *; [|exact H1].
  eapply tr_trans; [exact H1|apply H2].
Qed.

Lemma tr_emit t s : notm t -> tr_step s (snd (emit t s)).
Proof.
  intros Ht. unfold emit. destruct (o_dead s) eqn:D; cbn; [apply tr_refl|].
  split; [reflexivity|]. split; [reflexivity|]. exists [t]. split; [reflexivity|repeat constructor; exact Ht].
Qed.

(* a primitive whose token (in the state it is issued from) is harmless and whose effect keeps timers and statuses *)
Lemma tr_prim_at {A} k ctx T E (X : disp -> world -> M A) (s : ost) :
  (forall d, notm (T d (o_w s))) ->
  w_timers (E (o_w s)) = w_timers (o_w s) -> (forall run, st_of (E (o_w s)) run = st_of (o_w s) run) ->
  (forall d w s1, tr_step s1 (snd (X d w s1))) ->
  tr_step s (snd (prim k ctx T E X s)).
Proof.
  intros HT HTm HSt HX. destruct (prim_spec2 k ctx T E X s) as (d & s1 & W & Tr & _ & _ & _ & Eq). rewrite Eq.
  eapply tr_trans; [|apply HX]. split; [|split].
  - rewrite W. destruct (disp_effect d); [exact HTm|reflexivity].
  - intros run. rewrite W. destruct (disp_effect d); [apply HSt|reflexivity].
  - rewrite Tr. destruct (o_dead s1); [exists []; split; [reflexivity|constructor]|].
    exists [T d (o_w s)]. split; [reflexivity|repeat constructor; apply HT].
Qed.

Lemma tr_disp_ret {A} d (a : A) s : tr_step s (snd (disp_ret d a s)).
Proof. destruct d; cbn; apply tr_refl. Qed.

Section T.
Variable c : econfig.

(* a store of a record that carries the stored status of its run *)
Lemma tr_p_store r s : st_of (o_w s) (r_run r) = Some (r_status r) -> tr_step s (snd (p_store c r s)).
Proof.
  intros Hst. unfold p_store. apply tr_prim_at.
  - intros d. cbn. unfold st_of in Hst. destruct (lookup_run (o_w s) (r_run r)) as [p|]; [|exact I].
    cbn in Hst. rewrite stamp_status. congruence.
  - reflexivity.
  - intros run. rewrite st_do_store. destruct (N.eqb (r_run r) run) eqn:E; [|reflexivity].
    apply N.eqb_eq in E. subst run. symmetry. exact Hst.
  - intros d w s1. apply tr_disp_ret.
Qed.

Lemma ctl_update_status r target reason r' : ctl_update r target reason = Some r' -> r_status r' = r_status r /\ r_run r' = r_run r.
Proof. unfold ctl_update. destruct (rs_table _ _); [|discriminate]. intros E. inversion E. split; reflexivity. Qed.

Lemma tr_catch_at {A} (m : M A) s : tr_step s (snd (m s)) -> tr_step s (snd (catch m s)).
Proof. unfold catch. destruct (m s) as [[a|e] s1]; cbn; auto. Qed.

(* ---------- Hoare triples whose frame is [tr_step], under the stable precondition "run [run] is stored at status [v]" ---------- *)
Definition pre (run : N) (v : Z) (s : ost) : Prop := st_of (o_w s) run = Some v.
Lemma pre_keep run v s s' : tr_step s s' -> pre run v s -> pre run v s'.
Proof. intros (_ & H & _) P. unfold pre. rewrite H. exact P. Qed.

Definition trp {A} (run : N) (v : Z) (m : M A) (Q : A -> Prop) : Prop :=
  forall s, pre run v s -> tr_step s (snd (m s)) /\ forall a, fst (m s) = Ok a -> Q a.

Lemma trp_bind {A B} run v (m : M A) (f : A -> M B) Q Q' :
  trp run v m Q -> (forall a, Q a -> trp run v (f a) Q') -> trp run v (bind m f) Q'.
Proof.
  intros Hm Hf s P. destruct (Hm s P) as [T1 Q1]. unfold bind. destruct (m s) as [[a|e] s1] eqn:E; cbn in *.
  - destruct (Hf a (Q1 a eq_refl) s1 (pre_keep _ _ _ _ T1 P)) as [T2 Q2]. split; [eapply tr_trans; eassumption|exact Q2].
  - split; [exact T1|]. intros b Hb. discriminate.
Qed.
Lemma trp_ret {A} run v (a : A) (Q : A -> Prop) : Q a -> trp run v (ret a) Q.
Proof. intros Hq s _. split; [apply tr_refl|]. cbn. intros b Hb. inversion Hb. subst. exact Hq. Qed.
Lemma trp_fail {A} run v e (Q : A -> Prop) : trp run v (@fail A e) Q.
Proof. intros s _. split; [apply tr_refl|]. cbn. intros b Hb. discriminate. Qed.
Lemma trp_weaken {A} run v (m : M A) (Q Q' : A -> Prop) : (forall a, Q a -> Q' a) -> trp run v m Q -> trp run v m Q'.
Proof. intros H Hm s P. destruct (Hm s P) as [T1 Q1]. split; [exact T1|]. intros a Ha. apply H, Q1, Ha. Qed.
Lemma trp_of_trr {A} run v (m : M A) : trr m -> trp run v m (fun _ => True).
Proof. intros H s _. split; [apply H|]. intros; exact I. Qed.
Lemma trp_catch {A} run v (m : M A) (Q : A -> Prop) : trp run v m Q -> trp run v (catch m) (fun r => match r with Ok a => Q a | Err _ => True end).
Proof.
  intros Hm s P. destruct (Hm s P) as [T1 Q1]. unfold catch. destruct (m s) as [[a|e] s1]; cbn in *.
  - split; [exact T1|]. intros r Hr. inversion Hr. subst. apply Q1. reflexivity.
  - split; [exact T1|]. intros r Hr. inversion Hr. subst. exact I.
Qed.

Lemma trr_state {A} (f : ost -> res A * ost) :
  (forall s, w_recs (o_w (snd (f s))) = w_recs (o_w s) /\ w_timers (o_w (snd (f s))) = w_timers (o_w s) /\ o_trace (snd (f s)) = o_trace s) ->
  trr (f : M A).
Proof. intros H s. destruct (H s) as (A1 & A2 & A3). apply tr_same; assumption. Qed.
Lemma trr_att_bump code run : trr (att_bump code run).
Proof. apply trr_state. intros s. unfold att_bump. cbn. repeat split. Qed.
Lemma trr_ctr_add inst k : trr (ctr_add inst k).
Proof. apply trr_state. intros s. unfold ctr_add. destruct (c_add _ _). cbn. repeat split. Qed.
Lemma trr_ctr_clear inst k : trr (ctr_clear inst k).
Proof. apply trr_state. intros s. unfold ctr_clear. cbn. repeat split. Qed.
Lemma trr_get_w : trr get_w.
Proof. intros s. apply tr_refl. Qed.
Lemma trr_emit t : notm t -> trr (emit t).
Proof. intros H s. apply tr_emit, H. Qed.

Lemma trp_p_store r : trp (r_run r) (r_status r) (p_store c r) (fun _ => True).
Proof. intros s P. split; [apply tr_p_store, P|]. intros; exact I. Qed.

(* controller.update on a record that carries the stored status: no status changes, and the controller's record afterwards still
   carries that status *)
Lemma trp_ctl_do ctl target reason :
  trp (r_run ctl) (r_status ctl) (ctl_do c ctl target reason) (fun x => r_run (snd x) = r_run ctl /\ r_status (snd x) = r_status ctl).
Proof.
  unfold ctl_do. destruct (ctl_update ctl target reason) as [r'|] eqn:E.
  - destruct (ctl_update_status _ _ _ _ E) as [Es Er].
    eapply trp_bind; [apply trp_catch; rewrite <- Er, <- Es; apply trp_p_store|].
    intros r _. apply trp_ret. cbn. split; assumption.
  - apply trp_ret. cbn. split; reflexivity.
Qed.

(* pause.go maybePause on such a record *)
Lemma trp_maybe_pause inst n e u ctl : trp (r_run ctl) (r_status ctl) (maybe_pause c inst n e u ctl) (fun _ => True).
Proof.
  unfold maybe_pause. destruct (n =? 0); [apply trp_ret; exact I|].
  eapply trp_bind; [apply trp_of_trr, trr_ctr_add|]. intros cnt _.
  destruct (Z.of_nat cnt <? n); [apply trp_ret; exact I|].
  eapply trp_bind; [apply trp_ctl_do|]. intros x _.
  destruct (fst x); [|apply trp_fail].
  eapply trp_bind; [apply trp_of_trr, trr_ctr_clear|]. intros _ _. apply trp_ret. exact I.
Qed.

(* a scripted function invoked on such a record: whatever it does (return, fail, pause or cancel the run through its controller),
   no status changes, and the controller record it leaves carries the same run and status *)
Lemma trp_invoke u b status view :
  trp (r_run view) (r_status view) (invoke c u b status view) (fun out => r_run (snd out) = r_run view /\ r_status (snd out) = r_status view).
Proof.
  unfold invoke.
  eapply trp_bind; [apply trp_of_trr, trr_att_bump|]. intros n _.
  eapply trp_bind; [apply trp_of_trr, trr_get_w|]. intros w _.
  destruct (eval_beh b n (obj_seed (r_obj view))) as [mark act].
  eapply trp_bind; [apply trp_of_trr, trr_emit; exact I|]. intros _ _.
  destruct act.
  - apply trp_ret. cbn. split; reflexivity.
  - apply trp_ret. cbn. split; reflexivity.
  - eapply trp_bind; [apply trp_ctl_do|]. intros x Hx. apply trp_ret. cbn. exact Hx.
  - eapply trp_bind; [apply trp_ctl_do|]. intros x Hx. apply trp_ret. cbn. exact Hx.
Qed.

(* timeout.go processTimeout from the invocation on, along the failing path: the function is invoked on the run as read, and when
   it returns an error (alongside whatever status) maybePause counts it — nothing else.  [failing_path] is literally the
   [inr] branch of [process_timeouts]; the [inl] branch (a returned status with a nil error) is where the transition is stored
   and the timer completed. *)
Definition failing_path (inst : Z) (u : eunit) (st : Z) (n : Z) (j : nat) (b : beh) (view : record) : M unit :=
  out <- invoke c (UFTimeout st j) b st view ;;
  let '(obj', oc, ctl) := out in
  match oc with
  | inr oe => maybe_pause c inst n oe u ctl ;;; ret tt
  | inl _ => ret tt
  end.

Theorem failing_timeout_function_is_retried inst u st n j b view s :
  st_of (o_w s) (r_run view) = Some (r_status view) ->
  tr_step s (snd (failing_path inst u st n j b view s)).
Proof.
  intros P. cut (trp (r_run view) (r_status view) (failing_path inst u st n j b view) (fun _ => True)); [intros H; exact (proj1 (H s P))|].
  unfold failing_path. eapply trp_bind; [apply trp_invoke|]. intros [[obj' oc] ctl] [Hr Hs]. cbn in Hr, Hs.
  destruct oc as [z|oe]; [apply trp_ret; exact I|].
  rewrite <- Hr, <- Hs. eapply trp_bind; [apply trp_maybe_pause|]. intros _ _. apply trp_ret. exact I.
Qed.

(* the same for a step function (step.go stepConsumer's error branch) *)
Theorem failing_step_function_changes_no_status inst u st n b view s :
  st_of (o_w s) (r_run view) = Some (r_status view) ->
  tr_step s (snd ((out <- invoke c (UFStep st) b st view ;;
                   let '(obj', oc, ctl) := out in
                   match oc with inr oe => paused <- maybe_pause c inst n oe u ctl ;; if (paused : bool) then ret tt else fail EGen | inl _ => ret tt end) s)).
Proof.
  intros P. match goal with |- tr_step s (snd (?m s)) => cut (trp (r_run view) (r_status view) m (fun _ => True)); [intros H; exact (proj1 (H s P))|] end.
  eapply trp_bind; [apply trp_invoke|]. intros [[obj' oc] ctl] [Hr Hs]. cbn in Hr, Hs.
  destruct oc as [z|oe]; [apply trp_ret; exact I|].
  rewrite <- Hr, <- Hs. eapply trp_bind; [apply trp_maybe_pause|]. intros [|] _; [apply trp_ret; exact I|apply trp_fail].
Qed.

End T.
