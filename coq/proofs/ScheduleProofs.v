(* ScheduleProofs.v — schedule.go: the decision of one scheduling iteration over an abstract cron [next] with two laws,
   the laws for the periodic specifications of the harness, and the recorded finding F13. *)
From WF Require Import model.Base model.Schedule model.EngineBase model.Engine.
From Coq Require Import ZifyBool.
Ltac Zify.zify_post_hook ::= Z.div_mod_to_equations.

Section Laws.
Variable next : Z -> Z.
Hypothesis next_after : forall t, t < next t.
Hypothesis next_gapfree : forall t u, t <= u < next t -> next u = next t.

(* one iteration: it starts at now0 seeing [latest] (creation time, finished?) of the foreign ID's latest run; the wait for
   [sched_wake] is over at clock reading now1; then filter and Trigger. Some t = a run is created at t. *)
Definition iteration (latest : option (Z * bool)) (now0 now1 : Z) (filter_ok : bool) : option Z :=
  if now1 <? sched_wake next (option_map fst latest) now0 then None else sched_iter latest now1 filter_ok.

(* never before the first tick that follows the latest run's creation (or the iteration's start when there is none) *)
Lemma never_early_core latest now0 now1 f t : iteration latest now0 now1 f = Some t ->
  t = now1 /\ match latest with Some (l, _) => next l <= t | None => next now0 <= t /\ now0 < t end.
Proof.
  unfold iteration, sched_wake, sched_base, sched_iter. destruct (now1 <? _) eqn:E; [discriminate|]. apply Z.ltb_ge in E.
  destruct f; cbn; [|discriminate]. destruct latest as [[l fin]|]; cbn in *.
  - destruct fin; [|discriminate]. intros H; inversion H; subst. auto.
  - intros H; inversion H; subst. split; [reflexivity|]. split; [exact E|]. pose proof (next_after now0). lia.
Qed.

(* at most one run per tick: the run created by an iteration becomes the latest run of the next one *)
Lemma one_per_tick latest now0 now1 f t now0' now1' f' t' :
  iteration latest now0 now1 f = Some t -> iteration (Some (t, true)) now0' now1' f' = Some t' -> next t <= t' /\ t < t'.
Proof.
  intros _ H. apply never_early_core in H as [-> H]. split; [exact H|]. pose proof (next_after t). lia.
Qed.

Lemma no_run_when_filtered latest now0 now1 : iteration latest now0 now1 false = None.
Proof. unfold iteration, sched_iter. destruct (now1 <? _); reflexivity. Qed.

Lemma no_run_when_unfinished l now0 now1 f : iteration (Some (l, false)) now0 now1 f = None.
Proof. unfold iteration, sched_iter. destruct (now1 <? _); [reflexivity|]. destruct f; reflexivity. Qed.

(* a later look at the same latest run computes the same tick: waiting again after a role loss changes nothing *)
Lemma wake_stable l now0 now0' : sched_wake next (Some l) now0 = sched_wake next (Some l) now0'.
Proof. reflexivity. Qed.
End Laws.

(* ---------- the cron specifications of the harness satisfy the two laws ---------- *)
Lemma spec_period_pos id : 0 < spec_period id.
Proof.
  unfold spec_period.
  assert (H : forall a, 0 < a -> 0 < a * 1000000000) by (intros; lia).
  apply H. destruct id as [|p|p]; try lia. do 4 (destruct p as [p|p|]; try lia).
Qed.

Lemma cron_next_after id t : t < cron_next id t.
Proof. unfold cron_next. pose proof (spec_period_pos id). set (p := spec_period id) in *. set (h := spec_phase id). nia. Qed.

Lemma cron_next_gapfree id t u : t <= u < cron_next id t -> cron_next id u = cron_next id t.
Proof.
  unfold cron_next. pose proof (spec_period_pos id). set (p := spec_period id) in *. set (h := spec_phase id). intros Hu.
  assert (E : (u + h) / p = (t + h) / p).
  { symmetry. apply Z.div_unique with (r := (u + h) - p * ((t + h) / p)); [|lia].
    left. pose proof (Z.mul_div_le (t + h) p ltac:(lia)). pose proof (Z.mul_succ_div_gt (t + h) p ltac:(lia)). lia. }
  now rewrite E.
Qed.

(* the engine's scheduler computes exactly this wake-up instant from the latest run it reads *)
Lemma engine_deadline_is_wake (sc : schedcfg) (lat : option record) (now : Z) :
  cron_next (sd_spec sc) (match lat with Some r => r_created r | None => now end) =
  sched_wake (cron_next (sd_spec sc)) (option_map r_created lat) now.
Proof. destruct lat; reflexivity. Qed.

(* ---------- F13 (recorded, not repaired): catch-up after downtime ---------- *)
(* The property demands "never before the first tick that follows the LATER of the schedule's start and the latest run's
   creation". With the every-minute specification, a latest run created at 0 and a schedule started three minutes later,
   the iteration creates a run at its start, before the first tick that follows the start. *)
Lemma never_early_refuted :
  exists l start t, iteration (cron_next 1) (Some (l, true)) start start true = Some t /\ t < cron_next 1 (Z.max start l).
Proof. exists 0, 180000000000, 180000000000. split; vm_compute; reflexivity. Qed.

(* what does hold (the _partial form): exact whenever the latest run is younger than one tick at the start, or absent *)
Lemma never_early_partial id latest start now1 f t :
  match latest with Some (l, _) => start < cron_next id l | None => True end ->
  iteration (cron_next id) latest start now1 f = Some t ->
  cron_next id (Z.max start (match latest with Some (l, _) => l | None => start end)) <= t.
Proof.
  intros Hy H. apply (never_early_core (cron_next id) (cron_next_after id) (cron_next_gapfree id)) in H as [-> H].
  destruct latest as [[l fin]|].
  - destruct (Z.max_spec start l) as [[A ->]|[A ->]]; [exact H|].
    rewrite (cron_next_gapfree id l start); [exact H|lia].
  - rewrite Z.max_id. apply H.
Qed.
