(* TimeoutsProofs.v — memtimeoutstore (as repaired) answers every operation sequence like the reference timer list. *)
From WF Require Import model.Base model.Timeouts.

Lemma NoDup_snoc' {A} (l : list A) (a : A) : NoDup l -> ~ In a l -> NoDup (l ++ [a]).
Proof.
  induction l as [|x l IH]; cbn; intros Hnd Hn; [constructor; [intros []|constructor]|].
  inversion Hnd as [|y ys Hx Hnd']; subst. constructor.
  - intros Hin. apply in_app_or in Hin as [Hin|[<-|[]]]; [contradiction|]. apply Hn. now left.
  - apply IH; [assumption|]. intros Hin. apply Hn. now right.
Qed.

(* simulation: the slice holds exactly the reference timers that were not cancelled, in order; IDs are below the counter *)
Definition trel (m : mtstore) (r : rtstore) : Prop :=
  mts_timers m = map rt_rec (filter (fun x => negb (rt_cancelled x)) (rts_timers r)) /\
  mts_next m = rts_next r /\
  (forall x, In x (rts_timers r) -> t_id (rt_rec x) < rts_next r) /\
  NoDup (map (fun x => t_id (rt_rec x)) (rts_timers r)).

Lemma trel0 : trel mtstore0 rtstore0.
Proof. repeat split; cbn; try constructor. intros x []. Qed.

Lemma filter_map_comm {A B} (f : A -> B) (p : B -> bool) (l : list A) :
  filter p (map f l) = map f (filter (fun x => p (f x)) l).
Proof. induction l as [|a l IH]; cbn; [reflexivity|]. destruct (p (f a)); cbn; now rewrite IH. Qed.

Lemma filter_filter {A} (p q : A -> bool) (l : list A) : filter p (filter q l) = filter (fun x => q x && p x) l.
Proof. induction l as [|a l IH]; cbn; [reflexivity|]. destruct (q a); cbn; [destruct (p a); cbn; now rewrite IH|exact IH]. Qed.

Lemma filter_ext_in' {A} (p q : A -> bool) (l : list A) : (forall x, In x l -> p x = q x) -> filter p l = filter q l.
Proof. induction l as [|a l IH]; cbn; intros H; [reflexivity|]. rewrite (H a (or_introl eq_refl)), IH; [reflexivity|]. intros; apply H; auto. Qed.

(* Complete: first element with the ID; with unique IDs this is "every element with the ID" *)
Lemma complete_first_map (id : Z) (l : list rtimer) :
  NoDup (map (fun x => t_id (rt_rec x)) l) ->
  complete_first id (map rt_rec (filter (fun x => negb (rt_cancelled x)) l)) =
  map rt_rec (filter (fun x => negb (rt_cancelled x))
                (map (fun x => if Z.eqb (t_id (rt_rec x)) id then mkRtimer (set_completed (rt_rec x)) (rt_cancelled x) else x) l)).
Proof.
  induction l as [|a l IH]; cbn; intros Hnd; [reflexivity|]. inversion Hnd as [|y ys Hn Hnd']; subst.
  destruct (Z.eqb (t_id (rt_rec a)) id) eqn:E; cbn.
  - destruct (rt_cancelled a) eqn:Ec; cbn.
    + rewrite IH by assumption. reflexivity.
    + rewrite E. f_equal.
      (* no later element has this ID *)
      assert (Hmap : map (fun x => if Z.eqb (t_id (rt_rec x)) id then mkRtimer (set_completed (rt_rec x)) (rt_cancelled x) else x) l = l).
      { clear -Hn E. apply Z.eqb_eq in E. induction l as [|b l IH]; cbn; [reflexivity|].
        destruct (Z.eqb (t_id (rt_rec b)) id) eqn:E2.
        - apply Z.eqb_eq in E2. exfalso. apply Hn. left. congruence.
        - f_equal. apply IH. intros H. apply Hn. now right. }
      now rewrite Hmap.
  - destruct (rt_cancelled a) eqn:Ec; cbn; [apply IH; assumption|]. rewrite E. f_equal. apply IH; assumption.
Qed.

Lemma remove_first_map (id : Z) (l : list rtimer) :
  NoDup (map (fun x => t_id (rt_rec x)) l) ->
  remove_first id (map rt_rec (filter (fun x => negb (rt_cancelled x)) l)) =
  map rt_rec (filter (fun x => negb (rt_cancelled x))
                (map (fun x => if Z.eqb (t_id (rt_rec x)) id then mkRtimer (rt_rec x) true else x) l)).
Proof.
  induction l as [|a l IH]; cbn; intros Hnd; [reflexivity|]. inversion Hnd as [|y ys Hn Hnd']; subst.
  destruct (Z.eqb (t_id (rt_rec a)) id) eqn:E; cbn.
  - destruct (rt_cancelled a) eqn:Ec; cbn.
    + apply IH; assumption.
    + rewrite E.
      assert (Hmap : map (fun x => if Z.eqb (t_id (rt_rec x)) id then mkRtimer (rt_rec x) true else x) l = l).
      { clear -Hn E. apply Z.eqb_eq in E. induction l as [|b l IH]; cbn; [reflexivity|].
        destruct (Z.eqb (t_id (rt_rec b)) id) eqn:E2.
        - apply Z.eqb_eq in E2. exfalso. apply Hn. left. congruence.
        - f_equal. apply IH. intros H. apply Hn. now right. }
      now rewrite Hmap.
  - destruct (rt_cancelled a) eqn:Ec; cbn; [apply IH; assumption|]. rewrite E. f_equal. apply IH; assumption.
Qed.

Lemma map_ids_same {A} (f : A -> A) (key : A -> Z) (l : list A) :
  (forall x, key (f x) = key x) -> map key (map f l) = map key l.
Proof. intros H. rewrite map_map. apply map_ext. exact H. Qed.

Lemma tstep_sim (m : mtstore) (r : rtstore) (o : top) :
  trel m r -> snd (tmem_step m o) = snd (tref_step r o) /\ trel (fst (tmem_step m o)) (fst (tref_step r o)).
Proof.
  intros (Ht & Hn & Hlt & Hnd). destruct o as [wf fid run status expire|id|id|wf status now|wf]; cbn.
  - split; [reflexivity|]. repeat split; cbn.
    + rewrite Ht, filter_app, map_app, Hn. reflexivity.
    + now rewrite Hn.
    + intros x Hx. apply in_app_or in Hx as [Hx|[<-|[]]]; [specialize (Hlt x Hx); lia|cbn; lia].
    + rewrite map_app. cbn. apply NoDup_snoc'; [exact Hnd|]. intros Hin. apply in_map_iff in Hin as (x & E & Hx).
      specialize (Hlt x Hx). lia.
  - split; [reflexivity|]. repeat split; cbn; try assumption.
    + rewrite Ht. apply complete_first_map, Hnd.
    + intros x Hx. apply in_map_iff in Hx as (y & E & Hy). specialize (Hlt y Hy). destruct (Z.eqb _ _); subst x; cbn; exact Hlt.
    + rewrite (map_ids_same _ (fun x => t_id (rt_rec x))); [exact Hnd|]. intros x. destruct (Z.eqb _ _); reflexivity.
  - split; [reflexivity|]. repeat split; cbn; try assumption.
    + rewrite Ht. apply remove_first_map, Hnd.
    + intros x Hx. apply in_map_iff in Hx as (y & E & Hy). specialize (Hlt y Hy). destruct (Z.eqb _ _); subst x; cbn; exact Hlt.
    + rewrite (map_ids_same _ (fun x => t_id (rt_rec x))); [exact Hnd|]. intros x. destruct (Z.eqb _ _); reflexivity.
  - split; [|repeat split; assumption]. f_equal. rewrite Ht, filter_map_comm. f_equal. rewrite filter_filter. reflexivity.
  - split; [|repeat split; assumption]. f_equal. rewrite Ht, filter_map_comm. f_equal. rewrite filter_filter. reflexivity.
Qed.

Theorem timeouts_refine : forall ops m r, trel m r -> tmem_run m ops = tref_run r ops.
Proof.
  induction ops as [|o ops IH]; intros m r H; cbn; [reflexivity|].
  destruct (tstep_sim m r o H) as [Hb Hr]. destruct (tmem_step m o) as [m' b], (tref_step r o) as [r' b']. cbn in *.
  subst b'. f_equal. apply IH, Hr.
Qed.

(* the reference itself: what "listed as due" means, and that cancel / complete of one ID — or of an unknown ID — affect no other *)
Lemma ref_due_iff (s : rtstore) (wf : N) (status now : Z) (t : trec) :
  (exists l, snd (tref_step s (TOListValid wf status now)) = TbList l /\ In t l) <->
  exists x, In x (rts_timers s) /\ rt_rec x = t /\ rt_cancelled x = false /\
            t_wf t = wf /\ t_status t = status /\ t_completed t = false /\ t_expire t <= now.
Proof.
  cbn. split.
  - intros (l & E & Hin). inversion E; subst l. apply in_map_iff in Hin as (x & Ex & Hx). apply filter_In in Hx as [Hx Hp].
    exists x. apply andb_prop in Hp as [Hc Hd]. unfold due in Hd. rewrite Ex in Hd.
    repeat (apply andb_prop in Hd as [Hd ?]).
    repeat split; try assumption.
    + now apply Bool.negb_true_iff.
    + now apply N.eqb_eq.
    + now apply Z.eqb_eq.
    + now apply Bool.negb_true_iff.
    + now apply Z.leb_le.
  - intros (x & Hx & Ex & Hc & A & B & C & D). eexists. split; [reflexivity|]. apply in_map_iff. exists x. split; [exact Ex|].
    apply filter_In. split; [exact Hx|]. rewrite Hc. cbn. unfold due. rewrite Ex, A, B, C, N.eqb_refl, Z.eqb_refl. cbn. now apply Z.leb_le.
Qed.

Lemma ref_other_untouched (s : rtstore) (o : top) (id : Z) (x : rtimer) :
  (o = TOComplete id \/ o = TOCancel id) -> In x (rts_timers s) -> t_id (rt_rec x) <> id ->
  In x (rts_timers (fst (tref_step s o))).
Proof.
  intros [-> | ->] Hx Hne; cbn; apply in_map_iff; exists x; (split; [|exact Hx]); destruct (Z.eqb (t_id (rt_rec x)) id) eqn:E; try reflexivity;
    apply Z.eqb_eq in E; contradiction.
Qed.
