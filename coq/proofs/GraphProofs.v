(* GraphProofs.v — the status graph built by any sequence of builder calls is exactly the declared edge relation. *)
From WF Require Import model.Base model.Graph.

Definition outs (es : list (Z * Z)) (n : Z) : list Z := map snd (filter (fun e => Z.eqb (fst e) n) es).

Definition add_edge (g : graph) (e : Z * Z) : graph := add_transition g (fst e) (snd e).
Definition build_edges (es : list (Z * Z)) : graph := fold_left add_edge es g_empty.

Lemma zget_zset : forall A (m : zmap A) k v k', zget (zset m k v) k' = if Z.eqb k' k then Some v else zget m k'.
Proof. reflexivity. Qed.

Lemma zhas_zset : forall A (m : zmap A) k v k', zhas (zset m k v) k' = Z.eqb k' k || zhas m k'.
Proof. intros. unfold zhas. rewrite zget_zset. destruct (Z.eqb k' k); reflexivity. Qed.

Lemma build_as_edges : forall cs, build cs = build_edges (edges_of cs).
Proof.
  intro cs. unfold build, build_edges, edges_of.
  generalize g_empty as g. induction cs as [|c cs IH]; intro g; [reflexivity|].
  cbn [fold_left flat_map]. rewrite fold_left_app, <- IH. f_equal.
  unfold add_call. destruct c as [f ts]. cbn [fst snd].
  revert g. induction ts as [|t ts IHt]; intro g; [reflexivity|]. cbn [map fold_left]. rewrite <- IHt. reflexivity.
Qed.

(* the invariant tying the five maps to the list of edges added so far *)
Record ginv (g : graph) (es : list (Z * Z)) : Prop := {
  gi_out : forall n, transitions g n = outs es n;
  gi_has : forall n, zhas (g_edges g) n = has_out es n;
  gi_term : forall n, is_terminal g n = has_in es n && negb (has_out es n);
  gi_valid : forall n, zget (g_valid g) n = if has_in es n || has_out es n then Some true else None;
  gi_start : forall n, zget (g_starting g) n = if has_in es n then Some false else if has_out es n then Some true else None;
  gi_order : forall n, In n (g_order g) <-> has_in es n || has_out es n = true
}.

Lemma has_out_app : forall es e n, has_out (es ++ [e]) n = has_out es n || Z.eqb (fst e) n.
Proof. intros. unfold has_out. rewrite existsb_app. simpl. now rewrite orb_false_r. Qed.
Lemma has_in_app : forall es e n, has_in (es ++ [e]) n = has_in es n || Z.eqb (snd e) n.
Proof. intros. unfold has_in. rewrite existsb_app. simpl. now rewrite orb_false_r. Qed.
Lemma outs_app : forall es e n, outs (es ++ [e]) n = outs es n ++ (if Z.eqb (fst e) n then [snd e] else []).
Proof. intros. unfold outs. rewrite filter_app, map_app. simpl. destruct (Z.eqb (fst e) n); reflexivity. Qed.

Lemma ginv_empty : ginv g_empty [].
Proof. constructor; intros; try reflexivity. simpl. split; [tauto|discriminate]. Qed.

Ltac zc := repeat match goal with |- context [Z.eqb ?a ?b] => destruct (Z.eqb_spec a b) end; subst; try congruence.

Lemma term_step : forall g f t (hi ho : Z -> bool),
  (forall n, is_terminal g n = hi n && negb (ho n)) ->
  (forall n, zhas (g_edges g) n = ho n) ->
  forall n, is_terminal (add_transition g f t) n = (hi n || Z.eqb t n) && negb (ho n || Z.eqb f n).
Proof.
  intros g f t hi ho Hterm Hhas n.
  unfold is_terminal, add_transition in *. cbn [g_terminal].
  rewrite (Hhas t).
  pose proof (Hterm n) as Hn. pose proof (Hterm f) as Hf. pose proof (Hterm t) as Ht.
  unfold zhas.
  destruct (ho t) eqn:Eot.
  - destruct (zget (g_terminal g) f) as [bf|] eqn:Egf; rewrite ?zget_zset;
    repeat match goal with |- context [Z.eqb ?a ?b] => destruct (Z.eqb_spec a b) end; subst; try congruence;
    rewrite ?Eot, ?orb_true_r, ?orb_false_r, ?andb_false_r; cbn [negb andb orb]; try reflexivity; try assumption.
    all: rewrite ?Egf in *; try congruence.
    all: try (rewrite Hn; reflexivity).
    all: try (rewrite Ht; rewrite Eot; now rewrite andb_false_r).
    all: try (rewrite Hn, Eot; now rewrite andb_false_r).
    all: try (destruct (hi n); reflexivity).
  - rewrite zget_zset.
    destruct (Z.eqb_spec f t) as [Eft|Eft].
    + subst. rewrite !zget_zset.
      repeat match goal with |- context [Z.eqb ?a ?b] => destruct (Z.eqb_spec a b) end; subst; try congruence;
      rewrite ?Eot, ?orb_true_r, ?orb_false_r, ?andb_false_r; cbn [negb andb orb]; try reflexivity; try assumption.
    + destruct (zget (g_terminal g) f) as [bf|] eqn:Egf; rewrite ?zget_zset;
      repeat match goal with |- context [Z.eqb ?a ?b] => destruct (Z.eqb_spec a b) end; subst; try congruence;
      rewrite ?Eot, ?orb_true_r, ?orb_false_r, ?andb_false_r; cbn [negb andb orb]; try reflexivity; try assumption.
      all: rewrite ?Egf in *; try congruence.
Qed.

Lemma start_step : forall g f t (hi ho : Z -> bool),
  (forall n, zget (g_starting g) n = if hi n then Some false else if ho n then Some true else None) ->
  forall n, zget (g_starting (add_transition g f t)) n =
            if hi n || Z.eqb t n then Some false else if ho n || Z.eqb f n then Some true else None.
Proof.
  intros g f t hi ho Hs n. unfold add_transition. cbn [g_starting]. rewrite zhas_zset. unfold zhas.
  pose proof (Hs n) as Hn. pose proof (Hs f) as Hf.
  destruct (Z.eqb_spec f t) as [Eft|Eft]; cbn [orb].
  - subst. rewrite zget_zset. zc; rewrite ?orb_true_r, ?orb_false_r; try reflexivity; try assumption.
  - destruct (zget (g_starting g) f) as [bf|] eqn:Egf; rewrite ?zget_zset; zc;
    rewrite ?orb_true_r, ?orb_false_r; try reflexivity; try assumption.
    all: rewrite ?Egf in *.
    all: try (destruct (hi n); [reflexivity|]; destruct (ho n); [reflexivity|congruence]).
    all: try (destruct (hi f); [congruence|reflexivity]).
    all: try (destruct (hi n); [assumption|]; destruct (ho n); [assumption|congruence]).
Qed.

Lemma ginv_step : forall g es e, ginv g es -> ginv (add_edge g e) (es ++ [e]).
Proof.
  intros g es [f t] [Hout Hhas Hterm Hvalid Hstart Horder].
  unfold add_edge. cbn [fst snd].
  constructor; intro n; rewrite ?has_out_app, ?has_in_app, ?outs_app; cbn [fst snd].
  - (* transitions *)
    unfold transitions, add_transition. cbn [g_edges]. rewrite zget_zset.
    pose proof (Hout f) as Hf. pose proof (Hout n) as Hn. unfold transitions in *.
    zc; rewrite ?app_nil_r; try assumption.
  - (* has *)
    unfold add_transition. cbn [g_edges]. rewrite zhas_zset, Hhas, (Z.eqb_sym n f). apply orb_comm.
  - apply term_step; assumption.
  - (* valid *)
    unfold add_transition. cbn [g_valid]. rewrite !zget_zset, Hvalid.
    zc; rewrite ?orb_true_r, ?orb_false_r; reflexivity.
  - apply start_step; assumption.
  - (* order *)
    unfold add_transition. cbn [g_order].
    assert (Hv : forall m, zhas (g_valid g) m = has_in es m || has_out es m).
    { intro m. unfold zhas. rewrite Hvalid. destruct (has_in es m || has_out es m); reflexivity. }
    rewrite !Hv.
    assert (Hord1 : In n (if has_in es f || has_out es f then g_order g else g_order g ++ [f]) <->
                    (has_in es n || has_out es n = true \/ n = f)).
    { destruct (has_in es f || has_out es f) eqn:Ef.
      - rewrite Horder. split; [tauto|]. intros [H|H]; [exact H|subst; exact Ef].
      - rewrite in_app_iff, Horder. simpl. intuition. }
    assert (Hord2 : In n (if has_in es t || has_out es t
                          then (if has_in es f || has_out es f then g_order g else g_order g ++ [f])
                          else (if has_in es f || has_out es f then g_order g else g_order g ++ [f]) ++ [t]) <->
                    (has_in es n || has_out es n = true \/ n = f \/ n = t)).
    { destruct (has_in es t || has_out es t) eqn:Et.
      - rewrite Hord1. split; [tauto|]. intros [H|[H|H]]; [tauto|tauto|subst; left; exact Et].
      - rewrite in_app_iff, Hord1. simpl. intuition. }
    rewrite Hord2.
    destruct (has_in es n); destruct (has_out es n); zc; cbn; intuition congruence.
Qed.

Lemma ginv_build_edges : forall es, ginv (build_edges es) es.
Proof.
  intro es. unfold build_edges.
  assert (H : forall es' g, ginv g es' -> ginv (fold_left add_edge es g) (es' ++ es)).
  { induction es as [|e es IH]; intros es' g Hg; cbn [fold_left].
    - now rewrite app_nil_r.
    - replace (es' ++ e :: es) with ((es' ++ [e]) ++ es) by (rewrite <- app_assoc; reflexivity).
      apply IH. apply ginv_step. exact Hg. }
  apply (H [] g_empty ginv_empty).
Qed.

Lemma in_outs : forall es n t, In t (outs es n) <-> In (n, t) es.
Proof.
  intros es n t. unfold outs. rewrite in_map_iff. split.
  - intros [[a b] [Hb Hin]]. apply filter_In in Hin. destruct Hin as [Hin Heq]. cbn in *. apply Z.eqb_eq in Heq. now subst.
  - intro Hin. exists (n, t). split; [reflexivity|]. apply filter_In. split; [exact Hin|cbn; apply Z.eqb_refl].
Qed.

Lemma has_out_iff : forall es n, has_out es n = true <-> exists t, In (n, t) es.
Proof.
  intros. unfold has_out. rewrite existsb_exists. split.
  - intros [[a b] [Hin Heq]]. cbn in Heq. apply Z.eqb_eq in Heq. subst. now exists b.
  - intros [t Hin]. exists (n, t). split; [exact Hin|cbn; apply Z.eqb_refl].
Qed.
Lemma has_in_iff : forall es n, has_in es n = true <-> exists f, In (f, n) es.
Proof.
  intros. unfold has_in. rewrite existsb_exists. split.
  - intros [[a b] [Hin Heq]]. cbn in Heq. apply Z.eqb_eq in Heq. subst. now exists a.
  - intros [f Hin]. exists (f, n). split; [exact Hin|cbn; apply Z.eqb_refl].
Qed.

(* ------------- the statements used by the property files ------------- *)
Definition declared (cs : list bcall) (from to : Z) : Prop := In (from, to) (edges_of cs).

Lemma graph_declared : forall cs from to, In to (transitions (build cs) from) <-> declared cs from to.
Proof. intros. rewrite build_as_edges, (gi_out _ _ (ginv_build_edges _)). apply in_outs. Qed.

Lemma validate_iff_declared : forall cs cur next, validate_transition (build cs) cur next = true <-> declared cs cur next.
Proof.
  intros. unfold validate_transition. rewrite existsb_exists. rewrite <- graph_declared. split.
  - intros [x [Hin Heq]]. apply Z.eqb_eq in Heq. now subst.
  - intro H. exists next. split; [exact H|apply Z.eqb_refl].
Qed.

Lemma terminal_iff : forall cs n,
  is_terminal (build cs) n = true <-> (exists f, declared cs f n) /\ ~ (exists t, declared cs n t).
Proof.
  intros. rewrite build_as_edges, (gi_term _ _ (ginv_build_edges _)), andb_true_iff, negb_true_iff.
  unfold declared. rewrite (has_in_iff (edges_of cs) n). rewrite <- (has_out_iff (edges_of cs) n). split.
  - intros [H1 H2]. split; [exact H1|]. rewrite H2. discriminate.
  - intros [H1 H2]. split; [exact H1|]. destruct (has_out (edges_of cs) n); [exfalso; now apply H2|reflexivity].
Qed.

Lemma terminal_no_transitions : forall cs n, is_terminal (build cs) n = true -> transitions (build cs) n = [].
Proof.
  intros cs n H. apply terminal_iff in H. destruct H as [_ H].
  destruct (transitions (build cs) n) as [|t l] eqn:E; [reflexivity|].
  exfalso. apply H. exists t. apply graph_declared. rewrite E. now left.
Qed.

Lemma valid_iff : forall cs n, is_valid (build cs) n = true <-> (exists f, declared cs f n) \/ (exists t, declared cs n t).
Proof.
  intros. unfold is_valid. rewrite build_as_edges, (gi_valid _ _ (ginv_build_edges _)).
  unfold declared. rewrite <- (has_in_iff (edges_of cs) n), <- (has_out_iff (edges_of cs) n).
  destruct (has_in (edges_of cs) n); destruct (has_out (edges_of cs) n); cbn; intuition discriminate.
Qed.

Lemma starting_iff : forall cs n,
  In n (starting_nodes (build cs)) <-> (exists t, declared cs n t) /\ ~ (exists f, declared cs f n).
Proof.
  intros. unfold starting_nodes. rewrite filter_In. rewrite build_as_edges.
  rewrite (gi_order _ _ (ginv_build_edges _)), (gi_start _ _ (ginv_build_edges _)).
  unfold declared. rewrite <- (has_in_iff (edges_of cs) n), <- (has_out_iff (edges_of cs) n).
  destruct (has_in (edges_of cs) n); destruct (has_out (edges_of cs) n); cbn; intuition discriminate.
Qed.

(* permutation invariance of the classification follows: it only depends on the SET of declared edges *)
Lemma terminal_order_independent : forall cs cs' n,
  (forall f t, declared cs f t <-> declared cs' f t) -> is_terminal (build cs) n = is_terminal (build cs') n.
Proof.
  intros cs cs' n H.
  destruct (is_terminal (build cs) n) eqn:E1; destruct (is_terminal (build cs') n) eqn:E2; try reflexivity.
  - apply terminal_iff in E1. assert (is_terminal (build cs') n = true); [|congruence].
    apply terminal_iff. destruct E1 as [[f Hf] Hn]. split; [exists f; now apply H|].
    intros [t Ht]. apply Hn. exists t. now apply H.
  - apply terminal_iff in E2. assert (is_terminal (build cs) n = true); [|congruence].
    apply terminal_iff. destruct E2 as [[f Hf] Hn]. split; [exists f; now apply H|].
    intros [t Ht]. apply Hn. exists t. now apply H.
Qed.
