(* InserterFacts.v — timeout.go timeoutAutoInserterConsumer, for EVERY state: a timer is created only directly after the
   timer function of that status was invoked on the run and returned a non-zero expiry — with exactly that run, status and expiry. *)
From WF Require Import model.Base model.RunState model.Routing model.Graph model.Counter model.Shard model.EngineBase model.Engine
  proofs.Hoare proofs.Frame proofs.Emits proofs.RelayFacts proofs.PollerFacts proofs.EffectFacts.

Definition not_create (t : tok) : Prop := match t with TTCreate _ _ _ _ => False | _ => True end.

Inductive create_ok : list tok -> Prop :=
| co_nil : create_ok []
| co_other t tr : not_create t -> create_ok tr -> create_ok (t :: tr)
| co_create st j view pers now ex a tr :
    create_ok (TUser (UFTimer st j) view pers now (UTime (Some ex)) :: tr) ->
    create_ok (TTCreate (r_run view) st ex a :: TUser (UFTimer st j) view pers now (UTime (Some ex)) :: tr).

Lemma create_ok_em s s' : em_step not_create s s' -> create_ok (o_trace s) -> create_ok (o_trace s').
Proof. intros (t & E & F) H. rewrite E. clear E. induction F as [|x l Hx Hl IH]; cbn; [exact H|]. apply co_other; assumption. Qed.

Section Ins.
Variable c : econfig.

Lemma inserter_fn_ok st tos : forall j view s,
  create_ok (o_trace s) -> create_ok (o_trace (snd (inserter_fn st tos j view s))).
Proof.
  induction tos as [|t tl IH]; intros j view s Hs; cbn [inserter_fn]; [exact Hs|].
  destruct (negb (to_status t =? st)); [apply IH, Hs|].
  unfold bind at 1, get_w. cbn [fst snd].
  destruct (to_dur t =? -2).
  { unfold bind at 1.
    destruct (emit_spec2 (TUser (UFTimer st j) view (lookup_run (o_w s) (r_run view)) (w_now (o_w s)) (UErr 15)) s) as (F1 & F2 & F3 & F4).
    destruct (emit (TUser (UFTimer st j) view (lookup_run (o_w s) (r_run view)) (w_now (o_w s)) (UErr 15)) s) as [[[]|e] s1]; cbn [fst snd] in *; [|discriminate].
    cbn [ret snd]. rewrite F4. destruct (o_dead s); [exact Hs|apply co_other; [exact I|exact Hs]]. }
  unfold bind at 1.
  set (expire := if to_dur t <? 0 then None else Some (w_now (o_w s) + to_dur t)).
  destruct (emit_spec2 (TUser (UFTimer st j) view (lookup_run (o_w s) (r_run view)) (w_now (o_w s)) (UTime expire)) s) as (F1 & F2 & F3 & F4).
  destruct (emit (TUser (UFTimer st j) view (lookup_run (o_w s) (r_run view)) (w_now (o_w s)) (UTime expire)) s) as [[[]|e] s1]; cbn [fst snd] in *; [|discriminate].
  assert (H1 : create_ok (o_trace s1)) by (rewrite F4; destruct (o_dead s); [exact Hs|apply co_other; [exact I|exact Hs]]).
  destruct expire as [ex|] eqn:Eex; [|apply IH, H1].
  unfold bind at 1, catch, p_tcreate.
  match goal with |- context [prim ?k ?ctx ?T ?E ?X s1] => destruct (prim_ret_spec' k ctx T E s1) as (d & s2 & R & Tr & D1) end.
  rewrite R.
  assert (H2 : create_ok (o_trace s2)).
  { rewrite Tr. destruct (o_dead s2) eqn:E2; [exact H1|].
    assert (Hd1 : o_dead s1 = false) by (destruct (o_dead s1); [discriminate (D1 eq_refl)|reflexivity]).
    rewrite F3 in Hd1. rewrite F4, Hd1. apply co_create. rewrite F4, Hd1 in H1. exact H1. }
  destruct d; cbn [snd]; try exact H2; apply IH, H2.
Qed.

Lemma em_lookup_nc run : em not_create (p_lookup run).
Proof. unfold p_lookup. apply em_prim; [intros; exact I|intros; apply em_disp_ret]. Qed.
Lemma em_store_nc r : em not_create (p_store c r).
Proof. unfold p_store. apply em_prim; [intros; exact I|intros; apply em_disp_ret]. Qed.
Lemma em_ctl_do_nc ctl target reason : em not_create (ctl_do c ctl target reason).
Proof.
  unfold ctl_do. destruct (ctl_update ctl target reason); [|apply em_ret].
  apply em_bind; [apply em_catch, em_store_nc|intros; apply em_ret].
Qed.
Lemma em_maybe_pause_nc inst n e u ctl : em not_create (maybe_pause c inst n e u ctl).
Proof.
  unfold maybe_pause. destruct (n =? 0); [apply em_ret|]. apply em_bind; [apply em_ctr_add|]. intros cnt.
  destruct (Z.of_nat cnt <? n); [apply em_ret|]. apply em_bind; [apply em_ctl_do_nc|]. intros x.
  destruct (fst x); [|apply em_fail]. apply em_bind; [apply em_ctr_clear|intros; apply em_ret].
Qed.
Lemma em_updater_nc cur next run : em not_create (updater c cur next run).
Proof.
  unfold updater. apply em_bind; [apply em_get_w|]. intros w. apply em_bind; [apply em_lookup_nc|]. intros [l|]; [|apply em_fail].
  destruct (negb _); [apply em_ret|]. destruct (negb _); [apply em_fail|apply em_store_nc].
Qed.

(* the whole inserter consumer's handler *)
Theorem inserter_handler_ok inst u st n e s :
  create_ok (o_trace s) -> create_ok (o_trace (snd (step_handler c inst u st (inserter_fn st (ec_tos c) 0) n e s))).
Proof.
  intros Hs. unfold step_handler. unfold bind at 1. pose proof (em_lookup_nc (e_run e) s) as F1.
  destruct (p_lookup (e_run e) s) as [[[r|]|er] s1]; cbn [snd] in *; pose proof (create_ok_em _ _ F1 Hs) as H1; try exact H1.
  destruct (r_ver r >? e_ver e); [exact H1|]. destruct (r_ver r <? e_ver e); [exact H1|]. destruct (rs_stopped (r_state r)); [exact H1|].
  unfold bind at 1. unfold build_run. destruct (r_obj r) as [seed tr|] eqn:Eo; [|exact H1]. cbn [ret fst snd].
  unfold bind at 1. pose proof (inserter_fn_ok st (ec_tos c) 0%nat (promote r) s1 H1) as H2.
  destruct (inserter_fn st (ec_tos c) 0 (promote r) s1) as [[[[obj' oc] ctl]|er] s2]; cbn [snd] in *; [|exact H2].
  destruct oc as [z|oe].
  - destruct (skip_status z); [exact H2|]. eapply create_ok_em; [apply em_updater_nc|exact H2].
  - unfold bind at 1. pose proof (em_maybe_pause_nc inst n oe u ctl s2) as F3.
    destruct (maybe_pause c inst n oe u ctl s2) as [[[]|er] s3]; cbn [snd] in *; eapply create_ok_em; eauto.
Qed.

End Ins.
