(* RoleNames.v — the role names Run asks the role scheduler for are pairwise distinct (C10), at the level of the strings
   makeRole builds: strings.ToLower(strings.ReplaceAll(strings.Join(parts, "-"), " ", "_")) modelled by [make_role].
   For ANY workflow name among the non-connector roles; with connectors under the hypotheses that the (normalised) workflow and
   connector names contain no '-' and the connector names stay distinct after normalisation. *)
From Coq Require Import DecimalString DecimalZ DecimalPos Decimal.
From WF Require Import model.Base model.Strings model.Launch proofs.StringsProofs.
Open Scope list_scope.
Open Scope string_scope.

Definition nrm (s : string) : string := replace_space (lower s).

Lemma smap_app f a b : smap f (a ++ b) = smap f a ++ smap f b.
Proof. induction a as [|c a IH]; cbn; [reflexivity|]. now rewrite IH. Qed.
Lemma nrm_app a b : nrm (a ++ b) = nrm a ++ nrm b.
Proof. unfold nrm, lower, replace_space. now rewrite !smap_app. Qed.

(* characters the normalisation leaves alone: digits and '-' *)
Lemma nrm_numchars s : all_chars numchar s = true -> nrm s = s.
Proof.
  unfold nrm, replace_space, lower. induction s as [|c s IH]; cbn [smap all_chars]; [reflexivity|]. intros H.
  apply andb_true_iff in H as [Hc Hs]. rewrite (IH Hs). f_equal.
  unfold numchar in Hc. unfold space_to_us, lower_char.
  destruct c as [b0 b1 b2 b3 b4 b5 b6 b7]. destruct b0, b1, b2, b3, b4, b5, b6, b7; cbn in Hc; try discriminate; reflexivity.
Qed.
Lemma nrm_itoa z : nrm (itoa z) = itoa z.
Proof. apply nrm_numchars, itoa_chars. Qed.

(* ---------- numerals: an optional '-' followed by digits ---------- *)
Definition digit (c : ascii) : bool := let n := nat_of_ascii c in (Nat.leb 48 n && Nat.leb n 57).
Definition dash : ascii := "-"%char.
Lemma digit_not_dash c : digit c = true -> c <> dash.
Proof. intros H ->. discriminate. Qed.

Lemma uint_digits d : all_chars digit (NilEmpty.string_of_uint d) = true.
Proof. induction d; cbn [NilEmpty.string_of_uint all_chars]; rewrite ?IHd; reflexivity. Qed.

(* digit strings are delimited by the first '-' *)
Lemma digits_split : forall a b x y, all_chars digit a = true -> all_chars digit b = true ->
  a ++ String dash x = b ++ String dash y -> a = b /\ x = y.
Proof.
  induction a as [|c a IH]; intros b x y Ha Hb H.
  - destruct b as [|d b]; cbn in H; [inversion H; auto|].
    inversion H; subst. cbn in Hb. apply andb_true_iff in Hb as [Hd _]. exfalso. now apply (digit_not_dash dash Hd).
  - destruct b as [|d b]; cbn in H.
    + inversion H; subst. cbn in Ha. apply andb_true_iff in Ha as [Hc _]. exfalso. now apply (digit_not_dash dash Hc).
    + inversion H; subst. cbn in Ha, Hb. apply andb_true_iff in Ha as [_ Ha]. apply andb_true_iff in Hb as [_ Hb].
      destruct (IH b x y Ha Hb H2) as [-> ->]. auto.
Qed.

(* itoa z is '-'digits or digits, never empty *)
Lemma itoa_shape z : (exists ds, itoa z = ds /\ all_chars digit ds = true /\ ds <> "") \/
                     (exists ds, itoa z = String dash ds /\ all_chars digit ds = true).
Proof.
  unfold itoa. destruct (Z.to_int z) as [d|d] eqn:E; cbn [NilZero.string_of_int].
  - left. destruct d; try (eexists; split; [reflexivity|]; split; [apply (uint_digits (_ _))|discriminate]).
    exfalso. now apply (to_int_not_posnil z).
  - right. destruct d; try (eexists; split; [reflexivity|]; apply (uint_digits (_ _))).
    exfalso. now apply (to_int_not_negnil z).
Qed.

Lemma itoa_split a b x y : itoa a ++ String dash x = itoa b ++ String dash y -> a = b /\ x = y.
Proof.
  intros H.
  destruct (itoa_shape a) as [(da & Ea & Da & Na)|(da & Ea & Da)], (itoa_shape b) as [(db & Eb & Db & Nb)|(db & Eb & Db)];
    rewrite Ea, Eb in H.
  - destruct (digits_split da db x y Da Db H) as [E ->]. split; [|reflexivity]. apply itoa_inj. congruence.
  - exfalso. destruct da as [|c da]; [congruence|]. cbn in H. inversion H; subst. cbn in Da. apply andb_true_iff in Da as [Hc _].
    now apply (digit_not_dash dash Hc).
  - exfalso. destruct db as [|c db]; [congruence|]. cbn in H. inversion H; subst. cbn in Db. apply andb_true_iff in Db as [Hc _].
    now apply (digit_not_dash dash Hc).
  - cbn in H. inversion H as [H1]. destruct (digits_split da db x y Da Db H1) as [E ->]. split; [|reflexivity]. apply itoa_inj. congruence.
Qed.

(* ---------- names without '-' ---------- *)
Definition dashfree (s : string) : bool := all_chars (fun c => negb (Ascii.eqb c dash)) s.
Lemma dashfree_split : forall a b x y, dashfree a = true -> dashfree b = true ->
  a ++ String dash x = b ++ String dash y -> a = b /\ x = y.
Proof.
  induction a as [|c a IH]; intros b x y Ha Hb H.
  - destruct b as [|d b]; cbn in H; [inversion H; auto|]. inversion H; subst. cbn in Hb. discriminate.
  - destruct b as [|d b]; cbn in H.
    + inversion H; subst. cbn in Ha. discriminate.
    + inversion H; subst. cbn in Ha, Hb. apply andb_true_iff in Ha as [_ Ha]. apply andb_true_iff in Hb as [_ Hb].
      destruct (IH b x y Ha Hb H2) as [-> ->]. auto.
Qed.

(* ---------- the role strings, with the workflow name factored out ---------- *)
Definition hook_word (st : runstate) : string := nrm (rs_string st).

(* what follows "<workflow>-" in the role of a non-connector unit *)
Definition role_tail (u : unit_) : string :=
  match u with
  | UOutbox => "outbox-consumer"
  | UStep s i n => itoa s ++ "-consumer-" ++ itoa i ++ "-of-" ++ itoa n
  | UPoller s => itoa s ++ "-timeout-consumer"
  | UInserter s => itoa s ++ "-timeout-auto-inserter-consumer"
  | UHook st => hook_word st ++ "-run-state-change-hook-consumer"
  | UDelete => "delete-consumer"
  | URetry => "paused-records-retry-consumer"
  | UConn _ _ _ => ""
  end.
Definition is_conn (u : unit_) : bool := match u with UConn _ _ _ => true | _ => false end.

Lemma role_of_tail wf u : is_conn u = false -> role_of wf u = nrm wf ++ "-" ++ role_tail u.
Proof.
  intros Hc. destruct u; try discriminate; unfold role_of, make_role; fold (nrm (join "-" [wf; "outbox"; "consumer"])); cbn [join];
    unfold make_role; repeat (rewrite ?nrm_app, ?nrm_itoa); try reflexivity.
  all: try (change (replace_space (lower ?x)) with (nrm x)).
  all: repeat (rewrite ?nrm_app, ?nrm_itoa); reflexivity.
Qed.

Lemma itoa_app_first z r c t : itoa z ++ r = String c t -> numchar c = true.
Proof.
  intros H. destruct (itoa z) as [|c' t'] eqn:E; [exfalso; now apply (itoa_nonempty z)|].
  cbn in H. inversion H; subst. now apply (itoa_first_numchar z c t').
Qed.

Ltac first_char H :=
  (* H : itoa z ++ r = <string literal starting with a letter>  (or symmetric) *)
  first [ apply itoa_app_first in H; discriminate H
        | symmetry in H; apply itoa_app_first in H; discriminate H ].

(* the tail determines the unit *)
Lemma role_tail_inj u u' : is_conn u = false -> is_conn u' = false -> role_tail u = role_tail u' -> u = u'.
Proof.
  intros Hu Hu' H.
  destruct u as [|s i n|s|s|cn ci cnn|st| |]; try discriminate Hu;
  destruct u' as [|s' i' n'|s'|s'|cn' ci' cnn'|st'| |]; try discriminate Hu'; cbn [role_tail] in H;
    try reflexivity; try discriminate H.
  all: try (match goal with x : runstate |- _ => destruct x end).
  all: try (match goal with x : runstate |- _ => destruct x end).
  all: unfold hook_word, nrm, rs_string in H; cbn -[itoa] in H.
  all: try reflexivity; try discriminate H; try (first_char H).
  all: try (apply itoa_split in H as [E H]; subst; try discriminate H).
  - (* step / step *)
    cbn in H. apply (append_inv_head "consumer-") in H.
    apply itoa_split in H as [-> H]. apply (append_inv_head "of-") in H. apply itoa_inj in H. now subst.
  - reflexivity.
  - reflexivity.
Qed.

(* ---------- theorems ---------- *)
(* for ANY workflow name: two non-connector units with the same role are the same unit *)
Theorem nonconn_roles_distinct wf u u' :
  is_conn u = false -> is_conn u' = false -> role_of wf u = role_of wf u' -> u = u'.
Proof.
  intros Hu Hu' H. rewrite (role_of_tail wf u Hu), (role_of_tail wf u' Hu') in H.
  apply append_inv_head in H. apply (append_inv_head "-") in H. now apply role_tail_inj.
Qed.

Lemma role_of_conn wf c i n :
  role_of wf (UConn c i n) = nrm c ++ "-" ++ "connector-to-" ++ nrm wf ++ "-consumer-" ++ itoa i ++ "-of-" ++ itoa n.
Proof.
  unfold role_of, make_role. change (replace_space (lower ?x)) with (nrm x). cbn [join].
  repeat (rewrite ?nrm_app, ?nrm_itoa). reflexivity.
Qed.

(* two connector units with the same role: same (normalised) connector name, same shard, same shard count *)
Theorem conn_roles_distinct wf c i n c' i' n' :
  dashfree (nrm c) = true -> dashfree (nrm c') = true ->
  role_of wf (UConn c i n) = role_of wf (UConn c' i' n') -> nrm c = nrm c' /\ i = i' /\ n = n'.
Proof.
  intros Hc Hc' H. rewrite !role_of_conn in H.
  apply dashfree_split in H as [E H]; try assumption. split; [exact E|].
  apply (append_inv_head "connector-to-") in H. apply append_inv_head in H. apply (append_inv_head "-consumer-") in H.
  apply itoa_split in H as [-> H]. apply (append_inv_head "of-") in H. apply itoa_inj in H. auto.
Qed.

(* a connector unit and a non-connector unit never share a role *)
Theorem conn_role_not_other wf c i n u :
  dashfree (nrm c) = true -> dashfree (nrm wf) = true -> is_conn u = false -> role_of wf (UConn c i n) <> role_of wf u.
Proof.
  intros Hc Hw Hu H. rewrite role_of_conn, (role_of_tail wf u Hu) in H.
  apply dashfree_split in H as [_ H]; try assumption.
  destruct u as [|s i0 n0|s|s|cn ci cnn|st| |]; try discriminate Hu; cbn [role_tail] in H; try discriminate H; try (first_char H).
  destruct st; unfold hook_word, nrm, rs_string in H; cbn -[itoa] in H; discriminate H.
Qed.

(* the roles of a launch list are pairwise distinct: units launched once (C10_launch_once) under names without '-' and connector
   names that stay distinct after normalisation get distinct role strings *)
Theorem launch_roles_nodup (cfg : config) :
  NoDup (launch cfg) ->
  dashfree (nrm (cf_name cfg)) = true ->
  (forall c i n, In (UConn c i n) (launch cfg) -> dashfree (nrm c) = true) ->
  (forall c i n c' i' n', In (UConn c i n) (launch cfg) -> In (UConn c' i' n') (launch cfg) -> nrm c = nrm c' -> c = c') ->
  NoDup (launch_roles cfg).
Proof.
  intros Hnd Hw Hcd Hci. unfold launch_roles.
  assert (Hinj : forall u u', In u (launch cfg) -> In u' (launch cfg) -> role_of (cf_name cfg) u = role_of (cf_name cfg) u' -> u = u').
  { intros u u' Hu Hu' E. destruct (is_conn u) eqn:Cu, (is_conn u') eqn:Cu'.
    - destruct u; try discriminate Cu. destruct u'; try discriminate Cu'.
      destruct (conn_roles_distinct _ _ _ _ _ _ _ (Hcd _ _ _ Hu) (Hcd _ _ _ Hu') E) as (En & -> & ->).
      f_equal. exact (Hci _ _ _ _ _ _ Hu Hu' En).
    - destruct u; try discriminate Cu. exfalso. exact (conn_role_not_other _ _ _ _ _ (Hcd _ _ _ Hu) Hw Cu' E).
    - destruct u'; try discriminate Cu'. exfalso. symmetry in E. exact (conn_role_not_other _ _ _ _ _ (Hcd _ _ _ Hu') Hw Cu E).
    - now apply (nonconn_roles_distinct (cf_name cfg)). }
  clear Hcd Hci Hw. induction (launch cfg) as [|a l IH]; cbn; [constructor|].
  inversion Hnd as [|x xs Hn Hl]; subst. constructor.
  - intros Hin. apply in_map_iff in Hin as (b & Eb & Hb). apply Hn.
    rewrite (Hinj a b (or_introl eq_refl) (or_intror Hb) (eq_sym Eb)). exact Hb.
  - apply IH; [exact Hl|]. intros u u' Hu Hu'. apply Hinj; now right.
Qed.
