(* DeliveryProps.v — the delivery invariant read against the publish invariant: where every committed write stands with
   respect to every consumer of its topic, in every reachable world. *)
From WF Require Import model.Base model.RunState model.Routing model.Graph model.Counter model.Shard model.EngineBase
  model.Engine model.Monitors proofs.Hoare proofs.EngineInv proofs.EngineTokens proofs.EngineProps proofs.Frame proofs.Delivery.

Section Reach.
Variable c : econfig.
Variable ops : list eop.
Let w := fst (run_ops c ops).
Let T := snd (run_ops c ops).

(* no hypothesis on the history at all: stale reads included *)
Theorem position_never_passes_unhandled u j e :
  (j < get_cursor w u)%nat -> nth_error (w_log w) j = Some e -> e_topic e = unit_topic u -> unit_filter u e = false ->
  has_wit u e T.
Proof. apply (delivery_invariant c ops). Qed.

Theorem position_within_log u : (get_cursor w u <= length (w_log w))%nat.
Proof. apply (delivery_invariant c ops). Qed.

Hypothesis Hops : hist_ok ops.

(* every committed write, for every consumer [u] of the topic it is routed to: its announcement is still in the outbox, or it
   is in the log — ahead of [u]'s committed position (still to be delivered), or excluded by [u]'s filter (another shard's /
   another state's), or handled to completion by [u] *)
Theorem write_reaches_consumer k r u :
  nth_error (w_hist w) k = Some r -> unit_topic u = route_topic r ->
  In (route (N.of_nat k + 1)%N r) (w_outbox w) \/
  exists j e, nth_error (w_log w) j = Some e /\ ev_of e (route 0%N r) /\
              ((get_cursor w u <= j)%nat \/ unit_filter u e = true \/ has_wit u e T).
Proof.
  intros Hk Ht. destruct (p_published_or_pending c ops Hops k r Hk) as [A|(e & He & Ev)]; [left; exact A|right].
  apply In_nth_error in He as (j & Hj). exists j, e. split; [exact Hj|]. split; [exact Ev|].
  destruct (Nat.le_gt_cases (get_cursor w u) j) as [Hle|Hlt]; [left; exact Hle|right].
  destruct (unit_filter u e) eqn:Ef; [left; reflexivity|right].
  apply (position_never_passes_unhandled u j e Hlt Hj); [|exact Ef].
  destruct Ev as (_ & E2 & _). rewrite E2. cbn. symmetry. exact Ht.
Qed.

(* C14: a write that made a run Paused / Cancelled / Completed, and the hook of that state *)
Theorem hook_at_least_once k r q :
  nth_error (w_hist w) k = Some r -> r_state r = q -> (q = RSPaused \/ q = RSCancelled \/ q = RSCompleted) ->
  In (route (N.of_nat k + 1)%N r) (w_outbox w) \/
  (exists j e, nth_error (w_log w) j = Some e /\ ev_of e (route 0%N r) /\ (get_cursor w (EHook q) <= j)%nat) \/
  (exists r' pers now, In (TUser (UFHook q) r' pers now UOk) T /\ r_run r' = r_run r) \/
  (exists r', In (TLookup KLK (Z.of_N (r_run r)) ROk (Some r')) T /\ r_obj r' = ODeleted).
Proof.
  intros Hk Hq Hq3.
  assert (Ht : unit_topic (EHook q) = route_topic r).
  { unfold route_topic. rewrite Hq. destruct Hq3 as [->|[->| ->]]; reflexivity. }
  destruct (write_reaches_consumer k r (EHook q) Hk Ht) as [A|(j & e & Hj & Ev & [B|[B|B]])]; [left; exact A| | |].
  - right. left. exists j, e. auto.
  - exfalso. cbn in B. unfold filter_by_state in B. destruct Ev as (_ & _ & _ & _ & _ & E6 & _). rewrite E6 in B. cbn in B.
    rewrite Hq, Z.eqb_refl in B. discriminate.
  - right. right. destruct Ev as (_ & _ & E3 & _). cbn in E3. destruct B as (t & Hin & [(r' & pers & now & -> & Hr)|(r' & -> & Ho)]).
    + left. exists r', pers, now. split; [exact Hin|congruence].
    + right. exists r'. rewrite E3 in Hin. auto.
Qed.

(* C15: an accepted deletion request, and the delete consumer *)
Theorem delete_request_served k r :
  nth_error (w_hist w) k = Some r -> r_state r = RSReqDataDeleted ->
  In (route (N.of_nat k + 1)%N r) (w_outbox w) \/
  (exists j e, nth_error (w_log w) j = Some e /\ ev_of e (route 0%N r) /\ (get_cursor w EDelete <= j)%nat) \/
  (exists prev r', In (TStore prev r' ROk) T /\ r_run r' = r_run r /\ r_state r' = RSDataDeleted).
Proof.
  intros Hk Hq.
  assert (Ht : unit_topic EDelete = route_topic r) by (unfold route_topic; rewrite Hq; reflexivity).
  destruct (write_reaches_consumer k r EDelete Hk Ht) as [A|(j & e & Hj & Ev & [B|[B|B]])]; [left; exact A| | |].
  - right. left. exists j, e. auto.
  - discriminate.
  - right. right. destruct Ev as (_ & _ & E3 & _). cbn in E3. destruct B as (t & Hin & (pv & r' & -> & A1 & A2)).
    exists pv, r'. split; [exact Hin|]. split; [congruence|exact A2].
Qed.

(* C01: a write that left a run Initiated / Running at status [s], and the step consumer (shard i of n) of that status *)
Theorem step_not_stranded k r s i n :
  nth_error (w_hist w) k = Some r -> r_status r = s -> (r_state r = RSInitiated \/ r_state r = RSRunning) ->
  In (route (N.of_nat k + 1)%N r) (w_outbox w) \/
  exists j e, nth_error (w_log w) j = Some e /\ ev_of e (route 0%N r) /\
              ((get_cursor w (EStep s i n) <= j)%nat \/ shard_skip i n (e_id e) = true \/
               exists t, In t T /\ step_wit s e t).
Proof.
  intros Hk Hs Hq.
  assert (Ht : unit_topic (EStep s i n) = route_topic r).
  { unfold route_topic. rewrite Hs. destruct Hq as [-> | ->]; reflexivity. }
  exact (write_reaches_consumer k r (EStep s i n) Hk Ht).
Qed.

(* the same for the timeout inserter of that status *)
Theorem inserter_not_stranded k r s :
  nth_error (w_hist w) k = Some r -> r_status r = s -> (r_state r = RSInitiated \/ r_state r = RSRunning) ->
  In (route (N.of_nat k + 1)%N r) (w_outbox w) \/
  exists j e, nth_error (w_log w) j = Some e /\ ev_of e (route 0%N r) /\
              ((get_cursor w (EInserter s) <= j)%nat \/ exists t, In t T /\ seen_wit e t).
Proof.
  intros Hk Hs Hq.
  assert (Ht : unit_topic (EInserter s) = route_topic r).
  { unfold route_topic. rewrite Hs. destruct Hq as [-> | ->]; reflexivity. }
  destruct (write_reaches_consumer k r (EInserter s) Hk Ht) as [A|(j & e & Hj & Ev & [B|[B|B]])]; [left; exact A| | |]; right; exists j, e.
  - auto.
  - discriminate.
  - auto.
Qed.

End Reach.
