(* Examples.v — concrete histories showing that the hypotheses of the engine theorems are satisfiable and that the
   quantified tokens really occur (non-vacuity). *)
From WF Require Import model.Base model.RunState model.Routing model.Graph model.Counter model.Shard model.EngineBase
  model.Engine model.Monitors proofs.EngineInv proofs.EngineTokens proofs.EngineProps.

(* a linear workflow 1 -> 2 -> 3 with a callback on 2, a timeout on 2, hooks and custom delete *)
Definition ex_cfg : econfig :=
  mkEcfg [mkStep 1 (BRet true 2) [2] 0 0 0; mkStep 2 (BFailFirst 1 11 (BRet true 3)) [3] 0 2 0]
         [mkCb 2 (BRet true 3) [3]] [mkTo 2 100 (BRet true 3) [3] 0] [(RSCompleted, O); (RSPaused, O)] [] []
         1 0 0 50 1000 0 1 true.

Definition ex_round : list eop :=
  [OStep 1 EOutbox []; OStep 1 (EStep 1 1 1) []; OStep 1 (EStep 2 1 1) []; OStep 1 (EInserter 2) []; OStep 1 (EPoller 2) [];
   OStep 1 (EHook RSCompleted) []; OStep 1 (EHook RSPaused) []; OStep 1 EDelete []; OStep 1 ERetry []].

Definition ex_ops : list eop :=
  [OTrigger 1%N 0 4 []] ++ ex_round ++ ex_round
  ++ [OStep 1 EOutbox [(KSD, O, FErrAfter)]] ++ ex_round
  ++ [OStep 1 (EStep 2 1 1) [(KST, O, FCrash)]; OCtl 1%N OpPause false []; OCtl 1%N OpResume false []; OAdvance 120]
  ++ ex_round ++ ex_round ++ [OCtl 1%N OpDeleteData true []] ++ ex_round ++ ex_round.

Lemma ex_hist_ok : hist_ok ex_ops.
Proof. unfold hist_ok. repeat constructor; cbn; try (intros k o; destruct k, o as [|[|?]]; cbn; discriminate); try lia; try (intros k o; cbn; discriminate). Qed.

Definition count_stores (tr : list tok) : nat := length (filter (fun t => match t with TStore (Some _) _ ROk => true | _ => false end) tr).
Definition count_users (tr : list tok) : nat := length (filter (fun t => match t with TUser u _ _ _ _ => is_step_fn u | _ => false end) tr).

(* the example history contains several effective writes to an existing run and several step-function invocations *)
Example ex_nonvacuous : (3 <= count_stores (trace_of ex_cfg ex_ops))%nat /\ (2 <= count_users (trace_of ex_cfg ex_ops))%nat.
Proof. vm_compute. split; repeat constructor. Qed.

(* ... of all three kinds that [every_write_is_failure_free] distinguishes: status-changing writes, data-deletion rewrites, and
   run-state changes that keep status and object *)
Definition count_kind (f : record -> record -> bool) (tr : list tok) : nat :=
  length (filter (fun t => match t with TStore (Some p) r ROk => f p r | _ => false end) tr).
Example ex_write_kinds :
  (2 <= count_kind (fun p r => negb (Z.eqb (r_status r) (r_status p))) (trace_of ex_cfg ex_ops))%nat /\
  (1 <= count_kind (fun p r => rs_eqb (r_state r) RSDataDeleted) (trace_of ex_cfg ex_ops))%nat /\
  (2 <= count_kind (fun p r => Z.eqb (r_status r) (r_status p) && obj_eqb (r_obj r) (r_obj p) && negb (rs_eqb (r_state r) RSDataDeleted)) (trace_of ex_cfg ex_ops))%nat.
Proof. vm_compute. repeat split; repeat constructor. Qed.

(* ---------- F13 on the engine model: an older finished run, the schedule started three minutes later ---------- *)
Definition f13_cfg : econfig :=
  mkEcfg [mkStep 1 (BRet true 2) [2] 0 0 0] [] [] [] [mkSched 5%N 1 9 0] [] 0 0 0 (-1) 1000 0 1 false.
Definition f13_ops : list eop :=
  [OTrigger 5%N 0 1 []; OStep 1 EOutbox []; OStep 1 (EStep 1 1 1) []; OStep 1 (EStep 1 1 1) []; OStep 1 EOutbox []; OAdvance 180000000000;
   OSched 1 5%N true; OStep 1 (ESched 5%N) []].
Definition created_by_scheduler (tr : list tok) : list Z :=
  flat_map (fun t => match t with TStore None r ROk => if (r_fid r =? 5)%N && (0 <? r_created r) then [r_created r] else [] | _ => [] end) tr.

(* the scheduler creates a run at its start (180 s), before the first tick after the start (220 s) *)
Example f13_witness : created_by_scheduler (trace_of f13_cfg f13_ops) = [180000000000] /\ 180000000000 < cron_next 1 180000000000.
Proof. vm_compute. split; reflexivity. Qed.
