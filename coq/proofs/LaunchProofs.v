(* LaunchProofs.v — workflow.go Run: every configured unit is launched, exactly once, with the right shard set. *)
From WF Require Import model.Base model.Strings model.Launch.
From Coq Require Import Lia List.
Open Scope list_scope.
Open Scope Z_scope.

Lemma NoDup_app_intro {A} (l1 l2 : list A) :
  NoDup l1 -> NoDup l2 -> (forall x, In x l1 -> ~ In x l2) -> NoDup (l1 ++ l2).
Proof.
  induction l1 as [|a l IH]; cbn; intros H1 H2 H; [exact H2|].
  inversion H1 as [|x xs Hn Hl]; subst. constructor.
  - intros Hin. apply in_app_or in Hin as [Hin|Hin]; [contradiction|]. apply (H a); auto.
  - apply IH; auto.
Qed.

(* ---------- shards ---------- *)
Lemma shards_from_in (k : nat) (mk : Z -> unit_) (u : unit_) :
  In u (shards_from k mk) <-> exists i, 1 <= i <= Z.of_nat k /\ u = mk i.
Proof.
  induction k as [|j IH]; cbn [shards_from].
  - split; [intros []|intros (i & Hi & _); lia].
  - rewrite in_app_iff, IH. cbn [In]. split.
    + intros [(i & Hi & ->)|[<-|[]]]; [exists i; split; [lia|reflexivity]|exists (Z.of_nat (S j)); split; [lia|reflexivity]].
    + intros (i & Hi & ->). destruct (Z.eq_dec i (Z.of_nat (S j))) as [->|Hne]; [right; left; reflexivity|left; exists i; split; [lia|reflexivity]].
Qed.

Lemma shards_from_length k mk : List.length (shards_from k mk) = k.
Proof. induction k as [|j IH]; cbn [shards_from]; [reflexivity|]. rewrite app_length, IH. cbn. lia. Qed.

Lemma shards_from_nodup k mk : (forall i j, mk i = mk j -> i = j) -> NoDup (shards_from k mk).
Proof.
  intros Hinj. induction k as [|j IH]; cbn [shards_from]; [constructor|].
  apply NoDup_app_intro; [exact IH|repeat constructor; intros []|].
  intros x Hx [<-|[]]. apply shards_from_in in Hx as (i & Hi & E). apply Hinj in E. lia.
Qed.

(* a unit with parallel count n is launched as max 1 n consumers: "1 of 1" when n < 2, else shards 1..n of n *)
Lemma sharded_length n mk : List.length (sharded n mk) = Z.to_nat (Z.max 1 n).
Proof.
  unfold sharded. destruct (n <? 2) eqn:E.
  - apply Z.ltb_lt in E. cbn. lia.
  - apply Z.ltb_ge in E. rewrite shards_from_length. lia.
Qed.

Lemma sharded_in n mk u :
  In u (sharded n mk) <-> (n < 2 /\ u = mk 1 1) \/ (2 <= n /\ exists i, 1 <= i <= n /\ u = mk i n).
Proof.
  unfold sharded. destruct (n <? 2) eqn:E.
  - apply Z.ltb_lt in E. cbn. split; [intros [<-|[]]; left; auto|intros [[_ ->]|[H _]]; [now left|lia]].
  - apply Z.ltb_ge in E. rewrite shards_from_in. split.
    + intros (i & Hi & ->). right. split; [exact E|]. exists i. split; [lia|reflexivity].
    + intros [[H _]|[_ (i & Hi & ->)]]; [lia|]. exists i. split; [lia|reflexivity].
Qed.

Lemma sharded_nodup n mk : (forall i j t, mk i t = mk j t -> i = j) -> NoDup (sharded n mk).
Proof.
  intros Hinj. unfold sharded. destruct (n <? 2); [repeat constructor; intros []|].
  apply shards_from_nodup. intros i j. apply Hinj.
Qed.

(* ---------- the launch list ---------- *)
Definition kind (u : unit_) : nat :=
  match u with UOutbox => 0 | UStep _ _ _ => 1 | UPoller _ | UInserter _ => 2 | UConn _ _ _ => 3 | UHook _ => 4 | UDelete => 5 | URetry => 6 end%nat.

Lemma flat_map_nodup {A B} (f : A -> list B) (key : B -> A) (l : list A) :
  NoDup l -> (forall a, NoDup (f a)) -> (forall a b, In b (f a) -> key b = a) -> NoDup (flat_map f l).
Proof.
  intros Hl Hf Hk. induction l as [|a l IH]; cbn; [constructor|]. inversion Hl as [|x xs Hn Hl']; subst.
  apply NoDup_app_intro; [apply Hf|apply IH, Hl'|].
  intros b Hb Hin. apply in_flat_map in Hin as (a' & Ha' & Hb'). rewrite <- (Hk _ _ Hb), (Hk _ _ Hb') in Hn. contradiction.
Qed.

Definition step_key (u : unit_) : Z := match u with UStep s _ _ => s | _ => 0 end.
Definition conn_key (u : unit_) : string := match u with UConn c _ _ => c | _ => EmptyString end.
Definition to_key (u : unit_) : Z := match u with UPoller s | UInserter s => s | _ => 0 end.

Section L.
Variable c : config.
Hypothesis Hsteps : NoDup (map fst (cf_steps c)).
Hypothesis Htos : NoDup (cf_timeouts c).
Hypothesis Hconns : NoDup (map fst (cf_connectors c)).
Hypothesis Hhooks : NoDup (cf_hooks c).

Lemma nodup_map_fst {A B} (l : list (A * B)) : NoDup (map fst l) -> NoDup l.
Proof.
  induction l as [|a l IH]; cbn; intros H; [constructor|]. inversion H as [|x xs Hn Hl]; subst. constructor; [|apply IH, Hl].
  intros Hin. apply Hn. apply in_map. exact Hin.
Qed.

Lemma steps_nodup : NoDup (flat_map (fun st => sharded (resolve (snd st) (cf_default_parallel c)) (UStep (fst st))) (cf_steps c)).
Proof.
  assert (G : forall (l : list (Z * Z)), NoDup (map fst l) ->
              NoDup (flat_map (fun st => sharded (resolve (snd st) (cf_default_parallel c)) (UStep (fst st))) l)).
  { induction l as [|a l IH]; cbn; intros H; [constructor|]. inversion H as [|x xs Hn Hl]; subst.
    apply NoDup_app_intro; [apply sharded_nodup; intros i j t E; now inversion E|apply IH, Hl|].
    intros b Hb Hin. apply in_flat_map in Hin as (a' & Ha' & Hb').
    apply sharded_in in Hb. apply sharded_in in Hb'.
    assert (E1 : step_key b = fst a) by (destruct Hb as [[_ ->]|[_ (i & _ & ->)]]; reflexivity).
    assert (E2 : step_key b = fst a') by (destruct Hb' as [[_ ->]|[_ (i & _ & ->)]]; reflexivity).
    apply Hn. rewrite <- E1, E2. apply in_map, Ha'. }
  apply G, Hsteps.
Qed.

Lemma conns_nodup : NoDup (flat_map (fun cn => sharded (resolve (snd cn) (cf_default_parallel c)) (UConn (fst cn))) (cf_connectors c)).
Proof.
  assert (G : forall (l : list (string * Z)), NoDup (map fst l) ->
              NoDup (flat_map (fun cn => sharded (resolve (snd cn) (cf_default_parallel c)) (UConn (fst cn))) l)).
  { induction l as [|a l IH]; cbn; intros H; [constructor|]. inversion H as [|x xs Hn Hl]; subst.
    apply NoDup_app_intro; [apply sharded_nodup; intros i j t E; now inversion E|apply IH, Hl|].
    intros b Hb Hin. apply in_flat_map in Hin as (a' & Ha' & Hb').
    apply sharded_in in Hb. apply sharded_in in Hb'.
    assert (E1 : conn_key b = fst a) by (destruct Hb as [[_ ->]|[_ (i & _ & ->)]]; reflexivity).
    assert (E2 : conn_key b = fst a') by (destruct Hb' as [[_ ->]|[_ (i & _ & ->)]]; reflexivity).
    apply Hn. rewrite <- E1, E2. apply in_map, Ha'. }
  apply G, Hconns.
Qed.

Lemma tos_nodup : NoDup (flat_map (fun s => [UPoller s; UInserter s]) (cf_timeouts c)).
Proof.
  apply (flat_map_nodup _ to_key); [exact Htos| |].
  - intros a. repeat constructor; cbn; intuition discriminate.
  - intros a b [<-|[<-|[]]]; reflexivity.
Qed.

Lemma hooks_nodup : NoDup (map UHook (cf_hooks c)).
Proof.
  clear -Hhooks. induction (cf_hooks c) as [|a l IH]; cbn; [constructor|]. inversion Hhooks as [|x xs Hn Hl]; subst.
  constructor; [|apply IH, Hl]. intros Hin. apply in_map_iff in Hin as (y & E & Hy). inversion E; subst. contradiction.
Qed.

Lemma kind_of_segment :
  (forall u, In u (flat_map (fun st => sharded (resolve (snd st) (cf_default_parallel c)) (UStep (fst st))) (cf_steps c)) -> kind u = 1%nat) /\
  (forall u, In u (flat_map (fun s => [UPoller s; UInserter s]) (cf_timeouts c)) -> kind u = 2%nat) /\
  (forall u, In u (flat_map (fun cn => sharded (resolve (snd cn) (cf_default_parallel c)) (UConn (fst cn))) (cf_connectors c)) -> kind u = 3%nat) /\
  (forall u, In u (map UHook (cf_hooks c)) -> kind u = 4%nat).
Proof.
  repeat split; intros u Hu.
  - apply in_flat_map in Hu as (a & _ & Hu). apply sharded_in in Hu as [[_ ->]|[_ (i & _ & ->)]]; reflexivity.
  - apply in_flat_map in Hu as (a & _ & [<-|[<-|[]]]); reflexivity.
  - apply in_flat_map in Hu as (a & _ & Hu). apply sharded_in in Hu as [[_ ->]|[_ (i & _ & ->)]]; reflexivity.
  - apply in_map_iff in Hu as (a & <- & _). reflexivity.
Qed.

(* every unit is launched at most once *)
Theorem launch_nodup : NoDup (launch c).
Proof.
  destruct kind_of_segment as (K1 & K2 & K3 & K4).
  unfold launch.
  assert (Hto : NoDup (if cf_has_tstore c then flat_map (fun s => [UPoller s; UInserter s]) (cf_timeouts c) else []))
    by (destruct (cf_has_tstore c); [apply tos_nodup|constructor]).
  assert (Kto : forall u, In u (if cf_has_tstore c then flat_map (fun s => [UPoller s; UInserter s]) (cf_timeouts c) else []) -> kind u = 2%nat)
    by (destruct (cf_has_tstore c); [exact K2|intros u []]).
  assert (Hr : NoDup (if cf_retry c then [URetry] else [])) by (destruct (cf_retry c); repeat constructor; intros []).
  assert (Kr : forall u, In u (if cf_retry c then [URetry] else []) -> kind u = 6%nat)
    by (destruct (cf_retry c); [intros u [<-|[]]; reflexivity|intros u []]).
  repeat (apply NoDup_app_intro; try assumption; try apply steps_nodup; try apply conns_nodup; try apply hooks_nodup;
          try (repeat constructor; intros []; fail)).
  all: intros x Hx Hin; repeat (apply in_app_or in Hin as [Hin|Hin]);
    repeat match goal with
           | H : In _ [_] |- _ => destruct H as [<-|[]]
           | H : In ?x (flat_map (fun st => sharded _ (UStep _)) _) |- _ => apply K1 in H
           | H : In ?x (flat_map (fun cn => sharded _ (UConn _)) _) |- _ => apply K3 in H
           | H : In ?x (map UHook _) |- _ => apply K4 in H
           | H : In ?x (if cf_has_tstore c then _ else _) |- _ => apply Kto in H
           | H : In ?x (if cf_retry c then _ else _) |- _ => apply Kr in H
           end; cbn in *; try congruence;
    repeat match goal with H : _ \/ _ |- _ => destruct H | H : False |- _ => destruct H end; try discriminate; try congruence.
Qed.

(* exactly the configured units *)
Theorem launch_units u :
  In u (launch c) <->
  u = UOutbox \/ u = UDelete \/ (cf_retry c = true /\ u = URetry) \/
  (exists st, In st (cf_steps c) /\ In u (sharded (resolve (snd st) (cf_default_parallel c)) (UStep (fst st)))) \/
  (cf_has_tstore c = true /\ exists s, In s (cf_timeouts c) /\ (u = UPoller s \/ u = UInserter s)) \/
  (exists cn, In cn (cf_connectors c) /\ In u (sharded (resolve (snd cn) (cf_default_parallel c)) (UConn (fst cn)))) \/
  (exists h, In h (cf_hooks c) /\ u = UHook h).
Proof.
  unfold launch. split.
  - intros H. cbn [app] in H. destruct H as [<-|H]; [auto|].
    apply in_app_or in H as [H|H].
    { apply in_flat_map in H. do 3 right. left. exact H. }
    apply in_app_or in H as [H|H].
    { destruct (cf_has_tstore c) eqn:E; [|destruct H]. apply in_flat_map in H as (s & Hs & Hu).
      do 4 right. left. split; [reflexivity|]. exists s. split; [exact Hs|]. destruct Hu as [<-|[<-|[]]]; auto. }
    apply in_app_or in H as [H|H].
    { apply in_flat_map in H. do 5 right. left. exact H. }
    apply in_app_or in H as [H|H].
    { apply in_map_iff in H as (h & <- & Hh). do 6 right. exists h. auto. }
    destruct H as [<-|H]; [auto|].
    destruct (cf_retry c) eqn:E; [|destruct H]. destruct H as [<-|[]]. auto.
  - intros H. cbn [app].
    destruct H as [->|[->|[[Hr ->]|[H|[[Ht (s & Hs & Hu)]|[H|(h & Hh & ->)]]]]]].
    + now left.
    + right. do 4 (apply in_or_app; right). now left.
    + right. do 4 (apply in_or_app; right). right. rewrite Hr. now left.
    + right. apply in_or_app. left. apply in_flat_map. exact H.
    + right. apply in_or_app. right. apply in_or_app. left. rewrite Ht. apply in_flat_map. exists s. split; [exact Hs|].
      destruct Hu as [-> | ->]; cbn; auto.
    + right. do 2 (apply in_or_app; right). apply in_or_app. left. apply in_flat_map. exact H.
    + right. do 3 (apply in_or_app; right). apply in_or_app. left. apply in_map. exact Hh.
Qed.

End L.
