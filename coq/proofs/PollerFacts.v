(* PollerFacts.v — timeout.go pollTimeouts / processTimeout, for EVERY state (world, fault plan, lease, crash flag):
   a timer is cancelled only directly after its run was read back as moved on or finished, and completed only directly after
   the timeout transition was stored (or the updater found the run already moved). *)
From WF Require Import model.Base model.RunState model.Routing model.Graph model.Counter model.Shard model.EngineBase model.Engine
  proofs.Hoare proofs.Frame proofs.Emits proofs.RelayFacts.

Definition not_end (t : tok) : Prop := match t with TTEnd _ _ _ => False | _ => True end.

Section Poll.
Variable c : econfig.
Variable st : Z.     (* the status the poller serves *)

Definition done_top (top : tok) : Prop :=
  (exists prev r, top = TStore prev r ROk) \/
  (exists run l, top = TLookup KLK run ROk (Some l) /\ r_status l <> st).

Inductive poll_ok : list tok -> Prop :=
| po_nil : poll_ok []
| po_other t tr : not_end t -> poll_ok tr -> poll_ok (t :: tr)
| po_complete id a top tr : done_top top -> poll_ok (top :: tr) -> poll_ok (TTEnd KTM id a :: top :: tr)
| po_cancel id a run r tr :
    (r_status r <> st \/ rs_finished (r_state r) = true) ->
    poll_ok (TLookup KLK run ROk (Some r) :: tr) -> poll_ok (TTEnd KTX id a :: TLookup KLK run ROk (Some r) :: tr).

Lemma poll_ok_em s s' : em_step not_end s s' -> poll_ok (o_trace s) -> poll_ok (o_trace s').
Proof.
  intros (t & E & F) H. rewrite E. clear E. induction F as [|x l Hx Hl IH]; cbn; [exact H|]. apply po_other; assumption.
Qed.

Lemma poll_ok_run {A} (m : M A) s : em not_end m -> poll_ok (o_trace s) -> poll_ok (o_trace (snd (m s))).
Proof. intros Hm. apply poll_ok_em, Hm. Qed.

(* ---------- the sub-computations of the poller emit no timer-ending token ---------- *)
Lemma em_p_lookup run : em not_end (p_lookup run).
Proof. unfold p_lookup. apply em_prim; [intros; exact I|intros; apply em_disp_ret]. Qed.
Lemma em_p_store r : em not_end (p_store c r).
Proof. unfold p_store. apply em_prim; [intros; exact I|intros; apply em_disp_ret]. Qed.
Lemma em_ctl_do ctl target reason : em not_end (ctl_do c ctl target reason).
Proof.
  unfold ctl_do. destruct (ctl_update ctl target reason); [|apply em_ret].
  apply em_bind; [apply em_catch, em_p_store|intros; apply em_ret].
Qed.
Lemma em_invoke u b status view : em not_end (invoke c u b status view).
Proof.
  unfold invoke. apply em_bind; [apply em_att_bump|]. intros n. apply em_bind; [apply em_get_w|]. intros w.
  destruct (eval_beh b n (obj_seed (r_obj view))) as [mark act].
  apply em_bind; [apply em_emit; exact I|]. intros _.
  destruct act; try apply em_ret; (apply em_bind; [apply em_ctl_do|intros; apply em_ret]).
Qed.
Lemma em_maybe_pause inst n e u ctl : em not_end (maybe_pause c inst n e u ctl).
Proof.
  unfold maybe_pause. destruct (n =? 0); [apply em_ret|]. apply em_bind; [apply em_ctr_add|]. intros cnt.
  destruct (Z.of_nat cnt <? n); [apply em_ret|]. apply em_bind; [apply em_ctl_do|]. intros x.
  destruct (fst x); [|apply em_fail]. apply em_bind; [apply em_ctr_clear|intros; apply em_ret].
Qed.
Lemma em_build_run r : em not_end (build_run r).
Proof. unfold build_run. destruct (r_obj r); [apply em_ret|apply em_fail]. Qed.
Lemma em_updater cur next run : em not_end (updater c cur next run).
Proof.
  unfold updater. apply em_bind; [apply em_get_w|]. intros w. apply em_bind; [apply em_p_lookup|]. intros [l|]; [|apply em_fail].
  destruct (negb _); [apply em_ret|]. destruct (negb _); [apply em_fail|apply em_p_store].
Qed.

(* a lookup that answered leaves its token on top of the trace *)
Lemma p_lookup_top run s :
  exists ro s1, p_lookup run s = (ro, s1) /\ em_step not_end s s1 /\
    (forall r, ro = Ok (Some r) -> o_dead s1 = false /\ o_trace s1 = TLookup KLK (Z.of_N run) ROk (Some r) :: o_trace s).
Proof.
  unfold p_lookup.
  match goal with |- context [prim ?k ?ctx ?T ?E ?X s] => destruct (prim_spec2 k ctx T E X s) as (d & s1 & _ & Tr & _ & D2 & _ & R) end.
  rewrite R. clear R.
  set (v := match d with DoStale => stale_run (o_w s) run | _ => lookup_run (o_w s) run end) in *.
  assert (Hs1 : snd (disp_ret d v s1) = s1) by (destruct d; reflexivity).
  exists (fst (disp_ret d v s1)), s1. split; [destruct d; reflexivity|]. split.
  - unfold em_step. rewrite Tr. destruct (o_dead s1); [exists []; split; [reflexivity|constructor]|eexists [_]; split; [reflexivity|repeat constructor]].
  - intros r Hr. assert (Hd : (d = DoOk \/ d = DoStale) /\ v = Some r) by (destruct d; cbn in Hr; inversion Hr; auto).
    destruct Hd as (Hd & Hv). assert (He : disp_effect d = true) by (destruct Hd as [-> | ->]; reflexivity).
    rewrite Tr, (D2 He). split; [reflexivity|]. f_equal. unfold read_res, read_out. fold v.
    destruct Hd as [-> | ->]; rewrite Hv; reflexivity.
Qed.

(* the updater returned nil: the transition was stored, or the run was found moved — and that token is on top of the trace *)
Lemma updater_top next run s r s' :
  updater c st next run s = (r, s') -> em_step not_end s s' /\
  (r = Ok tt -> o_dead s' = false -> exists top tr, o_trace s' = top :: tr /\ done_top top).
Proof.
  intros H. split; [pose proof (em_updater st next run s) as E; rewrite H in E; exact E|].
  unfold updater in H. unfold bind at 1, get_w in H. cbn in H. unfold bind at 1 in H.
  destruct (p_lookup_top (r_run run) s) as (ro & s1 & E1 & _ & T1). rewrite E1 in H.
  destruct ro as [[l|]|e]; try (inversion H; intros; discriminate).
  destruct (T1 l eq_refl) as [D1 Tr1].
  destruct (negb (r_status l =? st)) eqn:Ec.
  - unfold ret in H. inversion H; subst. intros _ _. eexists _, _. split; [exact Tr1|]. right. eexists _, l. split; [reflexivity|].
    apply Bool.negb_true_iff, Z.eqb_neq in Ec. exact Ec.
  - destruct (negb (validate_transition (ec_graph c) st next)); [inversion H; intros; discriminate|].
    unfold p_store in H.
    match type of H with prim ?k ?ctx ?T ?E ?X s1 = _ => destruct (prim_ret_spec k ctx T E s1) as (d & s2 & R & Tr & D2) end.
    rewrite R in H. inversion H; subst. intros Hr Hd. rewrite Tr, Hd. eexists _, _. split; [reflexivity|]. left.
    destruct d; cbn in Hr; try discriminate; eexists _, _; reflexivity.
Qed.

Lemma process_timeouts_ok inst u n t tos : t_status t = st -> forall j s,
  poll_ok (o_trace s) -> poll_ok (o_trace (snd (process_timeouts c inst u st n tos j t s))).
Proof.
  intros Ht. induction tos as [|tc tl IH]; intros j s Hs; cbn [process_timeouts]; [exact Hs|].
  destruct (negb (to_status tc =? st)); [apply IH, Hs|].
  unfold bind at 1. destruct (p_lookup_top (t_run t) s) as (ro & s1 & E1 & F1 & T1). rewrite E1.
  pose proof (poll_ok_em _ _ F1 Hs) as H1.
  destruct ro as [[r|]|e]; cbn [snd]; try exact H1.
  destruct (T1 r eq_refl) as [D1 Tr1].
  destruct (negb (r_status r =? st) || rs_finished (r_state r)) eqn:Em.
  { unfold p_tcancel.
    match goal with |- context [prim ?k ?ctx ?T ?E ?X s1] => destruct (prim_ret_spec k ctx T E s1) as (d & s2 & R & Tr & _) end.
    rewrite R. cbn [snd]. rewrite Tr. destruct (o_dead s2); [exact H1|]. rewrite Tr1. apply po_cancel; [|rewrite <- Tr1; exact H1].
    apply Bool.orb_true_iff in Em as [Em|Em]; [left; apply Bool.negb_true_iff, Z.eqb_neq in Em; exact Em|right; exact Em]. }
  destruct (rs_stopped (r_state r)); [exact H1|].
  unfold bind at 1. pose proof (em_build_run r s1) as F2. destruct (build_run r s1) as [[view|e] s2]; cbn [snd] in *.
  2:{ eapply poll_ok_em; eauto. }
  pose proof (poll_ok_em _ _ F2 H1) as H2.
  unfold bind at 1. pose proof (em_invoke (UFTimeout st j) (to_beh tc) st view s2) as F3.
  destruct (invoke c (UFTimeout st j) (to_beh tc) st view s2) as [[[[obj' oc] ctl]|e] s3]; cbn [snd] in *.
  2:{ eapply poll_ok_em; eauto. }
  pose proof (poll_ok_em _ _ F3 H2) as H3.
  unfold bind at 1.
  assert (Hmid : forall rm sm,
     (match oc with
      | inr oe => maybe_pause c inst n oe u ctl ;;; ret tt
      | inl z => if skip_status z then ret tt else updater c (t_status t) z (set_obj view obj') ;;; p_tcomplete (t_id t)
      end) s3 = (rm, sm) -> poll_ok (o_trace sm)).
  { intros rm sm Hm. destruct oc as [z|oe].
    - destruct (skip_status z); [unfold ret in Hm; inversion Hm; subst; exact H3|].
      rewrite Ht in Hm. unfold bind at 1 in Hm.
      destruct (updater c st z (set_obj view obj') s3) as [ru s4] eqn:Eu.
      destruct (updater_top _ _ _ _ _ Eu) as [F4 Top]. pose proof (poll_ok_em _ _ F4 H3) as H4.
      destruct ru as [[]|e]; [|inversion Hm; subst; exact H4].
      unfold p_tcomplete in Hm.
      match type of Hm with prim ?k ?ctx ?T ?E ?X s4 = _ => destruct (prim_spec2 k ctx T E X s4) as (d & s5 & _ & Tr & Dm & _ & _ & R) end.
      rewrite R in Hm. assert (sm = s5) by (destruct d; cbn in Hm; inversion Hm; reflexivity). subst sm.
      rewrite Tr. destruct (o_dead s5) eqn:E5; [exact H4|].
      assert (D4 : o_dead s4 = false) by (destruct (o_dead s4) eqn:E4; [discriminate (Dm eq_refl)|reflexivity]).
      destruct (Top eq_refl D4) as (top & tr & Etr & Hd). rewrite Etr. apply po_complete; [exact Hd|rewrite <- Etr; exact H4].
    - pose proof (em_bind not_end _ _ (em_maybe_pause inst n oe u ctl) (fun _ => em_ret not_end tt) s3) as F4.
      rewrite Hm in F4. eapply poll_ok_em; eauto. }
  match goal with |- context [match ?m s3 with _ => _ end] => destruct (m s3) as [[[]|e] sm] eqn:Em2 end; cbn [snd].
  - apply IH. eapply Hmid; eauto.
  - eapply Hmid; eauto.
Qed.

Lemma poll_timers_ok inst u n l : (forall t, In t l -> t_status t = st) -> forall s,
  poll_ok (o_trace s) -> poll_ok (o_trace (snd (poll_timers c inst u st n l s))).
Proof.
  induction l as [|t tl IH]; intros Hl s Hs; cbn [poll_timers]; [exact Hs|].
  unfold bind. pose proof (process_timeouts_ok inst u n t (ec_tos c) (Hl t (or_introl eq_refl)) 0%nat s Hs) as H1.
  destruct (process_timeouts c inst u st n (ec_tos c) 0 t s) as [[[]|e] s1]; cbn [snd] in *; [|exact H1].
  apply IH; [intros x Hx; apply Hl; now right|exact H1].
Qed.

(* the IF direction, for EVERY state: when the poller's own read of a timer's run answers with a run that has left the status or is
   finished (Completed, Cancelled, awaiting or past data deletion — the "stopped" guard comes only afterwards), what the poller does
   for that timeout configuration is exactly the Cancel of that timer: no function is invoked, nothing else is called *)
Theorem poller_cancels_moved inst u n tc tl j t s r s1 :
  to_status tc = st -> p_lookup (t_run t) s = (Ok (Some r), s1) ->
  (r_status r <> st \/ rs_finished (r_state r) = true) ->
  process_timeouts c inst u st n (tc :: tl) j t s = p_tcancel (t_id t) s1.
Proof.
  intros Hst Hl Hm. cbn [process_timeouts]. rewrite Hst, Z.eqb_refl. cbn [negb]. unfold bind at 1. rewrite Hl.
  assert (E : negb (r_status r =? st) || rs_finished (r_state r) = true).
  { destruct Hm as [Hm|Hm]; [apply Z.eqb_neq in Hm; rewrite Hm; reflexivity|rewrite Hm; apply Bool.orb_true_r]. }
  rewrite E. reflexivity.
Qed.

End Poll.
