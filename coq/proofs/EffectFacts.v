(* EffectFacts.v — what a step / callback / timeout handler can write, for EVERY state (world, fault plan, lease, crash flag,
   attempt counters): a pause / cancel that keeps status and object of the record handed to the function, or exactly the
   FAILURE-FREE outcome of the configured function on that record — the status it returns once it succeeds, the object it leaves.
   Faults, retries and redeliveries decide whether and when a write happens, never what is written. *)
From WF Require Import model.Base model.RunState model.Routing model.Graph model.Counter model.Shard model.EngineBase model.Engine
  model.Monitors proofs.Hoare proofs.EngineInv proofs.EngineTokens proofs.Frame proofs.Emits.

(* the behaviour of a scripted function once its transient failures are over *)
Fixpoint final_beh (b : beh) (seed : Z) : bool * action :=
  match b with
  | BRet m z => (m, ARet z)
  | BErr m e => (m, AErr e)
  | BErrZ m _ e => (m, AErr e)
  | BPause m => (m, APause)
  | BCancel m => (m, ACancel)
  | BFailFirst _ _ b' => final_beh b' seed
  | BBranch b1 b2 => if Z.even seed then final_beh b1 seed else final_beh b2 seed
  end.

(* whatever the attempt number: when the function returns a status, it is the failure-free one *)
Lemma eval_final b n seed m z : eval_beh b n seed = (m, ARet z) -> final_beh b seed = (m, ARet z).
Proof.
  induction b as [mm zz|mm ee|mm zz ee|mm|mm|k e b' IH|b1 IH1 b2 IH2]; cbn [eval_beh final_beh]; try (intros H; exact H).
  - destruct (Nat.ltb n k); [intros H; inversion H|apply IH].
  - destruct (Z.even seed); auto.
Qed.

Definition not_store (t : tok) : Prop := match t with TStore _ _ _ => False | _ => True end.

Section Effect.
Variable c : econfig.

Definition configured (u : ufun) (b : beh) (st : Z) : Prop :=
  match u with
  | UFStep s => st = s /\ exists sc, In sc (ec_steps c) /\ sc_status sc = s /\ sc_beh sc = b
  | UFCallback s _ => st = s /\ exists cb, In cb (ec_cbs c) /\ cb_status cb = s /\ cb_beh cb = b
  | UFTimeout s _ => st = s /\ exists tc, In tc (ec_tos c) /\ to_status tc = s /\ to_beh tc = b
  | _ => False
  end.

(* the controller's record agrees with the record the function saw *)
Definition agrees (view ctl : record) : Prop :=
  r_run ctl = r_run view /\ r_status ctl = r_status view /\ r_obj ctl = r_obj view /\ r_ver ctl = r_ver view.
(* a controller write from inside / after the function: same run, status and object as the record the function saw, one version on *)
Definition expl_ctl (view r : record) : Prop :=
  r_run r = r_run view /\ r_status r = r_status view /\ r_obj r = r_obj view /\ r_ver r = r_ver view + 1 /\ r_state r <> RSDataDeleted.
(* the updater's write: the failure-free outcome of the configured function on the record it saw *)
Definition expl_adv (u : ufun) (view : record) (z : Z) (r : record) : Prop :=
  r_run r = r_run view /\ r_status r = z /\ r_ver r = r_ver view + 1 /\ (r_state r = RSRunning \/ r_state r = RSCompleted) /\
  exists b st mark, configured u b st /\ final_beh b (obj_seed (r_obj view)) = (mark, ARet z) /\
                    r_obj r = (if mark then mark_obj (r_obj view) st else r_obj view).

(* a write made from the record [x] a Lookup answered with: same run and status, one version on, the same object — or the
   data-deletion rewrite (run-state controller through the API, paused-records retry, delete consumer, the inserter's pause) *)
Definition plain_of (x r : record) : Prop :=
  r_run r = r_run x /\ r_status r = r_status x /\ r_ver r = r_ver x + 1 /\
  ((r_obj r = r_obj x /\ r_state r <> RSDataDeleted) \/ (r_state r = RSDataDeleted /\ r_obj r = scrub_obj c (r_obj x))).
Definition src_of (k : tok) (r : record) : Prop :=
  match k with TLookup _ _ _ (Some x) => plain_of x r | _ => False end.

(* on the (reversed) trace of an operation: every Store sits directly on top of the invocation that explains it, or is the first
   write of a new run, or is a plain write from a record looked up earlier in the operation *)
Inductive adv_ok : list tok -> Prop :=
| av_nil : adv_ok []
| av_other t tr : not_store t -> adv_ok tr -> adv_ok (t :: tr)
| av_src p r a tr : r_ver r = 1 \/ (exists k, In k tr /\ src_of k r) -> adv_ok tr -> adv_ok (TStore p r a :: tr)
| av_ctl p r a u view pers now pl tr :
    is_step_fn u = true -> expl_ctl view r -> adv_ok (TUser u view pers now pl :: tr) -> adv_ok (TStore p r a :: TUser u view pers now pl :: tr)
| av_adv p r a k key res lk u view pers now z tr :
    expl_adv u view z r -> adv_ok (TLookup k key res lk :: TUser u view pers now (URet z) :: tr) ->
    adv_ok (TStore p r a :: TLookup k key res lk :: TUser u view pers now (URet z) :: tr).

Lemma adv_ok_em s s' : em_step not_store s s' -> adv_ok (o_trace s) -> adv_ok (o_trace s').
Proof. intros (t & E & F) H. rewrite E. clear E. induction F as [|x l Hx Hl IH]; cbn; [exact H|]. apply av_other; assumption. Qed.

Definition top_user (u : ufun) (view : record) (pl : uret) (s : ost) : Prop :=
  o_dead s = false -> exists pers now tr, o_trace s = TUser u view pers now pl :: tr.

Lemma prim_ret_spec' k ctx T E (s : ost) :
  exists d s1, prim k ctx T E (fun d _ => disp_ret d tt) s = (match d with DoOk | DoStale => Ok tt | DoErrAfter | DoErr => Err EGen | DoCancel => Err ECancel end, s1) /\
               o_trace s1 = (if o_dead s1 then o_trace s else T d (o_w s) :: o_trace s) /\
               (o_dead s = true -> o_dead s1 = true).
Proof.
  destruct (prim_spec2 k ctx T E (fun d _ => disp_ret d tt) s) as (d & s1 & _ & Tr & D1 & _ & _ & R).
  exists d, s1. rewrite R. split; [destruct d; reflexivity|auto].
Qed.

Lemma stamp_fields3 w r : r_run (stamp c w r) = r_run r /\ r_status (stamp c w r) = r_status r /\ r_obj (stamp c w r) = r_obj r.
Proof. unfold stamp. destruct (ec_stamp c); auto. Qed.
Lemma stamp_ver w r : r_ver (stamp c w r) = r_ver r.
Proof. unfold stamp. destruct (ec_stamp c); reflexivity. Qed.

Lemma dead_false_back s s1 : (o_dead s = true -> o_dead s1 = true) -> o_dead s1 = false -> o_dead s = false.
Proof. intros H H1. destruct (o_dead s); [rewrite (H eq_refl) in H1; discriminate|reflexivity]. Qed.

(* the controller, called on a record that agrees with the view whose invocation token is on top *)
Lemma configured_step_fn u b st : configured u b st -> is_step_fn u = true.
Proof. destruct u; cbn; intros H; try destruct H; reflexivity. Qed.

Lemma ctl_do_adv ctl target reason s u view pl :
  target <> RSDataDeleted -> is_step_fn u = true -> adv_ok (o_trace s) -> top_user u view pl s -> agrees view ctl ->
  adv_ok (o_trace (snd (ctl_do c ctl target reason s))).
Proof.
  intros Htg Hu Hs Htop (E1 & E2 & E3 & E4). unfold ctl_do. destruct (ctl_update ctl target reason) as [r'|] eqn:Eu; [|exact Hs].
  assert (F : r_run r' = r_run ctl /\ r_status r' = r_status ctl /\ r_obj r' = r_obj ctl /\ r_ver r' = r_ver ctl + 1 /\ r_state r' = target).
  { unfold ctl_update in Eu. destruct (rs_table _ _); [|discriminate]. inversion Eu. cbn. auto. }
  unfold bind, catch, p_store.
  match goal with |- context [prim ?k ?ctx ?T ?E ?X s] => destruct (prim_ret_spec' k ctx T E s) as (d & s1 & R & Tr & D1) end.
  rewrite R.
  assert (H1 : adv_ok (o_trace s1)).
  { rewrite Tr. destruct (o_dead s1) eqn:Ed; [exact Hs|].
    assert (Hd0 : o_dead s = false) by (destruct (o_dead s); [discriminate (D1 eq_refl)|reflexivity]).
    destruct (Htop Hd0) as (pers & now & tr & Et). rewrite Et. apply av_ctl; [exact Hu| |rewrite <- Et; exact Hs].
    destruct (stamp_fields3 (o_w s) r') as (S1 & S2 & S3). destruct F as (F1 & F2 & F3 & F4 & F5). unfold expl_ctl. rewrite S1, S2, S3, stamp_ver, (stamp_state c). repeat split; congruence. }
  destruct d; exact H1.
Qed.

Lemma att_bump_same code run s : o_trace (snd (att_bump code run s)) = o_trace s /\ o_dead (snd (att_bump code run s)) = o_dead s.
Proof. unfold att_bump. cbn. auto. Qed.

(* invoking the configured function *)
Lemma ctl_do_shape view target reason s2 x s3 :
  ctl_do c view target reason s2 = (Ok x, s3) ->
  (target = RSPaused \/ target = RSCancelled) ->
  (snd x = view /\ s3 = s2 /\ (exists e, fst x = Err e)) \/ ctl_dead (snd x).
Proof.
  unfold ctl_do. intros H Ht. destruct (ctl_update view target reason) as [r'|] eqn:Eu.
  - unfold bind, catch in H. destruct (p_store c r' s2) as [[[]|e] s4]; cbn in H; inversion H; subst; right; cbn;
      unfold ctl_dead; rewrite (ctl_update_state _ _ _ _ Eu); exact Ht.
  - cbn in H. inversion H; subst. left. cbn. eauto.
Qed.

Lemma invoke_adv u b status view s r s' :
  configured u b status -> adv_ok (o_trace s) -> invoke c u b status view s = (r, s') ->
  adv_ok (o_trace s') /\
  forall obj' oc ctl, r = Ok (obj', oc, ctl) ->
    match oc with
    | inl z => skip_status z = false ->
               top_user u view (URet z) s' /\
               exists mark, final_beh b (obj_seed (r_obj view)) = (mark, ARet z) /\
                            obj' = (if mark then mark_obj (r_obj view) status else r_obj view)
    | inr _ => (ctl = view /\ exists pl, top_user u view pl s') \/ ctl_dead ctl
    end.
Proof.
  intros Hc Hs H. unfold invoke in H. unfold bind at 1 in H.
  destruct (att_bump_same (ufun_code u) (r_run view) s) as [A1 A2].
  destruct (att_bump (ufun_code u) (r_run view) s) as [[n|e] s1] eqn:E1; [|unfold att_bump in E1; discriminate].
  cbn [snd] in A1, A2. unfold bind at 1, get_w in H. cbn [fst snd] in H.
  destruct (eval_beh b n (obj_seed (r_obj view))) as [mark act] eqn:Ev.
  unfold bind at 1 in H.
  destruct (emit_spec2 (TUser u view (lookup_run (o_w s1) (r_run view)) (w_now (o_w s1)) (planned_of act)) s1) as (F1 & _ & F3 & F4).
  destruct (emit (TUser u view (lookup_run (o_w s1) (r_run view)) (w_now (o_w s1)) (planned_of act)) s1) as [[[]|e] s2]; cbn [fst snd] in *; [|discriminate].
  assert (H2 : adv_ok (o_trace s2)).
  { rewrite F4. destruct (o_dead s1); [rewrite A1; exact Hs|]. apply av_other; [exact I|rewrite A1; exact Hs]. }
  assert (T2 : top_user u view (planned_of act) s2).
  { intros Hd. rewrite F3 in Hd. rewrite F4, Hd. eauto. }
  destruct act as [z|er| |]; cbn [planned_of] in *.
  - unfold ret in H. inversion H; subst. split; [exact H2|]. intros obj' oc ctl Hr. inversion Hr; subst. cbn beta iota. intros _.
    split; [exact T2|]. exists mark. split; [eapply eval_final; eauto|reflexivity].
  - unfold ret in H. inversion H; subst. split; [exact H2|]. intros obj' oc ctl Hr. inversion Hr; subst. cbn beta iota.
    left. split; [reflexivity|eauto].
  - unfold bind at 1 in H.
    pose proof (ctl_do_adv view RSPaused 1 s2 u view UPauseA ltac:(discriminate) (configured_step_fn _ _ _ Hc) H2 T2 (conj eq_refl (conj eq_refl (conj eq_refl eq_refl)))) as H3.
    destruct (ctl_do c view RSPaused 1 s2) as [[x|e] s3] eqn:E3; cbn [fst snd] in *; [|inversion H; subst; split; [exact H3|intros; discriminate]].
    unfold ret in H. inversion H; subst. split; [exact H3|]. intros obj' oc ctl Hr. inversion Hr; subst.
    destruct (ctl_do_shape _ _ _ _ _ _ E3 (or_introl eq_refl)) as [(Ex & -> & (e & Ee))|Hd].
    + rewrite Ee. left. rewrite Ex. split; [reflexivity|eauto].
    + destruct (fst x); [intros Hsk; discriminate|right; exact Hd].
  - unfold bind at 1 in H.
    pose proof (ctl_do_adv view RSCancelled 3 s2 u view UCancelA ltac:(discriminate) (configured_step_fn _ _ _ Hc) H2 T2 (conj eq_refl (conj eq_refl (conj eq_refl eq_refl)))) as H3.
    destruct (ctl_do c view RSCancelled 3 s2) as [[x|e] s3] eqn:E3; cbn [fst snd] in *; [|inversion H; subst; split; [exact H3|intros; discriminate]].
    unfold ret in H. inversion H; subst. split; [exact H3|]. intros obj' oc ctl Hr. inversion Hr; subst.
    destruct (ctl_do_shape _ _ _ _ _ _ E3 (or_intror eq_refl)) as [(Ex & -> & (e & Ee))|Hd].
    + rewrite Ee. left. rewrite Ex. split; [reflexivity|eauto].
    + destruct (fst x); [intros Hsk; discriminate|right; exact Hd].
Qed.

Lemma maybe_pause_adv inst n e u0 ctl s u view :
  is_step_fn u = true -> adv_ok (o_trace s) -> ((ctl = view /\ exists pl, top_user u view pl s) \/ ctl_dead ctl) ->
  adv_ok (o_trace (snd (maybe_pause c inst n e u0 ctl s))).
Proof.
  intros Hu Hs Hc. unfold maybe_pause. destruct (n =? 0); [exact Hs|].
  unfold bind at 1. unfold ctr_add at 1. destruct (c_add (ctr_of (w_ctrs (o_w s)) inst) (Z.to_N e, eunit_code u0, r_run ctl)) as [c' cnt]. cbn [fst snd].
  destruct (Z.of_nat cnt <? n); [exact Hs|].
  unfold bind at 1.
  match goal with |- context [ctl_do c ctl RSPaused 2 ?sx] => set (s1 := sx) end.
  assert (H1 : adv_ok (o_trace (snd (ctl_do c ctl RSPaused 2 s1)))).
  { destruct Hc as [(-> & pl & Ht)|Hd].
    - apply (ctl_do_adv view RSPaused 2 s1 u view pl); [discriminate|exact Hu|exact Hs|exact Ht|repeat split].
    - unfold ctl_do. rewrite (ctl_dead_no_pause ctl 2 Hd). exact Hs. }
  destruct (ctl_do c ctl RSPaused 2 s1) as [[x|er] s2]; cbn [snd] in *; [|exact H1].
  destruct (fst x); [|exact H1]. exact H1.
Qed.

Lemma updater_adv cur z view obj' s u :
  adv_ok (o_trace s) -> top_user u view (URet z) s ->
  (exists b st mark, configured u b st /\ final_beh b (obj_seed (r_obj view)) = (mark, ARet z) /\
                     obj' = (if mark then mark_obj (r_obj view) st else r_obj view)) ->
  adv_ok (o_trace (snd (updater c cur z (set_obj view obj') s))).
Proof.
  intros Hs Htop Hex. unfold updater. unfold bind at 1, get_w. cbn [fst snd]. unfold bind at 1. unfold p_lookup.
  match goal with |- context [prim ?k ?ctx ?T ?E ?X s] => destruct (prim_spec2 k ctx T E X s) as (d & s1 & _ & Tr & D1 & _ & _ & R) end.
  rewrite R. clear R.
  set (v := match d with DoStale => stale_run (o_w s) (r_run (set_obj view obj')) | _ => lookup_run (o_w s) (r_run (set_obj view obj')) end) in *.
  assert (H1 : adv_ok (o_trace s1)).
  { rewrite Tr. destruct (o_dead s1); [exact Hs|]. apply av_other; [exact I|exact Hs]. }
  assert (Hs1 : forall rr ss, disp_ret d v s1 = (rr, ss) -> ss = s1) by (intros rr ss Hx; destruct d; cbn in Hx; inversion Hx; reflexivity).
  destruct (disp_ret d v s1) as [[[l|]|er] ss] eqn:Ed; cbn [snd]; rewrite (Hs1 _ _ eq_refl); try exact H1.
  destruct (negb (r_status l =? cur)); [exact H1|]. destruct (negb (validate_transition (ec_graph c) cur z)); [exact H1|].
  unfold p_store.
  match goal with |- context [prim ?k ?ctx ?T ?E ?X s1] => destruct (prim_ret_spec' k ctx T E s1) as (d2 & s2 & R2 & Tr2 & D2) end.
  rewrite R2. cbn [snd]. rewrite Tr2. destruct (o_dead s2) eqn:E2; [exact H1|].
  assert (Hd1 : o_dead s1 = false) by (destruct (o_dead s1); [discriminate (D2 eq_refl)|reflexivity]).
  assert (Hd0 : o_dead s = false) by (destruct (o_dead s); [rewrite (D1 eq_refl) in Hd1; discriminate|reflexivity]).
  destruct (Htop Hd0) as (pers & now & tr & Et). rewrite Hd1 in Tr. rewrite Tr, Et.
  apply av_adv; [|rewrite <- Et, <- Tr; exact H1].
  destruct Hex as (b & st & mark & Hc & Hf & Ho).
  match goal with |- expl_adv _ _ _ (stamp c ?w ?r) => destruct (stamp_fields3 w r) as (S1 & S2 & S3) end.
  unfold expl_adv. rewrite S1, S2, S3, stamp_ver, (stamp_state c). cbn. split; [reflexivity|]. split; [reflexivity|]. split; [reflexivity|].
  split; [destruct (is_terminal (ec_graph c) z); auto|]. exists b, st, mark. auto.
Qed.

Lemma find_first_in {A} (p : A -> bool) l x : find_first p l = Some x -> In x l /\ p x = true.
Proof. apply find_first_some. Qed.

Lemma promote_fields r : r_run (promote r) = r_run r /\ r_status (promote r) = r_status r /\ r_obj (promote r) = r_obj r.
Proof. unfold promote. destruct (r_state r); auto. Qed.

Lemma em_lookup_ns run : em not_store (p_lookup run).
Proof. unfold p_lookup. apply em_prim; [intros; exact I|intros; apply em_disp_ret]. Qed.
Lemma em_latest_ns fid : em not_store (p_latest fid).
Proof. unfold p_latest. apply em_prim; [intros; exact I|intros; apply em_disp_ret]. Qed.

(* step.go stepConsumer around a configured step function *)
Theorem step_handler_adv inst u st sc n e s :
  find_step c st = Some sc -> adv_ok (o_trace s) ->
  adv_ok (o_trace (snd (step_handler c inst u st (invoke c (UFStep st) (sc_beh sc) st) n e s))).
Proof.
  intros Hf Hs. apply find_first_in in Hf as [Hin Hst]. apply Z.eqb_eq in Hst.
  assert (Hc : configured (UFStep st) (sc_beh sc) st) by (split; [reflexivity|exists sc; auto]).
  unfold step_handler. unfold bind at 1.
  pose proof (em_lookup_ns (e_run e) s) as F1.
  destruct (p_lookup (e_run e) s) as [[[r|]|er] s1]; cbn [snd] in *; pose proof (adv_ok_em _ _ F1 Hs) as H1; try exact H1.
  destruct (r_ver r >? e_ver e); [exact H1|]. destruct (r_ver r <? e_ver e); [exact H1|]. destruct (rs_stopped (r_state r)); [exact H1|].
  unfold bind at 1. unfold build_run. destruct (r_obj r) as [seed tr|] eqn:Eo; [|exact H1]. cbn [ret fst snd].
  unfold bind at 1.
  destruct (invoke c (UFStep st) (sc_beh sc) st (promote r) s1) as [ri s2] eqn:Ei.
  destruct (invoke_adv _ _ _ _ _ _ _ Hc H1 Ei) as [H2 Hpost].
  destruct ri as [[[obj' oc] ctl]|er]; cbn [snd]; [|exact H2].
  specialize (Hpost obj' oc ctl eq_refl). destruct oc as [z|oe].
  - destruct (skip_status z) eqn:Esk; [exact H2|]. destruct (Hpost eq_refl) as [Htop (mark & Hfb & Ho)].
    apply (updater_adv st z (promote r) obj' s2 (UFStep st) H2 Htop). exists (sc_beh sc), st, mark. auto.
  - unfold bind at 1. pose proof (maybe_pause_adv inst n oe u ctl s2 (UFStep st) (promote r) eq_refl H2 Hpost) as H3.
    destruct (maybe_pause c inst n oe u ctl s2) as [[[]|er] s3]; exact H3.
Qed.

Definition not_store_tend : forall k id a, not_store (TTEnd k id a) := fun _ _ _ => I.

Lemma em_tend_ns k T E : (forall d w, not_store (T d w)) -> em not_store (prim k true T E (fun d _ => disp_ret d tt)).
Proof. intros HT. apply em_prim; [exact HT|intros; apply em_disp_ret]. Qed.

(* timeout.go pollTimeouts around the configured timeout functions of the status *)
Theorem process_timeouts_adv inst u st n t tos : (forall x, In x tos -> In x (ec_tos c)) -> forall j s,
  adv_ok (o_trace s) -> adv_ok (o_trace (snd (process_timeouts c inst u st n tos j t s))).
Proof.
  induction tos as [|tc tl IH]; intros Hsub j s Hs; cbn [process_timeouts]; [exact Hs|].
  assert (Hsub' : forall x, In x tl -> In x (ec_tos c)) by (intros x Hx; apply Hsub; now right).
  destruct (negb (to_status tc =? st)) eqn:Est; [apply IH; assumption|].
  apply Bool.negb_false_iff, Z.eqb_eq in Est.
  assert (Hc : configured (UFTimeout st j) (to_beh tc) st) by (split; [reflexivity|exists tc; split; [apply Hsub; now left|auto]]).
  unfold bind at 1. pose proof (em_lookup_ns (t_run t) s) as F1.
  destruct (p_lookup (t_run t) s) as [[[r|]|er] s1]; cbn [snd] in *; pose proof (adv_ok_em _ _ F1 Hs) as H1; try exact H1.
  destruct (negb (r_status r =? st) || rs_finished (r_state r)).
  { unfold p_tcancel. eapply adv_ok_em; [|exact H1]. apply em_tend_ns. intros; exact I. }
  destruct (rs_stopped (r_state r)); [exact H1|].
  unfold bind at 1. unfold build_run. destruct (r_obj r) as [seed tr|] eqn:Eo; [|exact H1]. cbn [ret fst snd].
  unfold bind at 1.
  destruct (invoke c (UFTimeout st j) (to_beh tc) st (promote r) s1) as [ri s2] eqn:Ei.
  destruct (invoke_adv _ _ _ _ _ _ _ Hc H1 Ei) as [H2 Hpost].
  destruct ri as [[[obj' oc] ctl]|er]; cbn [snd]; [|exact H2].
  specialize (Hpost obj' oc ctl eq_refl).
  unfold bind at 1.
  assert (Hmid : adv_ok (o_trace (snd ((match oc with
      | inr oe => maybe_pause c inst n oe u ctl ;;; ret tt
      | inl z => if skip_status z then ret tt else updater c (t_status t) z (set_obj (promote r) obj') ;;; p_tcomplete (t_id t)
      end) s2)))).
  { destruct oc as [z|oe].
    - destruct (skip_status z) eqn:Esk; [exact H2|]. destruct (Hpost eq_refl) as [Htop (mark & Hfb & Ho)].
      unfold bind at 1.
      pose proof (updater_adv (t_status t) z (promote r) obj' s2 (UFTimeout st j) H2 Htop
                    (ex_intro _ (to_beh tc) (ex_intro _ st (ex_intro _ mark (conj Hc (conj Hfb Ho)))))) as H3.
      destruct (updater c (t_status t) z (set_obj (promote r) obj') s2) as [[[]|er] s3]; cbn [snd] in *; [|exact H3].
      unfold p_tcomplete. eapply adv_ok_em; [|exact H3]. apply em_tend_ns. intros; exact I.
    - unfold bind at 1. pose proof (maybe_pause_adv inst n oe u ctl s2 (UFTimeout st j) (promote r) eq_refl H2 Hpost) as H3.
      destruct (maybe_pause c inst n oe u ctl s2) as [[[]|er] s3]; exact H3. }
  match goal with |- context [match ?m s2 with _ => _ end] => destruct (m s2) as [[[]|er] sm] end; cbn [snd] in *; [|exact Hmid].
  apply IH; assumption.
Qed.

Theorem poll_timers_adv inst u st n l : forall s,
  adv_ok (o_trace s) -> adv_ok (o_trace (snd (poll_timers c inst u st n l s))).
Proof.
  induction l as [|t tl IH]; intros s Hs; cbn [poll_timers]; [exact Hs|].
  unfold bind. pose proof (process_timeouts_adv inst u st n t (ec_tos c) (fun x H => H) 0%nat s Hs) as H1.
  destruct (process_timeouts c inst u st n (ec_tos c) 0 t s) as [[[]|e] s1]; cbn [snd] in *; [|exact H1].
  apply IH, H1.
Qed.

(* callback.go around the configured callback functions of the status *)
Theorem api_callbacks_adv fid status cbs : (forall x, In x cbs -> In x (ec_cbs c)) -> forall j s,
  adv_ok (o_trace s) -> adv_ok (o_trace (snd (api_callbacks c fid status cbs j s))).
Proof.
  induction cbs as [|cb tl IH]; intros Hsub j s Hs; cbn [api_callbacks]; [exact Hs|].
  assert (Hsub' : forall x, In x tl -> In x (ec_cbs c)) by (intros x Hx; apply Hsub; now right).
  destruct (negb (cb_status cb =? status)) eqn:Est; [apply IH; assumption|].
  apply Bool.negb_false_iff, Z.eqb_eq in Est.
  assert (Hc : configured (UFCallback status j) (cb_beh cb) status) by (split; [reflexivity|exists cb; split; [apply Hsub; now left|auto]]).
  unfold bind at 1. pose proof (em_latest_ns fid s) as F1.
  destruct (p_latest fid s) as [[[wr|]|er] s1]; cbn [snd] in *; pose proof (adv_ok_em _ _ F1 Hs) as H1; try exact H1.
  unfold bind at 1.
  assert (Hmid : adv_ok (o_trace (snd ((if negb (r_status wr =? status) then ret tt
         else if rs_stopped (r_state wr) then ret tt
         else view <- build_run wr ;;
              out <- invoke c (UFCallback status j) (cb_beh cb) status view ;;
              let '(obj', oc, _) := out in
              match oc with
              | inr e => fail (if e =? ECancel then ECancel else e)
              | inl z => if skip_status z then ret tt else updater c status z (set_obj view obj')
              end) s1)))).
  { destruct (negb (r_status wr =? status)); [exact H1|]. destruct (rs_stopped (r_state wr)); [exact H1|].
    unfold bind at 1. unfold build_run. destruct (r_obj wr) as [seed tr|] eqn:Eo; [|exact H1]. cbn [ret fst snd].
    unfold bind at 1.
    destruct (invoke c (UFCallback status j) (cb_beh cb) status (promote wr) s1) as [ri s2] eqn:Ei.
    destruct (invoke_adv _ _ _ _ _ _ _ Hc H1 Ei) as [H2 Hpost].
    destruct ri as [[[obj' oc] ctl]|er]; cbn [snd]; [|exact H2].
    specialize (Hpost obj' oc ctl eq_refl). destruct oc as [z|oe]; [|exact H2].
    destruct (skip_status z) eqn:Esk; [exact H2|]. destruct (Hpost eq_refl) as [Htop (mark & Hfb & Ho)].
    apply (updater_adv status z (promote wr) obj' s2 (UFCallback status j) H2 Htop). exists (cb_beh cb), status, mark. auto. }
  match goal with |- context [match ?m s1 with _ => _ end] => destruct (m s1) as [[[]|er] sm] end; cbn [snd] in *; [|exact Hmid].
  apply IH; assumption.
Qed.

End Effect.
