From WF Require Import model.Base model.RunState model.Routing.

(* the routing function, stated case by case over ALL integer run-state codes *)
Lemma route_topic_cases : forall st status,
  route_topic_code st status =
    if (st =? 7) then TDelete
    else if (st =? 3) || (st =? 4) || (st =? 5) || (st =? 6) then TRunStateChange
    else TStatus status.
Proof.
  intros. unfold route_topic_code.
  destruct (st =? 3) eqn:E3; destruct (st =? 4) eqn:E4; destruct (st =? 5) eqn:E5; destruct (st =? 6) eqn:E6; destruct (st =? 7) eqn:E7;
    cbn; try reflexivity; exfalso; rewrite ?Z.eqb_eq in *; lia.
Qed.

Lemma route_status_topic_iff : forall st status,
  route_topic_code st status = TStatus status <-> ~ (3 <= st <= 7).
Proof.
  intros. rewrite route_topic_cases.
  destruct (st =? 7) eqn:E7; [apply Z.eqb_eq in E7; split; [discriminate|lia]|].
  destruct (st =? 3) eqn:E3; destruct (st =? 4) eqn:E4; destruct (st =? 5) eqn:E5; destruct (st =? 6) eqn:E6; cbn;
    rewrite ?Z.eqb_eq, ?Z.eqb_neq in *; split; intro; try discriminate; try lia; reflexivity.
Qed.

Lemma route_by_state : forall r,
  route_topic r = match r_state r with
                  | RSPaused | RSCancelled | RSCompleted | RSDataDeleted => TRunStateChange
                  | RSReqDataDeleted => TDelete
                  | _ => TStatus (r_status r)
                  end.
Proof. intro r. unfold route_topic. destruct (r_state r); reflexivity. Qed.

(* the entry is a function of the record (and the fresh id) alone; its fields are those of the record *)
Lemma route_fields : forall id r,
  let o := route id r in
  o_id o = id /\ o_wf o = r_wf r /\ o_topic o = route_topic r /\ o_run o = r_run r /\ o_fid o = r_fid r /\
  o_type o = int32 (r_status r) /\ o_state o = rs_code (r_state r) /\ o_ver o = r_ver r.
Proof. intros. cbn. repeat split; reflexivity. Qed.

Lemma int32_id : forall z, -2147483648 <= z < 2147483648 -> int32 z = z.
Proof. intros z H. unfold int32. rewrite Z.mod_small; lia. Qed.

Lemma int32_range : forall z, -2147483648 <= int32 z < 2147483648.
Proof. intro z. unfold int32. pose proof (Z.mod_pos_bound (z + 2147483648) 4294967296 ltac:(lia)). lia. Qed.

(* Await: released only by an event of the awaited run, foreign ID and status *)
Lemma await_release_spec : forall fid run status e,
  await_release fid run status e = true <-> (e_fid e = fid /\ e_run e = run /\ e_type e = int32 status).
Proof.
  intros. unfold await_release, filter_by_fid, filter_by_run.
  rewrite !andb_true_iff, !negb_involutive, !N.eqb_eq, Z.eqb_eq. tauto.
Qed.

(* F9 on the pinned tree: a pause event (type = current status 1) of the awaited run releases an Await for status 2 *)
Lemma await_orig_refuted : exists fid run status e,
  await_release_orig fid run e = true /\ e_type e <> int32 status.
Proof.
  exists 1%N, 1%N, 2, (mkEvent 1 0%N TRunStateChange 1%N 1%N 1 3 2 0). split; [reflexivity|]. cbn. discriminate.
Qed.
