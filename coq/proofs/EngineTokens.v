(* EngineTokens.v — every token of every trace of the engine model satisfies the token-local clauses of the properties
   (model/Monitors.v tok_ok): for all configurations, all operation sequences, all fault plans without stale reads,
   all crashes, lease revocations, cursor rewinds and duplicated deliveries. *)
From WF Require Import model.Base model.RunState model.Routing model.Graph model.Counter model.Shard model.EngineBase
  model.Engine model.Monitors proofs.GraphProofs proofs.RunStateProofs proofs.Hoare proofs.EngineInv.

Section Tokens.
Variable c : econfig.
Let g := ec_graph c.

Notation Inv := (Inv c).
Notation WI := (WI c).
Notation store_pre := (store_pre c).

(* facts about local variables depend on the world only through its records, run counter and clock *)
Definition weq (w w' : world) : Prop :=
  w_recs w' = w_recs w /\ w_nrun w' = w_nrun w /\ w_now w' = w_now w /\ w_hist w' = w_hist w /\ w_noid w' = w_noid w.
Definition stable (K : world -> Prop) : Prop := forall w w', weq w w' -> K w -> K w'.

Lemma weq_refl w : weq w w. Proof. repeat split. Qed.

Lemma stable_and (K1 K2 : world -> Prop) : stable K1 -> stable K2 -> stable (fun w => K1 w /\ K2 w).
Proof. intros H1 H2 w w' E [A B]. split; eauto. Qed.
Lemma stable_const (F : Prop) : stable (fun _ => F).
Proof. intros w w' _ H. exact H. Qed.

Lemma toks_ok_cons t tr : tok_ok g t = true -> toks_ok c tr -> toks_ok c (t :: tr).
Proof. intros H1 H2. constructor; assumption. Qed.

(* ---------- a step that changes neither records, run counter, clock, outbox nor log, and emits only harmless tokens ---------- *)
Definition quiet_step (s s' : ost) : Prop :=
  weq (o_w s) (o_w s') /\ w_log (o_w s') = w_log (o_w s) /\ w_outbox (o_w s') = w_outbox (o_w s) /\
  w_procs (o_w s') = w_procs (o_w s) /\ o_plan s' = o_plan s /\
  exists ts, Forall (fun t => tok_ok g t = true) ts /\ o_trace s' = ts ++ o_trace s.

Lemma quiet_Inv (K : world -> Prop) s s' :
  stable K -> quiet_step s s' -> Inv s /\ K (o_w s) -> Inv s' /\ K (o_w s').
Proof.
  intros HK (Hw & Hl & Ho & Hpr & Hp & (ts & Hts & Ht)) [(HW & Hn & Htr) HKs]. split; [|eapply HK; eauto].
  destruct Hw as (E1 & E2 & E3 & E4 & E5). split; [|split].
  - eapply WI_frame; eauto.
  - rewrite Hp. exact Hn.
  - rewrite Ht. apply Forall_app. split; assumption.
Qed.

Lemma quiet_refl s : quiet_step s s.
Proof. repeat split; auto. exists []. split; [constructor|reflexivity]. Qed.

Lemma quiet_trans s1 s2 s3 : quiet_step s1 s2 -> quiet_step s2 s3 -> quiet_step s1 s3.
Proof.
  intros ((A1 & A2 & A3 & A4 & A5) & B & C & C2 & D & (ts & Hts & E)) ((A1' & A2' & A3' & A4' & A5') & B' & C' & C2' & D' & (ts' & Hts' & E')).
  repeat split; try congruence.
  exists (ts' ++ ts). split; [apply Forall_app; split; assumption|]. rewrite E', E. now rewrite app_assoc.
Qed.

(* a computation all of whose final states are a quiet step away from where it started *)
Definition quiet {A} (m : M A) : Prop := forall s, quiet_step s (snd (m s)).

Lemma t_quiet {A} (m : M A) (K : world -> Prop) :
  quiet m -> stable K -> triple (fun s => Inv s /\ K (o_w s)) m (fun _ s' => Inv s' /\ K (o_w s')).
Proof. intros Hq HK s Hs. eapply quiet_Inv; eauto. Qed.

Lemma quiet_ret {A} (a : A) : quiet (ret a).
Proof. intros s. apply quiet_refl. Qed.
Lemma quiet_fail {A} e : quiet (@fail A e).
Proof. intros s. apply quiet_refl. Qed.
Lemma quiet_bind {A B} (m : M A) (f : A -> M B) : quiet m -> (forall a, quiet (f a)) -> quiet (bind m f).
Proof.
  intros Hm Hf s. unfold bind. specialize (Hm s). destruct (m s) as [[a|e] s1]; cbn in *; [|exact Hm].
  eapply quiet_trans; [exact Hm|apply Hf].
Qed.
Lemma quiet_catch {A} (m : M A) : quiet m -> quiet (catch m).
Proof. intros Hm s. unfold catch. specialize (Hm s). destruct (m s) as [[a|e] s1]; exact Hm. Qed.

Lemma quiet_emit t : tok_ok g t = true -> quiet (emit t).
Proof.
  intros Hok s. destruct (emit_spec t s) as (_ & E2 & E3 & E4).
  repeat split; try (rewrite E2; reflexivity); try assumption.
  destruct E4 as [E|E]; [exists [t]; split; [repeat constructor; exact Hok|exact E]|exists []; split; [constructor|exact E]].
Qed.

Lemma quiet_dispatch k ctx : quiet (dispatch k ctx).
Proof.
  intros s. destruct (dispatch_spec k ctx s) as (d & _ & E2 & E3 & E4 & _).
  repeat split; try (rewrite E2; reflexivity); try assumption. exists []. split; [constructor|exact E4].
Qed.

Lemma quiet_get_w : quiet get_w.
Proof. intros s. apply quiet_refl. Qed.

Lemma quiet_disp_ret {A} d (a : A) : quiet (disp_ret d a).
Proof. destruct d; cbn; try apply quiet_ret; apply quiet_fail. Qed.

(* state-only world updates outside records / run counter / clock / log / outbox *)
Lemma quiet_state {A} (f : ost -> res A * ost) :
  (forall s, weq (o_w s) (o_w (snd (f s))) /\ w_log (o_w (snd (f s))) = w_log (o_w s) /\
             w_outbox (o_w (snd (f s))) = w_outbox (o_w s) /\ w_procs (o_w (snd (f s))) = w_procs (o_w s) /\
             o_plan (snd (f s)) = o_plan s /\ o_trace (snd (f s)) = o_trace s) ->
  quiet (f : M A).
Proof.
  intros H s. destruct (H s) as (A1 & A2 & A3 & A3' & A4 & A5). repeat split; try apply A1; try assumption.
  exists []. split; [constructor|exact A5].
Qed.

Lemma quiet_att_bump code run : quiet (att_bump code run).
Proof. apply quiet_state. intros s. unfold att_bump. cbn. repeat split. Qed.
Lemma quiet_ctr_add inst k : quiet (ctr_add inst k).
Proof. apply quiet_state. intros s. unfold ctr_add. destruct (c_add _ _). cbn. repeat split. Qed.
Lemma quiet_ctr_clear inst k : quiet (ctr_clear inst k).
Proof. apply quiet_state. intros s. unfold ctr_clear. cbn. repeat split. Qed.
Lemma quiet_lease_live : quiet lease_live.
Proof. apply quiet_state. intros s. unfold lease_live. cbn. repeat split. Qed.
Lemma quiet_put_w_same (f : world -> world) :
  (forall w, weq w (f w) /\ w_log (f w) = w_log w /\ w_outbox (f w) = w_outbox w /\ w_procs (f w) = w_procs w) ->
  quiet (w <- get_w ;; put_w (f w)).
Proof. intros H. apply quiet_state. intros s. cbn. destruct (H (o_w s)) as (A & B & C & D). repeat split; try apply A; assumption. Qed.

(* ---------- the common shape of the adapter-call primitives ---------- *)
Lemma prim_spec {A} k ctx T E (X : disp -> world -> M A) (s : ost) :
  exists d s1,
    (d = DoStale -> plan_at (o_plan s) k (count_get (o_counts s) k) = FStale) /\
    o_w s1 = (if disp_effect d then E (o_w s) else o_w s) /\ o_plan s1 = o_plan s /\
    (o_trace s1 = T d (o_w s) :: o_trace s \/ o_trace s1 = o_trace s) /\
    prim k ctx T E X s = X d (o_w s) s1.
Proof.
  unfold prim, bind at 1. destruct (dispatch_spec k ctx s) as (d & E1 & E2 & E3 & E4 & E5).
  destruct (dispatch k ctx s) as [rd s0]; cbn in E1, E2, E3, E4. subst rd.
  unfold bind at 1, get_w. cbn. rewrite E2.
  unfold bind at 1. destruct (emit_spec (T d (o_w s)) s0) as (F1 & F2 & F3 & F4).
  destruct (emit (T d (o_w s)) s0) as [re s0']; cbn in F1, F2, F3, F4. subst re.
  unfold bind at 1.
  destruct (disp_effect d) eqn:Ed.
  - unfold put_w. cbn.
    exists d, (mkOst (E (o_w s)) (o_plan s0') (o_counts s0') (o_trace s0') (o_lease s0') (o_dead s0')).
    split; [exact E5|]. rewrite Ed. cbn. split; [reflexivity|].
    split; [congruence|]. split; [|reflexivity]. destruct F4 as [F|F]; rewrite F, E4; auto.
  - cbn. exists d, s0'. split; [exact E5|]. rewrite Ed. split; [congruence|]. split; [congruence|].
    split; [|reflexivity]. destruct F4 as [F|F]; rewrite F, E4; auto.
Qed.

Definition inert (E : world -> world) : Prop :=
  forall w, weq w (E w) /\ w_log (E w) = w_log w /\ w_outbox (E w) = w_outbox w /\ w_procs (E w) = w_procs w.

Lemma quiet_prim {A} k ctx T E (X : disp -> world -> M A) :
  (forall d w, tok_ok g (T d w) = true) -> inert E -> (forall d w, quiet (X d w)) -> quiet (prim k ctx T E X).
Proof.
  intros HT HE HX s. destruct (prim_spec k ctx T E X s) as (d & s1 & _ & W & P & Tr & R). rewrite R.
  eapply quiet_trans; [|apply HX].
  destruct (HE (o_w s)) as (A1 & A2 & A3 & A4).
  repeat split; try (rewrite W; destruct (disp_effect d); solve [apply A1 | assumption | reflexivity]); try assumption.
  destruct Tr as [F|F]; [exists [T d (o_w s)]; split; [repeat constructor; apply HT|exact F]|exists []; split; [constructor|exact F]].
Qed.

(* ---------- triples for the primitives ---------- *)
Lemma inert_id : inert (fun w => w).
Proof. intros w. repeat split. Qed.

Lemma prim_quiet_run {A} k ctx T E (X : disp -> world -> M A) (s : ost) :
  (forall d w, tok_ok g (T d w) = true) -> inert E ->
  exists d s1, (d = DoStale -> plan_at (o_plan s) k (count_get (o_counts s) k) = FStale) /\
               quiet_step s s1 /\ weq (o_w s) (o_w s1) /\ prim k ctx T E X s = X d (o_w s) s1.
Proof.
  intros HT HE. destruct (prim_spec k ctx T E X s) as (d & s1 & St & W & P & Tr & R).
  exists d, s1. split; [exact St|]. destruct (HE (o_w s)) as (A1 & A2 & A3 & A4).
  assert (Hq : quiet_step s s1).
  { repeat split; try (rewrite W; destruct (disp_effect d); solve [apply A1 | assumption | reflexivity]); try assumption.
    destruct Tr as [F|F]; [exists [T d (o_w s)]; split; [repeat constructor; apply HT|exact F]|exists []; split; [constructor|exact F]]. }
  split; [exact Hq|]. split; [apply Hq|exact R].
Qed.

Lemma disp_ret_run {A} d (a : A) s : exists r, disp_ret d a s = (r, s) /\ (forall x, r = Ok x -> x = a).
Proof. destruct d; cbn; eexists; split; try reflexivity; intros x Hx; inversion Hx; reflexivity. Qed.

Lemma nostale_not (s : ost) k d :
  nostale (o_plan s) -> (d = DoStale -> plan_at (o_plan s) k (count_get (o_counts s) k) = FStale) -> d <> DoStale.
Proof. intros Hn H E. apply (Hn k (count_get (o_counts s) k)). auto. Qed.

Lemma p_lookup_t (K : world -> Prop) (run : N) :
  stable K ->
  triple (fun s => Inv s /\ K (o_w s)) (p_lookup run)
         (fun r s => Inv s /\ K (o_w s) /\ forall x, r = Ok x -> x = lookup_run (o_w s) run).
Proof.
  intros HK s Hs. unfold p_lookup.
  match goal with |- context [prim ?k ?ctx ?T ?E ?X s] =>
    destruct (prim_quiet_run k ctx T E X s) as (d & s1 & St & Hq & Hw & R); [reflexivity|apply inert_id|] end.
  rewrite R. destruct (disp_ret_run d (match d with DoStale => stale_run (o_w s) run | _ => lookup_run (o_w s) run end) s1) as (r & Er & Hr).
  rewrite Er. cbn. destruct (quiet_Inv K s s1 HK Hq Hs) as [HI HK1]. split; [exact HI|split; [exact HK1|]].
  intros x Hx. rewrite (Hr x Hx).
  assert (d <> DoStale) by (eapply nostale_not; [apply Hs|exact St]).
  destruct Hw as (E1 & _). unfold lookup_run. rewrite E1. destruct d; try reflexivity. contradiction.
Qed.

Lemma p_latest_t (K : world -> Prop) (fid : N) :
  stable K ->
  triple (fun s => Inv s /\ K (o_w s)) (p_latest fid)
         (fun r s => Inv s /\ K (o_w s) /\ forall x, r = Ok x -> x = latest_fid (o_w s) fid).
Proof.
  intros HK s Hs. unfold p_latest.
  match goal with |- context [prim ?k ?ctx ?T ?E ?X s] =>
    destruct (prim_quiet_run k ctx T E X s) as (d & s1 & St & Hq & Hw & R); [reflexivity|apply inert_id|] end.
  rewrite R. destruct (disp_ret_run d (latest_fid (o_w s) fid) s1) as (r & Er & Hr).
  rewrite Er. cbn. destruct (quiet_Inv K s s1 HK Hq Hs) as [HI HK1]. split; [exact HI|split; [exact HK1|]].
  intros x Hx. rewrite (Hr x Hx). destruct Hw as (E1 & _). unfold latest_fid. now rewrite E1.
Qed.

(* every other non-record primitive: quiet *)
Lemma quiet_prim_ret {A} k ctx T E (a : disp -> world -> A) :
  (forall d w, tok_ok g (T d w) = true) -> inert E -> quiet (prim k ctx T E (fun d w => disp_ret d (a d w))).
Proof. intros HT HE. apply quiet_prim; try assumption. intros d w. apply quiet_disp_ret. Qed.

Lemma quiet_p_call k ctx args eff out : inert eff -> quiet (p_call k ctx args eff out).
Proof. intros HE. unfold p_call. apply (quiet_prim_ret k ctx _ eff (fun _ _ => tt)); [reflexivity|exact HE]. Qed.
Lemma quiet_p_list_outbox limit : quiet (p_list_outbox limit).
Proof. unfold p_list_outbox. apply (quiet_prim_ret KLO true _ (fun w => w) (fun _ w => firstn (Z.to_nat limit) (w_outbox w))); [reflexivity|apply inert_id]. Qed.
Lemma quiet_p_list_valid status : quiet (p_list_valid status).
Proof. unfold p_list_valid. apply (quiet_prim_ret KTL true _ (fun w => w) (fun _ w => due_timers w status)); [reflexivity|apply inert_id]. Qed.
Lemma quiet_p_ack u idx e : quiet (p_ack u idx e).
Proof. unfold p_ack. apply (quiet_prim_ret KAK false _ _ (fun _ _ => tt)); [reflexivity|]. intros w. repeat split. Qed.
Lemma quiet_p_tcreate fid run status ex : quiet (p_tcreate fid run status ex).
Proof. unfold p_tcreate. apply (quiet_prim_ret KTC true _ _ (fun _ _ => tt)); [reflexivity|]. intros w. repeat split. Qed.
Lemma quiet_p_tcomplete id : quiet (p_tcomplete id).
Proof. unfold p_tcomplete. apply (quiet_prim_ret KTM true _ _ (fun _ _ => tt)); [reflexivity|]. intros w. repeat split. Qed.
Lemma quiet_p_tcancel id : quiet (p_tcancel id).
Proof. unfold p_tcancel. apply (quiet_prim_ret KTX true _ _ (fun _ _ => tt)); [reflexivity|]. intros w. repeat split. Qed.

(* Store *)
Lemma p_store_t (r : record) :
  triple (fun s => Inv s /\ store_pre (o_w s) r) (p_store c r) (fun _ s => Inv s).
Proof.
  intros s [(HW & Hn & Htr) Hpre]. unfold p_store.
  destruct (prim_spec KST true (fun d w => TStore (lookup_run w (r_run r)) (stamp c w r) (disp_res d)) (fun w => do_store c w r)
                      (fun d _ => disp_ret d tt) s) as (d & s1 & _ & W & P & Tr & R).
  rewrite R. destruct (disp_ret_run d tt s1) as (rr & Er & _). rewrite Er. cbn.
  split; [|split].
  - rewrite W. destruct (disp_effect d); [apply do_store_WI; assumption|assumption].
  - rewrite P. exact Hn.
  - destruct Tr as [F|F]; rewrite F; [|exact Htr]. apply toks_ok_cons; [|exact Htr]. cbn. apply Hpre.
Qed.

(* ---------- sequencing rule in the form used below ---------- *)
Lemma t_seq {A B} (P : ost -> Prop) (m : M A) (f : A -> M B) (Q' : res A -> ost -> Prop) (Q : res B -> ost -> Prop) :
  triple P m Q' -> (forall a, triple (fun s => Q' (Ok a) s) (f a) Q) -> (forall e s, Q' (Err e) s -> Q (Err e) s) ->
  triple P (bind m f) Q.
Proof.
  intros Hm Hf He s Hs. unfold bind. specialize (Hm s Hs). destruct (m s) as [[a|e] s']; cbn [fst snd] in *.
  - apply Hf, Hm.
  - apply He, Hm.
Qed.

Lemma t_if {A} (b : bool) (P : ost -> Prop) (m1 m2 : M A) Q :
  (b = true -> triple P m1 Q) -> (b = false -> triple P m2 Q) -> triple P (if b then m1 else m2) Q.
Proof. destruct b; auto. Qed.

(* ---------- a process's in-memory record agrees with the persisted record of its run ---------- *)
Definition synced (w : world) (v : record) : Prop :=
  exists p, lookup_run w (r_run v) = Some p /\
    r_wf v = r_wf p /\ r_fid v = r_fid p /\ r_status v = r_status p /\ r_created v = r_created p /\
    r_updated v = r_updated p /\ r_ver v = r_ver p /\ r_desc v = r_desc p /\ r_obj v = r_obj p /\
    (r_state v = r_state p \/ (r_state p = RSInitiated /\ r_state v = RSRunning)).

Lemma lookup_weq w w' run : weq w w' -> lookup_run w' run = lookup_run w run.
Proof. intros (E & _). unfold lookup_run. now rewrite E. Qed.

Lemma synced_stable v : stable (fun w => synced w v).
Proof. intros w w' E (p & H & R). exists p. split; [rewrite (lookup_weq w w' _ E); exact H|exact R]. Qed.

Lemma obj_eqb_refl o : obj_eqb o o = true.
Proof. destruct o as [s t|]; cbn; [|reflexivity]. rewrite Z.eqb_refl. destruct (list_eq_dec Z.eq_dec t t); [reflexivity|contradiction]. Qed.

Lemma store_ok_some_intro (p r : record) :
  r_desc r = r_status r -> (r_state r = RSCompleted -> is_terminal g (r_status r) = true) ->
  r_wf p = r_wf r -> r_fid p = r_fid r -> r_run p = r_run r -> r_created p = r_created r ->
  r_ver r = r_ver p + 1 -> r_updated p <= r_updated r ->
  (lc (r_state p) (r_state r) || (rs_eqb (r_state p) (r_state r) && (rs_eqb (r_state p) RSRunning || rs_eqb (r_state p) RSDataDeleted))) = true ->
  (rs_finished (r_state p) = true -> rs_finished (r_state r) = true) ->
  (r_status r = r_status p \/
   (validate_transition g (r_status p) (r_status r) = true /\ rs_stopped (r_state p) = false /\ is_run_or_done (r_state r) = true /\
    rs_eqb (r_state r) RSCompleted = is_terminal g (r_status r))) ->
  (r_obj r = r_obj p \/ r_state r = RSDataDeleted \/ (is_run_or_done (r_state r) = true /\ rs_stopped (r_state p) = false)) ->
  store_ok g (Some p) r = true.
Proof.
  intros H1 H2 H3 H4 H5 H6 H7 H8 H9 H10 H11 H12. unfold store_ok.
  rewrite H1, Z.eqb_refl. cbn [andb].
  assert (E2 : implb (rs_eqb (r_state r) RSCompleted) (is_terminal g (r_status r)) = true).
  { destruct (rs_eqb (r_state r) RSCompleted) eqn:E; [|reflexivity]. apply rs_eqb_eq in E. cbn. auto. }
  rewrite E2. cbn [andb].
  unfold same_id. rewrite H3, H4, H5, H6, !N.eqb_refl, Z.eqb_refl, H7, Z.eqb_refl. cbn [andb].
  assert (E8 : (r_updated p <=? r_updated r) = true) by (apply Z.leb_le; exact H8). rewrite E8, H9. cbn [andb].
  assert (E10 : implb (rs_finished (r_state p)) (rs_finished (r_state r)) = true).
  { destruct (rs_finished (r_state p)); [cbn; auto|reflexivity]. }
  rewrite E10. cbn [andb].
  assert (E11 : (if r_status r =? r_status p then true
                 else validate_transition g (r_status p) (r_status r) && negb (rs_stopped (r_state p)) && is_run_or_done (r_state r) &&
                      Bool.eqb (rs_eqb (r_state r) RSCompleted) (is_terminal g (r_status r))) = true).
  { destruct (r_status r =? r_status p) eqn:E; [reflexivity|]. destruct H11 as [H|(A & B & C & D)]; [apply Z.eqb_neq in E; contradiction|].
    rewrite A, B, C, D. cbn. apply Bool.eqb_reflx. }
  rewrite E11. cbn [andb].
  destruct H12 as [H|[H|[A B]]].
  - rewrite H, obj_eqb_refl. reflexivity.
  - rewrite H. cbn. now rewrite Bool.orb_true_r.
  - rewrite A, B. cbn. now rewrite Bool.orb_true_r.
Qed.

Lemma table_lc_promoted (ps vs t : runstate) :
  (vs = ps \/ (ps = RSInitiated /\ vs = RSRunning)) -> rs_table vs t = true -> lc ps t = true.
Proof. intros [->|[-> ->]] H; [apply table_sub_lc, H|]. unfold lc. rewrite H. now rewrite Bool.orb_true_r. Qed.

Lemma stamp_fields (w : world) (r : record) :
  r_wf (stamp c w r) = r_wf r /\ r_fid (stamp c w r) = r_fid r /\ r_status (stamp c w r) = r_status r /\
  r_obj (stamp c w r) = r_obj r /\ r_created (stamp c w r) = r_created r /\ r_ver (stamp c w r) = r_ver r /\
  r_desc (stamp c w r) = r_desc r /\ (r_updated (stamp c w r) = r_updated r \/ r_updated (stamp c w r) = w_now w).
Proof. unfold stamp. destruct (ec_stamp c); cbn; repeat split; auto. Qed.

(* the controller's write for a record in sync with its persisted run is an admissible Store *)
Lemma ctl_store_pre (w : world) (ctl : record) (target : runstate) (reason : N) (r' : record) :
  WI w -> synced w ctl -> target <> RSCompleted -> target <> RSUnknown ->
  ctl_update ctl target reason = Some r' -> store_pre w r'.
Proof.
  intros HW (p & Hp & S1 & S2 & S3 & S4 & S5 & S6 & S7 & S8 & S9) Ht1 Ht2 Hu.
  unfold ctl_update in Hu. destruct (rs_table (r_state ctl) target) eqn:Etab; [|discriminate]. inversion Hu; subst r'. clear Hu.
  destruct (WI_lookup c w _ _ HW Hp) as (Hin & Hrun & (R1 & R2 & R3 & R4)).
  assert (Hlc : lc (r_state p) target = true) by (eapply table_lc_promoted; eauto).
  set (r' := bump (set_reason (set_state ctl target) reason)).
  destruct (stamp_fields w r') as (F1 & F2 & F3 & F4 & F5 & F6 & F7 & F8).
  unfold store_pre. replace (r_run r') with (r_run ctl) by reflexivity. rewrite Hp.
  split; [|split; [|split]].
  - apply store_ok_some_intro; rewrite ?stamp_state, ?stamp_run, ?F1, ?F2, ?F3, ?F4, ?F5, ?F6, ?F7; cbn.
    + congruence.
    + intros E. contradiction.
    + congruence.
    + congruence.
    + congruence.
    + congruence.
    + lia.
    + destruct F8 as [-> | ->]; cbn; lia.
    + rewrite Hlc. reflexivity.
    + intros Hf. eapply lc_finished_closed; eauto.
    + left. congruence.
    + left. congruence.
  - destruct F8 as [-> | ->]; cbn; lia.
  - exact Ht2.
  - intros; discriminate.
Qed.

(* ---------- the controller ---------- *)
Definition ctl_dead (r : record) : Prop := r_state r = RSPaused \/ r_state r = RSCancelled.

Lemma ctl_do_t (K : world -> Prop) (ctl : record) (target : runstate) (reason : N) :
  stable K ->
  triple (fun s => Inv s /\ K (o_w s) /\ forall r', ctl_update ctl target reason = Some r' -> store_pre (o_w s) r')
         (ctl_do c ctl target reason)
         (fun r s => Inv s /\ forall x, r = Ok x ->
            (ctl_update ctl target reason = None /\ snd x = ctl /\ (exists e, fst x = Err e) /\ K (o_w s)) \/
            (exists r', ctl_update ctl target reason = Some r' /\ snd x = r')).
Proof.
  intros HK. unfold ctl_do. destruct (ctl_update ctl target reason) as [r'|] eqn:E.
  - eapply (t_seq _ _ _ (fun _ s => Inv s)).
    + apply t_catch. eapply t_pre; [|apply (p_store_t r')]. intros s (HI & _ & H). split; [exact HI|apply H; reflexivity].
    + intros a. apply t_ret. intros s HI. split; [exact HI|]. intros x Hx. inversion Hx; subst. right. eexists; split; reflexivity.
    + intros e s H. split; [exact H|]. intros; discriminate.
  - apply t_ret. intros s (HI & HKs & _). split; [exact HI|]. intros x Hx. inversion Hx; subst. left. cbn. repeat split; eauto.
Qed.

Lemma ctl_update_state ctl target reason r' : ctl_update ctl target reason = Some r' -> r_state r' = target.
Proof. unfold ctl_update. destruct (rs_table _ _); [|discriminate]. intros H; inversion H; reflexivity. Qed.

Lemma ctl_dead_no_pause ctl reason : ctl_dead ctl -> ctl_update ctl RSPaused reason = None.
Proof. intros [H|H]; unfold ctl_update; rewrite H; reflexivity. Qed.

(* ---------- a record handed to a user function: in sync with a persisted run that is not stopped ---------- *)
Definition live (w : world) (v : record) : Prop :=
  synced w v /\ exists p, lookup_run w (r_run v) = Some p /\ rs_stopped (r_state p) = false.

Lemma live_stable v : stable (fun w => live w v).
Proof.
  intros w w' E [H1 (p & H2 & H3)]. split; [eapply synced_stable; eauto|].
  exists p. split; [rewrite (lookup_weq w w' _ E); exact H2|exact H3].
Qed.

(* the function is invoked for the status it is registered on (timeouts: and the run is not finished) *)
Definition fn_at (w : world) (u : ufun) (v : record) : Prop :=
  match u with
  | UFTimeout s _ => r_status v = s /\ exists p, lookup_run w (r_run v) = Some p /\ rs_finished (r_state p) = false
  | UFCallback s _ => r_status v = s
  | _ => True
  end.

Lemma fn_at_stable u v : stable (fun w => fn_at w u v).
Proof.
  intros w w' E H. destruct u; cbn in *; try exact H. destruct H as [H1 (p & H2 & H3)]. split; [exact H1|].
  exists p. split; [rewrite (lookup_weq w w' _ E); exact H2|exact H3].
Qed.

Lemma live_user_ok (w : world) (u : ufun) (v : record) : live w v -> fn_at w u v -> user_ok u v (lookup_run w (r_run v)) = true.
Proof.
  intros [(p & Hp & S1 & S2 & S3 & S4 & S5 & S6 & S7 & S8 & S9) (p' & Hp' & Hs)] Hat.
  rewrite Hp in Hp'. inversion Hp'; subst p'. unfold user_ok. destruct (is_step_fn u) eqn:Eu; [|reflexivity].
  rewrite Hp, Hs, S8, obj_eqb_refl, S6, S3, !Z.eqb_refl. cbn.
  assert (Hr : (r_run v =? r_run p)%N = true).
  { apply N.eqb_eq. unfold lookup_run in Hp. apply find_first_some in Hp as [_ Hq]. apply N.eqb_eq in Hq. now rewrite Hq. }
  rewrite Hr. cbn. destruct u; try reflexivity; cbn in Hat.
  - rewrite <- S3, Hat. apply Z.eqb_refl.
  - destruct Hat as [H1 (p2 & H2 & H3)]. rewrite Hp in H2. inversion H2; subst p2. rewrite <- S3, H1, Z.eqb_refl, H3. reflexivity.
Qed.

Definition invoke_post (K : world -> Prop) (view : record) (r : res (obj * (Z + err) * record)) (s : ost) : Prop :=
  Inv s /\ forall o oc ctl, r = Ok (o, oc, ctl) ->
    match oc with
    | inl z => z = -1 \/ (K (o_w s) /\ live (o_w s) view /\ ctl = view)
    | inr e => (K (o_w s) /\ live (o_w s) view /\ ctl = view) \/ ctl_dead ctl
    end.

Lemma quiet_m (K : world -> Prop) {A} (m : M A) (P : ost -> Prop) (Q : res A -> ost -> Prop) :
  quiet m -> stable K -> (forall s, P s -> Inv s /\ K (o_w s)) -> (forall r s, Inv s /\ K (o_w s) -> Q r s) -> triple P m Q.
Proof. intros Hq HK HP HQ s Hs. apply HQ. eapply quiet_Inv; eauto. Qed.

Lemma invoke_t (K : world -> Prop) (u : ufun) (b : beh) (status : Z) (view : record) :
  stable K ->
  triple (fun s => Inv s /\ K (o_w s) /\ live (o_w s) view /\ fn_at (o_w s) u view) (invoke c u b status view) (invoke_post K view).
Proof.
  intros HK. unfold invoke.
  set (K2 := fun w => (K w /\ live w view) /\ fn_at w u view).
  assert (HK2 : stable K2) by (apply stable_and; [apply stable_and; [exact HK|apply live_stable]|apply fn_at_stable]).
  eapply (t_seq _ _ _ (fun _ s => Inv s /\ K2 (o_w s))).
  { eapply t_pre; [|apply (t_quiet _ K2 (quiet_att_bump _ _) HK2)]. intros s (HI & H1 & H2 & H3). split; [exact HI|split; [split; assumption|assumption]]. }
  2:{ intros e s [HI _]. split; [exact HI|]. intros; discriminate. }
  intros n. eapply (t_seq _ _ _ (fun r s => Inv s /\ K2 (o_w s) /\ r = Ok (o_w s))).
  { apply t_get_w. intros s [HI HKs]. auto. }
  2:{ intros e s (_ & _ & H). discriminate. }
  intros w. apply t_pre with (P' := fun s => w = o_w s /\ Inv s /\ K2 (o_w s)).
  { intros s (HI & HKs & Hw). inversion Hw; subst. auto. }
  destruct (eval_beh b n (obj_seed (r_obj view))) as [mark act].
  eapply (t_seq _ _ _ (fun _ s => Inv s /\ K2 (o_w s))).
  - (* the TUser token *)
    apply t_emit.
    intros s s' (Hw & HI & HKs) E1 E2 E3. rewrite E1. split; [|exact HKs].
    destruct HI as (HW & Hn & Htr). split; [rewrite E1; exact HW|split; [rewrite E2; exact Hn|]].
    destruct E3 as [E|E]; rewrite E; [|exact Htr]. apply toks_ok_cons; [|exact Htr].
    cbn. subst w. destruct HKs as [[_ HL] HF]. apply live_user_ok; assumption.
  - intros _. destruct act as [z|e| |].
    + apply t_ret. intros s (HI & (HKs & HL) & HF). split; [exact HI|]. intros o oc ctl Hx. inversion Hx; subst. right. auto.
    + apply t_ret. intros s (HI & (HKs & HL) & HF). split; [exact HI|]. intros o oc ctl Hx. inversion Hx; subst. left. auto.
    + eapply t_seq.
      * eapply t_pre; [|apply (ctl_do_t K2 view RSPaused 1%N HK2)].
        intros s (HI & HKs). split; [exact HI|split; [exact HKs|]]. intros r' Hr'.
        eapply ctl_store_pre; try exact Hr'; try discriminate; [apply HI|destruct HKs as [[_ [Hsy _]] _]; exact Hsy].
      * intros x. apply t_ret. intros s (HI & Hx). split; [exact HI|]. intros o oc ctl Hr. inversion Hr; subst.
        destruct (Hx x eq_refl) as [(_ & Hs & (e & He) & HKs)|(r' & Hu & Hs)].
        -- rewrite He, Hs. left. destruct HKs as [[A B] _]. auto.
        -- rewrite Hs. destruct (fst x); [left; reflexivity|right]. left. eapply ctl_update_state, Hu.
      * intros e s [HI _]. split; [exact HI|]. intros; discriminate.
    + eapply t_seq.
      * eapply t_pre; [|apply (ctl_do_t K2 view RSCancelled 3%N HK2)].
        intros s (HI & HKs). split; [exact HI|split; [exact HKs|]]. intros r' Hr'.
        eapply ctl_store_pre; try exact Hr'; try discriminate; [apply HI|destruct HKs as [[_ [Hsy _]] _]; exact Hsy].
      * intros x. apply t_ret. intros s (HI & Hx). split; [exact HI|]. intros o oc ctl Hr. inversion Hr; subst.
        destruct (Hx x eq_refl) as [(_ & Hs & (e & He) & HKs)|(r' & Hu & Hs)].
        -- rewrite He, Hs. left. destruct HKs as [[A B] _]. auto.
        -- rewrite Hs. destruct (fst x); [left; reflexivity|right]. right. eapply ctl_update_state, Hu.
      * intros e s [HI _]. split; [exact HI|]. intros; discriminate.
  - intros e s [HI _]. split; [exact HI|]. intros; discriminate.
Qed.

(* ---------- pause.go maybePause ---------- *)
Lemma maybe_pause_t (inst n : Z) (e : err) (u : eunit) (ctl : record) :
  triple (fun s => Inv s /\ (synced (o_w s) ctl \/ ctl_dead ctl)) (maybe_pause c inst n e u ctl) (fun _ s => Inv s).
Proof.
  unfold maybe_pause. apply t_if; intros _; [apply t_ret; intros s [HI _]; exact HI|].
  set (K := fun w => synced w ctl \/ ctl_dead ctl).
  assert (HK : stable K).
  { intros w w' E [H|H]; [left; eapply synced_stable; eauto|right; exact H]. }
  eapply (t_seq _ _ _ (fun _ s => Inv s /\ K (o_w s))).
  { apply (t_quiet _ K (quiet_ctr_add _ _) HK). }
  2:{ intros e' s [HI _]. exact HI. }
  intros cnt. apply t_if; intros _; [apply t_ret; intros s [HI _]; exact HI|].
  eapply t_seq.
  - eapply t_pre; [|apply (ctl_do_t K ctl RSPaused 2%N HK)].
    intros s (HI & HKs). split; [exact HI|split; [exact HKs|]]. intros r' Hr'.
    destruct HKs as [Hs|Hd]; [|rewrite (ctl_dead_no_pause ctl 2%N Hd) in Hr'; discriminate].
    eapply ctl_store_pre; try exact Hr'; try discriminate; [apply HI|exact Hs].
  - intros x. destruct (fst x); [|apply t_fail; intros s [HI _]; exact HI].
    eapply (t_seq _ _ _ (fun _ s => Inv s)).
    + apply (quiet_m (fun _ => True)); [apply quiet_ctr_clear|apply stable_const| |].
      * intros s [HI _]. auto.
      * intros r s [HI _]. exact HI.
    + intros _. apply t_ret. intros s H. apply H.
    + intros e' s H. apply H.
  - intros e' s [HI _]. exact HI.
Qed.

(* ---------- update.go newUpdater ---------- *)
Definition upd_ready (w : world) (run : record) : Prop :=
  exists p, lookup_run w (r_run run) = Some p /\ r_wf run = r_wf p /\ r_fid run = r_fid p /\ r_created run = r_created p /\
            r_ver run = r_ver p /\ rs_stopped (r_state p) = false.

Lemma upd_ready_stable run : stable (fun w => upd_ready w run).
Proof. intros w w' E (p & H & R). exists p. split; [rewrite (lookup_weq w w' _ E); exact H|exact R]. Qed.

Lemma terminal_no_out (n : Z) : is_terminal g n = true -> validate_transition g n = fun _ => false.
Proof.
  intros H. unfold validate_transition. unfold g, ec_graph in *. rewrite (terminal_no_transitions _ _ H). reflexivity.
Qed.

Lemma updater_store_pre (w : world) (cur next : Z) (run p : record) :
  WI w -> lookup_run w (r_run run) = Some p -> r_wf run = r_wf p -> r_fid run = r_fid p -> r_created run = r_created p ->
  r_ver run = r_ver p -> rs_stopped (r_state p) = false -> r_status p = cur -> validate_transition g cur next = true ->
  store_pre w (bump (mkRecord (r_wf run) (r_fid run) (r_run run) (if is_terminal g next then RSCompleted else RSRunning) next
                              (r_obj run) (r_created run) (w_now w) (r_ver run) (r_reason run) next)).
Proof.
  intros HW Hp S1 S2 S3 S4 Hns Hcur Hval.
  destruct (WI_lookup c w _ _ HW Hp) as (Hin & Hrun & (R1 & R2 & R3 & R4)).
  set (st := if is_terminal g next then RSCompleted else RSRunning).
  set (r' := bump (mkRecord (r_wf run) (r_fid run) (r_run run) st next (r_obj run) (r_created run) (w_now w) (r_ver run) (r_reason run) next)).
  destruct (stamp_fields w r') as (F1 & F2 & F3 & F4 & F5 & F6 & F7 & F8).
  (* the persisted run is Initiated or Running *)
  assert (Hst : r_state p = RSInitiated \/ r_state p = RSRunning).
  { destruct (r_state p) eqn:E; try discriminate; auto; try contradiction.
    exfalso. specialize (R2 eq_refl). rewrite Hcur in R2. rewrite (terminal_no_out cur R2) in Hval. discriminate. }
  assert (Hrd : is_run_or_done st = true) by (unfold st; destruct (is_terminal g next); reflexivity).
  unfold store_pre. replace (r_run r') with (r_run run) by reflexivity. rewrite Hp.
  split; [|split; [|split]].
  - apply store_ok_some_intro; rewrite ?stamp_state, ?stamp_run, ?F1, ?F2, ?F3, ?F4, ?F5, ?F6, ?F7; cbn.
    + reflexivity.
    + unfold st. destruct (is_terminal g next) eqn:E; [auto|discriminate].
    + congruence.
    + congruence.
    + congruence.
    + congruence.
    + lia.
    + destruct F8 as [-> | ->]; cbn; lia.
    + unfold st. destruct Hst as [-> | ->]; destruct (is_terminal g next); reflexivity.
    + destruct Hst as [-> | ->]; discriminate.
    + destruct (Z.eq_dec next (r_status p)) as [E|E]; [left; exact E|right].
      rewrite Hcur. repeat split; try assumption. unfold st. destruct (is_terminal g next); reflexivity.
    + right. right. split; assumption.
  - destruct F8 as [-> | ->]; cbn; lia.
  - unfold st. cbn. destruct (is_terminal g next); discriminate.
  - intros; discriminate.
Qed.

Lemma updater_t (cur next : Z) (run : record) :
  triple (fun s => Inv s /\ upd_ready (o_w s) run) (updater c cur next run) (fun _ s => Inv s).
Proof.
  unfold updater. set (K := fun w => upd_ready w run).
  assert (HK : stable K) by apply upd_ready_stable.
  eapply (t_seq _ _ _ (fun r s => Inv s /\ K (o_w s) /\ r = Ok (o_w s))).
  { apply t_get_w. intros s [HI HKs]. auto. }
  2:{ intros e s (_ & _ & H). discriminate. }
  intros w. apply t_pre with (P' := fun s => w_now w = w_now (o_w s) /\ Inv s /\ K (o_w s)).
  { intros s (HI & HKs & Hw). inversion Hw; subst. auto. }
  eapply (t_seq _ _ _ (fun r s => Inv s /\ (K (o_w s) /\ w_now w = w_now (o_w s)) /\ forall x, r = Ok x -> x = lookup_run (o_w s) (r_run run))).
  { eapply t_pre; [|apply (p_lookup_t (fun w' => K w' /\ w_now w = w_now w') (r_run run))].
    - intros s (Hn & HI & HKs). auto.
    - apply stable_and; [exact HK|]. intros w1 w2 (_ & _ & E & _) H. congruence. }
  2:{ intros e s [HI _]. exact HI. }
  intros latest. destruct latest as [l|]; [|apply t_fail; intros s [HI _]; exact HI].
  apply t_if; intros Est; [apply t_ret; intros s [HI _]; exact HI|].
  apply t_if; intros Eval; [apply t_fail; intros s [HI _]; exact HI|].
  eapply t_pre; [|apply p_store_t].
  intros s (HI & (HKs & Hnow) & Hl). split; [exact HI|].
  destruct HKs as (p & Hp & S1 & S2 & S3 & S4 & Hns).
  specialize (Hl (Some l) eq_refl). rewrite Hp in Hl. inversion Hl; subst l.
  rewrite Hnow. apply (updater_store_pre (o_w s) cur next run p); try assumption; [apply HI| |].
  - apply Bool.negb_false_iff in Est. now apply Z.eqb_eq in Est.
  - now apply Bool.negb_false_iff in Eval.
Qed.

(* ---------- step.go stepConsumer ---------- *)
Definition fn_ok (fn : record -> M (obj * (Z + err) * record)) : Prop :=
  forall (K : world -> Prop) view, stable K ->
    triple (fun s => Inv s /\ K (o_w s) /\ live (o_w s) view) (fn view) (invoke_post K view).

Lemma live_promote (w : world) (run : N) (r : record) :
  lookup_run w run = Some r -> rs_stopped (r_state r) = false -> live w (promote r).
Proof.
  intros Hl Hs.
  assert (Hrun : r_run r = run). { unfold lookup_run in Hl. apply find_first_some in Hl as [_ H]. now apply N.eqb_eq in H. }
  assert (Hpr : r_run (promote r) = r_run r) by (unfold promote; destruct (r_state r); reflexivity).
  split.
  - exists r. rewrite Hpr, Hrun. split; [exact Hl|].
    unfold promote. destruct (r_state r) eqn:E; cbn; repeat split; auto.
  - exists r. rewrite Hpr, Hrun. auto.
Qed.

Lemma live_upd_ready (w : world) (view : record) (o : obj) : live w view -> upd_ready w (set_obj view o).
Proof.
  intros [(p & Hp & S1 & S2 & S3 & S4 & S5 & S6 & S7 & S8 & S9) (p' & Hp' & Hs)].
  rewrite Hp in Hp'. inversion Hp'; subst p'. exists p. cbn. repeat split; assumption.
Qed.

Lemma skip_not_m1 z : skip_status z = false -> z <> -1.
Proof. unfold skip_status. intros H E. subst z. discriminate. Qed.

Lemma step_handler_t (inst : Z) (u : eunit) (st : Z) fn (n : Z) (e : event) :
  fn_ok fn -> triple Inv (step_handler c inst u st fn n e) (fun _ s => Inv s).
Proof.
  intros Hfn. unfold step_handler.
  eapply (t_seq _ _ _ (fun r s => Inv s /\ forall x, r = Ok x -> x = lookup_run (o_w s) (e_run e))).
  { eapply t_conseq; [|apply (p_lookup_t (fun _ => True) (e_run e) (stable_const True))|].
    - intros s HI. split; [exact HI|exact I].
    - intros r s (HI & _ & H). split; [exact HI|exact H]. }
  2:{ intros e' s [HI _]. exact HI. }
  intros r. destruct r as [r|]; [|apply t_ret; intros s [HI _]; exact HI].
  apply t_if; intros _; [apply t_ret; intros s [HI _]; exact HI|].
  apply t_if; intros _; [apply t_fail; intros s [HI _]; exact HI|].
  apply t_if; intros Hns; [apply t_ret; intros s [HI _]; exact HI|].
  unfold build_run. destruct (r_obj r) eqn:Eo; [|apply t_fail; intros s [HI _]; exact HI].
  eapply (t_seq _ _ _ (fun r0 s => r0 = Ok (promote r) /\ Inv s /\ live (o_w s) (promote r))).
  { apply t_ret. intros s [HI Hl]. split; [reflexivity|split; [exact HI|]]. eapply live_promote; [symmetry; apply Hl; reflexivity|exact Hns]. }
  2:{ intros e' s (H & _). discriminate. }
  intros view. apply t_pre with (P' := fun s => view = promote r /\ Inv s /\ live (o_w s) view).
  { intros s (H & HI & Hl). inversion H; subst. auto. }
  eapply t_seq.
  - eapply t_pre; [|apply (Hfn (fun _ => True) view (stable_const True))]. intros s (_ & HI & Hl). auto.
  - intros [[obj' oc] ctl]. destruct oc as [z|oe].
    + apply t_if; intros Hskip; [apply t_ret; intros s [HI _]; exact HI|].
      eapply t_pre; [|apply updater_t]. intros s [HI H]. split; [exact HI|].
      destruct (H obj' (inl z) ctl eq_refl) as [Hz|(_ & Hl & _)]; [exfalso; eapply skip_not_m1; eauto|].
      apply live_upd_ready, Hl.
    + eapply (t_seq _ _ _ (fun _ s => Inv s)).
      * eapply t_pre; [|apply maybe_pause_t]. intros s [HI H]. split; [exact HI|].
        destruct (H obj' (inr oe) ctl eq_refl) as [(_ & Hl & ->)|Hd]; [left; apply Hl|right; exact Hd].
      * intros paused. destruct paused; [apply t_ret|apply t_fail]; intros s HI; exact HI.
      * intros e' s HI. exact HI.
  - intros e' s [HI _]. exact HI.
Qed.

Lemma invoke_fn_ok s0 b st : fn_ok (invoke c (UFStep s0) b st).
Proof. intros K view HK. eapply t_pre; [|apply invoke_t, HK]. intros s (A & B & C). split; [exact A|split; [exact B|split; [exact C|exact I]]]. Qed.

Lemma inserter_fn_ok (st : Z) (tos : list tocfg) : forall j, fn_ok (inserter_fn st tos j).
Proof.
  induction tos as [|t tl IH]; intros j K view HK; cbn [inserter_fn].
  - apply t_ret. intros s (HI & HKs & Hl). split; [exact HI|]. intros o oc ctl Hx. inversion Hx; subst. right. auto.
  - apply t_if; intros _; [apply IH, HK|].
    set (K2 := fun w => K w /\ live w view).
    assert (HK2 : stable K2) by (apply stable_and; [exact HK|apply live_stable]).
    eapply (t_seq _ _ _ (fun r s => Inv s /\ K2 (o_w s) /\ r = Ok (o_w s))).
    { apply t_get_w. intros s (HI & H1 & H2). split; [exact HI|split; [split; assumption|reflexivity]]. }
    2:{ intros e s (_ & _ & H). discriminate. }
    intros w.
    destruct (to_dur t =? -2).
    { eapply (t_seq _ _ _ (fun _ s => Inv s /\ K2 (o_w s))).
      { apply (quiet_m K2); [apply quiet_emit; reflexivity|exact HK2| |].
        - intros s (HI & H & _). auto.
        - intros r s H. exact H. }
      2:{ intros e s [HI _]. split; [exact HI|]. intros; discriminate. }
      intros _. apply t_ret. intros s (HI & H1 & H2). split; [exact HI|]. intros o oc ctl Hx. inversion Hx; subst. left. auto. }
    eapply (t_seq _ _ _ (fun _ s => Inv s /\ K2 (o_w s))).
    { apply (quiet_m K2); [apply quiet_emit; reflexivity|exact HK2| |].
      - intros s (HI & H & _). auto.
      - intros r s H. exact H. }
    2:{ intros e s [HI _]. split; [exact HI|]. intros; discriminate. }
    intros _. destruct (to_dur t <? 0).
    + eapply t_pre; [|apply (IH (S j) K view HK)]. intros s (HI & H1 & H2). auto.
    + eapply (t_seq _ _ _ (fun _ s => Inv s /\ K2 (o_w s))).
      { apply t_catch. apply (quiet_m K2); [apply quiet_p_tcreate|exact HK2| |]; auto. }
      2:{ intros e s [HI _]. split; [exact HI|]. intros; discriminate. }
      intros r. destruct r as [_|e].
      * eapply t_pre; [|apply (IH (S j) K view HK)]. intros s (HI & H1 & H2). auto.
      * apply t_ret. intros s (HI & H1 & H2). split; [exact HI|]. intros o oc ctl Hx. inversion Hx; subst. left. auto.
Qed.

(* ---------- timeout.go pollTimeouts ---------- *)
Lemma quiet_p_lookup run : quiet (p_lookup run).
Proof. unfold p_lookup. apply (quiet_prim_ret KLK true _ (fun w => w) (fun d w => match d with DoStale => stale_run w run | _ => lookup_run w run end)); [reflexivity|apply inert_id]. Qed.

Lemma t_inv_quiet {A} (m : M A) : quiet m -> triple Inv m (fun _ s => Inv s).
Proof.
  intros Hq. apply (quiet_m (fun _ => True)); [exact Hq|apply stable_const| |].
  - intros s HI. split; [exact HI|exact I].
  - intros r s [HI _]. exact HI.
Qed.

Lemma process_timeouts_t (inst : Z) (u : eunit) (st n : Z) (t : trec) (tos : list tocfg) :
  forall j, triple Inv (process_timeouts c inst u st n tos j t) (fun _ s => Inv s).
Proof.
  induction tos as [|tc tl IH]; intros j; cbn [process_timeouts].
  - apply t_ret. auto.
  - apply t_if; intros _; [apply IH|].
    eapply (t_seq _ _ _ (fun r s => Inv s /\ forall x, r = Ok x -> x = lookup_run (o_w s) (t_run t))).
    { eapply t_conseq; [|apply (p_lookup_t (fun _ => True) (t_run t) (stable_const True))|].
      - intros s HI. split; [exact HI|exact I].
      - intros r s (HI & _ & H). split; [exact HI|exact H]. }
    2:{ intros e' s [HI _]. exact HI. }
    intros r. destruct r as [r|]; [|apply t_fail; intros s [HI _]; exact HI].
    apply t_if; intros Hmv.
    { eapply t_pre; [|apply (t_inv_quiet _ (quiet_p_tcancel _))]. intros s [HI _]. exact HI. }
    apply t_if; intros Hns; [apply t_ret; intros s [HI _]; exact HI|].
    unfold build_run. destruct (r_obj r) eqn:Eo; [|apply t_fail; intros s [HI _]; exact HI].
    eapply (t_seq _ _ _ (fun r0 s => r0 = Ok (promote r) /\ Inv s /\ live (o_w s) (promote r) /\ fn_at (o_w s) (UFTimeout st j) (promote r))).
    { apply t_ret. intros s [HI Hl]. split; [reflexivity|split; [exact HI|]].
      assert (Hlk : lookup_run (o_w s) (t_run t) = Some r) by (symmetry; apply Hl; reflexivity).
      split; [eapply live_promote; [exact Hlk|exact Hns]|].
      apply Bool.orb_false_iff in Hmv as [Hst Hfin]. apply Bool.negb_false_iff, Z.eqb_eq in Hst.
      assert (Hpr : r_run (promote r) = t_run t /\ r_status (promote r) = r_status r).
      { unfold lookup_run in Hlk. apply find_first_some in Hlk as [_ Hq]. apply N.eqb_eq in Hq. unfold promote. destruct (r_state r); cbn; auto. }
      destruct Hpr as [Hp1 Hp2]. cbn. split; [congruence|]. exists r. rewrite Hp1. auto. }
    2:{ intros e' s (H & _). discriminate. }
    intros view. apply t_pre with (P' := fun s => view = promote r /\ Inv s /\ live (o_w s) view /\ fn_at (o_w s) (UFTimeout st j) view).
    { intros s (H & HI & Hl & Hf). inversion H; subst. auto. }
    eapply t_seq.
    + eapply t_pre; [|apply (invoke_t (fun _ => True) (UFTimeout st j) (to_beh tc) st view (stable_const True))].
      intros s (_ & HI & Hl & Hf). auto.
    + intros [[obj' oc] ctl].
      eapply (t_seq _ _ _ (fun _ s => Inv s)); [|intros _; apply IH|intros e' s HI; exact HI].
      destruct oc as [z|oe].
      * apply t_if; intros Hskip; [apply t_ret; intros s [HI _]; exact HI|].
        eapply (t_seq _ _ _ (fun _ s => Inv s)); [|intros _; apply (t_inv_quiet _ (quiet_p_tcomplete _))|intros e' s HI; exact HI].
        eapply t_pre; [|apply updater_t]. intros s [HI H]. split; [exact HI|].
        destruct (H obj' (inl z) ctl eq_refl) as [Hz|(_ & Hl & _)]; [exfalso; eapply skip_not_m1; eauto|].
        apply live_upd_ready, Hl.
      * eapply (t_seq _ _ _ (fun _ s => Inv s)); [|intros _; apply t_ret; auto|intros e' s HI; exact HI].
        eapply t_pre; [|apply maybe_pause_t]. intros s [HI H]. split; [exact HI|].
        destruct (H obj' (inr oe) ctl eq_refl) as [(_ & Hl & ->)|Hd]; [left; apply Hl|right; exact Hd].
    + intros e' s [HI _]. exact HI.
Qed.

Lemma poll_timers_t (inst : Z) (u : eunit) (st n : Z) (l : list trec) :
  triple Inv (poll_timers c inst u st n l) (fun _ s => Inv s).
Proof.
  induction l as [|t tl IH]; cbn [poll_timers]; [apply t_ret; auto|].
  eapply (t_seq _ _ _ (fun _ s => Inv s)); [apply process_timeouts_t|intros _; exact IH|intros e s HI; exact HI].
Qed.

(* ---------- hook.go, pause.go (retry), delete.go ---------- *)
Lemma quiet_hook_handler st k e : quiet (hook_handler st k e).
Proof.
  unfold hook_handler. apply quiet_bind; [apply quiet_p_lookup|]. intros [r|]; [|apply quiet_fail].
  destruct (r_obj r); [|apply quiet_ret].
  apply quiet_bind; [apply quiet_att_bump|]. intros n.
  apply quiet_bind; [apply quiet_get_w|]. intros w.
  apply quiet_bind; [apply quiet_emit; reflexivity|]. intros _.
  destruct (Nat.ltb n (hook_fails k)); [apply quiet_fail|apply quiet_ret].
Qed.

Lemma quiet_conn_handler cid k e : quiet (conn_handler cid k e).
Proof.
  unfold conn_handler. apply quiet_bind; [apply quiet_att_bump|]. intros n.
  apply quiet_bind; [apply quiet_get_w|]. intros w.
  apply quiet_bind; [apply quiet_emit; reflexivity|]. intros _.
  destruct (Nat.ltb n k); [apply quiet_fail|apply quiet_ret].
Qed.

Lemma synced_self (w : world) (run : N) (r : record) : lookup_run w run = Some r -> synced w r.
Proof.
  intros Hl. assert (Hrun : r_run r = run). { unfold lookup_run in Hl. apply find_first_some in Hl as [_ H]. now apply N.eqb_eq in H. }
  exists r. rewrite Hrun. repeat split; auto.
Qed.

Lemma retry_handler_t (e : event) : triple Inv (retry_handler c e) (fun _ s => Inv s).
Proof.
  unfold retry_handler.
  eapply (t_seq _ _ _ (fun r s => Inv s /\ forall x, r = Ok x -> x = lookup_run (o_w s) (e_run e))).
  { eapply t_conseq; [|apply (p_lookup_t (fun _ => True) (e_run e) (stable_const True))|].
    - intros s HI. split; [exact HI|exact I].
    - intros r s (HI & _ & H). split; [exact HI|exact H]. }
  2:{ intros e' s [HI _]. exact HI. }
  intros r. destruct r as [r|]; [|apply t_fail; intros s [HI _]; exact HI].
  apply t_if; intros _; [apply t_ret; intros s [HI _]; exact HI|].
  set (K := fun w => synced w r).
  eapply (t_seq _ _ _ (fun _ s => Inv s /\ K (o_w s))).
  { apply t_get_w. intros s [HI H]. split; [exact HI|]. eapply synced_self. symmetry. apply H. reflexivity. }
  2:{ intros e' s [HI _]. exact HI. }
  intros w. apply t_if; intros _; [apply t_ret; intros s [HI _]; exact HI|].
  eapply t_seq.
  - eapply t_pre; [|apply (ctl_do_t K r RSRunning 0%N (synced_stable r))].
    intros s (HI & HKs). split; [exact HI|split; [exact HKs|]]. intros r' Hr'.
    eapply ctl_store_pre; try exact Hr'; try discriminate; [apply HI|exact HKs].
  - intros x. destruct (fst x); [apply t_ret|apply t_fail]; intros s [HI _]; exact HI.
  - intros e' s [HI _]. exact HI.
Qed.

Lemma delete_store_pre (w : world) (run : N) (r : record) (repl : obj) :
  WI w -> lookup_run w run = Some r -> (r_state r = RSReqDataDeleted \/ r_state r = RSDataDeleted) ->
  store_pre w (bump (set_state (set_obj r repl) RSDataDeleted)).
Proof.
  intros HW Hl Hst.
  assert (Hrun : r_run r = run). { unfold lookup_run in Hl. apply find_first_some in Hl as [_ H]. now apply N.eqb_eq in H. }
  destruct (WI_lookup c w _ _ HW Hl) as (Hin & _ & (R1 & R2 & R3 & R4)).
  set (r' := bump (set_state (set_obj r repl) RSDataDeleted)).
  destruct (stamp_fields w r') as (F1 & F2 & F3 & F4 & F5 & F6 & F7 & F8).
  unfold store_pre. replace (r_run r') with (r_run r) by reflexivity. rewrite Hrun, Hl.
  split; [|split; [|split]].
  - apply store_ok_some_intro; rewrite ?stamp_state, ?stamp_run, ?F1, ?F2, ?F3, ?F4, ?F5, ?F6, ?F7; cbn; try reflexivity.
    + exact R1.
    + discriminate.
    + destruct F8 as [-> | ->]; cbn; lia.
    + destruct Hst as [-> | ->]; reflexivity.
    + left. reflexivity.
    + right. left. reflexivity.
  - destruct F8 as [-> | ->]; cbn; lia.
  - discriminate.
  - intros; discriminate.
Qed.

Lemma del_ready_weq w w' run : weq w w' -> del_ready (w_recs w) run -> del_ready (w_recs w') run.
Proof. intros (E & _) H. now rewrite E. Qed.

Lemma delete_handler_t (e : event) :
  triple (fun s => Inv s /\ del_ready (w_recs (o_w s)) (e_run e)) (delete_handler c e) (fun _ s => Inv s).
Proof.
  unfold delete_handler.
  set (K := fun w => del_ready (w_recs w) (e_run e)).
  assert (HK : stable K) by (intros w w' E H; eapply del_ready_weq; eauto).
  eapply (t_seq _ _ _ (fun r s => Inv s /\ K (o_w s) /\ forall x, r = Ok x -> x = lookup_run (o_w s) (e_run e))).
  { apply (p_lookup_t K (e_run e) HK). }
  2:{ intros e' s [HI _]. exact HI. }
  intros r. destruct r as [r|]; [|apply t_fail; intros s [HI _]; exact HI].
  set (K2 := fun w => lookup_run w (e_run e) = Some r /\ (r_state r = RSReqDataDeleted \/ r_state r = RSDataDeleted)).
  assert (HK2 : stable K2).
  { intros w w' E [H1 H2]. split; [rewrite (lookup_weq w w' _ E); exact H1|exact H2]. }
  eapply (t_seq _ _ _ (fun _ s => Inv s /\ K2 (o_w s))).
  2:{ intros repl. eapply t_pre; [|apply p_store_t]. intros s [HI [H1 H2]]. split; [exact HI|]. eapply delete_store_pre; eauto. apply HI. }
  2:{ intros e' s [HI _]. exact HI. }
  apply t_pre with (P' := fun s => Inv s /\ K2 (o_w s)).
  { intros s (HI & (p & Hp & Hs) & Hl). split; [exact HI|]. specialize (Hl (Some r) eq_refl).
    unfold K2. rewrite <- Hl. split; [reflexivity|].
    rewrite lookup_run_eq in Hl. rewrite Hp in Hl. inversion Hl; subst. exact Hs. }
  apply t_if; intros _; [apply t_ret; auto|].
  destruct (r_obj r) as [seed tr|]; [|apply t_fail; intros s H; exact H].
  eapply (t_seq _ _ _ (fun _ s => Inv s /\ K2 (o_w s))); [apply (t_quiet _ K2 (quiet_att_bump _ _) HK2)| |intros e' s H; exact H].
  intros n.
  eapply (t_seq _ _ _ (fun _ s => Inv s /\ K2 (o_w s))); [apply (t_quiet _ K2 quiet_get_w HK2)| |intros e' s H; exact H].
  intros w.
  eapply (t_seq _ _ _ (fun _ s => Inv s /\ K2 (o_w s))); [apply (t_quiet _ K2); [apply quiet_emit; reflexivity|exact HK2]| |intros e' s H; exact H].
  intros _. destruct (Z.of_nat n <? ec_del c - 2); [apply t_fail; intros s H; exact H|apply t_ret; auto].
Qed.

Lemma firstn_In_sub {A} (n : nat) (l : list A) (x : A) : In x (firstn n l) -> In x l.
Proof. revert l. induction n as [|n IH]; intros [|a l]; cbn; try tauto. intros [->|H]; [now left|right; apply IH, H]. Qed.

(* ---------- outbox.go purgeOutbox ---------- *)
Lemma ev_of_entry eid now o : ev_of (event_of_entry eid now o) o.
Proof. repeat split. Qed.

Lemma ev_of_route e o id r : ev_of e o -> o = route id r -> ev_of e (route 0%N r).
Proof. intros H ->. exact H. Qed.

Lemma do_send_WI (w : world) (o : oentry) :
  WI w -> (o_topic o = TDelete -> del_ready (w_recs w) (o_run o)) -> entry_at (w_hist w) o -> WI (do_send w o).
Proof.
  intros [H1 H2 H3 H4 H5 H6 H7 H8 H9 H10 H11 H12] Hd (x & Hx & Ex & _). unfold do_send. constructor; cbn; try assumption.
  - intros e He Ht. apply in_app_or in He as [He|[<-|[]]]; [apply H4; assumption|]. cbn in Ht. apply Hd, Ht.
  - intros p idx e d Hin. destruct (H6 p idx e d Hin) as [A B]. split; [apply in_or_app; left; exact A|exact B].
  - intros e He Hc. apply in_app_or in He as [He|[<-|[]]]; [apply H9; assumption|].
    exists x. split; [eapply nth_error_In, Hx|]. eapply ev_of_route; [apply ev_of_entry|exact Ex].
  - intros k r Hk. destruct (H10 k r Hk) as [A|(e & He & Ee)]; [left; exact A|right]. exists e. split; [apply in_or_app; now left|exact Ee].
Qed.

Lemma del_outbox_WI (w : world) (id : N) :
  WI w -> (forall r, nth_error (w_hist w) (N.to_nat id - 1) = Some r -> published w r) ->
  WI (set_outbox w (filter (fun o => negb (N.eqb (o_id o) id)) (w_outbox w))).
Proof.
  intros [H1 H2 H3 H4 H5 H6 H7 H8 H9 H10 H11 H12] Hp. constructor; cbn; try assumption.
  - intros o Ho Ht. apply filter_In in Ho as [Ho _]. apply H5; assumption.
  - intros o Ho. apply filter_In in Ho as [Ho _]. apply H8, Ho.
  - intros k r Hk. destruct (H10 k r Hk) as [A|A]; [|right; exact A].
    destruct (N.eq_dec (N.of_nat k + 1) id) as [E|E].
    + right. apply Hp. rewrite <- E. replace (N.to_nat (N.of_nat k + 1) - 1)%nat with k by lia. exact Hk.
    + left. apply filter_In. split; [exact A|]. cbn. apply Bool.negb_true_iff. now apply N.eqb_neq.
  - clear -H12. induction (w_outbox w) as [|a l IH]; cbn; [constructor|]. inversion H12 as [|x xs Hn Hl]; subst.
    destruct (negb (N.eqb (o_id a) id)); cbn; [|apply IH, Hl]. constructor; [|apply IH, Hl].
    intros Hin. apply Hn. apply in_map_iff in Hin as (o & Ho1 & Ho2). apply filter_In in Ho2 as [Ho2 _]. rewrite <- Ho1. apply in_map, Ho2.
Qed.

Lemma p_send_t (K : world -> Prop) (o : oentry) :
  stable K ->
  triple (fun s => Inv s /\ K (o_w s) /\ (o_topic o = TDelete -> del_ready (w_recs (o_w s)) (o_run o)) /\ entry_at (w_hist (o_w s)) o)
         (p_send o)
         (fun r s => Inv s /\ K (o_w s) /\ (forall x, r = Ok x -> exists e, In e (w_log (o_w s)) /\ ev_of e o)).
Proof.
  intros HK s ((HW & Hn & Htr) & HKs & Hd & He). unfold p_send.
  match goal with |- context [prim ?k ?ctx ?T ?E ?X s] => destruct (prim_spec k ctx T E X s) as (d & s1 & _ & W & P & Tr & R) end.
  rewrite R. destruct (disp_ret_run d tt s1) as (rr & Er & _). rewrite Er. cbn.
  split; [split; [|split]|split].
  - rewrite W. destruct (disp_effect d); [apply do_send_WI; assumption|assumption].
  - rewrite P. exact Hn.
  - destruct Tr as [F|F]; rewrite F; [|exact Htr]. apply toks_ok_cons; [reflexivity|exact Htr].
  - rewrite W. destruct (disp_effect d); [|exact HKs]. eapply HK; [|exact HKs]. unfold do_send. repeat split.
  - intros x Hx. destruct d; cbn in Er; inversion Er; subst rr; try discriminate;
      (rewrite W; cbn; eexists; split; [apply in_or_app; right; left; reflexivity|apply ev_of_entry]).
Qed.

Lemma p_del_outbox_t (K : world -> Prop) (id : N) :
  stable K ->
  triple (fun s => Inv s /\ K (o_w s) /\ forall r, nth_error (w_hist (o_w s)) (N.to_nat id - 1) = Some r -> published (o_w s) r)
         (p_del_outbox id) (fun _ s => Inv s /\ K (o_w s)).
Proof.
  intros HK s ((HW & Hn & Htr) & HKs & Hp). unfold p_del_outbox.
  match goal with |- context [prim ?k ?ctx ?T ?E ?X s] => destruct (prim_spec k ctx T E X s) as (d & s1 & _ & W & P & Tr & R) end.
  rewrite R. destruct (disp_ret_run d tt s1) as (rr & Er & _). rewrite Er. cbn.
  split; [split; [|split]|].
  - rewrite W. destruct (disp_effect d); [apply del_outbox_WI; assumption|assumption].
  - rewrite P. exact Hn.
  - destruct Tr as [F|F]; rewrite F; [|exact Htr]. apply toks_ok_cons; [reflexivity|exact Htr].
  - rewrite W. destruct (disp_effect d); [|exact HKs]. eapply HK; [|exact HKs]. repeat split.
Qed.

Lemma p_list_outbox_t (limit : Z) :
  triple Inv (p_list_outbox limit) (fun r s => Inv s /\ forall l, r = Ok l -> forall o, In o l -> In o (w_outbox (o_w s))).
Proof.
  intros s Hs. unfold p_list_outbox.
  match goal with |- context [prim ?k ?ctx ?T ?E ?X s] =>
    destruct (prim_quiet_run k ctx T E X s) as (d & s1 & St & Hq & Hw & R); [reflexivity|apply inert_id|] end.
  rewrite R. destruct (disp_ret_run d (firstn (Z.to_nat limit) (w_outbox (o_w s))) s1) as (r & Er & Hr).
  rewrite Er. cbn. destruct (quiet_Inv (fun _ => True) s s1 (stable_const True) Hq (conj Hs I)) as [HI _].
  split; [exact HI|]. intros l Hl o Ho. rewrite (Hr l Hl) in Ho.
  destruct Hq as (_ & _ & Eo & _). rewrite Eo. eapply firstn_In_sub; eauto.
Qed.

Lemma inert_roles_release u inst : inert (fun w => release_role w u inst).
Proof. intros w. repeat split. Qed.
Lemma inert_roles_acquire u inst : inert (fun w => acquire_role w u inst).
Proof. intros w. repeat split. Qed.

Lemma quiet_m_acquire u inst : quiet (m_acquire u inst).
Proof. unfold m_acquire. apply (quiet_put_w_same (fun w => acquire_role w u inst)). apply inert_roles_acquire. Qed.
Lemma quiet_m_release u inst : quiet (m_release u inst).
Proof. unfold m_release. apply quiet_put_w_same. intros w. repeat split. Qed.

Lemma t_quiet_KL {A} (m : M A) (K : world -> Prop) (L : list event -> Prop) :
  quiet m -> stable K ->
  triple (fun s => Inv s /\ K (o_w s) /\ L (w_log (o_w s))) m (fun _ s' => Inv s' /\ K (o_w s') /\ L (w_log (o_w s'))).
Proof.
  intros Hq HK s (HI & HKs & HL). specialize (Hq s).
  destruct (quiet_Inv K s _ HK Hq (conj HI HKs)) as [HI' HK']. split; [exact HI'|split; [exact HK'|]].
  destruct Hq as (_ & El & _). rewrite El. exact HL.
Qed.

Definition relay_ready (w : world) (o : oentry) : Prop :=
  (o_topic o = TDelete -> del_ready (w_recs w) (o_run o)) /\ entry_at (w_hist w) o.

Lemma relay_entries_t (l : list oentry) :
  triple (fun s => Inv s /\ forall o, In o l -> relay_ready (o_w s) o) (relay_entries l) (fun _ s => Inv s).
Proof.
  induction l as [|o tl IH]; cbn [relay_entries]; [apply t_ret; intros s [HI _]; exact HI|].
  set (K := fun w => forall o', In o' (o :: tl) -> relay_ready w o').
  assert (HK : stable K).
  { intros w w' E H o' Hin. destruct (H o' Hin) as [A B]. destruct E as (E1 & _ & _ & E4 & _). split; [rewrite E1; exact A|rewrite E4; exact B]. }
  eapply (t_seq _ _ _ (fun _ s => Inv s /\ K (o_w s))).
  { apply (t_quiet _ K); [apply quiet_p_call, inert_id|exact HK]. }
  2:{ intros e s [HI _]. exact HI. }
  intros _.
  eapply (t_seq _ _ _ (fun r s => Inv s /\ K (o_w s) /\ (forall x, r = Ok (Ok x) -> exists e, In e (w_log (o_w s)) /\ ev_of e o))).
  { apply t_catch. eapply t_conseq; [|apply (p_send_t K o HK)|].
    - intros s [HI HKs]. split; [exact HI|split; [exact HKs|]]. apply HKs. now left.
    - intros r s (HI & HKs & H). split; [exact HI|split; [exact HKs|]]. intros x Hx. inversion Hx; subst. eapply H. reflexivity. }
  2:{ intros e s [HI _]. exact HI. }
  intros r. destruct r as [u|e].
  2:{ eapply (t_seq _ _ _ (fun _ s => Inv s)).
      - apply t_catch. eapply t_pre; [|apply (t_inv_quiet _ (quiet_p_call _ _ _ _ _ inert_id))]. intros s [HI _]. exact HI.
      - intros x. apply t_fail. auto.
      - intros e' s HI. exact HI. }
  set (L := fun lg : list event => exists e, In e lg /\ ev_of e o).
  eapply (t_seq _ _ _ (fun _ s => Inv s /\ K (o_w s) /\ L (w_log (o_w s)))).
  { apply t_catch. eapply t_pre; [|apply (t_quiet_KL _ K L (quiet_p_call _ _ _ _ _ inert_id) HK)].
    intros s (HI & HKs & H). split; [exact HI|split; [exact HKs|]]. apply (H u). reflexivity. }
  2:{ intros e s [HI _]. exact HI. }
  intros x. destruct x as [_|e]; [|apply t_fail; intros s [HI _]; exact HI].
  eapply (t_seq _ _ _ (fun _ s => Inv s /\ K (o_w s))).
  { eapply t_pre; [|apply (p_del_outbox_t K (o_id o) HK)].
    intros s (HI & HKs & (e & He & Ee)). split; [exact HI|split; [exact HKs|]].
    destruct (HKs o (or_introl eq_refl)) as [_ (r0 & Hr0 & Er0 & _)].
    intros r Hr. rewrite Hr0 in Hr. inversion Hr; subst r. exists e. split; [exact He|]. eapply ev_of_route; eauto. }
  2:{ intros e s [HI _]. exact HI. }
  intros _. eapply t_pre; [|exact IH]. intros s [HI HKs]. split; [exact HI|]. intros o' Hin. apply HKs. now right.
Qed.

(* ---------- trigger.go, callback.go, the controller API ---------- *)
Lemma set_nrun_WI (w : world) : WI w -> WI (set_nrun w (w_nrun w + 1)%N).
Proof.
  intros [H1 H2 H3 H4 H5 H6 H7 H8 H9 H10 H11 H12]. constructor; cbn; try assumption.
  intros r Hr. specialize (H2 r Hr). lia.
Qed.

Lemma trigger_store_pre (w : world) (fid : N) (st0 seed : Z) :
  WI w -> is_valid g st0 = true ->
  (forall l, latest_fid w fid = Some l -> rs_finished (r_state l) = true) ->
  store_pre (set_nrun w (w_nrun w + 1)%N)
            (bump (mkRecord 0%N fid (w_nrun w) RSInitiated st0 (OVal seed []) (w_now w) (w_now w) 0 0%N st0)).
Proof.
  intros HW Hv Hlatest.
  set (r' := bump (mkRecord 0%N fid (w_nrun w) RSInitiated st0 (OVal seed []) (w_now w) (w_now w) 0 0%N st0)).
  set (w' := set_nrun w (w_nrun w + 1)%N).
  assert (Hnone : lookup_run w' (r_run r') = None).
  { unfold lookup_run. cbn. destruct (find_first _ (w_recs w)) as [p|] eqn:E; [|reflexivity].
    apply find_first_some in E as [Hin Hq]. apply N.eqb_eq in Hq. pose proof (wi_lt c w HW p Hin). lia. }
  destruct (stamp_fields w' r') as (F1 & F2 & F3 & F4 & F5 & F6 & F7 & F8).
  unfold store_pre. rewrite Hnone. split; [|split; [|split]].
  - unfold store_ok. rewrite stamp_state, F3, F6, F7. cbn. rewrite Z.eqb_refl. unfold g in Hv. rewrite Hv. reflexivity.
  - destruct F8 as [-> | ->]; cbn; lia.
  - discriminate.
  - intros _. split; [cbn; lia|]. intros l Hl. apply Hlatest. exact Hl.
Qed.

Lemma api_trigger_t (fid : N) (start seed : Z) : triple Inv (api_trigger c fid start seed) (fun _ s => Inv s).
Proof.
  unfold api_trigger. destruct (if start =? 0 then default_start (ec_graph c) else Some start) as [st0|]; [|apply t_fail; auto].
  apply t_if; intros Hv; [apply t_fail; auto|]. apply Bool.negb_false_iff in Hv.
  eapply (t_seq _ _ _ (fun r s => Inv s /\ forall x, r = Ok x -> x = latest_fid (o_w s) fid)).
  { eapply t_conseq; [|apply (p_latest_t (fun _ => True) fid (stable_const True))|].
    - intros s HI. split; [exact HI|exact I].
    - intros r s (HI & _ & H). split; [exact HI|exact H]. }
  2:{ intros e s [HI _]. exact HI. }
  intros lastr. apply t_if; intros Hg; [apply t_fail; intros s [HI _]; exact HI|].
  set (K := fun w => forall l, latest_fid w fid = Some l -> rs_finished (r_state l) = true).
  assert (HK : stable K).
  { intros w w' (E1 & _) H l Hl. apply H. unfold latest_fid in *. now rewrite <- E1. }
  eapply (t_seq _ _ _ (fun r s => Inv s /\ K (o_w s) /\ r = Ok (o_w s))).
  { apply t_get_w. intros s [HI Hl]. split; [exact HI|split; [|reflexivity]].
    intros l El. pose proof (Hl lastr eq_refl) as E0. rewrite El in E0. subst lastr.
    destruct HI as (HW & _).
    assert (Hin : In l (w_recs (o_w s))).
    { unfold latest_fid in El. apply last_opt_in in El. apply filter_In in El. apply El. }
    destruct (wi_rec c _ HW l Hin) as (_ & _ & _ & Hu).
    destruct (r_state l); cbn in Hg; try discriminate; try reflexivity. contradiction. }
  2:{ intros e s (_ & _ & H). discriminate. }
  intros w. apply t_pre with (P' := fun s => w = o_w s /\ Inv s /\ K (o_w s)).
  { intros s (HI & HKs & H). inversion H; subst. auto. }
  eapply (t_seq _ _ _ (fun _ s => Inv s /\ o_w s = set_nrun w (w_nrun w + 1)%N /\ WI w /\ K w)).
  { apply t_put_w. intros s s' (Hw & (HW & Hn & Htr) & HKs) E1 E2 E3. subst w. split; [|split; [exact E1|split; [exact HW|exact HKs]]].
    split; [rewrite E1; apply set_nrun_WI, HW|split; [rewrite E2; exact Hn|rewrite E3; exact Htr]]. }
  2:{ intros e s [HI _]. exact HI. }
  intros _. eapply t_pre; [|apply p_store_t]. intros s (HI & E & HW & HKw). split; [exact HI|]. rewrite E. apply trigger_store_pre; assumption.
Qed.

Lemma last_opt_filter_in {A} (f : A -> bool) (l : list A) (x : A) : last_opt (filter f l) = Some x -> In x l.
Proof. intros H. apply last_opt_in in H. apply filter_In in H. apply H. Qed.

Lemma api_callbacks_t (fid : N) (status : Z) (cbs : list cbcfg) :
  forall j, triple Inv (api_callbacks c fid status cbs j) (fun _ s => Inv s).
Proof.
  induction cbs as [|cb tl IH]; intros j; cbn [api_callbacks]; [apply t_ret; auto|].
  apply t_if; intros _; [apply IH|].
  eapply (t_seq _ _ _ (fun r s => Inv s /\ forall x, r = Ok x -> x = latest_fid (o_w s) fid)).
  { eapply t_conseq; [|apply (p_latest_t (fun _ => True) fid (stable_const True))|].
    - intros s HI. split; [exact HI|exact I].
    - intros r s (HI & _ & H). split; [exact HI|exact H]. }
  2:{ intros e s [HI _]. exact HI. }
  intros wr. destruct wr as [wr|]; [|apply t_fail; intros s [HI _]; exact HI].
  eapply (t_seq _ _ _ (fun _ s => Inv s)); [|intros _; apply IH|intros e s HI; exact HI].
  apply t_if; intros Hst; [apply t_ret; intros s [HI _]; exact HI|].
  apply t_if; intros Hns; [apply t_ret; intros s [HI _]; exact HI|].
  unfold build_run. destruct (r_obj wr) eqn:Eo; [|apply t_fail; intros s [HI _]; exact HI].
  eapply (t_seq _ _ _ (fun r0 s => r0 = Ok (promote wr) /\ Inv s /\ live (o_w s) (promote wr))).
  { apply t_ret. intros s [HI Hl]. split; [reflexivity|split; [exact HI|]].
    specialize (Hl (Some wr) eq_refl). symmetry in Hl. unfold latest_fid in Hl. apply last_opt_filter_in in Hl.
    eapply live_promote; [apply (WI_lookup_in c); [apply HI|exact Hl]|exact Hns]. }
  2:{ intros e s (H & _). discriminate. }
  intros view. apply t_pre with (P' := fun s => view = promote wr /\ Inv s /\ live (o_w s) view).
  { intros s (H & HI & Hl). inversion H; subst. auto. }
  eapply t_seq.
  - eapply t_pre; [|apply (invoke_t (fun _ => True) (UFCallback status j) (cb_beh cb) status view (stable_const True))].
    intros s (Hv & HI & Hl). split; [exact HI|split; [exact I|split; [exact Hl|]]]. cbn. subst view.
    apply Bool.negb_false_iff, Z.eqb_eq in Hst. rewrite <- Hst. unfold promote. destruct (r_state wr); reflexivity.
  - intros [[obj' oc] ctl]. destruct oc as [z|oe].
    + apply t_if; intros Hskip; [apply t_ret; intros s [HI _]; exact HI|].
      eapply t_pre; [|apply updater_t]. intros s [HI H]. split; [exact HI|].
      destruct (H obj' (inl z) ctl eq_refl) as [Hz|(_ & Hl & _)]; [exfalso; eapply skip_not_m1; eauto|].
      apply live_upd_ready, Hl.
    + apply t_fail. intros s [HI _]. exact HI.
  - intros e s [HI _]. exact HI.
Qed.

Lemma api_ctl_t (run : N) (o : ctlop) : triple Inv (api_ctl c run o) (fun _ s => Inv s).
Proof.
  unfold api_ctl.
  eapply (t_seq _ _ _ (fun r s => Inv s /\ forall x, r = Ok x -> x = lookup_run (o_w s) run)).
  { eapply t_conseq; [|apply (p_lookup_t (fun _ => True) run (stable_const True))|].
    - intros s HI. split; [exact HI|exact I].
    - intros r s (HI & _ & H). split; [exact HI|exact H]. }
  2:{ intros e s [HI _]. exact HI. }
  intros r. destruct r as [r|]; [|apply t_fail; intros s [HI _]; exact HI].
  eapply t_seq.
  - eapply t_pre; [|apply (ctl_do_t (fun w => synced w r) r (ctl_target o) 4%N (synced_stable r))].
    intros s (HI & Hl). assert (Hs : synced (o_w s) r) by (eapply synced_self; symmetry; apply Hl; reflexivity).
    split; [exact HI|split; [exact Hs|]]. intros r' Hr'.
    eapply ctl_store_pre; try exact Hr'; [apply HI|exact Hs|destruct o; discriminate|destruct o; discriminate].
  - intros x. destruct (fst x); [apply t_ret|apply t_fail]; intros s [HI _]; exact HI.
  - intros e s [HI _]. exact HI.
Qed.

(* ---------- consumer.go / workflow.go: the process operations ---------- *)
Lemma quiet_ite {A} (b : ost -> bool) (m1 m2 : M A) : quiet m1 -> quiet m2 -> quiet (fun s => if b s then m1 s else m2 s).
Proof. intros H1 H2 s. destruct (b s); [apply H1|apply H2]. Qed.

Lemma quiet_exit_err inst u close e : quiet (exit_err c inst u close e).
Proof.
  unfold exit_err. apply quiet_bind.
  { destruct close; [|apply quiet_ret]. apply quiet_bind; [apply quiet_catch, quiet_p_call, inert_id|intros _; apply quiet_ret]. }
  intros _. destruct (e =? ECancel).
  { apply quiet_bind; [apply quiet_m_release|intros _; apply quiet_ret]. }
  apply quiet_bind; [apply quiet_get_w|]. intros w.
  apply quiet_ite; [|apply quiet_ite].
  - apply quiet_bind; [apply quiet_emit; reflexivity|]. intros _. apply quiet_bind; [apply quiet_m_release|intros _; apply quiet_ret].
  - apply quiet_bind; [apply quiet_emit; reflexivity|]. intros _. apply quiet_ret.
  - apply quiet_bind; [apply quiet_emit; reflexivity|]. intros _. apply quiet_bind; [apply quiet_m_release|intros _; apply quiet_ret].
Qed.

Definition not_lag (ps : pstate) : Prop := match ps with PLag _ _ _ => False | _ => True end.
Definition noLag (m : M pstate) : Prop := forall s, match fst (m s) with Ok ps => not_lag ps | Err _ => True end.

Lemma noLag_bind {A} (m : M A) (f : A -> M pstate) : (forall a, noLag (f a)) -> noLag (bind m f).
Proof. intros H s. unfold bind. destruct (m s) as [[a|e] s']; cbn; [apply H|exact I]. Qed.
Lemma noLag_ret ps : not_lag ps -> noLag (ret ps).
Proof. intros H s. exact H. Qed.
Lemma noLag_fail e : noLag (fail e).
Proof. intros s. exact I. Qed.
Lemma noLag_ite (b : ost -> bool) (m1 m2 : M pstate) : noLag m1 -> noLag m2 -> noLag (fun s => if b s then m1 s else m2 s).
Proof. intros H1 H2 s. destruct (b s); [apply H1|apply H2]. Qed.

Lemma noLag_exit_err inst u close e : noLag (exit_err c inst u close e).
Proof.
  unfold exit_err. apply noLag_bind. intros _. destruct (e =? ECancel).
  { apply noLag_bind. intros _. apply noLag_ret. exact I. }
  apply noLag_bind. intros w. apply noLag_ite; [|apply noLag_ite].
  - apply noLag_bind. intros _. apply noLag_bind. intros _. apply noLag_ret. exact I.
  - apply noLag_bind. intros _. apply noLag_ret. exact I.
  - apply noLag_bind. intros _. apply noLag_bind. intros _. apply noLag_ret. exact I.
Qed.

(* the result of a process operation: the invariant, and an event held for the consume lag is an event of the log *)
Definition ev_ok (w : world) (u : eunit) (e : event) : Prop := In e (w_log w) /\ e_topic e = unit_topic u.
Definition op_post (u : eunit) (r : res pstate) (s : ost) : Prop :=
  Inv s /\ forall idx e d, r = Ok (PLag idx e d) -> ev_ok (o_w s) u e.

Lemma guarded_t (P : ost -> Prop) inst u close (m : M pstate) :
  triple P m (op_post u) -> triple P (guarded c inst u close m) (op_post u).
Proof.
  intros Hm s Hs. unfold guarded. specialize (Hm s Hs). destruct (m s) as [[ps|e] s']; cbn [fst snd] in *; [exact Hm|].
  destruct Hm as [HI _].
  pose proof (quiet_exit_err inst u close e s') as Hqs.
  destruct (quiet_Inv (fun _ => True) s' _ (stable_const True) Hqs (conj HI I)) as [HI' _].
  pose proof (noLag_exit_err inst u close e s') as Hnl.
  destruct (exit_err c inst u close e s') as [[ps|e'] s'']; cbn [fst snd] in *; split; try exact HI'; intros idx ev d Hx; inversion Hx; subst.
  destruct Hnl.
Qed.

Lemma op_post_nolag (u : eunit) (ps : pstate) (s : ost) : Inv s -> not_lag ps -> op_post u (Ok ps) s.
Proof. intros HI Hn. split; [exact HI|]. intros idx e d Hx. inversion Hx; subst. destruct Hn. Qed.

Lemma op_post_err (u : eunit) (e : err) (s : ost) : Inv s -> op_post u (Err e) s.
Proof. intros HI. split; [exact HI|]. intros; discriminate. Qed.

(* quiet computations also leave the log alone *)
Lemma t_quiet_log {A} (m : M A) (L : list event -> Prop) :
  quiet m -> triple (fun s => Inv s /\ L (w_log (o_w s))) m (fun _ s' => Inv s' /\ L (w_log (o_w s'))).
Proof.
  intros Hq s [HI HL]. specialize (Hq s).
  destruct (quiet_Inv (fun _ => True) s _ (stable_const True) Hq (conj HI I)) as [HI' _]. split; [exact HI'|].
  destruct Hq as (_ & El & _). rewrite El. exact HL.
Qed.

Lemma topic_eqb_eq (a b : topic) : topic_eqb a b = true -> a = b.
Proof. destruct a, b; cbn; intros H; try discriminate; try reflexivity; [apply Z.eqb_eq in H|apply N.eqb_eq in H]; now subst. Qed.

Lemma next_event_in (t : topic) (l : list event) :
  forall i pos idx e, next_event t l i pos = Some (idx, e) -> In e l /\ e_topic e = t.
Proof.
  induction l as [|a l IH]; intros i pos idx e; cbn; [discriminate|].
  destruct (Nat.leb pos i && topic_eqb (e_topic a) t) eqn:E.
  - intros H. inversion H; subst. apply andb_prop in E as [_ E]. split; [now left|apply topic_eqb_eq, E].
  - intros H. destruct (IH _ _ _ _ H) as [A B]. split; [now right|exact B].
Qed.

Lemma unit_handler_t (inst : Z) (u : eunit) (e : event) :
  triple (fun s => Inv s /\ ev_ok (o_w s) u e) (unit_handler c inst u e) (fun _ s => Inv s).
Proof.
  unfold unit_handler. destruct u as [|st i n|st|st|hs| | |fid|cid ci cn]; try (apply t_fail; intros s [HI _]; exact HI).
  - destruct (find_step c st) as [sc|]; [|apply t_fail; intros s [HI _]; exact HI].
    eapply t_pre; [|apply step_handler_t, invoke_fn_ok]. intros s [HI _]. exact HI.
  - eapply t_pre; [|apply step_handler_t, inserter_fn_ok]. intros s [HI _]. exact HI.
  - eapply t_pre; [|apply (t_inv_quiet _ (quiet_hook_handler _ _ _))]. intros s [HI _]. exact HI.
  - eapply t_pre; [|apply delete_handler_t]. intros s [HI [Hin Ht]]. split; [exact HI|].
    destruct HI as (HW & _). apply (wi_del_log c _ HW e Hin Ht).
  - eapply t_pre; [|apply retry_handler_t]. intros s [HI _]. exact HI.
  - eapply t_pre; [|apply (t_inv_quiet _ (quiet_conn_handler _ _ _))]. intros s [HI _]. exact HI.
Qed.

Lemma after_lag_t (inst : Z) (u : eunit) (idx : nat) (e : event) :
  triple (fun s => Inv s /\ ev_ok (o_w s) u e) (after_lag c inst u idx e) (op_post u).
Proof.
  unfold after_lag.
  eapply (t_seq _ _ _ (fun _ s => Inv s)).
  - apply t_if; intros _.
    + eapply t_pre; [|apply (t_inv_quiet _ (quiet_p_ack _ _ _))]. intros s [HI _]. exact HI.
    + eapply (t_seq _ _ _ (fun _ s => Inv s)); [apply unit_handler_t|intros _; apply (t_inv_quiet _ (quiet_p_ack _ _ _))|intros e' s HI; exact HI].
  - intros _. apply t_ret. intros s HI. apply op_post_nolag; [exact HI|exact I].
  - intros e' s HI. apply op_post_err, HI.
Qed.

Lemma consume_iter_t (inst : Z) (u : eunit) : triple Inv (consume_iter c inst u) (op_post u).
Proof.
  unfold consume_iter.
  eapply (t_seq _ _ _ (fun r s => Inv s /\ r = Ok (o_w s))).
  { apply t_get_w. intros s HI. auto. }
  2:{ intros e s [_ H]. discriminate. }
  intros w. apply t_pre with (P' := fun s => Inv s /\ w_log (o_w s) = w_log w).
  { intros s [HI H]. inversion H; subst. auto. }
  eapply (t_seq _ _ _ (fun _ s => Inv s /\ w_log (o_w s) = w_log w)).
  { apply (t_quiet_log _ (fun l => l = w_log w) quiet_lease_live). }
  2:{ intros e s [HI _]. apply op_post_err, HI. }
  intros live.
  destruct (next_event (unit_topic u) (w_log w) 0 (get_cursor w u)) as [[idx e]|] eqn:En.
  - apply next_event_in in En as [Hin Ht].
    eapply (t_seq _ _ _ (fun _ s => Inv s /\ w_log (o_w s) = w_log w)).
    { apply (t_quiet_log _ (fun l => l = w_log w) (quiet_dispatch _ _)). }
    2:{ intros e' s [HI _]. apply op_post_err, HI. }
    intros d.
    assert (Hother : triple (fun s => Inv s /\ w_log (o_w s) = w_log w)
                            (emit (TCall KRV [] (disp_res d) []) ;;; disp_ret d PRun) (op_post u)).
    { eapply (t_seq _ _ _ (fun _ s => Inv s)).
      - eapply t_pre; [|(apply t_inv_quiet, quiet_emit; reflexivity)]. intros s [HI _]. exact HI.
      - intros _. apply t_disp_ret; intros; [apply op_post_nolag; [assumption|exact I]|apply op_post_err; assumption].
      - intros e' s HI. apply op_post_err, HI. }
    assert (Hok : triple (fun s => Inv s /\ w_log (o_w s) = w_log w)
                         (emit (TRecv e) ;;;
                          (let lag := unit_lag c u in
                           if (lag >? 0) && (e_created e + lag >? w_now w)
                           then emit (TCall KTW [e_created e + lag] RBlocked []) ;;; ret (PLag idx e (e_created e + lag))
                           else after_lag c inst u idx e)) (op_post u)).
    { eapply (t_seq _ _ _ (fun _ s => Inv s /\ w_log (o_w s) = w_log w)).
      - apply (t_quiet_log _ (fun l => l = w_log w)). apply quiet_emit. reflexivity.
      - intros _. cbv zeta. apply t_if; intros _.
        + eapply (t_seq _ _ _ (fun _ s => Inv s /\ w_log (o_w s) = w_log w)).
          * apply (t_quiet_log _ (fun l => l = w_log w)). apply quiet_emit. reflexivity.
          * intros _. apply t_ret. intros s [HI El]. split; [exact HI|]. intros idx' e' d' Hx. inversion Hx; subst.
            split; [rewrite El; exact Hin|exact Ht].
          * intros e' s [HI _]. apply op_post_err, HI.
        + eapply t_pre; [|apply after_lag_t]. intros s [HI El]. split; [exact HI|]. split; [rewrite El; exact Hin|exact Ht].
      - intros e' s [HI _]. apply op_post_err, HI. }
    destruct d; assumption.
  - destruct live.
    + eapply (t_seq _ _ _ (fun _ s => Inv s)).
      * eapply t_pre; [|(apply t_inv_quiet, quiet_emit; reflexivity)]. intros s [HI _]. exact HI.
      * intros _. apply t_ret. intros s HI. apply op_post_nolag; [exact HI|exact I].
      * intros e' s HI. apply op_post_err, HI.
    + eapply (t_seq _ _ _ (fun _ s => Inv s)).
      * eapply t_pre; [|apply (t_inv_quiet _ (quiet_dispatch _ _))]. intros s [HI _]. exact HI.
      * intros d. eapply (t_seq _ _ _ (fun _ s => Inv s)).
        -- (apply t_inv_quiet, quiet_emit; reflexivity).
        -- intros _. apply t_disp_ret; intros; [apply op_post_nolag; [assumption|exact I]|apply op_post_err; assumption].
        -- intros e' s HI. apply op_post_err, HI.
      * intros e' s HI. apply op_post_err, HI.
Qed.

Lemma poll_once_t (inst : Z) (u : eunit) (st : Z) : triple Inv (poll_once c inst u st) (op_post u).
Proof.
  unfold poll_once.
  eapply (t_seq _ _ _ (fun _ s => Inv s)); [apply (t_inv_quiet _ (quiet_p_list_valid _))| |intros e s HI; apply op_post_err, HI].
  intros l. eapply (t_seq _ _ _ (fun _ s => Inv s)); [apply poll_timers_t| |intros e s HI; apply op_post_err, HI].
  intros _. apply t_ret. intros s HI. apply op_post_nolag; [exact HI|exact I].
Qed.

Lemma sched_after_wait_t (inst : Z) (sc : schedcfg) : triple Inv (sched_after_wait c inst sc) (op_post (ESched (sd_fid sc))).
Proof.
  unfold sched_after_wait.
  eapply (t_seq _ _ _ (fun _ s => Inv s)).
  - destruct (sd_filter sc =? 0); [apply t_ret; auto|].
    apply t_inv_quiet. apply quiet_bind; [apply quiet_att_bump|]. intros n.
    apply quiet_bind; [apply quiet_get_w|]. intros w. apply quiet_bind; [apply quiet_emit; reflexivity|]. intros _. apply quiet_ret.
  - intros ok. eapply (t_seq _ _ _ (fun _ s => Inv s)).
    + destruct ok; [|apply t_ret; auto].
      eapply (t_seq _ _ _ (fun _ s => Inv s)); [apply t_catch, api_trigger_t| |intros e s HI; exact HI].
      intros r. destruct r as [_|e]; [apply t_ret; auto|]. destruct (e =? 3); [apply t_ret|apply t_fail]; auto.
    + intros _. eapply (t_seq _ _ _ (fun _ s => Inv s)); [apply (t_inv_quiet _ (quiet_m_release _ _))| |intros e s HI; apply op_post_err, HI].
      intros _. apply t_ret. intros s HI. apply op_post_nolag; [exact HI|exact I].
    + intros e s HI. apply op_post_err, HI.
  - intros e s HI. apply op_post_err, HI.
Qed.

Lemma sched_body_t (inst : Z) (sc : schedcfg) : triple Inv (sched_body c inst sc) (op_post (ESched (sd_fid sc))).
Proof.
  unfold sched_body.
  eapply (t_seq _ _ _ (fun _ s => Inv s)).
  { eapply t_conseq; [|apply (p_latest_t (fun _ => True) (sd_fid sc) (stable_const True))|].
    - intros s HI. split; [exact HI|exact I].
    - intros r s (HI & _). exact HI. }
  2:{ intros e s HI. apply op_post_err, HI. }
  intros lat. eapply (t_seq _ _ _ (fun _ s => Inv s)); [apply (t_inv_quiet _ quiet_get_w)| |intros e s HI; apply op_post_err, HI].
  intros w. cbv zeta. apply t_if; intros _.
  - eapply (t_seq _ _ _ (fun _ s => Inv s)); [(apply t_inv_quiet, quiet_emit; reflexivity)| |intros e s HI; apply op_post_err, HI].
    intros _. apply t_ret. intros s HI. apply op_post_nolag; [exact HI|exact I].
  - eapply (t_seq _ _ _ (fun _ s => Inv s)); [(apply t_inv_quiet, quiet_emit; reflexivity)| |intros e s HI; apply op_post_err, HI].
    intros _. apply sched_after_wait_t.
Qed.

Lemma find_sched_fid (fid : N) (sc : schedcfg) : find_sched c fid = Some sc -> sd_fid sc = fid.
Proof. unfold find_sched. intros H. apply find_first_some in H as [_ H]. now apply N.eqb_eq in H. Qed.

(* one scheduling step of one background process *)
Lemma proc_op_t (inst : Z) (u : eunit) (ps : pstate) :
  triple (fun s => Inv s /\ forall idx e d, ps = PLag idx e d -> ev_ok (o_w s) u e) (proc_op c inst u ps) (op_post u).
Proof.
  unfold proc_op. destruct ps as [| |idx e deadline|deadline|deadline].
  - (* PIdle *)
    eapply (t_seq _ _ _ (fun r s => Inv s /\ r = Ok (o_w s))).
    { apply t_get_w. intros s [HI _]. auto. }
    2:{ intros e s [_ H]. discriminate. }
    intros w. apply t_pre with (P' := fun s => Inv s /\ o_w s = w).
    { intros s [HI H]. inversion H; subst. auto. }
    destruct (role_holder w u).
    { eapply (t_seq _ _ _ (fun _ s => Inv s)).
      - eapply t_pre; [|(apply t_inv_quiet, quiet_emit; reflexivity)]. intros s [HI _]. exact HI.
      - intros _. apply t_ret. intros s HI. apply op_post_nolag; [exact HI|exact I].
      - intros e s HI. apply op_post_err, HI. }
    eapply (t_seq _ _ _ (fun _ s => Inv s /\ o_w s = w)).
    { apply t_dispatch. intros s s' d [HI Hw] E1 E2 E3 _. split; [|congruence].
      destruct HI as (HW & Hn & Htr). split; [rewrite E1; exact HW|split; [rewrite E2; exact Hn|rewrite E3; exact Htr]]. }
    2:{ intros e s [HI _]. apply op_post_err, HI. }
    intros d.
    assert (Hfail : triple (fun s => Inv s /\ o_w s = w) (emit (TCall KAW [] (disp_res d) []) ;;; ret PIdle) (op_post u)).
    { eapply (t_seq _ _ _ (fun _ s => Inv s)).
      - eapply t_pre; [|(apply t_inv_quiet, quiet_emit; reflexivity)]. intros s [HI _]. exact HI.
      - intros _. apply t_ret. intros s HI. apply op_post_nolag; [exact HI|exact I].
      - intros e s HI. apply op_post_err, HI. }
    assert (Hgo : triple (fun s => Inv s /\ o_w s = w)
              (emit (TCall KAW [] ROk []) ;;; m_acquire u inst ;;;
               match u with
               | EOutbox => guarded c inst u false (l <- p_list_outbox (ec_limit c) ;; relay_entries l ;;; m_release u inst ;;; ret PIdle)
               | EPoller s0 => guarded c inst u false (poll_once c inst u s0)
               | ESched fid => match find_sched c fid with
                               | Some sc => guarded c inst u false (sched_body c inst sc)
                               | None => m_release u inst ;;; ret PIdle
                               end
               | _ => guarded c inst u false (p_call KNR true [] (fun w0 => w0) (fun _ => []) ;;; ret PRun)
               end) (op_post u)).
    { eapply (t_seq _ _ _ (fun _ s => Inv s /\ o_w s = w)).
      { apply t_emit. intros s s' [HI Hw] E1 E2 E3. split; [|congruence].
        destruct HI as (HW & Hn & Htr). split; [rewrite E1; exact HW|split; [rewrite E2; exact Hn|]].
        destruct E3 as [E|E]; rewrite E; [apply toks_ok_cons; [reflexivity|exact Htr]|exact Htr]. }
      2:{ intros e s [HI _]. apply op_post_err, HI. }
      intros _. eapply (t_seq _ _ _ (fun _ s => Inv s)).
      { eapply t_pre; [|apply (t_inv_quiet _ (quiet_m_acquire _ _))]. intros s [HI _]. exact HI. }
      2:{ intros e s HI. apply op_post_err, HI. }
      intros _.
      assert (Hcons : triple Inv (guarded c inst u false (p_call KNR true [] (fun w0 => w0) (fun _ => []) ;;; ret PRun)) (op_post u)).
      { apply guarded_t. eapply (t_seq _ _ _ (fun _ s => Inv s)); [apply (t_inv_quiet _ (quiet_p_call _ _ _ _ _ inert_id))| |intros e s HI; apply op_post_err, HI].
        intros _. apply t_ret. intros s HI. apply op_post_nolag; [exact HI|exact I]. }
      destruct u as [|st i n|st|st|hs| | |fid|cid ci cn]; try exact Hcons.
      - apply guarded_t.
        eapply t_seq; [apply p_list_outbox_t| |intros e s [HI _]; apply op_post_err, HI].
        intros l. eapply (t_seq _ _ _ (fun _ s => Inv s)).
        + eapply t_pre; [|apply relay_entries_t]. intros s [HI Hl]. split; [exact HI|]. intros o Ho.
          destruct HI as (HW & _). pose proof (Hl l eq_refl o Ho) as Hin. split.
          * intros Ht. apply (wi_del_out c _ HW o Hin Ht).
          * apply (wi_out c _ HW o Hin).
        + intros _. eapply (t_seq _ _ _ (fun _ s => Inv s)); [apply (t_inv_quiet _ (quiet_m_release _ _))| |intros e s HI; apply op_post_err, HI].
          intros _. apply t_ret. intros s HI. apply op_post_nolag; [exact HI|exact I].
        + intros e s HI. apply op_post_err, HI.
      - apply guarded_t, poll_once_t.
      - destruct (find_sched c fid) as [sc|] eqn:Ef.
        + rewrite <- (find_sched_fid fid sc Ef). apply guarded_t, sched_body_t.
        + eapply (t_seq _ _ _ (fun _ s => Inv s)); [apply (t_inv_quiet _ (quiet_m_release _ _))| |intros e s HI; apply op_post_err, HI].
          intros _. apply t_ret. intros s HI. apply op_post_nolag; [exact HI|exact I]. }
    destruct d; assumption.
  - (* PRun *)
    destruct u as [|st i n|st|st|hs| | |fid|cid ci cn];
      try (eapply t_pre; [|apply guarded_t, consume_iter_t]; intros s [HI _]; exact HI);
      try (apply t_ret; intros s [HI _]; apply op_post_nolag; [exact HI|exact I]).
    eapply t_pre; [|apply guarded_t, poll_once_t]. intros s [HI _]. exact HI.
  - (* PLag *)
    eapply (t_seq _ _ _ (fun _ s => Inv s /\ In e (w_log (o_w s)) /\ e_topic e = unit_topic u)).
    { apply t_get_w. intros s [HI H]. destruct (H idx e deadline eq_refl). auto. }
    2:{ intros e' s [HI _]. apply op_post_err, HI. }
    intros w.
    eapply (t_seq _ _ _ (fun _ s => Inv s /\ In e (w_log (o_w s)) /\ e_topic e = unit_topic u)).
    { apply (t_quiet_log _ (fun l => In e l /\ e_topic e = unit_topic u) quiet_lease_live). }
    2:{ intros e' s [HI _]. apply op_post_err, HI. }
    intros live. apply t_if; intros _; [|apply t_if; intros _].
    + eapply (t_seq _ _ _ (fun _ s => Inv s)).
      * eapply t_pre; [|(apply t_inv_quiet, quiet_emit; reflexivity)]. intros s [HI _]. exact HI.
      * intros _. apply guarded_t. apply t_fail. intros s HI. apply op_post_err, HI.
      * intros e' s HI. apply op_post_err, HI.
    + eapply (t_seq _ _ _ (fun _ s => Inv s /\ In e (w_log (o_w s)) /\ e_topic e = unit_topic u)).
      * apply (t_quiet_log _ (fun l => In e l /\ e_topic e = unit_topic u)). apply quiet_emit. reflexivity.
      * intros _. apply t_ret. intros s (HI & H). split; [exact HI|]. intros idx' e' d' Hx. inversion Hx; subst. exact H.
      * intros e' s [HI _]. apply op_post_err, HI.
    + eapply (t_seq _ _ _ (fun _ s => Inv s /\ In e (w_log (o_w s)) /\ e_topic e = unit_topic u)).
      * apply (t_quiet_log _ (fun l => In e l /\ e_topic e = unit_topic u)). apply quiet_emit. reflexivity.
      * intros _. apply guarded_t. eapply t_pre; [|apply after_lag_t]. intros s (HI & H). split; [exact HI|exact H].
      * intros e' s [HI _]. apply op_post_err, HI.
  - (* PBackoff *)
    eapply (t_seq _ _ _ (fun _ s => Inv s)); [eapply t_pre; [|apply (t_inv_quiet _ quiet_get_w)]; intros s [HI _]; exact HI| |intros e s HI; apply op_post_err, HI].
    intros w. eapply (t_seq _ _ _ (fun _ s => Inv s)); [apply (t_inv_quiet _ quiet_lease_live)| |intros e s HI; apply op_post_err, HI].
    intros live. apply t_if; intros _; [|apply t_if; intros _].
    + eapply (t_seq _ _ _ (fun _ s => Inv s)); [(apply t_inv_quiet, quiet_emit; reflexivity)| |intros e s HI; apply op_post_err, HI].
      intros _. eapply (t_seq _ _ _ (fun _ s => Inv s)); [apply (t_inv_quiet _ (quiet_m_release _ _))| |intros e s HI; apply op_post_err, HI].
      intros _. apply t_ret. intros s HI. apply op_post_nolag; [exact HI|exact I].
    + eapply (t_seq _ _ _ (fun _ s => Inv s)); [(apply t_inv_quiet, quiet_emit; reflexivity)| |intros e s HI; apply op_post_err, HI].
      intros _. apply t_ret. intros s HI. apply op_post_nolag; [exact HI|exact I].
    + eapply (t_seq _ _ _ (fun _ s => Inv s)); [(apply t_inv_quiet, quiet_emit; reflexivity)| |intros e s HI; apply op_post_err, HI].
      intros _. eapply (t_seq _ _ _ (fun _ s => Inv s)); [apply (t_inv_quiet _ (quiet_m_release _ _))| |intros e s HI; apply op_post_err, HI].
      intros _. apply t_ret. intros s HI. apply op_post_nolag; [exact HI|exact I].
  - (* PWait *)
    eapply (t_seq _ _ _ (fun _ s => Inv s)); [eapply t_pre; [|apply (t_inv_quiet _ quiet_get_w)]; intros s [HI _]; exact HI| |intros e s HI; apply op_post_err, HI].
    intros w. eapply (t_seq _ _ _ (fun _ s => Inv s)); [apply (t_inv_quiet _ quiet_lease_live)| |intros e s HI; apply op_post_err, HI].
    intros live. apply t_if; intros _; [|apply t_if; intros _].
    + eapply (t_seq _ _ _ (fun _ s => Inv s)); [(apply t_inv_quiet, quiet_emit; reflexivity)| |intros e s HI; apply op_post_err, HI].
      intros _. apply guarded_t. apply t_fail. intros s HI. apply op_post_err, HI.
    + eapply (t_seq _ _ _ (fun _ s => Inv s)); [(apply t_inv_quiet, quiet_emit; reflexivity)| |intros e s HI; apply op_post_err, HI].
      intros _. apply t_ret. intros s HI. apply op_post_nolag; [exact HI|exact I].
    + eapply (t_seq _ _ _ (fun _ s => Inv s)); [(apply t_inv_quiet, quiet_emit; reflexivity)| |intros e s HI; apply op_post_err, HI].
      intros _. destruct u as [|st i n|st|st|hs| | |fid|cid ci cn]; try (apply t_ret; intros s HI; apply op_post_nolag; [exact HI|exact I]).
      destruct (find_sched c fid) as [sc|] eqn:Ef; [|apply t_ret; intros s HI; apply op_post_nolag; [exact HI|exact I]].
      rewrite <- (find_sched_fid fid sc Ef). apply guarded_t, sched_after_wait_t.
Qed.

(* ---------- operations and histories ---------- *)
Definition op_ok (o : eop) : Prop :=
  match o with
  | OTrigger _ _ _ p | OCallback _ _ p | OCtl _ _ _ p | OStep _ _ p => nostale p
  | OAdvance d => 0 <= d
  | _ => True
  end.

Lemma toks_ok_rev tr : toks_ok c tr -> toks_ok c (rev tr).
Proof. intros H. apply Forall_rev, H. Qed.

Lemma run_api_ok (w : world) (p : plan) (m : M unit) :
  WI w -> nostale p -> triple Inv m (fun _ s => Inv s) ->
  WI (fst (run_api w p m)) /\ toks_ok c (snd (run_api w p m)).
Proof.
  intros HW Hp Hm. unfold run_api.
  assert (H0 : Inv (mkOst w p [] [] true false)) by (split; [exact HW|split; [exact Hp|constructor]]).
  specialize (Hm _ H0). destruct (m (mkOst w p [] [] true false)) as [[a|e] s]; cbn [fst snd] in *;
    destruct Hm as (HW' & _ & Htr); (split; [exact HW'|]); apply toks_ok_rev, toks_ok_cons; try reflexivity; exact Htr.
Qed.

Lemma eunit_eqb_eq (a b : eunit) : eunit_eqb a b = true -> a = b.
Proof.
  destruct a, b; cbn; intros H; try discriminate; try reflexivity.
  - apply andb_prop in H as [H H3]. apply andb_prop in H as [H1 H2]. apply Z.eqb_eq in H1, H2, H3. now subst.
  - apply Z.eqb_eq in H. now subst.
  - apply Z.eqb_eq in H. now subst.
  - apply rs_eqb_eq in H. now subst.
  - apply N.eqb_eq in H. now subst.
  - apply andb_prop in H as [H H3]. apply andb_prop in H as [H1 H2]. apply N.eqb_eq in H1. apply Z.eqb_eq in H2, H3. now subst.
Qed.

Lemma WI_procs (w w' : world) :
  w_recs w' = w_recs w -> w_nrun w' = w_nrun w -> w_now w' = w_now w -> w_log w' = w_log w -> w_outbox w' = w_outbox w ->
  (forall x, In x (w_procs w') -> In x (w_procs w)) -> w_hist w' = w_hist w -> w_noid w' = w_noid w -> WI w -> WI w'.
Proof.
  intros E1 E2 E3 E4 E5 Hsub E7 E8 [H1 H2 H3 H4 H5 H6 H7 H8 H9 H10 H11 H12].
  constructor; unfold published in *; rewrite ?E1, ?E2, ?E3, ?E4, ?E5, ?E7, ?E8; try assumption.
  intros p idx e d Hin. apply (H6 p idx e d), Hsub, Hin.
Qed.

Lemma crash_inst_WI (w : world) (inst : Z) : WI w -> WI (crash_inst w inst).
Proof.
  intros HW. eapply WI_procs; try exact HW; try reflexivity.
  unfold crash_inst. cbn. intros x Hx. apply filter_In in Hx. apply Hx.
Qed.

Lemma put_pstate_WI (w : world) (inst : Z) (u : eunit) (ps : pstate) :
  WI w -> (forall idx e d, ps = PLag idx e d -> ev_ok w u e) -> WI (put_pstate w (inst, u) ps).
Proof.
  intros [H1 H2 H3 H4 H5 H6 H7 H8 H9 H10 H11 H12] Hps. unfold put_pstate. constructor; cbn; try assumption.
  intros p idx e d [Hx|Hx].
  - inversion Hx; subst. cbn. apply (Hps idx e d eq_refl).
  - apply filter_In in Hx as [Hx _]. apply (H6 p idx e d Hx).
Qed.

Lemma get_pstate_lag (w : world) (inst : Z) (u : eunit) idx e d :
  WI w -> get_pstate w (inst, u) = PLag idx e d -> ev_ok w u e.
Proof.
  intros HW. unfold get_pstate. destruct (find_first _ (w_procs w)) as [x|] eqn:E; [|discriminate].
  intros Hx. apply find_first_some in E as [Hin Hq]. destruct x as [[i' u'] ps]. cbn in *. subst ps.
  unfold procid_eqb in Hq. cbn in Hq. apply andb_prop in Hq as [_ Hu]. apply eunit_eqb_eq in Hu. subst u'.
  apply (wi_lag c w HW (i', u) idx e d Hin).
Qed.

Lemma run_op_ok (w : world) (o : eop) :
  WI w -> op_ok o -> WI (fst (run_op c w o)) /\ toks_ok c (snd (run_op c w o)).
Proof.
  intros HW Hop. destruct o as [fid start seed p|fid status p|run op ui p|d|inst u p|inst|inst fid valid|inst u|u pos|idx|cid id cfid]; cbn [run_op op_ok] in *.
  - apply run_api_ok; [exact HW|exact Hop|apply api_trigger_t].
  - apply run_api_ok; [exact HW|exact Hop|apply api_callbacks_t].
  - destruct (run_api_ok w p (api_ctl c run op) HW Hop (api_ctl_t run op)) as [A B].
    destruct (run_api w p (api_ctl c run op)) as [w' t]. cbn [fst snd] in *. split; [exact A|].
    destruct ui; [|exact B]. clear -B. induction B as [|x l Hx Hl IH]; cbn; [constructor|].
    constructor; [|exact IH]. destruct x; try exact Hx; reflexivity.
  - (* clock advance *)
    split; [|constructor]. destruct HW as [H1 H2 H3 H4 H5 H6 H7 H8 H9 H10 H11 H12]. constructor; cbn; try assumption.
    intros r Hr. destruct (H3 r Hr) as (A & B & C & D). repeat split; try assumption. lia.
  - (* a process step *)
    set (ps := get_pstate w (inst, u)).
    set (w1 := set_lost w (filter (fun x => negb (procid_eqb (inst, u) x)) (w_lost w))).
    assert (HW1 : WI w1) by (eapply WI_frame; try exact HW; reflexivity).
    match goal with |- context [proc_op c inst u ps ?s0] => set (s0' := s0) end.
    assert (H0 : Inv s0' /\ forall idx e d, ps = PLag idx e d -> ev_ok (o_w s0') u e).
    { split; [split; [exact HW1|split; [exact Hop|constructor]]|]. intros idx e d Hps. cbn.
      destruct (get_pstate_lag w inst u idx e d HW Hps) as [A B]. split; assumption. }
    pose proof (proc_op_t inst u ps s0' H0) as Hpost.
    destruct (proc_op c inst u ps s0') as [[ps'|e] s]; cbn [fst snd] in *; destruct Hpost as [(HW' & _ & Htr) Hlag].
    + split; [|apply toks_ok_rev, Htr].
      assert (HWp : WI (put_pstate (o_w s) (inst, u) ps')).
      { apply put_pstate_WI; [exact HW'|]. intros idx e d Hx. subst ps'. apply (Hlag idx e d eq_refl). }
      destruct (o_dead s); [apply crash_inst_WI, HWp|exact HWp].
    + split; [|apply toks_ok_rev, Htr]. destruct (o_dead s); [apply crash_inst_WI, HW'|exact HW'].
  - split; [apply crash_inst_WI, HW|constructor].
  - split; [exact HW|]. repeat constructor.
  - destruct (get_pstate w (inst, u)); cbn [fst snd]; (split; [|constructor]); try exact HW; eapply WI_frame; try exact HW; reflexivity.
  - split; [|constructor]. eapply WI_frame; try exact HW; reflexivity.
  - (* a duplicated delivery *)
    destruct (nth_error (w_log w) idx) as [e|] eqn:E; cbn [fst snd]; (split; [|constructor]); [|exact HW].
    apply nth_error_In in E. destruct HW as [H1 H2 H3 H4 H5 H6 H7 H8 H9 H10 H11 H12]. constructor; cbn; try assumption.
    + intros e' He' Ht. apply in_app_or in He' as [He'|[<-|[]]]; [apply H4; assumption|]. cbn in *. apply (H4 e E Ht).
    + intros p i' e' d' Hin. destruct (H6 p i' e' d' Hin) as [A B]. split; [apply in_or_app; left; exact A|exact B].
    + intros e' He' Hc. apply in_app_or in He' as [He'|[<-|[]]]; [apply H9; assumption|]. cbn in Hc. destruct (H9 e E Hc) as (r & Hr & Er). exists r. split; [exact Hr|exact Er].
    + intros k r Hk. destruct (H10 k r Hk) as [A|(e' & He' & Ee)]; [left; exact A|right]. exists e'. split; [apply in_or_app; now left|exact Ee].
  - (* an event of a connector's source *)
    cbn [fst snd]. split; [|constructor]. destruct HW as [H1 H2 H3 H4 H5 H6 H7 H8 H9 H10 H11 H12]. constructor; cbn; try assumption.
    + intros e' He' Ht. apply in_app_or in He' as [He'|[<-|[]]]; [apply H4; assumption|]. cbn in Ht. discriminate.
    + intros p i' e' d' Hin. destruct (H6 p i' e' d' Hin) as [A B]. split; [apply in_or_app; left; exact A|exact B].
    + intros e' He' Hc. apply in_app_or in He' as [He'|[<-|[]]]; [apply H9; assumption|]. cbn in Hc. discriminate.
    + intros k r Hk. destruct (H10 k r Hk) as [A|(e' & He' & Ee)]; [left; exact A|right]. exists e'. split; [apply in_or_app; now left|exact Ee].
Qed.

Lemma w0_WI : WI w0.
Proof.
  constructor; cbn; try constructor; try (intros; contradiction); try reflexivity.
  destruct k; discriminate.
Qed.

Lemma run_ops_from_ok (ops : list eop) :
  Forall op_ok ops -> forall n w, WI w -> WI (fst (run_ops_from c n w ops)) /\ toks_ok c (snd (run_ops_from c n w ops)).
Proof.
  induction 1 as [|o tl Ho Htl IH]; intros n w HW; cbn [run_ops_from]; [split; [exact HW|constructor]|].
  destruct (run_op_ok w o HW Ho) as [A B]. destruct (run_op c w o) as [w1 t1]. cbn [fst snd] in *.
  destruct (IH (S n) w1 A) as [C D]. destruct (run_ops_from c (S n) w1 tl) as [w2 t2]. cbn [fst snd] in *.
  split; [exact C|]. apply toks_ok_cons; [reflexivity|]. apply Forall_app. split; assumption.
Qed.

(* EVERY token of EVERY history satisfies the token-local clauses *)
Theorem all_tokens_ok (ops : list eop) :
  Forall op_ok ops -> Forall (fun t => tok_ok (ec_graph c) t = true) (snd (run_ops c ops)).
Proof. intros H. apply (run_ops_from_ok ops H 0%nat w0 w0_WI). Qed.

End Tokens.
