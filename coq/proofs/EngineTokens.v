(* EngineTokens.v — every token of every trace of the engine model satisfies the token-local clauses of the properties
   (model/Monitors.v tok_ok): for all configurations, all operation sequences, all fault plans without stale reads,
   all crashes, lease revocations, cursor rewinds and duplicated deliveries. *)
From WF Require Import model.Base model.RunState model.Routing model.Graph model.Counter model.Shard model.EngineBase
  model.Engine model.Monitors proofs.GraphProofs proofs.RunStateProofs proofs.Hoare proofs.EngineInv.

Section Tokens.
Variable c : econfig.
Let g := ec_graph c.

Notation Inv := (Inv c).
Notation WI := (WI c).
Notation store_pre := (store_pre c).

(* facts about local variables depend on the world only through its records, run counter and clock *)
Definition weq (w w' : world) : Prop := w_recs w' = w_recs w /\ w_nrun w' = w_nrun w /\ w_now w' = w_now w.
Definition stable (K : world -> Prop) : Prop := forall w w', weq w w' -> K w -> K w'.

Lemma weq_refl w : weq w w. Proof. repeat split. Qed.

Lemma stable_and (K1 K2 : world -> Prop) : stable K1 -> stable K2 -> stable (fun w => K1 w /\ K2 w).
Proof. intros H1 H2 w w' E [A B]. split; eauto. Qed.
Lemma stable_const (F : Prop) : stable (fun _ => F).
Proof. intros w w' _ H. exact H. Qed.

Lemma toks_ok_cons t tr : tok_ok g t = true -> toks_ok c tr -> toks_ok c (t :: tr).
Proof. intros H1 H2. constructor; assumption. Qed.

(* ---------- a step that changes neither records, run counter, clock, outbox nor log, and emits only harmless tokens ---------- *)
Definition quiet_step (s s' : ost) : Prop :=
  weq (o_w s) (o_w s') /\ w_log (o_w s') = w_log (o_w s) /\ w_outbox (o_w s') = w_outbox (o_w s) /\
  o_plan s' = o_plan s /\
  exists ts, Forall (fun t => tok_ok g t = true) ts /\ o_trace s' = ts ++ o_trace s.

Lemma quiet_Inv (K : world -> Prop) s s' :
  stable K -> quiet_step s s' -> Inv s /\ K (o_w s) -> Inv s' /\ K (o_w s').
Proof.
  intros HK (Hw & Hl & Ho & Hp & (ts & Hts & Ht)) [(HW & Hn & Htr) HKs]. split; [|eapply HK; eauto].
  destruct Hw as (E1 & E2 & E3). split; [|split].
  - eapply WI_frame; eauto.
  - rewrite Hp. exact Hn.
  - rewrite Ht. apply Forall_app. split; assumption.
Qed.

Lemma quiet_refl s : quiet_step s s.
Proof. repeat split; auto. exists []. split; [constructor|reflexivity]. Qed.

Lemma quiet_trans s1 s2 s3 : quiet_step s1 s2 -> quiet_step s2 s3 -> quiet_step s1 s3.
Proof.
  intros ((A1 & A2 & A3) & B & C & D & (ts & Hts & E)) ((A1' & A2' & A3') & B' & C' & D' & (ts' & Hts' & E')).
  repeat split; try congruence.
  exists (ts' ++ ts). split; [apply Forall_app; split; assumption|]. rewrite E', E. now rewrite app_assoc.
Qed.

(* a computation all of whose final states are a quiet step away from where it started *)
Definition quiet {A} (m : M A) : Prop := forall s, quiet_step s (snd (m s)).

Lemma t_quiet {A} (m : M A) (K : world -> Prop) :
  quiet m -> stable K -> triple (fun s => Inv s /\ K (o_w s)) m (fun _ s' => Inv s' /\ K (o_w s')).
Proof. intros Hq HK s Hs. eapply quiet_Inv; eauto. Qed.

Lemma quiet_ret {A} (a : A) : quiet (ret a).
Proof. intros s. apply quiet_refl. Qed.
Lemma quiet_fail {A} e : quiet (@fail A e).
Proof. intros s. apply quiet_refl. Qed.
Lemma quiet_bind {A B} (m : M A) (f : A -> M B) : quiet m -> (forall a, quiet (f a)) -> quiet (bind m f).
Proof.
  intros Hm Hf s. unfold bind. specialize (Hm s). destruct (m s) as [[a|e] s1]; cbn in *; [|exact Hm].
  eapply quiet_trans; [exact Hm|apply Hf].
Qed.
Lemma quiet_catch {A} (m : M A) : quiet m -> quiet (catch m).
Proof. intros Hm s. unfold catch. specialize (Hm s). destruct (m s) as [[a|e] s1]; exact Hm. Qed.

Lemma quiet_emit t : tok_ok g t = true -> quiet (emit t).
Proof.
  intros Hok s. destruct (emit_spec t s) as (_ & E2 & E3 & E4).
  repeat split; try (rewrite E2; reflexivity); try assumption.
  destruct E4 as [E|E]; [exists [t]; split; [repeat constructor; exact Hok|exact E]|exists []; split; [constructor|exact E]].
Qed.

Lemma quiet_dispatch k ctx : quiet (dispatch k ctx).
Proof.
  intros s. destruct (dispatch_spec k ctx s) as (d & _ & E2 & E3 & E4 & _).
  repeat split; try (rewrite E2; reflexivity); try assumption. exists []. split; [constructor|exact E4].
Qed.

Lemma quiet_get_w : quiet get_w.
Proof. intros s. apply quiet_refl. Qed.

Lemma quiet_disp_ret {A} d (a : A) : quiet (disp_ret d a).
Proof. destruct d; cbn; try apply quiet_ret; apply quiet_fail. Qed.

(* state-only world updates outside records / run counter / clock / log / outbox *)
Lemma quiet_state {A} (f : ost -> res A * ost) :
  (forall s, weq (o_w s) (o_w (snd (f s))) /\ w_log (o_w (snd (f s))) = w_log (o_w s) /\
             w_outbox (o_w (snd (f s))) = w_outbox (o_w s) /\ o_plan (snd (f s)) = o_plan s /\ o_trace (snd (f s)) = o_trace s) ->
  quiet (f : M A).
Proof.
  intros H s. destruct (H s) as (A1 & A2 & A3 & A4 & A5). repeat split; try apply A1; try assumption.
  exists []. split; [constructor|exact A5].
Qed.

Lemma quiet_att_bump code run : quiet (att_bump code run).
Proof. apply quiet_state. intros s. unfold att_bump. cbn. repeat split. Qed.
Lemma quiet_ctr_add inst k : quiet (ctr_add inst k).
Proof. apply quiet_state. intros s. unfold ctr_add. destruct (c_add _ _). cbn. repeat split. Qed.
Lemma quiet_ctr_clear inst k : quiet (ctr_clear inst k).
Proof. apply quiet_state. intros s. unfold ctr_clear. cbn. repeat split. Qed.
Lemma quiet_lease_live : quiet lease_live.
Proof. apply quiet_state. intros s. unfold lease_live. cbn. repeat split. Qed.
Lemma quiet_put_w_same (f : world -> world) :
  (forall w, weq w (f w) /\ w_log (f w) = w_log w /\ w_outbox (f w) = w_outbox w) ->
  quiet (w <- get_w ;; put_w (f w)).
Proof. intros H. apply quiet_state. intros s. cbn. destruct (H (o_w s)) as (A & B & C). repeat split; try apply A; assumption. Qed.

(* ---------- the common shape of the adapter-call primitives ---------- *)
Lemma prim_spec {A} k ctx T E (X : disp -> world -> M A) (s : ost) :
  exists d s1,
    (d = DoStale -> plan_at (o_plan s) k (count_get (o_counts s) k) = FStale) /\
    o_w s1 = (if disp_effect d then E (o_w s) else o_w s) /\ o_plan s1 = o_plan s /\
    (o_trace s1 = T d (o_w s) :: o_trace s \/ o_trace s1 = o_trace s) /\
    prim k ctx T E X s = X d (o_w s) s1.
Proof.
  unfold prim, bind at 1. destruct (dispatch_spec k ctx s) as (d & E1 & E2 & E3 & E4 & E5).
  destruct (dispatch k ctx s) as [rd s0]; cbn in E1, E2, E3, E4. subst rd.
  unfold bind at 1, get_w. cbn. rewrite E2.
  unfold bind at 1. destruct (emit_spec (T d (o_w s)) s0) as (F1 & F2 & F3 & F4).
  destruct (emit (T d (o_w s)) s0) as [re s0']; cbn in F1, F2, F3, F4. subst re.
  unfold bind at 1.
  destruct (disp_effect d) eqn:Ed.
  - unfold put_w. cbn.
    exists d, (mkOst (E (o_w s)) (o_plan s0') (o_counts s0') (o_trace s0') (o_lease s0') (o_dead s0')).
    split; [exact E5|]. rewrite Ed. cbn. split; [reflexivity|].
    split; [congruence|]. split; [|reflexivity]. destruct F4 as [F|F]; rewrite F, E4; auto.
  - cbn. exists d, s0'. split; [exact E5|]. rewrite Ed. split; [congruence|]. split; [congruence|].
    split; [|reflexivity]. destruct F4 as [F|F]; rewrite F, E4; auto.
Qed.

Definition inert (E : world -> world) : Prop :=
  forall w, weq w (E w) /\ w_log (E w) = w_log w /\ w_outbox (E w) = w_outbox w.

Lemma quiet_prim {A} k ctx T E (X : disp -> world -> M A) :
  (forall d w, tok_ok g (T d w) = true) -> inert E -> (forall d w, quiet (X d w)) -> quiet (prim k ctx T E X).
Proof.
  intros HT HE HX s. destruct (prim_spec k ctx T E X s) as (d & s1 & _ & W & P & Tr & R). rewrite R.
  eapply quiet_trans; [|apply HX].
  destruct (HE (o_w s)) as (A1 & A2 & A3).
  repeat split; try (rewrite W; destruct (disp_effect d); solve [apply A1 | assumption | reflexivity]); try assumption.
  destruct Tr as [F|F]; [exists [T d (o_w s)]; split; [repeat constructor; apply HT|exact F]|exists []; split; [constructor|exact F]].
Qed.

End Tokens.
