From WF Require Import model.Base model.Counter.

Lemma ckey_eqb_refl : forall k, ckey_eqb k k = true.
Proof. intros [[a b] c]. cbn. now rewrite !N.eqb_refl. Qed.
Lemma ckey_eqb_eq : forall a b, ckey_eqb a b = true <-> a = b.
Proof.
  intros [[a1 a2] a3] [[b1 b2] b3]. cbn. rewrite !andb_true_iff, !N.eqb_eq. split.
  - intros [[-> ->] ->]. reflexivity.
  - intro H. inversion H. auto.
Qed.
Lemma ckey_eqb_sym : forall a b, ckey_eqb a b = ckey_eqb b a.
Proof.
  intros a b. destruct (ckey_eqb a b) eqn:E.
  - apply ckey_eqb_eq in E. subst. symmetry. apply ckey_eqb_refl.
  - destruct (ckey_eqb b a) eqn:E2; [|reflexivity]. apply ckey_eqb_eq in E2. subst. rewrite ckey_eqb_refl in E. discriminate.
Qed.

Lemma c_get_set_same : forall c k n, c_get (c_set c k n) k = n.
Proof.
  induction c as [|[k' m] c IH]; intros k n; cbn.
  - now rewrite ckey_eqb_refl.
  - destruct (ckey_eqb k k') eqn:E; cbn; rewrite E; [reflexivity|apply IH].
Qed.

Lemma c_get_set_other : forall c k k' n, k <> k' -> c_get (c_set c k n) k' = c_get c k'.
Proof.
  induction c as [|[k0 m] c IH]; intros k k' n Hne; cbn.
  - destruct (ckey_eqb k' k) eqn:E; [apply ckey_eqb_eq in E; congruence|reflexivity].
  - destruct (ckey_eqb k k0) eqn:E; cbn.
    + apply ckey_eqb_eq in E. subst. destruct (ckey_eqb k' k0) eqn:E2; [apply ckey_eqb_eq in E2; congruence|reflexivity].
    + destruct (ckey_eqb k' k0); [reflexivity|apply IH; exact Hne].
Qed.

(* Add increments exactly its own key and returns the new count; Clear resets exactly its own key *)
Lemma c_add_spec : forall c k, snd (c_add c k) = S (c_get c k) /\ c_get (fst (c_add c k)) k = S (c_get c k) /\
  forall k', k <> k' -> c_get (fst (c_add c k)) k' = c_get c k'.
Proof.
  intros. unfold c_add. cbn. split; [reflexivity|]. split; [apply c_get_set_same|]. intros; now apply c_get_set_other.
Qed.
Lemma c_clear_spec : forall c k, c_get (c_clear c k) k = O /\ forall k', k <> k' -> c_get (c_clear c k) k' = c_get c k'.
Proof. intros. unfold c_clear. split; [apply c_get_set_same|]. intros; now apply c_get_set_other. Qed.

(* the threshold decision: with n > 0 the pause happens exactly when the returned count reaches n *)
Lemma should_pause_exact : forall n count, 0 < n -> (should_pause n count = true <-> n <= Z.of_nat count).
Proof.
  intros n count Hn. unfold should_pause. rewrite andb_true_iff, !negb_true_iff, Z.eqb_neq, Z.ltb_ge. intuition lia.
Qed.
Lemma should_pause_zero : forall count, should_pause 0 count = false.
Proof. reflexivity. Qed.
