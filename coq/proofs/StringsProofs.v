From Coq Require Import DecimalString DecimalZ DecimalPos Decimal.
From WF Require Import model.Base model.Strings.
Open Scope string_scope.

Lemma to_int_not_posnil : forall z, Z.to_int z <> Pos Nil.
Proof. intros [|p|p]; cbn; try discriminate. intro H. inversion H. now apply (Unsigned.to_uint_nonnil p). Qed.
Lemma to_int_not_negnil : forall z, Z.to_int z <> Neg Nil.
Proof. intros [|p|p]; cbn; try discriminate. intro H. inversion H. now apply (Unsigned.to_uint_nonnil p). Qed.

(* strconv.FormatInt is injective *)
Lemma itoa_inj : forall a b, itoa a = itoa b -> a = b.
Proof.
  intros a b H. unfold itoa in H.
  apply (f_equal NilZero.int_of_string) in H.
  rewrite !NilZero.isi in H by (apply to_int_not_posnil || apply to_int_not_negnil).
  inversion H as [H']. apply (f_equal Z.of_int) in H'. now rewrite !DecimalZ.of_to in H'.
Qed.

Definition numchar (c : ascii) : bool :=
  let n := nat_of_ascii c in (Nat.leb 48 n && Nat.leb n 57) || Nat.eqb n 45.

Fixpoint all_chars (p : ascii -> bool) (s : string) : bool :=
  match s with EmptyString => true | String c t => p c && all_chars p t end.

Lemma uint_chars : forall d, all_chars numchar (NilEmpty.string_of_uint d) = true.
Proof. induction d; cbn [NilEmpty.string_of_uint all_chars]; rewrite ?IHd; reflexivity. Qed.

Lemma itoa_chars : forall z, all_chars numchar (itoa z) = true.
Proof.
  intro z. unfold itoa. destruct (Z.to_int z) as [d|d]; cbn [NilZero.string_of_int].
  - destruct d; try reflexivity; apply uint_chars.
  - cbn [all_chars]. destruct d; try reflexivity; apply uint_chars.
Qed.

Lemma itoa_nonempty : forall z, itoa z <> "".
Proof.
  intro z. unfold itoa. destruct (Z.to_int z) as [d|d] eqn:E; cbn [NilZero.string_of_int]; [|discriminate].
  destruct d; cbn; try discriminate.
Qed.

Lemma append_inv_head : forall s a b, s ++ a = s ++ b -> a = b.
Proof. induction s as [|c s IH]; intros a b H; [exact H|]. cbn in H. inversion H. now apply IH. Qed.

Lemma itoa_first_numchar : forall z c t, itoa z = String c t -> numchar c = true.
Proof. intros z c t H. pose proof (itoa_chars z) as Hc. rewrite H in Hc. cbn in Hc. now apply andb_true_iff in Hc. Qed.

(* topic.go: for one workflow name (ANY bytes), the topic string determines the topic *)
Lemma topic_str_inj : forall name a b, topic_str name a = topic_str name b -> a = b.
Proof.
  intros name a b H. unfold topic_str in H.
  apply append_inv_head in H. apply (append_inv_head "-") in H.
  destruct a as [x| | |ca]; destruct b as [y| | |cb]; cbn [topic_suffix] in H; try reflexivity; try discriminate;
    try (apply itoa_first_numchar in H; discriminate); try (symmetry in H; apply itoa_first_numchar in H; discriminate).
  - f_equal. now apply itoa_inj.
  - apply (append_inv_head "connector-source-") in H. apply itoa_inj in H. f_equal. lia.
Qed.

Lemma topics_disjoint : forall name s s',
  (s <> s' -> topic_str name (TStatus s) <> topic_str name (TStatus s')) /\
  topic_str name (TStatus s) <> topic_str name TDelete /\
  topic_str name (TStatus s) <> topic_str name TRunStateChange /\
  topic_str name TDelete <> topic_str name TRunStateChange.
Proof.
  intros. repeat split; intro H; try (intro H2; apply topic_str_inj in H2; inversion H2; congruence);
    apply topic_str_inj in H; discriminate.
Qed.
