(* HandlerFacts.v — what single handlers do, for every state (hence every world, fault plan, lease and crash flag). *)
From WF Require Import model.Base model.RunState model.Routing model.Graph model.Counter model.Shard model.EngineBase
  model.Engine model.Monitors proofs.Hoare proofs.EngineInv proofs.EngineTokens proofs.Frame.

Section HF.
Variable c : econfig.

(* ---------- C04: the version gate of the step consumer / timeout inserter ---------- *)
(* whatever the store answers (fresh or, under a stale-read fault, an earlier version): *)
Lemma step_gate inst u st fn n e s :
  step_handler c inst u st fn n e s =
  match p_lookup (e_run e) s with
  | (Ok None, s1) => (Ok tt, s1)                                   (* record not found: skipped *)
  | (Ok (Some r), s1) =>
    if r_ver r >? e_ver e then (Ok tt, s1)                          (* the event is older than the record: skipped, to be acknowledged *)
    else if r_ver r <? e_ver e then (Err EGen, s1)                  (* the event is newer than what the store returns: error, retried *)
    else if rs_stopped (r_state r) then (Ok tt, s1)
    else (view <- build_run r ;;
          out <- fn view ;;
          let '(obj', oc, ctl) := out in
          match oc with
          | inr oe => paused <- maybe_pause c inst n oe u ctl ;; if (paused : bool) then ret tt else fail EGen
          | inl z => if skip_status z then ret tt else updater c st z (set_obj view obj')
          end) s1
  | (Err x, s1) => (Err x, s1)
  end.
Proof.
  unfold step_handler, bind at 1. destruct (p_lookup (e_run e) s) as [[[r|]|x] s1]; try reflexivity.
  destruct (r_ver r >? e_ver e); [reflexivity|]. destruct (r_ver r <? e_ver e); [reflexivity|].
  destruct (rs_stopped (r_state r)); reflexivity.
Qed.

(* an older announcement: no function is invoked, nothing is written; the handler returns nil so that the event is acknowledged *)
Lemma stale_event_skipped inst u st fn n e s r s1 :
  p_lookup (e_run e) s = (Ok (Some r), s1) -> e_ver e < r_ver r ->
  step_handler c inst u st fn n e s = (Ok tt, s1).
Proof.
  intros H Hv. rewrite step_gate, H.
  assert (E : (r_ver r >? e_ver e) = true) by (rewrite Z.gtb_ltb; apply Z.ltb_lt; lia). now rewrite E.
Qed.

(* a newer announcement than what the store returns (lagging replica): neither dropped nor processed *)
Lemma future_event_retried inst u st fn n e s r s1 :
  p_lookup (e_run e) s = (Ok (Some r), s1) -> r_ver r < e_ver e ->
  step_handler c inst u st fn n e s = (Err EGen, s1).
Proof.
  intros H Hv. rewrite step_gate, H.
  assert (E1 : (r_ver r >? e_ver e) = false) by (rewrite Z.gtb_ltb; apply Z.ltb_ge; lia).
  assert (E2 : (r_ver r <? e_ver e) = true) by (apply Z.ltb_lt; lia). now rewrite E1, E2.
Qed.

(* the lookup itself neither writes nor invokes anything *)
Lemma lookup_is_quiet run s : quiet_step c s (snd (p_lookup run s)).
Proof. apply quiet_p_lookup. Qed.

(* ---------- C07: acknowledgement only after the handler returned nil ---------- *)
Lemma after_lag_filtered inst u idx e s :
  unit_filter u e = true -> after_lag c inst u idx e s = (p_ack u idx e ;;; ret PRun) s.
Proof. intros H. unfold after_lag. rewrite H. reflexivity. Qed.

Lemma after_lag_handler_failed inst u idx e s x s1 :
  unit_filter u e = false -> unit_handler c inst u e s = (Err x, s1) -> after_lag c inst u idx e s = (Err x, s1).
Proof. intros Hf H. unfold after_lag. rewrite Hf. unfold bind. rewrite H. reflexivity. Qed.

Lemma after_lag_handler_ok inst u idx e s s1 :
  unit_filter u e = false -> unit_handler c inst u e s = (Ok tt, s1) -> after_lag c inst u idx e s = (p_ack u idx e ;;; ret PRun) s1.
Proof. intros Hf H. unfold after_lag. rewrite Hf. unfold bind at 1 2. rewrite H. reflexivity. Qed.

(* a failed operation of a process takes the error exit: receiver closed (when one is open), back-off unless cancelled *)
Lemma guarded_on_error inst u close (m : M pstate) s x s1 :
  m s = (Err x, s1) -> guarded c inst u close m s = exit_err c inst u close x s1.
Proof. intros H. unfold guarded. rewrite H. reflexivity. Qed.

Lemma guarded_on_ok inst u close (m : M pstate) s ps s1 :
  m s = (Ok ps, s1) -> guarded c inst u close m s = (Ok ps, s1).
Proof. intros H. unfold guarded. rewrite H. reflexivity. Qed.

(* the acknowledgement is the only thing that moves a consumer's committed position *)
Lemma ack_moves_cursor u idx e s :
  let s' := snd (p_ack u idx e s) in
  w_cur (o_w s') = w_cur (o_w s) \/ get_cursor (o_w s') u = S idx.
Proof.
  cbn zeta. unfold p_ack.
  match goal with |- context [prim ?k ?ctx ?T ?E ?X s] => destruct (prim_spec k ctx T E X s) as (d & s1 & _ & W & _ & _ & R) end.
  rewrite R. destruct (disp_ret_run d tt s1) as (rr & Er & _). rewrite Er. cbn. rewrite W.
  destruct (disp_effect d); [right|left; reflexivity]. unfold get_cursor, put_cursor. cbn.
  assert (E : eunit_eqb u u = true) by (destruct u; cbn; rewrite ?Z.eqb_refl, ?N.eqb_refl; try reflexivity; destruct st; reflexivity).
  now rewrite E.
Qed.

(* ---------- C11: without its lease (or after a crash of its instance) a process's adapter calls have no effect ---------- *)
Lemma dispatch_cancelled k ctx s :
  o_dead s = true \/ (ctx = true /\ o_lease s = false) -> fst (dispatch k ctx s) = Ok DoCancel.
Proof.
  intros H. unfold dispatch, next_fault. cbn. destruct (o_dead s); [reflexivity|].
  destruct H as [H|[-> H]]; [discriminate|]. rewrite H. reflexivity.
Qed.

Lemma call_without_lease_has_no_effect {A} k T E (X : disp -> world -> M A) s :
  o_dead s = true \/ o_lease s = false ->
  exists s1, prim k true T E X s = X DoCancel (o_w s) s1 /\ o_w s1 = o_w s.
Proof.
  intros H. unfold prim, bind at 1.
  pose proof (dispatch_cancelled k true s ltac:(destruct H; [left|right]; auto)) as Hc.
  destruct (dispatch_spec k true s) as (d & E1 & E2 & _). rewrite E1 in Hc. inversion Hc; subst d. clear Hc.
  destruct (dispatch k true s) as [rd s0]; cbn in E1, E2. subst rd.
  unfold bind at 1, get_w. cbn. rewrite E2. unfold bind at 1.
  destruct (emit_spec (T DoCancel (o_w s)) s0) as (F1 & F2 & _).
  destruct (emit (T DoCancel (o_w s)) s0) as [re s0']; cbn in F1, F2. subst re.
  unfold bind at 1. cbn. exists s0'. split; [reflexivity|congruence].
Qed.

(* ---------- C13: error-count pausing ---------- *)
Lemma no_count_never_pauses inst e u ctl s : maybe_pause c inst 0 e u ctl s = (Ok false, s).
Proof. reflexivity. Qed.

Definition pause_key (e : err) (u : eunit) (ctl : record) : ckey := (Z.to_N e, eunit_code u, r_run ctl).

(* below the configured count nothing is paused: no write, no token; the error is passed on *)
Lemma below_count_no_pause inst n e u ctl s :
  n <> 0 -> Z.of_nat (snd (c_add (ctr_of (w_ctrs (o_w s)) inst) (pause_key e u ctl))) < n ->
  exists s1, maybe_pause c inst n e u ctl s = (Ok false, s1) /\
             w_recs (o_w s1) = w_recs (o_w s) /\ w_hist (o_w s1) = w_hist (o_w s) /\ o_trace s1 = o_trace s.
Proof.
  intros Hn Hc. unfold maybe_pause. apply Z.eqb_neq in Hn. rewrite Hn. fold (pause_key e u ctl).
  unfold bind at 1, ctr_add. cbv beta.
  destruct (c_add (ctr_of (w_ctrs (o_w s)) inst) (pause_key e u ctl)) as [c' cnt] eqn:E. cbn [snd] in Hc. cbv beta iota.
  apply Z.ltb_lt in Hc. rewrite Hc. eexists. split; [reflexivity|]. repeat split.
Qed.

(* at the configured count (the n-th occurrence of this error in this process on this run since the last pause) the run is
   paused through the controller; on success the count starts afresh and the handler returns nil *)
Lemma at_count_pauses inst n e u ctl s :
  n <> 0 -> n <= Z.of_nat (snd (c_add (ctr_of (w_ctrs (o_w s)) inst) (pause_key e u ctl))) ->
  exists s1, w_recs (o_w s1) = w_recs (o_w s) /\ o_trace s1 = o_trace s /\
    maybe_pause c inst n e u ctl s =
    (x <- ctl_do c ctl RSPaused 2%N ;;
     match fst x with
     | Err _ => fail EGen
     | Ok _ => ctr_clear inst (pause_key e u ctl) ;;; ret true
     end) s1.
Proof.
  intros Hn Hc. unfold maybe_pause. apply Z.eqb_neq in Hn. rewrite Hn. fold (pause_key e u ctl).
  unfold bind at 1, ctr_add. cbv beta.
  destruct (c_add (ctr_of (w_ctrs (o_w s)) inst) (pause_key e u ctl)) as [c' cnt] eqn:E. cbn [snd] in Hc. cbv beta iota.
  apply Z.ltb_ge in Hc. rewrite Hc. eexists. split; [|split; [|reflexivity]]; reflexivity.
Qed.

(* ---------- C07: the consume lag ---------- *)
(* an event younger than the lag is received and parked: the consumer waits on the workflow clock until the event is [lag] old;
   neither filter nor handler nor Ack occurs in the operation *)
Lemma young_event_is_parked inst u idx e s :
  next_event (unit_topic u) (w_log (o_w s)) 0 (get_cursor (o_w s) u) = Some (idx, e) ->
  unit_lag c u > 0 -> e_created e + unit_lag c u > w_now (o_w s) ->
  consume_iter c inst u s =
  (d <- dispatch KRV true ;;
   match d with
   | DoOk | DoStale =>
     emit (TRecv e) ;;; emit (TCall KTW [e_created e + unit_lag c u] RBlocked []) ;;; ret (PLag idx e (e_created e + unit_lag c u))
   | _ => emit (TCall KRV [] (disp_res d) []) ;;; disp_ret d PRun
   end) s.
Proof.
  intros En Hl Hy. unfold consume_iter. unfold bind at 1, get_w. cbn [fst snd]. unfold bind at 1, lease_live. cbn [fst snd].
  rewrite En. assert (E1 : (unit_lag c u >? 0) = true) by (apply Z.gtb_lt; lia).
  assert (E2 : (e_created e + unit_lag c u >? w_now (o_w s)) = true) by (apply Z.gtb_lt; lia). cbv zeta. rewrite E1, E2. cbn [andb]. reflexivity.
Qed.

(* while the deadline has not been reached the parked consumer keeps waiting: no handler, no Ack *)
Lemma lag_not_elapsed_keeps_waiting inst u idx e deadline s :
  o_lease s = true -> o_dead s = false -> deadline > w_now (o_w s) ->
  proc_op c inst u (PLag idx e deadline) s = (emit (TCall KTW [deadline] RBlocked []) ;;; ret (PLag idx e deadline)) s.
Proof.
  intros Hl Hd Hy. unfold proc_op. unfold bind at 1, get_w. cbn [fst snd]. unfold bind at 1, lease_live. cbn [fst snd].
  rewrite Hl, Hd. cbn [andb negb]. assert (E : (deadline >? w_now (o_w s)) = true) by (apply Z.gtb_lt; lia). rewrite E. reflexivity.
Qed.

(* the handler starts only once the deadline has passed (or the role was lost: then it does not start at all) *)
Lemma lag_elapsed_then_handled inst u idx e deadline s :
  o_lease s = true -> o_dead s = false -> deadline <= w_now (o_w s) ->
  proc_op c inst u (PLag idx e deadline) s =
  (emit (TCall KTW [deadline] ROk []) ;;; guarded c inst u true (after_lag c inst u idx e)) s.
Proof.
  intros Hl Hd Hy. unfold proc_op. unfold bind at 1, get_w. cbn [fst snd]. unfold bind at 1, lease_live. cbn [fst snd].
  rewrite Hl, Hd. cbn [andb negb]. assert (E : (deadline >? w_now (o_w s)) = false) by (rewrite Z.gtb_ltb; apply Z.ltb_ge; lia).
  rewrite E. reflexivity.
Qed.

Lemma lag_wait_cancelled_not_handled inst u idx e deadline s :
  o_lease s = false \/ o_dead s = true ->
  proc_op c inst u (PLag idx e deadline) s =
  (emit (TCall KTW [deadline] RCancel []) ;;; guarded c inst u true (fail ECancel)) s.
Proof.
  intros H. unfold proc_op. unfold bind at 1, get_w. cbn [fst snd]. unfold bind at 1, lease_live. cbn [fst snd].
  assert (E : (o_lease s && negb (o_dead s)) = false) by (destruct H as [-> | ->]; [reflexivity|apply Bool.andb_false_r]).
  rewrite E. reflexivity.
Qed.

(* ---------- C09: Trigger ---------- *)
Definition trigger_start (start : Z) : option Z := if start =? 0 then default_start (ec_graph c) else Some start.
Definition new_run_record (fid : N) (st0 seed : Z) (w : world) : record :=
  bump (mkRecord 0%N fid (w_nrun w) RSInitiated st0 (OVal seed []) (w_now w) (w_now w) 0 0%N st0).

(* no declared starting status / an undeclared one: an error before any adapter call *)
Lemma trigger_rejects_bad_start fid start seed s :
  (trigger_start start = None \/ exists st0, trigger_start start = Some st0 /\ is_valid (ec_graph c) st0 = false) ->
  exists e, api_trigger c fid start seed s = (Err e, s).
Proof.
  unfold api_trigger, trigger_start. intros [H|(st0 & H & Hv)]; rewrite H; [eexists; reflexivity|]. rewrite Hv. cbn. eexists. reflexivity.
Qed.

(* the latest run of the foreign ID exists and is unfinished: ErrWorkflowInProgress, nothing after the lookup *)
Lemma trigger_refused_while_unfinished fid start seed st0 s l s1 :
  trigger_start start = Some st0 -> is_valid (ec_graph c) st0 = true ->
  p_latest fid s = (Ok (Some l), s1) -> rs_valid (r_state l) = true -> rs_finished (r_state l) = false ->
  api_trigger c fid start seed s = (Err 3, s1).
Proof.
  intros Hs Hv Hl Hva Hf. unfold api_trigger. fold (trigger_start start). rewrite Hs, Hv. cbn [negb].
  unfold bind at 1. rewrite Hl. rewrite Hva, Hf. reflexivity.
Qed.

(* otherwise: exactly one Store, of a fresh Initiated run at version 1 with the requested status and initial value *)
Lemma trigger_creates_exactly_one fid start seed st0 s lastr s1 :
  trigger_start start = Some st0 -> is_valid (ec_graph c) st0 = true ->
  p_latest fid s = (Ok lastr, s1) ->
  (match lastr with Some l => rs_valid (r_state l) && negb (rs_finished (r_state l)) | None => false end) = false ->
  api_trigger c fid start seed s =
  p_store c (new_run_record fid st0 seed (o_w s1))
          (mkOst (set_nrun (o_w s1) (w_nrun (o_w s1) + 1)%N) (o_plan s1) (o_counts s1) (o_trace s1) (o_lease s1) (o_dead s1)).
Proof.
  intros Hs Hv Hl Hc. unfold api_trigger. fold (trigger_start start). rewrite Hs, Hv. cbn [negb].
  unfold bind at 1. rewrite Hl, Hc. unfold bind at 1, get_w. cbn [fst snd]. unfold bind at 1, put_w. cbn [fst snd]. reflexivity.
Qed.

Lemma new_run_record_shape fid st0 seed w :
  let r := new_run_record fid st0 seed w in
  r_ver r = 1 /\ r_state r = RSInitiated /\ r_status r = st0 /\ r_fid r = fid /\ r_run r = w_nrun w /\ r_obj r = OVal seed [] /\ r_created r = w_now w.
Proof. cbn. repeat split. Qed.

(* a failed lookup of the latest run: the error is returned, nothing is written *)
Lemma trigger_lookup_failed fid start seed st0 s e s1 :
  trigger_start start = Some st0 -> is_valid (ec_graph c) st0 = true ->
  p_latest fid s = (Err e, s1) -> api_trigger c fid start seed s = (Err e, s1).
Proof.
  intros Hs Hv Hl. unfold api_trigger. fold (trigger_start start). rewrite Hs, Hv. cbn [negb]. unfold bind at 1. rewrite Hl. reflexivity.
Qed.

(* ---------- C13: pause.go autoRetryConsumer ---------- *)
(* a run that is not (any longer) Paused — resumed, cancelled, ... — is left alone: nothing after the lookup *)
Lemma retry_leaves_unpaused_alone e s r s1 :
  p_lookup (e_run e) s = (Ok (Some r), s1) -> r_state r <> RSPaused -> retry_handler c e s = (Ok tt, s1).
Proof.
  intros Hl Hs. unfold retry_handler. unfold bind at 1. rewrite Hl.
  assert (E : rs_eqb (r_state r) RSPaused = false) by (destruct (r_state r); try reflexivity; contradiction).
  rewrite E. reflexivity.
Qed.

(* still Paused, but the resume interval has not elapsed since the record was last updated: nothing after the lookup *)
Lemma retry_waits_for_the_interval e s r s1 :
  p_lookup (e_run e) s = (Ok (Some r), s1) -> r_state r = RSPaused -> r_updated r > w_now (o_w s1) - ec_retry c ->
  retry_handler c e s = (Ok tt, s1).
Proof.
  intros Hl Hs Hu. unfold retry_handler. unfold bind at 1. rewrite Hl.
  assert (Ep : rs_eqb (r_state r) RSPaused = true) by (rewrite Hs; reflexivity). rewrite Ep. cbn [negb].
  unfold bind at 1, get_w. cbn [fst snd].
  assert (E : (r_updated r >? w_now (o_w s1) - ec_retry c) = true) by (apply Z.gtb_lt; lia). rewrite E. reflexivity.
Qed.

(* still Paused and the interval has elapsed: resumed through the controller (Paused -> Running, nothing else) *)
Lemma retry_resumes_after_the_interval e s r s1 :
  p_lookup (e_run e) s = (Ok (Some r), s1) -> r_state r = RSPaused -> r_updated r <= w_now (o_w s1) - ec_retry c ->
  retry_handler c e s = (x <- ctl_do c r RSRunning 0 ;; match fst x with Ok _ => ret tt | Err er => fail er end) s1.
Proof.
  intros Hl Hs Hu. unfold retry_handler. unfold bind at 1. rewrite Hl.
  assert (Ep : rs_eqb (r_state r) RSPaused = true) by (rewrite Hs; reflexivity). rewrite Ep. cbn [negb].
  unfold bind at 1, get_w. cbn [fst snd].
  assert (E : (r_updated r >? w_now (o_w s1) - ec_retry c) = false) by (rewrite Z.gtb_ltb; apply Z.ltb_ge; lia). rewrite E. reflexivity.
Qed.

(* ---------- C02: an undeclared destination ---------- *)
(* update.go newUpdater, for EVERY state: with an UNDECLARED destination the updater never writes; it returns an error when
   the run still has the status the function was invoked at (and nil only when the run has moved on meanwhile) *)
Lemma p_lookup_world run s : o_w (snd (p_lookup run s)) = o_w s.
Proof.
  unfold p_lookup. match goal with |- context [prim ?k ?ctx ?T ?E ?X s] => destruct (prim_spec2 k ctx T E X s) as (d & s1 & W & _ & _ & _ & _ & R) end.
  rewrite R. destruct d; cbn; rewrite W; cbn; reflexivity.
Qed.

(* update.go newUpdater, for EVERY state (stale reads included): when the updater's own re-read finds the run at ANOTHER status
   than the one the function was invoked at — higher or lower, declared destination or not — it writes nothing and returns nil:
   its final state is the state right after that lookup *)
Theorem updater_moved_on cur next run s l s1 :
  p_lookup (r_run run) s = (Ok (Some l), s1) -> r_status l <> cur ->
  updater c cur next run s = (Ok tt, s1).
Proof.
  intros Hl Hs. unfold updater. unfold bind at 1, get_w. cbn [fst snd]. unfold bind at 1. rewrite Hl.
  assert (E : (r_status l =? cur) = false) by (apply Z.eqb_neq; exact Hs). rewrite E. reflexivity.
Qed.

Theorem updater_undeclared cur next run s :
  validate_transition (ec_graph c) cur next = false ->
  o_w (snd (updater c cur next run s)) = o_w s /\
  (forall l s1, p_lookup (r_run run) s = (Ok (Some l), s1) -> r_status l = cur -> fst (updater c cur next run s) = Err EGen).
Proof.
  intros Hv.
  assert (Hu : updater c cur next run s =
               match p_lookup (r_run run) s with
               | (Ok (Some l), s1) => if negb (r_status l =? cur) then (Ok tt, s1) else (Err EGen, s1)
               | (Ok None, s1) => (Err EGen, s1)
               | (Err e, s1) => (Err e, s1)
               end).
  { unfold updater. unfold bind at 1, get_w. cbn [fst snd]. unfold bind at 1.
    destruct (p_lookup (r_run run) s) as [[[l|]|e] s1]; try reflexivity.
    destruct (negb (r_status l =? cur)); [reflexivity|]. rewrite Hv. reflexivity. }
  rewrite Hu. pose proof (p_lookup_world (r_run run) s) as W.
  destruct (p_lookup (r_run run) s) as [[[l|]|e] s1] eqn:E; cbn [fst snd] in *.
  - destruct (r_status l =? cur) eqn:Es; cbn [negb fst snd].
    + split; [exact W|]. intros l' s1' H _. reflexivity.
    + split; [exact W|]. intros l' s1' H Hs. inversion H; subst. apply Z.eqb_neq in Es. congruence.
  - split; [exact W|]. intros l' s1' H. discriminate.
  - split; [exact W|]. intros l' s1' H. discriminate.
Qed.

End HF.
