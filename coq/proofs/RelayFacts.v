(* RelayFacts.v — outbox.go purgeOutbox, for EVERY state (world, fault plan, lease, crash flag): an outbox entry is deleted
   only directly after the streamer accepted its event and the sender was closed without error. *)
From WF Require Import model.Base model.RunState model.Routing model.Graph model.Counter model.Shard model.EngineBase model.Engine
  proofs.Hoare proofs.Frame.

(* on the (reversed) trace: every DeleteOutboxEvent token sits directly on top of "sender closed: ok", "event sent: ok" of the
   very same entry *)
Inductive relay_ok : list tok -> Prop :=
| ro_nil : relay_ok []
| ro_other t tr : (forall id a, t <> TDelOut id a) -> relay_ok tr -> relay_ok (t :: tr)
| ro_del o a tr : relay_ok (TCall KSC [] ROk [] :: TSend o ROk :: tr) ->
                  relay_ok (TDelOut (o_id o) a :: TCall KSC [] ROk [] :: TSend o ROk :: tr).

Definition ret_of (d : disp) : res unit :=
  match d with DoOk | DoStale => Ok tt | DoErrAfter | DoErr => Err EGen | DoCancel => Err ECancel end.

Lemma prim_ret_spec k ctx T E (s : ost) :
  exists d s1, prim k ctx T E (fun d _ => disp_ret d tt) s = (ret_of d, s1) /\
               o_trace s1 = (if o_dead s1 then o_trace s else T d (o_w s) :: o_trace s) /\
               (disp_effect d = true -> o_dead s1 = false).
Proof.
  destruct (prim_spec2 k ctx T E (fun d _ => disp_ret d tt) s) as (d & s1 & _ & Tr & _ & D2 & _ & R).
  exists d, s1. rewrite R. split; [destruct d; reflexivity|auto].
Qed.

Lemma relay_entries_ok (l : list oentry) : forall s, relay_ok (o_trace s) -> relay_ok (o_trace (snd (relay_entries l s))).
Proof.
  induction l as [|o tl IH]; intros s Hs; cbn [relay_entries]; [exact Hs|].
  unfold bind at 1. unfold p_call at 1.
  destruct (prim_ret_spec KNS true (fun d w => TCall KNS [] (disp_res d) (if disp_effect d then [] else [])) (fun w => w) s) as (d1 & s1 & R1 & T1 & _).
  rewrite R1.
  assert (H1 : relay_ok (o_trace s1)).
  { rewrite T1. destruct (o_dead s1); [exact Hs|]. apply ro_other; [intros; discriminate|exact Hs]. }
  destruct (ret_of d1) as [[]|e1]; cbn [snd]; [|exact H1].
  unfold bind at 1, catch at 1. unfold p_send.
  destruct (prim_ret_spec KSD true (fun d _ => TSend o (disp_res d)) (fun w => do_send w o) s1) as (d2 & s2 & R2 & T2 & D2).
  rewrite R2.
  assert (H2 : relay_ok (o_trace s2)).
  { rewrite T2. destruct (o_dead s2); [exact H1|]. apply ro_other; [intros; discriminate|exact H1]. }
  assert (Hsend : forall u, ret_of d2 = Ok u -> o_trace s2 = TSend o ROk :: o_trace s1).
  { intros u Hu. rewrite T2. destruct d2; cbn in Hu; try discriminate; rewrite (D2 eq_refl); reflexivity. }
  assert (Hcont : forall r2 : res unit, (forall u, r2 = Ok u -> o_trace s2 = TSend o ROk :: o_trace s1) ->
     relay_ok (o_trace (snd ((x <- catch (p_call KSC false [] (fun w => w) (fun _ => [])) ;;
                               match r2 with
                               | Err e => fail e
                               | Ok _ => match x with Err e => fail e | Ok _ => p_del_outbox (o_id o) ;;; relay_entries tl end
                               end) s2)))).
  { intros r2 Hr2. unfold bind at 1, catch at 1, p_call at 1.
    destruct (prim_ret_spec KSC false (fun d w => TCall KSC [] (disp_res d) (if disp_effect d then [] else [])) (fun w => w) s2) as (d3 & s3 & R3 & T3 & D3).
    rewrite R3.
    assert (H3 : relay_ok (o_trace s3)).
    { rewrite T3. destruct (o_dead s3); [exact H2|]. apply ro_other; [intros; discriminate|exact H2]. }
    destruct r2 as [u2|e2]; [|destruct (ret_of d3); exact H3].
    destruct (ret_of d3) as [[]|e3] eqn:E3; cbn [snd]; [|exact H3].
    assert (Hclose : o_trace s3 = TCall KSC [] ROk [] :: o_trace s2).
    { rewrite T3. destruct d3; cbn in E3; try discriminate; rewrite (D3 eq_refl); reflexivity. }
    unfold bind at 1. unfold p_del_outbox.
    destruct (prim_ret_spec KDO true (fun d _ => TDelOut (o_id o) (disp_res d))
                            (fun w => set_outbox w (filter (fun o0 => negb (N.eqb (o_id o0) (o_id o))) (w_outbox w))) s3) as (d4 & s4 & R4 & T4 & _).
    rewrite R4.
    assert (H4 : relay_ok (o_trace s4)).
    { rewrite T4. destruct (o_dead s4); [exact H3|]. rewrite Hclose, (Hr2 u2 eq_refl). apply ro_del.
      rewrite <- (Hr2 u2 eq_refl), <- Hclose. exact H3. }
    destruct (ret_of d4) as [[]|e4]; cbn [snd]; [apply IH, H4|exact H4]. }
  destruct (ret_of d2) as [u2|e2] eqn:E2.
  - apply (Hcont (Ok u2)). intros u Hu. apply (Hsend u2 eq_refl).
  - apply (Hcont (Err e2)). intros u Hu. discriminate.
Qed.
