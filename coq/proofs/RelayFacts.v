(* RelayFacts.v — outbox.go purgeOutbox, for EVERY state (world, fault plan, lease, crash flag): an outbox entry is deleted
   only directly after the streamer accepted its event and the sender was closed without error. *)
From WF Require Import model.Base model.RunState model.Routing model.Graph model.Counter model.Shard model.EngineBase model.Engine
  proofs.Hoare proofs.Frame.

(* on the (reversed) trace: every DeleteOutboxEvent token sits directly on top of "sender closed: ok", "event sent: ok" of the
   very same entry *)
Inductive relay_ok : list tok -> Prop :=
| ro_nil : relay_ok []
| ro_other t tr : (forall id a, t <> TDelOut id a) -> relay_ok tr -> relay_ok (t :: tr)
| ro_del o a tr : relay_ok (TCall KSC [] ROk [] :: TSend o ROk :: tr) ->
                  relay_ok (TDelOut (o_id o) a :: TCall KSC [] ROk [] :: TSend o ROk :: tr).

Definition ret_of (d : disp) : res unit :=
  match d with DoOk | DoStale => Ok tt | DoErrAfter | DoErr => Err EGen | DoCancel => Err ECancel end.

Lemma prim_ret_spec k ctx T E (s : ost) :
  exists d s1, prim k ctx T E (fun d _ => disp_ret d tt) s = (ret_of d, s1) /\
               o_trace s1 = (if o_dead s1 then o_trace s else T d (o_w s) :: o_trace s) /\
               (disp_effect d = true -> o_dead s1 = false).
Proof.
  destruct (prim_spec2 k ctx T E (fun d _ => disp_ret d tt) s) as (d & s1 & _ & Tr & _ & D2 & _ & R).
  exists d, s1. rewrite R. split; [destruct d; reflexivity|auto].
Qed.

Lemma relay_entries_ok (l : list oentry) : forall s, relay_ok (o_trace s) -> relay_ok (o_trace (snd (relay_entries l s))).
Proof.
  induction l as [|o tl IH]; intros s Hs; cbn [relay_entries]; [exact Hs|].
  unfold bind at 1. unfold p_call at 1.
  destruct (prim_ret_spec KNS true (fun d w => TCall KNS [] (disp_res d) (if disp_effect d then [] else [])) (fun w => w) s) as (d1 & s1 & R1 & T1 & _).
  rewrite R1.
  assert (H1 : relay_ok (o_trace s1)).
  { rewrite T1. destruct (o_dead s1); [exact Hs|]. apply ro_other; [intros; discriminate|exact Hs]. }
  destruct (ret_of d1) as [[]|e1]; cbn [snd]; [|exact H1].
  unfold bind at 1, catch at 1. unfold p_send.
  destruct (prim_ret_spec KSD true (fun d _ => TSend o (disp_res d)) (fun w => do_send w o) s1) as (d2 & s2 & R2 & T2 & D2).
  rewrite R2.
  assert (H2 : relay_ok (o_trace s2)).
  { rewrite T2. destruct (o_dead s2); [exact H1|]. apply ro_other; [intros; discriminate|exact H1]. }
  assert (Hsend : forall u, ret_of d2 = Ok u -> o_trace s2 = TSend o ROk :: o_trace s1).
  { intros u Hu. rewrite T2. destruct d2; cbn in Hu; try discriminate; rewrite (D2 eq_refl); reflexivity. }
  assert (Hcont : forall r2 : res unit, (forall u, r2 = Ok u -> o_trace s2 = TSend o ROk :: o_trace s1) ->
     relay_ok (o_trace (snd ((x <- catch (p_call KSC false [] (fun w => w) (fun _ => [])) ;;
                               match r2 with
                               | Err e => fail e
                               | Ok _ => match x with Err e => fail e | Ok _ => p_del_outbox (o_id o) ;;; relay_entries tl end
                               end) s2)))).
  { intros r2 Hr2. unfold bind at 1, catch at 1, p_call at 1.
    destruct (prim_ret_spec KSC false (fun d w => TCall KSC [] (disp_res d) (if disp_effect d then [] else [])) (fun w => w) s2) as (d3 & s3 & R3 & T3 & D3).
    rewrite R3.
    assert (H3 : relay_ok (o_trace s3)).
    { rewrite T3. destruct (o_dead s3); [exact H2|]. apply ro_other; [intros; discriminate|exact H2]. }
    destruct r2 as [u2|e2]; [|destruct (ret_of d3); exact H3].
    destruct (ret_of d3) as [[]|e3] eqn:E3; cbn [snd]; [|exact H3].
    assert (Hclose : o_trace s3 = TCall KSC [] ROk [] :: o_trace s2).
    { rewrite T3. destruct d3; cbn in E3; try discriminate; rewrite (D3 eq_refl); reflexivity. }
    unfold bind at 1. unfold p_del_outbox.
    destruct (prim_ret_spec KDO true (fun d _ => TDelOut (o_id o) (disp_res d))
                            (fun w => set_outbox w (filter (fun o0 => negb (N.eqb (o_id o0) (o_id o))) (w_outbox w))) s3) as (d4 & s4 & R4 & T4 & _).
    rewrite R4.
    assert (H4 : relay_ok (o_trace s4)).
    { rewrite T4. destruct (o_dead s4); [exact H3|]. rewrite Hclose, (Hr2 u2 eq_refl). apply ro_del.
      rewrite <- (Hr2 u2 eq_refl), <- Hclose. exact H3. }
    destruct (ret_of d4) as [[]|e4]; cbn [snd]; [apply IH, H4|exact H4]. }
  destruct (ret_of d2) as [u2|e2] eqn:E2.
  - apply (Hcont (Ok u2)). intros u Hu. apply (Hsend u2 eq_refl).
  - apply (Hcont (Err e2)). intros u Hu. discriminate.
Qed.

(* ---------- a fault-free cycle publishes and removes every entry it was given ---------- *)
Definition ff (s : ost) : Prop := o_plan s = [] /\ o_lease s = true /\ o_dead s = false.

Lemma prim_ff {A} k ctx T E (X : disp -> world -> M A) s :
  ff s -> exists s1, ff s1 /\ o_w s1 = E (o_w s) /\ prim k ctx T E X s = X DoOk (o_w s) s1.
Proof.
  intros (Hp & Hl & Hd). destruct s as [w pl cn tr le de]. cbn in Hp, Hl, Hd. subst pl le de.
  unfold prim, bind, dispatch, next_fault, get_w, emit, put_w. cbn.
  destruct ctx; cbn; eexists; (split; [|split; [|reflexivity]]); try (repeat split; reflexivity); reflexivity.
Qed.

Lemma relay_entries_ff (l : list oentry) : forall s, ff s ->
  exists s', relay_entries l s = (Ok tt, s') /\ ff s' /\
    w_outbox (o_w s') = filter (fun o => negb (existsb (fun x => N.eqb (o_id x) (o_id o)) l)) (w_outbox (o_w s)) /\
    length (w_log (o_w s')) = (length (w_log (o_w s)) + length l)%nat.
Proof.
  induction l as [|o tl IH]; intros s Hs; cbn [relay_entries].
  - exists s. split; [reflexivity|]. split; [exact Hs|]. cbn. split; [|lia].
    induction (w_outbox (o_w s)) as [|a t IHt]; cbn; [reflexivity|]. now rewrite <- IHt.
  - unfold bind at 1. unfold p_call at 1.
    destruct (prim_ff KNS true (fun d w => TCall KNS [] (disp_res d) (if disp_effect d then [] else [])) (fun w => w) (fun d _ => disp_ret d tt) s Hs) as (s1 & F1 & W1 & R1).
    rewrite R1. cbn [disp_ret ret].
    unfold bind at 1, catch at 1. unfold p_send.
    destruct (prim_ff KSD true (fun d _ => TSend o (disp_res d)) (fun w => do_send w o) (fun d _ => disp_ret d tt) s1 F1) as (s2 & F2 & W2 & R2).
    rewrite R2. cbn [disp_ret ret].
    unfold bind at 1, catch at 1. unfold p_call at 1.
    destruct (prim_ff KSC false (fun d w => TCall KSC [] (disp_res d) (if disp_effect d then [] else [])) (fun w => w) (fun d _ => disp_ret d tt) s2 F2) as (s3 & F3 & W3 & R3).
    rewrite R3. cbn [disp_ret ret].
    unfold bind at 1. unfold p_del_outbox.
    destruct (prim_ff KDO true (fun d _ => TDelOut (o_id o) (disp_res d))
                      (fun w => set_outbox w (filter (fun o0 => negb (N.eqb (o_id o0) (o_id o))) (w_outbox w))) (fun d _ => disp_ret d tt) s3 F3) as (s4 & F4 & W4 & R4).
    rewrite R4. cbn [disp_ret ret].
    destruct (IH s4 F4) as (s' & R & F' & Ho & Hlg). exists s'. split; [exact R|]. split; [exact F'|].
    rewrite Ho, Hlg, W4, W3, W2, W1. cbn. unfold do_send. cbn. split.
    + clear. induction (w_outbox (o_w s)) as [|a t IHt]; cbn; [reflexivity|].
      destruct (N.eqb (o_id a) (o_id o)) eqn:E; cbn.
      * rewrite N.eqb_sym in E. rewrite E. cbn. exact IHt.
      * rewrite N.eqb_sym in E. rewrite E. cbn. now rewrite IHt.
    + rewrite app_length. cbn. lia.
Qed.

Lemma filter_prefix_nodup (L : list oentry) (n : nat) :
  NoDup (map o_id L) ->
  filter (fun o => negb (existsb (fun x => N.eqb (o_id x) (o_id o)) (firstn n L))) L = skipn n L.
Proof.
  revert n. induction L as [|a t IH]; intros n Hnd; [destruct n; reflexivity|].
  inversion Hnd as [|x xs Hn Hnd']; subst. destruct n as [|n]; cbn [firstn skipn].
  - cbn. f_equal. clear. induction t as [|b t IHt]; cbn; [reflexivity|]. now rewrite IHt.
  - cbn [filter existsb]. rewrite N.eqb_refl. cbn. rewrite <- (IH n Hnd').
    apply filter_ext_in. intros b Hb. cbn.
    destruct (N.eqb (o_id a) (o_id b)) eqn:E; [|reflexivity].
    apply N.eqb_eq in E. exfalso. apply Hn. rewrite E. apply in_map, Hb.
Qed.

(* one fault-free relay cycle: the first min(limit, n) entries are published, in order, and removed *)
Theorem relay_cycle_drains (limit : nat) (s : ost) :
  ff s -> NoDup (map o_id (w_outbox (o_w s))) ->
  exists s', relay_entries (firstn limit (w_outbox (o_w s))) s = (Ok tt, s') /\
    w_outbox (o_w s') = skipn limit (w_outbox (o_w s)) /\
    length (w_log (o_w s')) = (length (w_log (o_w s)) + Nat.min limit (length (w_outbox (o_w s))))%nat.
Proof.
  intros Hs Hnd. destruct (relay_entries_ff (firstn limit (w_outbox (o_w s))) s Hs) as (s' & R & _ & Ho & Hl).
  exists s'. split; [exact R|]. split; [rewrite Ho; apply filter_prefix_nodup, Hnd|]. rewrite Hl, firstn_length. reflexivity.
Qed.
