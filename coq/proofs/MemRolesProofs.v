(* MemRolesProofs.v — the role mutex never has two live holders. *)
From WF Require Import model.Base model.MemRoles proofs.EngineInv.

Definition is_owner (c : cstate) : bool := match c with CHold | CReleasing => true | _ => false end.
Definition is_holder (c : cstate) : bool := match c with CHold => true | _ => false end.

Definition rinv (q : roleq) : Prop :=
  NoDup (map fst (rq_callers q)) /\ owners q = (if rq_locked q then 1 else 0)%nat.

Lemma count_app {A} (p : A -> bool) l1 l2 : count_occ_b p (l1 ++ l2) = (count_occ_b p l1 + count_occ_b p l2)%nat.
Proof. induction l1 as [|a l IH]; cbn; [reflexivity|]. destruct (p a); cbn; now rewrite IH. Qed.

Lemma cset_fst l id c : map fst (cset l id c) = map fst l.
Proof. unfold cset. induction l as [|[k v] l IH]; cbn; [reflexivity|]. destruct (N.eqb k id) eqn:E; cbn; [apply N.eqb_eq in E; subst|]; now rewrite IH. Qed.

(* changing the state of the (unique) caller [id] from c0 to c1 changes the number of owners accordingly *)
Lemma owners_cset l id c0 c1 :
  NoDup (map fst l) -> cget l id = Some c0 ->
  (count_occ_b (fun x => is_owner (snd x)) (cset l id c1) + (if is_owner c0 then 1 else 0) =
   count_occ_b (fun x => is_owner (snd x)) l + (if is_owner c1 then 1 else 0))%nat.
Proof.
  unfold cget, cset. induction l as [|[k v] l IH]; cbn; intros Hnd Hg; [discriminate|]. inversion Hnd as [|y ys Hn Hnd']; subst.
  destruct (N.eqb k id) eqn:E; cbn.
  - apply N.eqb_eq in E. subst k. inversion Hg; subst v.
    assert (Hmap : map (fun x : N * cstate => if N.eqb (fst x) id then (id, c1) else x) l = l).
    { clear -Hn. induction l as [|[k v] l IH]; cbn; [reflexivity|]. destruct (N.eqb k id) eqn:E.
      - apply N.eqb_eq in E. subst. exfalso. apply Hn. now left.
      - f_equal. apply IH. intros H. apply Hn. now right. }
    rewrite Hmap. destruct (is_owner c0), (is_owner c1); lia.
  - specialize (IH Hnd' Hg). destruct (is_owner v); lia.
Qed.

Lemma role_step_inv q o : rinv q -> rinv (role_step q o).
Proof.
  intros [Hnd Hown]. unfold owners in Hown. destruct o as [id|id|id|id]; cbn.
  - destruct (cget (rq_callers q) id) eqn:E; [split; assumption|]. split; cbn.
    + rewrite map_app. cbn. apply NoDup_snoc; [exact Hnd|]. intros Hin. apply in_map_iff in Hin as ([k v] & Hk & Hx). cbn in Hk. subst k.
      unfold cget in E. destruct (find_first _ _) eqn:F; [discriminate|]. apply (find_first_none _ _ F) in Hx. cbn in Hx. now rewrite N.eqb_refl in Hx.
    + unfold owners. cbn. rewrite count_app. cbn. unfold owners in *. rewrite Nat.add_0_r. exact Hown.
  - destruct (rq_locked q) eqn:El; [split; [exact Hnd|unfold owners; rewrite El; exact Hown]|].
    destruct (cget (rq_callers q) id) as [[| | |]|] eqn:E; try (split; [exact Hnd|unfold owners; rewrite El; exact Hown]).
    split; cbn; [rewrite cset_fst; exact Hnd|]. unfold owners. cbn.
    pose proof (owners_cset _ id CWait CHold Hnd E) as H. cbn in H. change (fun x : N * cstate => match snd x with CHold | CReleasing => true | _ => false end) with (fun x : N * cstate => is_owner (snd x)) in *. lia.
  - destruct (cget (rq_callers q) id) as [[| | |]|] eqn:E; try (split; assumption).
    split; cbn; [rewrite cset_fst; exact Hnd|]. unfold owners. cbn.
    pose proof (owners_cset _ id CHold CReleasing Hnd E) as H. cbn in H. change (fun x : N * cstate => match snd x with CHold | CReleasing => true | _ => false end) with (fun x : N * cstate => is_owner (snd x)) in *. lia.
  - destruct (cget (rq_callers q) id) as [[| | |]|] eqn:E; try (split; assumption).
    split; cbn; [rewrite cset_fst; exact Hnd|]. unfold owners. cbn.
    pose proof (owners_cset _ id CReleasing CDone Hnd E) as H. cbn in H. change (fun x : N * cstate => match snd x with CHold | CReleasing => true | _ => false end) with (fun x : N * cstate => is_owner (snd x)) in *.
    destruct (rq_locked q); [lia|]. 
    (* unlocked but a releasing owner exists: impossible *)
    exfalso. assert (0 < count_occ_b (fun x : N * cstate => is_owner (snd x)) (rq_callers q))%nat; [|lia].
    clear -E. unfold cget in E. induction (rq_callers q) as [|[k v] l IH]; cbn in *; [discriminate|].
    destruct (N.eqb k id); [inversion E; subst; cbn; lia|]. destruct (is_owner v); [lia|apply IH, E].
Qed.

Lemma holders_le_owners q : (holders q <= owners q)%nat.
Proof.
  unfold holders, owners. induction (rq_callers q) as [|[k v] l IH]; cbn; [lia|]. destruct v; cbn; lia.
Qed.

(* for EVERY interleaving of Await calls, grants, cancellations and unlocks: at most one caller holds the role with a live context *)
Theorem role_mutex (ops : list rop) : (holders (fold_left role_step ops roleq0) <= 1)%nat.
Proof.
  assert (H : rinv (fold_left role_step ops roleq0)).
  { assert (H0 : rinv roleq0) by (split; [constructor|reflexivity]). revert H0. generalize roleq0.
    induction ops as [|o ops IH]; intros q Hq; cbn; [exact Hq|]. apply IH, role_step_inv, Hq. }
  destruct H as [_ H]. pose proof (holders_le_owners (fold_left role_step ops roleq0)). destruct (rq_locked _); lia.
Qed.
