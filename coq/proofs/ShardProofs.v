From WF Require Import model.Base model.Shard.

Lemma shard_unique : forall n id s, 2 <= n -> 1 <= s <= n ->
  (shard_skip s n id = false <-> s = id mod n + 1).
Proof.
  intros n id s Hn Hs. unfold shard_skip.
  destruct (1 <? n) eqn:E; [|apply Z.ltb_ge in E; lia].
  rewrite negb_false_iff, Z.eqb_eq. lia.
Qed.

Lemma shard_partition : forall n id, 2 <= n ->
  exists s, 1 <= s <= n /\ shard_skip s n id = false /\
            forall s', 1 <= s' <= n -> shard_skip s' n id = false -> s' = s.
Proof.
  intros n id Hn. exists (id mod n + 1).
  pose proof (Z.mod_pos_bound id n ltac:(lia)) as Hb.
  split; [lia|]. split.
  - apply shard_unique; lia.
  - intros s' Hs' H. apply shard_unique in H; lia.
Qed.

Lemma shard_single : forall s n id, n < 2 -> shard_skip s n id = false.
Proof. intros s n id Hn. unfold shard_skip. destruct (1 <? n) eqn:E; [apply Z.ltb_lt in E; lia|reflexivity]. Qed.

(* The original (truncated remainder) filter drops negative IDs: no shard handles id = -1 when n = 2. *)
Lemma shard_trunc_refuted : exists n id, 2 <= n /\ forall s, 1 <= s <= n -> shard_skip_trunc s n id = true.
Proof.
  exists 2, (-1). split; [lia|]. intros s Hs.
  assert (s = 1 \/ s = 2) as [->| ->] by lia; reflexivity.
Qed.

Lemma handlers_upto_char : forall k n id, 2 <= n -> Z.of_nat k <= n ->
  handlers_upto k n id = if id mod n + 1 <=? Z.of_nat k then [id mod n + 1] else [].
Proof.
  induction k as [|k IH]; intros n id Hn Hk.
  - simpl. pose proof (Z.mod_pos_bound id n ltac:(lia)). destruct (id mod n + 1 <=? 0) eqn:E; [apply Z.leb_le in E; lia|reflexivity].
  - cbn [handlers_upto]. rewrite IH by lia.
    pose proof (Z.mod_pos_bound id n ltac:(lia)) as Hb.
    destruct (shard_skip (Z.of_nat (S k)) n id) eqn:Es.
    + assert (Z.of_nat (S k) <> id mod n + 1) as Hne.
      { intro Heq. assert (shard_skip (Z.of_nat (S k)) n id = false) by (apply shard_unique; lia). congruence. }
      rewrite app_nil_r.
      destruct (id mod n + 1 <=? Z.of_nat k) eqn:E1; destruct (id mod n + 1 <=? Z.of_nat (S k)) eqn:E2;
        try reflexivity; [apply Z.leb_le in E1; apply Z.leb_gt in E2; lia | apply Z.leb_gt in E1; apply Z.leb_le in E2; lia].
    + apply shard_unique in Es; [|lia|lia].
      destruct (id mod n + 1 <=? Z.of_nat k) eqn:E1; [apply Z.leb_le in E1; lia|].
      destruct (id mod n + 1 <=? Z.of_nat (S k)) eqn:E2; [|apply Z.leb_gt in E2; lia].
      cbn [app]. now rewrite Es.
Qed.

Lemma shardset_exactly_one : forall total id, shardset_ok (shardset total id) = true.
Proof.
  intros total id. unfold shardset, shardset_ok.
  destruct (Z.le_gt_cases 2 total) as [H|H].
  - rewrite Z.max_l by lia. rewrite handlers_upto_char; [|lia|rewrite Z2Nat.id; lia].
    rewrite Z2Nat.id by lia. pose proof (Z.mod_pos_bound id total ltac:(lia)).
    destruct (id mod total + 1 <=? total) eqn:E; [reflexivity|apply Z.leb_gt in E; lia].
  - assert (Z.to_nat (Z.max total 1) = 1%nat) as -> by lia.
    cbn [handlers_upto]. rewrite shard_single by lia. reflexivity.
Qed.
