(* MonitorProofs.v — the per-property token monitors follow from tok_ok, hence hold of every token of every history. *)
From WF Require Import model.Base model.RunState model.Graph model.EngineBase model.Engine model.Monitors
  proofs.EngineInv proofs.EngineTokens proofs.TokenFacts proofs.EngineProps.

Section MP.
Variable g : graph.

Ltac boolify :=
  repeat match goal with
         | |- (_ && _ = true) => apply andb_true_intro; split
         end.

Lemma rs_eqb_refl s : rs_eqb s s = true. Proof. destruct s; reflexivity. Qed.

Lemma store_split prev r : store_ok g prev r = true ->
  (r_desc r =? r_status r) = true /\ implb (rs_eqb (r_state r) RSCompleted) (is_terminal g (r_status r)) = true /\
  match prev with
  | None => (r_ver r =? 1) = true /\ rs_eqb (r_state r) RSInitiated = true /\ is_valid g (r_status r) = true
  | Some p =>
    same_id p r = true /\ (r_ver r =? r_ver p + 1) = true /\ (r_updated p <=? r_updated r) = true /\ lc_clause p r = true /\
    implb (rs_finished (r_state p)) (rs_finished (r_state r)) = true /\
    (if r_status r =? r_status p then true
     else validate_transition g (r_status p) (r_status r) && negb (rs_stopped (r_state p)) && is_run_or_done (r_state r) &&
          Bool.eqb (rs_eqb (r_state r) RSCompleted) (is_terminal g (r_status r))) = true /\
    obj_clause p r = true
  end.
Proof.
  unfold store_ok. intros H. apply andb_prop in H as [H H3]. apply andb_prop in H as [H1 H2].
  split; [exact H1|split; [exact H2|]]. destruct prev as [p|].
  - repeat match type of H3 with (_ && _ = true) => let H' := fresh "C" in apply andb_prop in H3 as [H3 H'] end.
    repeat split; assumption.
  - apply and3 in H3. exact H3.
Qed.

Lemma tok_mon_C16 t : tok_ok g t = true -> mon_C16 g t = true.
Proof.
  destruct t; try reflexivity; unfold mon_C16, on_store, on_step_call; cbn [tok_ok]; intros H.
  - apply store_split in H as (A & _ & H). rewrite A. cbn [andb]. rewrite Bool.andb_true_r.
    destruct prev as [p|]; [|apply H]. destruct H as (B1 & B2 & B3 & _ & _ & _ & B7). now rewrite B1, B2, B3, B7.
  - unfold user_ok in H. destruct (is_step_fn u); [|reflexivity]. destruct persisted as [p|]; [|discriminate].
    repeat match type of H with (_ && _ = true) => let H' := fresh "C" in apply andb_prop in H as [H H'] end. cbn. assumption.
Qed.

Lemma tok_mon_C03 t : tok_ok g t = true -> mon_C03 g t = true.
Proof.
  destruct t; try reflexivity; unfold mon_C03, on_store, on_step_call; cbn [tok_ok]; intros H.
  apply store_split in H as (_ & A & H). rewrite A. cbn [andb]. destruct prev as [p|]; [|reflexivity].
  destruct H as (_ & _ & _ & B4 & B5 & B6 & _). rewrite B4, B5. cbn [andb].
  destruct (r_status r =? r_status p); [reflexivity|]. cbn [negb andb].
  repeat match type of B6 with (_ && _ = true) => let H' := fresh "D" in apply andb_prop in B6 as [B6 H'] end.
  apply Bool.eqb_prop in D. rewrite D. destruct (is_terminal g (r_status r)); reflexivity.
Qed.

Lemma tok_mon_C02 t : tok_ok g t = true -> mon_C02 g t = true.
Proof.
  destruct t; try reflexivity; unfold mon_C02, on_store, on_step_call; cbn [tok_ok]; intros H.
  apply store_split in H as (_ & _ & H). destruct prev as [p|]; [|apply H].
  destruct H as (_ & _ & _ & _ & _ & B6 & _). destruct (r_status r =? r_status p); [reflexivity|]. cbn.
  repeat match type of B6 with (_ && _ = true) => let H' := fresh "D" in apply andb_prop in B6 as [B6 H'] end. exact B6.
Qed.

Lemma tok_mon_C09 t : tok_ok g t = true -> mon_C09 g t = true.
Proof.
  destruct t; try reflexivity; unfold mon_C09, on_store, on_step_call; cbn [tok_ok]; intros H.
  apply store_split in H as (_ & _ & H). destruct prev as [p|]; [reflexivity|]. destruct H as (A & B & C). now rewrite A, B, C.
Qed.

Lemma tok_mon_C04 t : tok_ok g t = true -> mon_C04 g t = true.
Proof.
  destruct t; try reflexivity; unfold mon_C04, on_store, on_step_call; cbn [tok_ok]; intros H.
  unfold user_ok in H. destruct (is_step_fn u); [|reflexivity]. destruct persisted as [p|]; [|discriminate].
  repeat match type of H with (_ && _ = true) => let H' := fresh "C" in apply andb_prop in H as [H H'] end. assumption.
Qed.

Lemma tok_mon_C08 t : tok_ok g t = true -> mon_C08 g t = true.
Proof.
  destruct t; try reflexivity; unfold mon_C08, on_store, on_step_call; cbn [tok_ok]; intros H.
  - rewrite Bool.andb_true_r. destruct prev as [p|]; [|reflexivity].
    apply store_ok_some in H. destruct H as [F1 F2 F3 F4 F5 F6 F7 F8 F9 F10].
    destruct (rs_stopped (r_state p)) eqn:Es; [|reflexivity]. cbn.
    assert (E : r_status r = r_status p) by (destruct F9 as [E|(_ & E & _)]; [exact E|discriminate]).
    rewrite E, Z.eqb_refl. cbn. destruct F10 as [E2|[E2|(_ & E2)]]; [rewrite E2, obj_eqb_refl; reflexivity|rewrite E2; cbn; apply Bool.orb_true_r|discriminate].
  - unfold user_ok in H. destruct (is_step_fn u); [|reflexivity]. destruct persisted as [p|]; [|discriminate].
    repeat match type of H with (_ && _ = true) => let H' := fresh "C" in apply andb_prop in H as [H H'] end. cbn. assumption.
Qed.

Lemma tok_mon_C15 t : tok_ok g t = true -> mon_C15 g t = true.
Proof.
  destruct t; try reflexivity; unfold mon_C15, on_store, on_step_call; cbn [tok_ok]; intros H.
  destruct prev as [p|]; [|reflexivity].
  pose proof (store_split _ _ H) as (_ & _ & (B1 & _)).
  apply store_ok_some in H. destruct H as [F1 F2 F3 F4 F5 F6 F7 F8 F9 F10].
  apply andb_true_intro. split.
  - destruct (rs_eqb (r_state r) RSReqDataDeleted) eqn:E; [|reflexivity]. apply rs_eqb_eq in E. cbn.
    destruct F7 as [L|[L1 [L2|L2]]]; rewrite E in *.
    + destruct (r_state p); cbn in L; try discriminate; reflexivity.
    + congruence.
    + rewrite L2. reflexivity.
  - destruct (rs_eqb (r_state r) RSDataDeleted) eqn:E; [|reflexivity]. apply rs_eqb_eq in E. cbn. rewrite B1, Bool.andb_true_r.
    assert (Es : r_status r = r_status p).
    { destruct F9 as [X|(_ & _ & [X|X] & _)]; [exact X|congruence|congruence]. }
    rewrite Es, Z.eqb_refl, Bool.andb_true_r.
    destruct F7 as [L|[L1 [L2|L2]]]; rewrite E in *.
    + destruct (r_state p); cbn in L; try discriminate; reflexivity.
    + congruence.
    + rewrite L2. reflexivity.
Qed.

Lemma tok_mon_C12 t : tok_ok g t = true -> mon_C12 g t = true.
Proof.
  destruct t; try reflexivity. cbn [tok_ok]. intros H. unfold mon_C12. destruct u; try reflexivity.
  unfold user_ok in H. cbn [is_step_fn] in H. destruct persisted as [p|]; [|discriminate].
  repeat match type of H with (_ && _ = true) => let H' := fresh "C" in apply andb_prop in H as [H H'] end.
  apply andb_prop in C as [A B]. rewrite A, H, B. reflexivity.
Qed.

End MP.

(* every token of every history passes every per-property monitor *)
Theorem monitors_hold (c : econfig) (ops : list eop) : hist_ok ops ->
  forall t, In t (trace_of c ops) ->
    mon_C02 (ec_graph c) t = true /\ mon_C03 (ec_graph c) t = true /\ mon_C04 (ec_graph c) t = true /\
    mon_C08 (ec_graph c) t = true /\ mon_C09 (ec_graph c) t = true /\ mon_C12 (ec_graph c) t = true /\
    mon_C15 (ec_graph c) t = true /\ mon_C16 (ec_graph c) t = true.
Proof.
  intros H t Ht. pose proof (tok_in c ops H t Ht) as Hok.
  repeat split; [apply tok_mon_C02|apply tok_mon_C03|apply tok_mon_C04|apply tok_mon_C08|apply tok_mon_C09|apply tok_mon_C12|apply tok_mon_C15|apply tok_mon_C16]; exact Hok.
Qed.
