(* SqlProofs.v — Store commits the record row and exactly one outbox row, or nothing. *)
From WF Require Import model.Base model.Routing model.Stores model.Sql.

Theorem sql_store_atomic_fail (db : sqldb) (r : record) (k : nat) : (k < 6)%nat -> sql_store db r (Some k) = (db, false).
Proof.
  intros Hk. unfold sql_store, store_stmts.
  do 6 (destruct k as [|k]; [reflexivity|]). lia.
Qed.

Theorem sql_store_ok (db : sqldb) (r : record) :
  sql_store db r None =
  (mkSqldb (r_upsert (db_recs db) r) (db_outbox db ++ [route (db_noid db) r]) (db_noid db + 1)%N, true).
Proof. unfold sql_store, store_stmts, r_upsert. cbn. destruct (existsb _ (db_recs db)); reflexivity. Qed.

(* the SQL Store is the reference Store on the committed database; a failed Store is the reference's failing Store *)
Theorem sql_store_refines (db : sqldb) (r : record) (fail : option nat) :
  match fail with Some k => (k < 6)%nat | None => True end ->
  let (db', ok) := sql_store db r fail in
  ref_step (db_abs db) (if ok then SStore r else SStoreFail r) = (db_abs db', if ok then ObOk else ObErr).
Proof.
  intros Hk. destruct fail as [k|].
  - rewrite (sql_store_atomic_fail db r k Hk). reflexivity.
  - rewrite sql_store_ok. reflexivity.
Qed.

Theorem where_placeholders_match (w : wherespec) : wh_placeholders w = wh_params w.
Proof.
  unfold wh_placeholders, wh_params. f_equal. f_equal. induction (wh_conds w) as [|c l IH]; cbn; [reflexivity|].
  rewrite app_length. now rewrite IH.
Qed.
